// C05 — retry resends only the retryable remainder, within limits, never after a verdict.
//
// Harness: exporterhelper.New{Logs,Traces,Metrics} and xexporterhelper.NewProfilesExporter with WithRetry(cfg),
// optional WithTimeout, no queue, so ConsumeX returns the retry sender's final error. The export function is
// scripted (kits.go). The component logger is a capturing zap core: the retry sender logs the exact delay it
// chose before every wait ("Exporting failed. Will retry the request after interval."), which gives the
// oracle the delay without a fake clock and tells the harness that a wait has started.
//
// Oracle (judge): attempts are a prefix of the script up to and including the first verdict; each logged
// delay lies in the exponential envelope (exact when randomization_factor is 0) or equals the throttle delay
// when that is larger; the measured gap between two attempts is never shorter than the logged delay; budget
// and deadline decisions are judged only when harness timestamps put them clearly on one side; after a
// partial failure the next payload is exactly the remaining subset; after Shutdown has returned no retry is
// made and the call returns an error. The shutdown classification is observed through its purpose: behind a
// persistent queue the interrupted request stays in storage and a new incarnation delivers it.
package main

import (
	"bytes"
	"context"
	"errors"
	"fmt"
	"math"
	"math/rand"
	"sort"
	"strings"
	"sync"
	"sync/atomic"
	"time"

	"go.uber.org/zap"
	"go.uber.org/zap/zapcore"

	"go.opentelemetry.io/collector/component"
	"go.opentelemetry.io/collector/component/componenttest"
	"go.opentelemetry.io/collector/config/configretry"
	"go.opentelemetry.io/collector/consumer/consumererror"
	"go.opentelemetry.io/collector/exporter"
	"go.opentelemetry.io/collector/exporter/exporterhelper"
	"go.opentelemetry.io/collector/exporter/exportertest"
	"go.opentelemetry.io/collector/verifharness/lib/driver"
)

const retryMsg = "Exporting failed. Will retry the request after interval."

// logged by the queue sender when the send of a dequeued request returned an error (used only to learn that
// the retry sender's stop channel is closed: a probe request's one-hour wait was cut)
const dropMsg = "Exporting failed. Dropping data."

// ---------------------------------------------------------------------------------------------------
// outcomes, scripts, configurations

type okind int

const (
	oOK okind = iota
	oTransient
	oPermanent
	oThrottle
	oPartial
	oAttemptTimeout
	oReqExpiry
	oCancel
	oThrottlePartial
)

var oNames = [...]string{"ok", "transient", "permanent", "throttle", "partial", "attempt-timeout", "request-expiry", "cancel", "throttle+partial"}

func (o okind) terminal() bool { return o == oOK || o == oPermanent || o == oReqExpiry || o == oCancel }

type step struct {
	K     okind         `json:"-"`
	Kind  string        `json:"kind"`
	Delay time.Duration `json:"throttle_delay_ns,omitempty"`
	Mask  uint32        `json:"keep_mask,omitempty"`
}

func mkStep(k okind) step { return step{K: k, Kind: oNames[k]} }

type rcfg struct {
	Class    string        `json:"class"`
	Enabled  bool          `json:"enabled"`
	Initial  time.Duration `json:"initial_interval_ns"`
	Mult     float64       `json:"multiplier"`
	Max      time.Duration `json:"max_interval_ns"`
	RF       float64       `json:"randomization_factor"`
	MET      time.Duration `json:"max_elapsed_time_ns"`
	Timeout  time.Duration `json:"attempt_timeout_ns"`
	Deadline time.Duration `json:"request_deadline_ns"`
}

func (r rcfg) backoff() configretry.BackOffConfig {
	b := configretry.NewDefaultBackOffConfig()
	b.Enabled, b.InitialInterval, b.Multiplier, b.MaxInterval, b.RandomizationFactor, b.MaxElapsedTime = r.Enabled, r.Initial, r.Mult, r.Max, r.RF, r.MET
	return b
}

const ms = time.Millisecond

var sweepCfgs = []rcfg{
	{Class: "det-1ms-x2", Enabled: true, Initial: 1 * ms, Mult: 2, Max: 4 * ms},
	{Class: "det-0", Enabled: true, Initial: 0, Mult: 1.5, Max: 0},
	{Class: "det-1ns-x3", Enabled: true, Initial: 1, Mult: 3, Max: 20},
	{Class: "rand0.5-2ms-x1.5", Enabled: true, Initial: 2 * ms, Mult: 1.5, Max: 5 * ms, RF: 0.5},
	{Class: "rand1-1ms-x1", Enabled: true, Initial: 1 * ms, Mult: 1, Max: 1 * ms, RF: 1},
	{Class: "det-1ms-x2-budget-1h", Enabled: true, Initial: 1 * ms, Mult: 2, Max: 4 * ms, MET: time.Hour},
	{Class: "det-2ms-x2-budget-9ms", Enabled: true, Initial: 2 * ms, Mult: 2, Max: 8 * ms, MET: 9 * ms},
	{Class: "det-2ms-x2-deadline-9ms", Enabled: true, Initial: 2 * ms, Mult: 2, Max: 8 * ms, Deadline: 9 * ms},
	{Class: "det-1ms-x2-deadline-1h", Enabled: true, Initial: 1 * ms, Mult: 2, Max: 4 * ms, Deadline: time.Hour},
	{Class: "disabled", Enabled: false, Initial: 1 * ms, Mult: 2, Max: 4 * ms},
	{Class: "det-1ms-x2-timeout-1h", Enabled: true, Initial: 1 * ms, Mult: 2, Max: 4 * ms, Timeout: time.Hour},
	{Class: "rand0.5-2ms-x2-budget-12ms", Enabled: true, Initial: 2 * ms, Mult: 2, Max: 8 * ms, RF: 0.5, MET: 12 * ms},
	{Class: "det-1ms-x3", Enabled: true, Initial: 1 * ms, Mult: 3, Max: 20 * ms},
	{Class: "rand0.3-50us-x2", Enabled: true, Initial: 50 * time.Microsecond, Mult: 2, Max: 1 * ms, RF: 0.3},
	{Class: "det-1ms-x2-budget-1h-deadline-1h", Enabled: true, Initial: 1 * ms, Mult: 2, Max: 4 * ms, MET: time.Hour, Deadline: time.Hour},
}

// fast configurations for long random scripts
var fastCfgs = []int{1, 2, 4, 13, 0}

type caseSpec struct {
	Type      string `json:"type"` // sweep | shutdown | queue
	Signal    string `json:"signal"`
	sig       int
	Cfg       rcfg   `json:"config"`
	Script    []step `json:"script"`
	NItems    int    `json:"items"`
	Point     string `json:"shutdown_point,omitempty"` // before-call | during-attempt | during-wait
	K         int    `json:"shutdown_at_attempt,omitempty"`
	NReq      int    `json:"queued_requests,omitempty"`
	Consumers int    `json:"queue_consumers,omitempty"`
	// split scenario: the first queued request has FirstItems items and is split by the legacy batcher
	// (WithBatcher, max_size MaxSize) into several exports whose outcomes are aggregated before the queue sees them
	Split      string   `json:"split_scenario,omitempty"`
	FirstItems int      `json:"first_request_items,omitempty"`
	MaxSize    int      `json:"batcher_max_size,omitempty"`
	PartPlan   []string `json:"first_outcome_per_part,omitempty"`
	// in-flight scenario: attempt in flight while Shutdown has stopped the retry sender, released with Release
	Queue   string `json:"queue,omitempty"`         // memory | persistent
	Release string `json:"released_with,omitempty"` // permanent | ok | transient
}

func (s caseSpec) stepAt(i int) step {
	if i < len(s.Script) {
		return s.Script[i]
	}
	return mkStep(oOK)
}

func scriptKey(sc []step) string {
	var b strings.Builder
	for _, s := range sc {
		b.WriteByte(byte('a' + int(s.K)))
	}
	return b.String()
}

// ---------------------------------------------------------------------------------------------------
// handler: what the export function and the logger record

type attemptRec struct {
	Idx       int       `json:"attempt"`
	SeqEnter  int64     `json:"seq_enter"`
	SeqReturn int64     `json:"seq_return"`
	Enter     time.Time `json:"-"`
	Return    time.Time `json:"-"`
	IDs       []string  `json:"ids"`
	PayloadOK bool      `json:"payload_as_expected"`
	WantIDs   []string  `json:"expected_ids,omitempty"`
	Outcome   string    `json:"scripted_outcome"`
	err       error
}

type logRec struct {
	Seq    int64         `json:"seq"`
	T      time.Time     `json:"-"`
	Delay  time.Duration `json:"logged_delay_ns"`
	Parsed bool          `json:"parsed"`
}

type handler struct {
	mu          sync.Mutex
	seq         atomic.Int64
	progress    atomic.Int64
	spec        *caseSpec
	stepFn      func(idx int, ids []string) step
	attempts    []*attemptRec
	wantBytes   []byte
	wantIDs     []string
	logs        []logRec
	logCh       chan struct{}
	dropCh      chan struct{} // the queue sender logged that a send returned an error
	gateAt      int
	gateEntered chan struct{}
	gateRelease chan struct{}
	reqCtx      context.Context
	cancel      context.CancelFunc

	// written by the case goroutine under mu
	finalSet     bool
	final        error
	tCall, tRet  time.Time
	seqCall      int64
	seqRet       int64
	deadline     time.Time
	ctxErrAfter  error
	shutCallSeq  int64
	shutRetSeq   int64
	shutErr      error
	pointMissed  bool
	panicVal     string
	panicSite    string
	delivered    map[string]int
	deliveredSeq []string
}

func newHandler(spec *caseSpec) *handler {
	return &handler{spec: spec, logCh: make(chan struct{}, 256), dropCh: make(chan struct{}, 256), gateAt: -1, gateEntered: make(chan struct{}), gateRelease: make(chan struct{}),
		reqCtx: context.Background(), cancel: func() {}, delivered: map[string]int{}}
}

func keepSet(ids []string, mask uint32) map[string]bool {
	keep := map[string]bool{}
	for i, id := range ids {
		if mask&(1<<(uint(i)%32)) != 0 {
			keep[id] = true
		}
	}
	if len(keep) == 0 && len(ids) > 0 {
		keep[ids[len(ids)-1]] = true
	}
	return keep
}

func (h *handler) enter(ctx context.Context, ids []string, b []byte) (*attemptRec, decision) {
	h.mu.Lock()
	idx := len(h.attempts)
	a := &attemptRec{Idx: idx, IDs: ids, PayloadOK: true}
	if h.wantBytes != nil && !bytes.Equal(b, h.wantBytes) {
		a.PayloadOK = false
		a.WantIDs = h.wantIDs
	}
	if h.wantBytes == nil && h.stepFn == nil {
		h.wantBytes, h.wantIDs = b, ids
	}
	var st step
	if h.stepFn != nil {
		st = h.stepFn(idx, ids)
	} else {
		st = h.spec.stepAt(idx)
	}
	a.Outcome = st.Kind
	h.attempts = append(h.attempts, a)
	a.SeqEnter = h.seq.Add(1)
	a.Enter = time.Now()
	gate := idx == h.gateAt
	reqCtx := h.reqCtx
	cancel := h.cancel
	h.mu.Unlock()
	h.progress.Add(1)
	if gate {
		close(h.gateEntered)
		<-h.gateRelease
	}
	d := decision{kind: st.K, delay: st.Delay}
	switch st.K {
	case oOK:
		h.mu.Lock()
		for _, id := range ids {
			h.delivered[id]++
			h.deliveredSeq = append(h.deliveredSeq, id)
		}
		h.mu.Unlock()
	case oPartial, oThrottlePartial:
		d.keep = keepSet(ids, st.Mask)
	case oAttemptTimeout:
		select {
		case <-ctx.Done():
			d.ctx = ctx.Err()
		case <-time.After(30 * time.Second):
			d.ctx = context.DeadlineExceeded
		}
	case oReqExpiry:
		select {
		case <-reqCtx.Done():
			d.ctx = reqCtx.Err()
		case <-time.After(30 * time.Second):
			d.ctx = context.DeadlineExceeded
		}
	case oCancel:
		cancel()
		d.ctx = context.Canceled
	}
	return a, d
}

func (h *handler) expectNext(b []byte, ids []string) {
	h.mu.Lock()
	if h.stepFn == nil {
		h.wantBytes, h.wantIDs = b, ids
	}
	h.mu.Unlock()
}

func (h *handler) leave(a *attemptRec, err error) {
	h.mu.Lock()
	a.err = err
	a.Return = time.Now()
	a.SeqReturn = h.seq.Add(1)
	h.mu.Unlock()
	h.progress.Add(1)
}

func (h *handler) onLog(d time.Duration, parsed bool) {
	h.mu.Lock()
	h.logs = append(h.logs, logRec{Seq: h.seq.Add(1), T: time.Now(), Delay: d, Parsed: parsed})
	h.mu.Unlock()
	h.progress.Add(1)
	select {
	case h.logCh <- struct{}{}:
	default:
	}
}

type retryCore struct{ h *handler }

func (c *retryCore) Enabled(zapcore.Level) bool        { return true }
func (c *retryCore) With([]zapcore.Field) zapcore.Core { return c }
func (c *retryCore) Sync() error                       { return nil }
func (c *retryCore) Check(e zapcore.Entry, ce *zapcore.CheckedEntry) *zapcore.CheckedEntry {
	return ce.AddCore(e, c)
}

func (c *retryCore) Write(e zapcore.Entry, fields []zapcore.Field) error {
	if strings.HasPrefix(e.Message, dropMsg) {
		c.h.progress.Add(1)
		select {
		case c.h.dropCh <- struct{}{}:
		default:
		}
		return nil
	}
	if e.Message != retryMsg {
		return nil
	}
	for _, f := range fields {
		if f.Key == "interval" {
			d, err := time.ParseDuration(f.String)
			c.h.onLog(d, err == nil)
			return nil
		}
	}
	c.h.onLog(0, false)
	return nil
}

// snapshot of everything the judge needs (the case goroutine may have been abandoned by the watchdog)
type caseRes struct {
	Spec        caseSpec
	Attempts    []attemptRec
	Logs        []logRec
	FinalSet    bool
	Final       error
	TCall, TRet time.Time
	SeqCall     int64
	SeqRet      int64
	Deadline    time.Time
	CtxErrAfter error
	ShutCallSeq int64
	ShutRetSeq  int64
	ShutErr     error
	PointMissed bool
	Stuck       *driver.Stuck
	Panic       string
	PanicSite   string
	BuildErr    error
	OrigIDs     []string
	// queue scenario
	Accepted     [][]string
	StoredIDs    map[string]bool
	StoreKeys    []string
	Delivered2   map[string]int
	Undelivered  []string
	Attempts1    int
	AAttempts    int  // in-flight scenario: attempts made for the gated request
	StopObserved bool // in-flight scenario: the probe request's wait was seen to be cut before the gate was released
	Delivered1   map[string]int
	Required     []string // ids that must survive the shutdown (nil: all accepted ids)
	Finished1    []string // ids whose part ended with ok or a permanent error in the first incarnation
	Parts        int
}

func (h *handler) snapshot(spec caseSpec) *caseRes {
	h.mu.Lock()
	defer h.mu.Unlock()
	r := &caseRes{Spec: spec, FinalSet: h.finalSet, Final: h.final, TCall: h.tCall, TRet: h.tRet, SeqCall: h.seqCall, SeqRet: h.seqRet,
		Deadline: h.deadline, CtxErrAfter: h.ctxErrAfter, ShutCallSeq: h.shutCallSeq, ShutRetSeq: h.shutRetSeq, ShutErr: h.shutErr, PointMissed: h.pointMissed, Panic: h.panicVal, PanicSite: h.panicSite}
	for _, a := range h.attempts {
		r.Attempts = append(r.Attempts, *a)
	}
	r.Logs = append(r.Logs, h.logs...)
	return r
}

// ---------------------------------------------------------------------------------------------------
// running one case

func itemIDs(n int) []string {
	out := make([]string, n)
	for i := range out {
		out[i] = fmt.Sprintf("r%d", i)
	}
	return out
}

func (s *caseSpec) options() []exporterhelper.Option {
	return []exporterhelper.Option{exporterhelper.WithRetry(s.Cfg.backoff()), exporterhelper.WithTimeout(exporterhelper.TimeoutConfig{Timeout: s.Cfg.Timeout})}
}

func newSettings(h *handler) exporter.Settings {
	set := exportertest.NewNopSettings(component.MustNewType("verif"))
	set.Logger = zap.New(&retryCore{h})
	return set
}

// runDirect: sweep and shutdown cases (no queue).
func runDirect(c *driver.Ctx, spec caseSpec) *caseRes {
	b := spec.Cfg.backoff()
	if err := b.Validate(); err != nil {
		panic("harness: back-off configuration rejected by Validate: " + err.Error())
	}
	h := newHandler(&spec)
	if spec.Type == "shutdown" && spec.Point == "during-attempt" {
		h.gateAt = spec.K
	}
	ids := itemIDs(spec.NItems)
	k := kits[spec.sig]
	var berr error
	setErr := func(err error) { h.mu.Lock(); berr = err; h.mu.Unlock() }
	body := func() {
		in, err := k.build(newSettings(h), h, spec.options())
		if err != nil {
			setErr(err)
			return
		}
		if err = in.comp.Start(context.Background(), componenttest.NewNopHost()); err != nil {
			setErr(err)
			return
		}
		doShutdown := func() {
			h.mu.Lock()
			h.shutCallSeq = h.seq.Add(1)
			h.mu.Unlock()
			err := in.comp.Shutdown(context.Background())
			h.mu.Lock()
			h.shutRetSeq = h.seq.Add(1)
			h.shutErr = err
			h.mu.Unlock()
		}
		if spec.Type == "shutdown" && spec.Point == "before-call" {
			doShutdown()
		}
		t0 := time.Now()
		var ctx context.Context
		var cancel context.CancelFunc
		var dl time.Time
		if spec.Cfg.Deadline > 0 {
			dl = t0.Add(spec.Cfg.Deadline)
			ctx, cancel = context.WithDeadline(context.Background(), dl)
		} else {
			ctx, cancel = context.WithCancel(context.Background())
		}
		defer cancel()
		h.mu.Lock()
		h.reqCtx, h.cancel, h.deadline = ctx, cancel, dl
		h.mu.Unlock()
		done := make(chan struct{})
		go func() {
			defer close(done)
			h.mu.Lock()
			h.seqCall = h.seq.Add(1)
			h.tCall = time.Now()
			h.mu.Unlock()
			var err error
			pv, pst := driver.Catch(func() { err = in.consume(ctx, ids) })
			now := time.Now()
			h.mu.Lock()
			if pv != nil {
				h.panicVal, h.panicSite = fmt.Sprint(pv), driver.PanicSite(pst)
			}
			h.final, h.finalSet, h.tRet, h.seqRet, h.ctxErrAfter = err, true, now, h.seq.Add(1), ctx.Err()
			h.mu.Unlock()
			h.progress.Add(1)
		}()
		missed := func() { h.mu.Lock(); h.pointMissed = true; h.mu.Unlock() }
		if spec.Type == "shutdown" {
			switch spec.Point {
			case "during-attempt":
				select {
				case <-h.gateEntered:
					doShutdown()
					close(h.gateRelease)
				case <-done:
					missed()
				}
			case "during-wait":
				n := 0
			loop:
				for n < spec.K+1 {
					select {
					case <-h.logCh:
						n++
					case <-done:
						missed()
						break loop
					}
				}
				if n >= spec.K+1 {
					doShutdown()
				}
			}
		}
		<-done
		if spec.Type != "shutdown" {
			_ = in.comp.Shutdown(context.Background())
		}
	}
	var pv any
	var pstack string
	stuck := c.Guard(40*time.Second, h.progress.Load, func() { pv, pstack = driver.Catch(body) })
	r := h.snapshot(spec)
	r.OrigIDs = ids
	h.mu.Lock()
	r.BuildErr = berr
	h.mu.Unlock()
	r.Stuck = stuck
	if pv != nil {
		r.Panic = fmt.Sprint(pv)
		r.PanicSite = driver.PanicSite(pstack)
	}
	return r
}

// ---------------------------------------------------------------------------------------------------
// reference: exponential envelope

// intervalK returns the un-randomized interval of retry k (0-based) in the two readings of "exponential":
// the ideal initial*mult^k capped at max, and the integer-nanosecond iteration the back-off library performs.
func intervalK(cfg rcfg, k int) (lo, hi float64) {
	ideal := float64(cfg.Initial) * math.Pow(cfg.Mult, float64(k))
	if ideal > float64(cfg.Max) {
		ideal = float64(cfg.Max)
	}
	cur := cfg.Initial
	for i := 0; i < k; i++ {
		if float64(cur) >= float64(cfg.Max)/cfg.Mult {
			cur = cfg.Max
		} else {
			cur = time.Duration(float64(cur) * cfg.Mult)
		}
	}
	lo, hi = ideal, float64(cur)
	if lo > hi {
		lo, hi = hi, lo
	}
	return lo, hi
}

// envelope of the delay before retry k after outcome st.
func envelope(cfg rcfg, k int, st step) (lo, hi time.Duration) {
	l, h := intervalK(cfg, k)
	slack := float64(2 + k)
	flo := (1-cfg.RF)*l - slack
	fhi := (1+cfg.RF)*h + 1 + slack
	if flo < 0 {
		flo = 0
	}
	lo, hi = time.Duration(flo), time.Duration(math.Ceil(fhi))
	if st.K == oThrottle || st.K == oThrottlePartial {
		if st.Delay > lo {
			lo = st.Delay
		}
		if st.Delay > hi {
			hi = st.Delay
		}
	}
	return lo, hi
}

func delayClass(d time.Duration) string {
	switch {
	case d == 0:
		return "0"
	case d == 1:
		return "1ns"
	case d < time.Microsecond:
		return "sub-us"
	case d < time.Millisecond:
		return "sub-ms"
	case d < time.Second:
		return "ms"
	}
	return "long"
}

// ---------------------------------------------------------------------------------------------------
// the judge

type witnessOut struct {
	Case      caseSpec     `json:"case"`
	Attempts  []attemptRec `json:"attempts"`
	Gaps      []string     `json:"gap_after_attempt"`
	Logs      []logRec     `json:"retry_log_lines"`
	Final     string       `json:"returned_error"`
	Elapsed   string       `json:"call_duration"`
	ShutCall  int64        `json:"seq_shutdown_called,omitempty"`
	ShutRet   int64        `json:"seq_shutdown_returned,omitempty"`
	SeqReturn int64        `json:"seq_call_returned"`
	Detail    string       `json:"detail,omitempty"`
	Frames    []string     `json:"blocked_repo_frames,omitempty"`
}

func (r *caseRes) witness(detail string) witnessOut {
	w := witnessOut{Case: r.Spec, Attempts: r.Attempts, Logs: r.Logs, Final: fmt.Sprint(r.Final), ShutCall: r.ShutCallSeq, ShutRet: r.ShutRetSeq, SeqReturn: r.SeqRet, Detail: detail}
	if !r.FinalSet {
		w.Final = "(call did not return)"
	} else {
		w.Elapsed = r.TRet.Sub(r.TCall).String()
	}
	for i := 0; i+1 < len(r.Attempts); i++ {
		w.Gaps = append(w.Gaps, r.Attempts[i+1].Enter.Sub(r.Attempts[i].Return).String())
	}
	if r.Stuck != nil {
		w.Frames = r.Stuck.RepoFrames
	}
	return w
}

// sameIDs compares two id lists as multisets (the payload orders items by resource and scope).
func sameIDs(a, b []string) bool {
	if len(a) != len(b) {
		return false
	}
	a, b = append([]string(nil), a...), append([]string(nil), b...)
	sort.Strings(a)
	sort.Strings(b)
	for i := range a {
		if a[i] != b[i] {
			return false
		}
	}
	return true
}

func judge(c *driver.Ctx, r *caseRes) {
	spec := r.Spec
	cfg := spec.Cfg
	c.Eval()
	if r.BuildErr != nil {
		c.Violation("create", "creating or starting the exporter failed: "+r.BuildErr.Error(), r.witness(""), "signal", spec.Signal)
		return
	}
	if r.Panic != "" {
		c.Violation("panic", "panic in the exporter: "+r.Panic, r.witness(r.Panic), "site", r.PanicSite)
		return
	}
	shutdown := spec.Type == "shutdown"
	if r.Stuck != nil || !r.FinalSet {
		frames := "-"
		if r.Stuck != nil && len(r.Stuck.RepoFrames) > 0 {
			frames = r.Stuck.RepoFrames[0]
		}
		if shutdown && r.ShutRetSeq != 0 {
			dc := "-"
			if len(r.Logs) > 0 {
				dc = delayClass(r.Logs[len(r.Logs)-1].Delay)
			}
			c.Violation("shutdown-stuck", "the consume call did not return after Shutdown had returned (retry wait not interrupted)", r.witness(""), "point", spec.Point, "delay", dc)
		} else if r.Stuck != nil && strings.Contains(strings.Join(r.Stuck.RepoFrames, " "), "retrySender") {
			c.Violation("stuck", "the consume call does not return", r.witness(""), "frame", frames)
		} else {
			c.Inconclusive("case-did-not-finish")
		}
		return
	}
	if shutdown && r.PointMissed {
		c.Inconclusive("shutdown-point-not-reached")
		shutdown = false
		if r.ShutCallSeq != 0 {
			return
		}
	}
	n := len(r.Attempts)
	if n == 0 {
		c.Violation("no-attempt", "the consume call returned without any export attempt", r.witness(""), "signal", spec.Signal)
		return
	}
	c.Observe("attempts", int64(n))
	decisions := 0
	if !sameIDs(r.Attempts[0].IDs, r.OrigIDs) {
		c.Violation("payload", "the first attempt does not carry the request", r.witness(""), "signal", spec.Signal, "after", "first")
	}
	stopJustifiedByShutdown := shutdown && r.ShutCallSeq != 0 && r.ShutCallSeq < r.SeqRet
	for j := 0; j < n; j++ {
		a := &r.Attempts[j]
		st := spec.stepAt(j)
		if !a.PayloadOK {
			after := "other"
			if j > 0 {
				if pk := spec.stepAt(j - 1).K; pk == oPartial || pk == oThrottlePartial {
					after = "partial"
				}
			}
			c.Violation("payload", fmt.Sprintf("attempt %d carries %v, expected exactly %v", j, a.IDs, a.WantIDs), r.witness(""), "signal", spec.Signal, "after", after)
		} else if j > 0 {
			if pk := spec.stepAt(j - 1).K; pk == oPartial || pk == oThrottlePartial {
				c.Observe("remainder_payloads_checked", 1)
			}
		}
		if j < n-1 {
			// a retry followed attempt j
			decisions++
			next := &r.Attempts[j+1]
			if st.K.terminal() {
				if st.K == oCancel && cfg.Initial < time.Second {
					// cancellation without a deadline and a wait too short to order the two ready channels: not judged
					c.Observe("retry_after_cancel_with_tiny_backoff_not_judged", 1)
				} else {
					c.Violation("attempt-after-verdict", fmt.Sprintf("attempt %d was made after attempt %d had ended with the verdict %q", j+1, j, st.Kind), r.witness(""), "outcome", st.Kind)
				}
				continue
			}
			if !cfg.Enabled {
				c.Violation("retry-when-disabled", "a retry was made although retrying is disabled", r.witness(""), "outcome", st.Kind)
				continue
			}
			if shutdown && r.ShutRetSeq != 0 && a.SeqReturn > r.ShutRetSeq {
				dc := "-"
				if j < len(r.Logs) {
					dc = delayClass(r.Logs[j].Delay)
				}
				c.Violation("retry-after-shutdown", fmt.Sprintf("attempt %d failed after Shutdown had returned and attempt %d was made nevertheless (logged wait %s)", j, j+1, dc), r.witness(""), "delay", dc, "point", spec.Point)
			}
			if j >= len(r.Logs) || !r.Logs[j].Parsed {
				c.Inconclusive("retry-log-line-missing")
				continue
			}
			d := r.Logs[j].Delay
			lo, hi := envelope(cfg, j, st)
			c.Observe("retry_delays_checked", 1)
			if cfg.RF == 0 {
				c.Observe("retry_delays_checked_exact", 1)
			}
			switch {
			case (st.K == oThrottle || st.K == oThrottlePartial) && d < st.Delay:
				c.Violation("delay-envelope", fmt.Sprintf("wait before retry %d is %v, the backend asked for %v", j+1, d, st.Delay), r.witness(""), "config", cfg.Class, "problem", "below-throttle-delay")
			case d < lo:
				c.Violation("delay-envelope", fmt.Sprintf("wait before retry %d is %v, below the envelope [%v, %v]", j+1, d, lo, hi), r.witness(""), "config", cfg.Class, "problem", "below-envelope")
			case d > hi:
				c.Violation("delay-envelope", fmt.Sprintf("wait before retry %d is %v, above the envelope [%v, %v]", j+1, d, lo, hi), r.witness(""), "config", cfg.Class, "problem", "above-envelope")
			}
			if st.K == oThrottle || st.K == oThrottlePartial {
				c.Observe("throttle_delays_checked", 1)
			}
			if gap := next.Enter.Sub(a.Return); gap < d {
				c.Violation("gap-shorter-than-delay", fmt.Sprintf("attempt %d started %v after attempt %d returned, the logged wait was %v", j+1, gap, j, d), r.witness(""), "delay", delayClass(d))
			} else {
				c.Observe("gaps_checked", 1)
			}
			if cfg.MET > 0 {
				elapsedLo := a.Return.Sub(r.Attempts[0].Enter)
				if elapsedLo+d > cfg.MET {
					c.Violation("retry-beyond-budget", fmt.Sprintf("retry %d was scheduled at elapsed >= %v + wait %v, beyond max_elapsed_time %v", j+1, elapsedLo, d, cfg.MET), r.witness(""), "config", cfg.Class)
				} else {
					c.Observe("budget_decisions_judged", 1)
				}
			}
			if !r.Deadline.IsZero() {
				if a.Return.Add(d).After(r.Deadline) {
					c.Violation("retry-beyond-deadline", fmt.Sprintf("retry %d was scheduled no earlier than %v after the request deadline", j+1, a.Return.Add(d).Sub(r.Deadline)), r.witness(""), "config", cfg.Class)
				} else {
					c.Observe("deadline_decisions_judged", 1)
				}
			}
			continue
		}
		// last attempt: why did it stop here?
		switch st.K {
		case oOK:
			if shutdown && r.ShutRetSeq != 0 {
				c.Observe("verdict_of_attempt_in_flight_during_shutdown:ok", 1)
			}
			if r.Final != nil {
				c.Violation("final-error", "the last attempt succeeded but the call returned "+r.Final.Error(), r.witness(""), "outcome", st.Kind, "problem", "error-after-success")
			}
		case oPermanent:
			decisions++
			if shutdown && r.ShutRetSeq != 0 {
				c.Observe("verdict_of_attempt_in_flight_during_shutdown:permanent", 1)
				if r.Final != nil && strings.Contains(r.Final.Error(), "shutdown") {
					c.Observe("verdict_error_text_mentions_shutdown", 1)
				}
			}
			if r.Final == nil {
				c.Violation("final-error", "a permanent failure was reported as success", r.witness(""), "outcome", st.Kind, "problem", "nil")
			} else if !consumererror.IsPermanent(r.Final) || !errors.Is(r.Final, errPermBase) {
				c.Violation("final-error", "the returned error does not carry the backend's permanent error: "+r.Final.Error(), r.witness(""), "outcome", st.Kind, "problem", "classification-lost")
			}
		case oReqExpiry, oCancel:
			decisions++
			if r.Final == nil {
				c.Violation("final-error", "the request context ended, the call returned success", r.witness(""), "outcome", st.Kind, "problem", "nil")
			}
		default:
			decisions++
			if r.Final == nil {
				c.Violation("final-error", "the last attempt failed but the call returned success", r.witness(""), "outcome", st.Kind, "problem", "nil")
				break
			}
			if a.err != nil && !errors.Is(r.Final, a.err) && !(st.K == oThrottle || st.K == oThrottlePartial || st.K == oPartial) {
				c.Violation("final-error", fmt.Sprintf("the returned error %q does not wrap the last attempt's error %q", r.Final, a.err), r.witness(""), "outcome", st.Kind, "problem", "not-wrapping-last-error")
			}
			if !cfg.Enabled {
				c.Observe("no_retry_because_disabled", 1)
				break
			}
			if stopJustifiedByShutdown {
				c.Observe("stopped_by_shutdown", 1)
				break
			}
			if len(r.Logs) > j && r.CtxErrAfter != nil {
				// a wait had started and the request context ended during it
				c.Observe("wait_ended_by_request_context", 1)
				break
			}
			dLo, dHi := envelope(cfg, j, st)
			exhausted, ambiguous, limits := false, false, 0
			if cfg.MET > 0 {
				limits++
				elapsedLo := a.Return.Sub(r.Attempts[0].Enter)
				elapsedHi := r.TRet.Sub(r.TCall)
				switch {
				case elapsedLo+dLo > cfg.MET:
					exhausted = true
				case elapsedHi+dHi < cfg.MET:
				default:
					ambiguous = true
				}
			}
			if !r.Deadline.IsZero() {
				limits++
				switch {
				case a.Return.Add(dLo).After(r.Deadline):
					exhausted = true
				case r.TRet.Add(dHi).Before(r.Deadline):
				default:
					ambiguous = true
				}
			}
			switch {
			case exhausted:
				c.Observe("gave_up_limit_clearly_exhausted", 1)
			case ambiguous:
				c.Inconclusive("limit-decision-bracket-straddles-threshold")
			default:
				reason := "no-limit-configured"
				if limits > 0 {
					reason = "clearly-within-limits"
				}
				c.Violation("gave-up", fmt.Sprintf("after the %s failure of attempt %d no retry was made although retrying is enabled, the error is not permanent, the exporter is not shutting down and the next attempt fits (%s); returned: %v", st.Kind, j, reason, r.Final), r.witness(""), "reason", reason, "outcome", st.Kind)
			}
		}
	}
	c.Observe("retry_decisions", int64(decisions))
	if shutdown {
		c.Observe("shutdown_cases:"+spec.Point, 1)
		if r.ShutErr != nil {
			c.Violation("shutdown-error", "Shutdown returned an error: "+r.ShutErr.Error(), r.witness(""), "point", spec.Point)
		}
		last := spec.stepAt(n - 1)
		if last.K != oOK && r.Final == nil {
			c.Violation("final-error", "interrupted by shutdown but the call returned success", r.witness(""), "outcome", last.Kind, "problem", "nil-after-shutdown")
		}
		if r.Final != nil && strings.Contains(r.Final.Error(), "shutdown") {
			c.Observe("errors_mentioning_shutdown", 1)
		}
	}
	if decisions > 0 {
		class := cfg.Class
		if shutdown {
			class = "shutdown/" + spec.Point + "/" + fmt.Sprint(spec.K) + "/" + cfg.Class
		}
		c.Nontrivial(spec.Type, scriptKey(spec.Script), class)
		c.Distinct("scripts", scriptKey(spec.Script))
		c.Distinct("script_x_signal", scriptKey(spec.Script), spec.Signal)
	}
}

// ---------------------------------------------------------------------------------------------------
// persistent-queue scenario: the purpose of the shutdown classification

func runQueue(c *driver.Ctx, spec caseSpec) *caseRes {
	k := kits[spec.sig]
	store := newMemStore()
	host := storeHost{&storeExt{s: store}}
	qcfg := exporterhelper.NewDefaultQueueConfig()
	id := storeID
	qcfg.StorageID = &id
	qcfg.NumConsumers = spec.Consumers
	qcfg.QueueSize = 16
	first := spec.stepAt(0)
	h1 := newHandler(&spec)
	h1.stepFn = func(idx int, _ []string) step {
		if idx == 0 {
			return first
		}
		return mkStep(oTransient)
	}
	// split scenario: outcomes are scripted per part (parts are numbered in the order of their first attempt)
	partOf := map[string]int{}
	finished := map[string]bool{}
	if spec.Split != "" {
		h1.stepFn = func(_ int, ids []string) step {
			key := strings.Join(ids, ",")
			pi, seen := partOf[key]
			if !seen {
				pi = len(partOf)
				partOf[key] = pi
			}
			if seen || pi >= len(spec.PartPlan) {
				return mkStep(oTransient)
			}
			switch spec.PartPlan[pi] {
			case "ok":
				for _, id := range ids {
					finished[id] = true
				}
				return mkStep(oOK)
			case "permanent":
				for _, id := range ids {
					finished[id] = true
				}
				return mkStep(oPermanent)
			case "interrupted-in-wait":
				return step{K: oThrottle, Kind: oNames[oThrottle], Delay: time.Hour}
			}
			return mkStep(oTransient)
		}
	}
	if spec.Point == "during-attempt" {
		h1.gateAt = 0
	}
	h2 := newHandler(&spec)
	h2.stepFn = func(int, []string) step { return mkStep(oOK) }
	res := &caseRes{Spec: spec, StoredIDs: map[string]bool{}}
	var berr error
	var mu sync.Mutex
	body := func() {
		opts := append(spec.options(), exporterhelper.WithQueue(qcfg))
		if spec.Split != "" {
			bcfg := exporterhelper.NewDefaultBatcherConfig()
			bcfg.MinSize, bcfg.MaxSize, bcfg.FlushTimeout = 0, int64(spec.MaxSize), time.Hour
			opts = append(opts, exporterhelper.WithBatcher(bcfg))
		}
		setErr := func(err error) { mu.Lock(); berr = err; mu.Unlock() }
		in1, err := k.build(newSettings(h1), h1, opts)
		if err != nil {
			setErr(err)
			return
		}
		if err := in1.comp.Start(context.Background(), host); err != nil {
			setErr(err)
			return
		}
		var accepted [][]string
		send := func(r int) {
			ids := []string{fmt.Sprintf("q%d.0", r), fmt.Sprintf("q%d.1", r)}
			if r == 0 && spec.Split != "" {
				ids = nil
				for i := 0; i < spec.FirstItems; i++ {
					ids = append(ids, fmt.Sprintf("q0.%d", i))
				}
			}
			if err := in1.consume(context.Background(), ids); err == nil {
				accepted = append(accepted, ids)
			}
		}
		send(0)
		// wait until the first request is with the consumer (first attempt entered), then queue the others behind it
		for h1.progress.Load() == 0 {
			time.Sleep(50 * time.Microsecond)
		}
		for r := 1; r < spec.NReq; r++ {
			send(r)
		}
		sdDone := make(chan error, 1)
		if spec.Point == "during-attempt" {
			<-h1.gateEntered
			go func() { sdDone <- safeShutdown(in1.comp) }()
			time.Sleep(2 * time.Millisecond) // scheduling aid only: lets Shutdown close the stop channel first in most runs
			close(h1.gateRelease)
		} else {
			<-h1.logCh
			go func() { sdDone <- safeShutdown(in1.comp) }()
		}
		sdErr := <-sdDone
		h1.progress.Add(1)
		stored := map[string]bool{}
		for _, v := range store.values() {
			for _, id := range k.idsOfBytes(v) {
				stored[id] = true
			}
		}
		h1.mu.Lock()
		att1 := len(h1.attempts)
		var required, fin []string
		for _, ids := range accepted {
			for _, id := range ids {
				if finished[id] {
					fin = append(fin, id)
				} else {
					required = append(required, id)
				}
			}
		}
		nparts := len(partOf)
		h1.mu.Unlock()
		mu.Lock()
		res.Accepted, res.StoredIDs, res.StoreKeys, res.ShutErr, res.Attempts1 = accepted, stored, store.keys(), sdErr, att1
		res.Required, res.Finished1, res.Parts = required, fin, nparts
		mu.Unlock()
		// incarnation 2 on the same storage
		in2, err := k.build(newSettings(h2), h2, opts)
		if err != nil {
			setErr(err)
			return
		}
		if err := in2.comp.Start(context.Background(), host); err != nil {
			setErr(err)
			return
		}
		deadline := time.Now().Add(20 * time.Second)
		for {
			h2.mu.Lock()
			missing := 0
			for _, id := range required {
				if h2.delivered[id] == 0 {
					missing++
				}
			}
			h2.mu.Unlock()
			if missing == 0 || time.Now().After(deadline) {
				break
			}
			time.Sleep(100 * time.Microsecond)
		}
		_ = in2.comp.Shutdown(context.Background())
		h2.mu.Lock()
		del := map[string]int{}
		for id, n := range h2.delivered {
			del[id] = n
		}
		h2.mu.Unlock()
		mu.Lock()
		res.Delivered2 = del
		res.FinalSet = true
		mu.Unlock()
	}
	var pv any
	var pstack string
	prog := func() int64 { return h1.progress.Load() + h2.progress.Load() + store.ops.Load() }
	stuck := c.Guard(40*time.Second, prog, func() { pv, pstack = driver.Catch(body) })
	mu.Lock()
	out := *res
	out.BuildErr = berr
	mu.Unlock()
	out.Stuck = stuck
	if pv != nil {
		out.Panic, out.PanicSite = fmt.Sprint(pv), driver.PanicSite(pstack)
	}
	s1 := h1.snapshot(spec)
	out.Attempts, out.Logs = s1.Attempts, s1.Logs
	return &out
}

// safeShutdown reports a panic inside Shutdown as an error carrying the panic site.
func safeShutdown(comp component.Component) error {
	var err error
	if pv, st := driver.Catch(func() { err = comp.Shutdown(context.Background()) }); pv != nil {
		return fmt.Errorf("PANIC in Shutdown at %s: %v", driver.PanicSite(st), pv)
	}
	return err
}

func runInflight(c *driver.Ctx, spec caseSpec) *caseRes {
	k := kits[spec.sig]
	persistent := spec.Queue == "persistent"
	store := newMemStore()
	var host component.Host = componenttest.NewNopHost()
	qcfg := exporterhelper.NewDefaultQueueConfig()
	qcfg.NumConsumers = 2
	qcfg.QueueSize = 16
	if persistent {
		id := storeID
		qcfg.StorageID = &id
		host = storeHost{&storeExt{s: store}}
	}
	release := spec.stepAt(0)
	h1 := newHandler(&spec)
	aAttempts, bAttempts := 0, 0
	h1.stepFn = func(_ int, ids []string) step {
		if len(ids) > 0 && strings.HasPrefix(ids[0], "a.") {
			aAttempts++
			if aAttempts == 1 {
				return release
			}
			return mkStep(oTransient)
		}
		bAttempts++
		if bAttempts == 1 {
			return step{K: oThrottle, Kind: oNames[oThrottle], Delay: time.Hour}
		}
		return mkStep(oTransient)
	}
	h1.gateAt = 0
	h2 := newHandler(&spec)
	h2.stepFn = func(int, []string) step { return mkStep(oOK) }
	res := &caseRes{Spec: spec, StoredIDs: map[string]bool{}}
	aIDs, bIDs := []string{"a.0", "a.1"}, []string{"b.0", "b.1"}
	var berr error
	var mu sync.Mutex
	body := func() {
		opts := append(spec.options(), exporterhelper.WithQueue(qcfg))
		setErr := func(err error) { mu.Lock(); berr = err; mu.Unlock() }
		in1, err := k.build(newSettings(h1), h1, opts)
		if err != nil {
			setErr(err)
			return
		}
		if err := in1.comp.Start(context.Background(), host); err != nil {
			setErr(err)
			return
		}
		var accepted [][]string
		if err := in1.consume(context.Background(), aIDs); err == nil {
			accepted = append(accepted, aIDs)
		}
		<-h1.gateEntered // A's first attempt is in flight
		if err := in1.consume(context.Background(), bIDs); err == nil {
			accepted = append(accepted, bIDs)
		}
		<-h1.logCh // B's one-hour wait has started
		sdDone := make(chan error, 1)
		go func() { sdDone <- safeShutdown(in1.comp) }()
		// Shutdown stops the retry sender first and then blocks in the queue until A's attempt returns. B's wait
		// being cut (its send returns, the queue sender logs it) shows that the stop has happened.
		stopObserved := false
		select {
		case <-h1.dropCh:
			stopObserved = true
		case <-time.After(3 * time.Second):
		}
		close(h1.gateRelease)
		sdErr := <-sdDone
		h1.progress.Add(1)
		stored := map[string]bool{}
		if persistent {
			for _, v := range store.values() {
				for _, id := range k.idsOfBytes(v) {
					stored[id] = true
				}
			}
		}
		h1.mu.Lock()
		na := aAttempts
		d1 := map[string]int{}
		for id, n := range h1.delivered {
			d1[id] = n
		}
		h1.mu.Unlock()
		var required []string
		if persistent {
			required = append(required, bIDs...)
			if spec.Release == "transient" {
				required = append(required, aIDs...)
			}
		}
		mu.Lock()
		res.Accepted, res.StoredIDs, res.StoreKeys, res.ShutErr = accepted, stored, store.keys(), sdErr
		res.AAttempts, res.StopObserved, res.Delivered1, res.Required = na, stopObserved, d1, required
		mu.Unlock()
		if !persistent {
			mu.Lock()
			res.FinalSet = true
			mu.Unlock()
			return
		}
		in2, err := k.build(newSettings(h2), h2, opts)
		if err != nil {
			setErr(err)
			return
		}
		if err := in2.comp.Start(context.Background(), host); err != nil {
			setErr(err)
			return
		}
		deadline := time.Now().Add(20 * time.Second)
		for {
			h2.mu.Lock()
			missing := 0
			for _, id := range required {
				if h2.delivered[id] == 0 {
					missing++
				}
			}
			h2.mu.Unlock()
			if missing == 0 || time.Now().After(deadline) {
				break
			}
			time.Sleep(100 * time.Microsecond)
		}
		_ = in2.comp.Shutdown(context.Background())
		h2.mu.Lock()
		del := map[string]int{}
		for id, n := range h2.delivered {
			del[id] = n
		}
		h2.mu.Unlock()
		mu.Lock()
		res.Delivered2 = del
		res.FinalSet = true
		mu.Unlock()
	}
	var pv any
	var pstack string
	prog := func() int64 { return h1.progress.Load() + h2.progress.Load() + store.ops.Load() }
	stuck := c.Guard(40*time.Second, prog, func() { pv, pstack = driver.Catch(body) })
	mu.Lock()
	out := *res
	out.BuildErr = berr
	mu.Unlock()
	out.Stuck = stuck
	if pv != nil {
		out.Panic, out.PanicSite = fmt.Sprint(pv), driver.PanicSite(pstack)
	}
	s1 := h1.snapshot(spec)
	out.Attempts, out.Logs = s1.Attempts, s1.Logs
	return &out
}

func judgeInflight(c *driver.Ctx, r *caseRes) {
	spec := r.Spec
	c.Eval()
	wit := func() any {
		keys := append([]string(nil), r.StoreKeys...)
		sort.Strings(keys)
		var stored []string
		for id := range r.StoredIDs {
			stored = append(stored, id)
		}
		sort.Strings(stored)
		return map[string]any{"case": spec, "accepted": r.Accepted, "attempts_for_the_in_flight_request": r.AAttempts, "retry_stop_observed_before_release": r.StopObserved,
			"delivered_by_first_incarnation": r.Delivered1, "storage_keys_after_shutdown": keys, "request_ids_in_storage_after_shutdown": stored,
			"delivered_by_second_incarnation": r.Delivered2, "attempts_first_incarnation": r.Attempts, "retry_log_lines": r.Logs}
	}
	if r.BuildErr != nil {
		c.Violation("create", "creating or starting the exporter failed: "+r.BuildErr.Error(), wit(), "signal", spec.Signal)
		return
	}
	if r.Panic != "" {
		c.Violation("panic", "panic in the exporter: "+r.Panic, wit(), "site", r.PanicSite)
		return
	}
	if r.Stuck != nil || len(r.Accepted) < 2 || !r.FinalSet {
		if r.Stuck != nil && strings.Contains(strings.Join(r.Stuck.RepoFrames, " "), "retrySender") {
			c.Violation("shutdown-stuck", "Shutdown of an exporter with a queue does not return while a request waits for its retry", map[string]any{"case": spec, "frames": r.Stuck.RepoFrames}, "point", "queue/"+spec.Point, "delay", "-")
		} else {
			c.Inconclusive("inflight-case-did-not-finish")
		}
		return
	}
	c.Observe("inflight_cases:"+spec.Queue+"/"+spec.Release, 1)
	if r.ShutErr != nil {
		c.Violation("shutdown-error", "Shutdown returned an error: "+r.ShutErr.Error(), wit(), "point", "queue/"+spec.Point)
	}
	if !r.StopObserved {
		c.Inconclusive("retry-stop-not-observed-before-release")
	}
	verdict := spec.Release != "transient"
	// no further attempt: always after a verdict; after a transient failure when the stop was known to precede it
	if r.AAttempts != 1 && (verdict || r.StopObserved) {
		sub, what := "attempt-after-verdict", fmt.Sprintf("the attempt in flight during Shutdown ended with the verdict %q and %d further attempts were made", spec.Release, r.AAttempts-1)
		if !verdict {
			sub, what = "retry-after-shutdown", fmt.Sprintf("the attempt in flight failed after the retry sender had been stopped and %d further attempts were made", r.AAttempts-1)
			c.Violation(sub, what, wit(), "delay", delayClass(spec.Cfg.Initial), "point", "queue/"+spec.Point)
		} else {
			c.Violation(sub, what, wit(), "outcome", spec.Release)
		}
	}
	if spec.Release == "ok" && (r.Delivered1["a.0"] != 1 || r.Delivered1["a.1"] != 1) {
		c.Violation("final-error", "the in-flight attempt succeeded but its items are not recorded as delivered exactly once", wit(), "outcome", "ok", "problem", "delivery-count")
	}
	if spec.Queue != "persistent" {
		c.Nontrivial("inflight", spec.Signal, spec.Queue, spec.Release, spec.Cfg.Class)
		return
	}
	aStored := r.StoredIDs["a.0"] || r.StoredIDs["a.1"]
	aAgain := r.Delivered2["a.0"] > 0 || r.Delivered2["a.1"] > 0
	if verdict {
		// a verdict is final and is not shutdown-classified: the request leaves the queue for good
		if aStored || aAgain {
			c.Violation("verdict-not-final", fmt.Sprintf("the attempt in flight during Shutdown ended with the verdict %q, yet the request is still in the persistent queue's storage after Shutdown returned (stored=%v) or was delivered again by the second incarnation (redelivered=%v): a verdict must not be classified as a shutdown interruption", spec.Release, aStored, aAgain),
				wit(), "outcome", spec.Release, "signal", spec.Signal)
		} else {
			c.Observe("inflight_verdicts_final", 1)
		}
	}
	lost := 0
	for _, id := range r.Required {
		if !r.StoredIDs[id] {
			lost++
		}
	}
	if lost > 0 {
		c.Violation("shutdown-classification", fmt.Sprintf("%d accepted items whose export was interrupted by Shutdown are no longer in the persistent queue's storage after Shutdown returned: the interruption was not classified as shutdown, the request is lost", lost), wit(), "signal", spec.Signal, "point", "queue/"+spec.Point+"/"+spec.Release)
	} else {
		missing := 0
		for _, id := range r.Required {
			if r.Delivered2[id] == 0 {
				missing++
			}
		}
		if missing > 0 {
			c.Inconclusive("kept-request-not-redelivered-within-20s")
		} else {
			c.Observe("inflight_interrupted_requests_kept_and_redelivered", int64(len(r.Required)/2))
		}
	}
	c.Nontrivial("inflight", spec.Signal, spec.Queue, spec.Release, spec.Cfg.Class)
}

func judgeQueue(c *driver.Ctx, r *caseRes) {
	spec := r.Spec
	c.Eval()
	wit := func() any {
		keys := append([]string(nil), r.StoreKeys...)
		sort.Strings(keys)
		var stored []string
		for id := range r.StoredIDs {
			stored = append(stored, id)
		}
		sort.Strings(stored)
		return map[string]any{"case": spec, "accepted": r.Accepted, "storage_keys_after_shutdown": keys, "request_ids_in_storage_after_shutdown": stored,
			"delivered_by_second_incarnation": r.Delivered2, "attempts_first_incarnation": r.Attempts, "retry_log_lines": r.Logs,
			"ids_that_must_survive": r.Required, "ids_finished_in_first_incarnation": r.Finished1, "exports_of_first_incarnation": r.Parts}
	}
	if r.BuildErr != nil {
		c.Violation("create", "creating or starting the exporter failed: "+r.BuildErr.Error(), wit(), "signal", spec.Signal)
		return
	}
	if r.Panic != "" {
		c.Violation("panic", "panic in the exporter: "+r.Panic, wit(), "site", r.PanicSite)
		return
	}
	if r.Accepted == nil && r.Stuck != nil {
		frames := strings.Join(r.Stuck.RepoFrames, " ")
		if strings.Contains(frames, "retrySender") {
			c.Violation("shutdown-stuck", "Shutdown of an exporter with a persistent queue does not return while a request waits for its retry", map[string]any{"case": spec, "frames": r.Stuck.RepoFrames}, "point", "queue/"+spec.Point, "delay", "-")
		} else {
			c.Inconclusive("queue-case-did-not-finish")
		}
		return
	}
	if len(r.Accepted) == 0 {
		c.Inconclusive("queue-accepted-nothing")
		return
	}
	point := spec.Point
	if spec.Split != "" {
		point = "split/" + spec.Split
		if r.Parts < 2 {
			c.Inconclusive("queued-request-was-not-split")
			return
		}
		c.Observe("queue_split_cases:"+spec.Split, 1)
		c.Observe("queue_split_parts_exported", int64(r.Parts))
	}
	c.Observe("queue_cases:"+spec.Point, 1)
	if r.ShutErr != nil {
		c.Violation("shutdown-error", "Shutdown returned an error: "+r.ShutErr.Error(), wit(), "point", "queue/"+spec.Point)
	}
	lost := 0
	for _, id := range r.Required {
		if !r.StoredIDs[id] {
			lost++
		}
	}
	if lost > 0 {
		what := fmt.Sprintf("%d accepted items whose export was interrupted by Shutdown are no longer in the persistent queue's storage after Shutdown returned: the interruption was not classified as shutdown, the request is lost", lost)
		if spec.Split != "" {
			what += fmt.Sprintf(" (the request was split into %d exports, first outcomes %v; the aggregate of their results must stay shutdown-classified)", r.Parts, spec.PartPlan)
		}
		c.Violation("shutdown-classification", what, wit(), "signal", spec.Signal, "point", point)
		return
	}
	c.Observe("queue_requests_kept_in_storage", int64(len(r.Accepted)))
	if !r.FinalSet {
		c.Inconclusive("queue-second-incarnation-did-not-finish")
		return
	}
	missing := 0
	for _, id := range r.Required {
		if r.Delivered2[id] == 0 {
			missing++
		}
	}
	for _, id := range r.Finished1 {
		if r.Delivered2[id] > 0 {
			c.Observe("queue_split_finished_items_delivered_again", 1) // at-least-once: allowed
		}
	}
	if missing > 0 {
		c.Inconclusive("kept-request-not-redelivered-within-20s")
		c.Note("queue scenario: %d items kept in storage were not delivered by the second incarnation within 20 s (%s/%s)", missing, spec.Signal, spec.Point)
	} else {
		c.Observe("queue_requests_redelivered", int64(len(r.Accepted)))
	}
	c.Nontrivial("queue", spec.Signal, point, spec.Cfg.Class, spec.NReq, spec.Consumers, first(spec), spec.FirstItems, spec.MaxSize)
}

func first(s caseSpec) string { return s.stepAt(0).Kind }

// ---------------------------------------------------------------------------------------------------
// case generation

var nonTerminals = []okind{oTransient, oThrottle, oPartial, oAttemptTimeout}
var terminals = []okind{oOK, oPermanent, oReqExpiry, oCancel}

var throttleDelays = []time.Duration{200 * time.Microsecond, 3 * ms, 6 * ms}

func fillStep(rng *rand.Rand, k okind) step {
	st := mkStep(k)
	switch k {
	case oThrottle, oThrottlePartial:
		st.Delay = throttleDelays[rng.Intn(len(throttleDelays))]
	}
	if k == oPartial || k == oThrottlePartial {
		switch rng.Intn(4) {
		case 0:
			st.Mask = 0xAAAAAAAA // every second item
		case 1:
			st.Mask = 0xFFFFFFF0 // all but the first four positions
		case 2:
			st.Mask = 0xFFFFFFFE // all but the first
		default:
			st.Mask = rng.Uint32()
		}
	}
	return st
}

// adapt makes a configuration fit for a script: an attempt-timeout outcome needs a per-attempt timeout, a
// request-expiry outcome needs a request deadline.
func adapt(cfg rcfg, script []step) rcfg {
	for _, s := range script {
		switch s.K {
		case oAttemptTimeout:
			if cfg.Timeout == 0 || cfg.Timeout > 3*ms {
				cfg.Timeout = 3 * ms
				cfg.Class += "+timeout-3ms"
			}
		case oReqExpiry:
			if cfg.Deadline == 0 || cfg.Deadline > 40*ms {
				cfg.Deadline = 40 * ms
				cfg.Class += "+deadline-40ms"
			}
		}
	}
	return cfg
}

func sweepScript(rng *rand.Rand, idx int64) []step {
	// idx enumerates (prefix of non-terminals in base 4 by length, terminal)
	t := terminals[idx%4]
	idx /= 4
	ln := 0
	for cnt := int64(1); idx >= cnt; cnt *= 4 {
		idx -= cnt
		ln++
	}
	sc := make([]step, ln+1)
	for i := ln - 1; i >= 0; i-- {
		sc[i] = fillStep(rng, nonTerminals[idx%4])
		idx /= 4
	}
	sc[ln] = mkStep(t)
	return sc
}

func nScripts(maxPrefix int) int64 {
	var n, p int64 = 0, 1
	for l := 0; l <= maxPrefix; l++ {
		n += p
		p *= 4
	}
	return n * 4
}

// Waits that meet a shutdown are either of the kind the known defect C05-a concerns (0, 1 ns) or long (10 s, one
// hour through a throttle delay). Millisecond waits are deliberately absent: on the unchanged tree the wait's
// select treats "stop channel closed" and "timer fired" as equals, so with a wait of a few milliseconds the
// outcome depends on whether the goroutine is descheduled for that long between arming the timer and selecting.
var shutdownIntervals = []rcfg{
	{Class: "shutdown-det-0", Enabled: true, Initial: 0, Mult: 1.5, Max: 0},
	{Class: "shutdown-det-1ns", Enabled: true, Initial: 1, Mult: 1, Max: 1},
	{Class: "shutdown-det-10s", Enabled: true, Initial: 10 * time.Second, Mult: 1, Max: 10 * time.Second},
}

func shutdownCase(rng *rand.Rand, g int64) caseSpec {
	points := []string{"before-call", "during-attempt", "during-wait"}
	spec := caseSpec{Type: "shutdown", NItems: 6}
	spec.sig = int(g % int64(len(kits)))
	spec.Point = points[(g/4)%3]
	ci := int((g / 12) % int64(len(shutdownIntervals)))
	spec.Cfg = shutdownIntervals[ci]
	spec.K = rng.Intn(3)
	long := rng.Intn(2) == 0 // the wait that meets the shutdown is one hour (throttle) or the configured interval
	if spec.Point == "before-call" {
		spec.K = 0
	}
	if spec.Cfg.Initial >= time.Second {
		// long configured interval: the waits before the shutdown point would be real, keep them out
		spec.K = 0
	}
	var sc []step
	for i := 0; i < spec.K; i++ {
		sc = append(sc, fillStep(rng, []okind{oTransient, oPartial, oThrottle}[rng.Intn(3)]))
	}
	at := mkStep(oTransient)
	if long || (spec.Point == "during-wait" && spec.Cfg.Initial < time.Second && rng.Intn(3) > 0) {
		at = step{K: oThrottle, Kind: oNames[oThrottle], Delay: time.Hour}
	}
	if spec.Point == "during-attempt" {
		// the attempt in flight while Shutdown stops the retry sender may also end with a verdict
		switch (g / 36) % 4 {
		case 1:
			at = mkStep(oPermanent)
		case 2:
			at = mkStep(oOK)
		}
	}
	sc = append(sc, at)
	for i := 0; i < 6; i++ {
		sc = append(sc, mkStep(oTransient))
	}
	sc = append(sc, mkStep(oOK))
	spec.Script = sc
	return spec
}

// inflightCase: behind a memory or persistent queue (2 consumers) request A's first attempt is held in the
// export function, a probe request B sits in a one-hour retry wait; Shutdown is called, the harness learns
// from B's cut wait that the retry sender is stopped, then A's attempt is released with a permanent error, with
// success or with a transient error.
func inflightCase(g int64) caseSpec {
	spec := caseSpec{Type: "inflight", NItems: 2, Point: "attempt-in-flight", Consumers: 2, NReq: 2}
	spec.sig = int(g % int64(len(kits)))
	spec.Release = []string{"permanent", "ok", "transient"}[(g/4)%3]
	spec.Queue = []string{"persistent", "memory"}[(g/12)%2]
	spec.Cfg = shutdownIntervals[(g/24)%int64(len(shutdownIntervals))]
	spec.Script = []step{mkStep(map[string]okind{"permanent": oPermanent, "ok": oOK, "transient": oTransient}[spec.Release])}
	return spec
}

func queueCase(rng *rand.Rand, g int64) (spec caseSpec) {
	spec = caseSpec{Type: "queue", NItems: 2}
	spec.sig = int(g % int64(len(kits)))
	spec.Point = []string{"during-wait", "during-attempt"}[(g/4)%2]
	spec.NReq = 1 + rng.Intn(3)
	spec.Consumers = 1 + rng.Intn(2)
	defer func() {
		if spec.Cfg.Initial < ms {
			spec.Consumers = 1 // a second consumer would spin on the other requests with a zero back-off
		}
	}()
	if spec.Point == "during-wait" {
		spec.Cfg = shutdownIntervals[2]
		spec.Script = []step{{K: oThrottle, Kind: oNames[oThrottle], Delay: time.Hour}}
	} else {
		spec.Cfg = shutdownIntervals[rng.Intn(3)]
		spec.Script = []step{mkStep(oTransient)}
		if rng.Intn(3) == 0 {
			spec.Script = []step{{K: oThrottle, Kind: oNames[oThrottle], Delay: time.Hour}}
		}
	}
	return spec
}

var splitScenarios = map[string][]string{
	"all-interrupted":              {"interrupted-in-wait", "interrupted", "interrupted"},
	"ok-then-interrupted":          {"ok", "interrupted-in-wait", "interrupted"},
	"permanent-then-interrupted":   {"permanent", "interrupted-in-wait", "interrupted"},
	"interrupted-then-ok":          {"interrupted-in-wait", "ok", "interrupted"},
	"interrupted-then-permanent":   {"interrupted-in-wait", "permanent", "interrupted"},
	"ok-interrupted-ok":            {"ok", "interrupted-in-wait", "ok"},
	"interrupted-permanent-ok":     {"interrupted-in-wait", "permanent", "ok"},
	"permanent-interrupted-second": {"permanent", "interrupted-in-wait", "permanent"},
}

var splitNames = []string{"all-interrupted", "ok-then-interrupted", "permanent-then-interrupted", "interrupted-then-ok", "interrupted-then-permanent",
	"ok-interrupted-ok", "interrupted-permanent-ok", "permanent-interrupted-second"}

// queueSplitCase: persistent queue + legacy batcher + retry; the first request is split into 2 or 3 exports.
// One part meets the Shutdown inside its retry wait (one hour, throttle), parts marked "interrupted" are
// exported after the stop and fail, so their (first and only) retry wait is cut by the shutdown as well.
func queueSplitCase(rng *rand.Rand, g int64) (spec caseSpec) {
	spec = caseSpec{Type: "queue", NItems: 2, Point: "during-wait"}
	spec.sig = int(g % int64(len(kits)))
	spec.Split = splitNames[(g/4)%int64(len(splitNames))]
	parts := 2 + int((g/32)%2)
	spec.MaxSize = 2 + rng.Intn(2)
	spec.FirstItems = spec.MaxSize*(parts-1) + 1 + rng.Intn(spec.MaxSize)
	spec.PartPlan = append([]string(nil), splitScenarios[spec.Split][:parts]...)
	if parts == 2 && spec.PartPlan[0] != "interrupted-in-wait" && spec.PartPlan[1] != "interrupted-in-wait" {
		spec.PartPlan[1] = "interrupted-in-wait"
	}
	spec.NReq = 1 + rng.Intn(2)
	spec.Consumers = 1
	spec.Cfg = shutdownIntervals[rng.Intn(len(shutdownIntervals))]
	spec.Script = []step{mkStep(oTransient)}
	return spec
}

// directed reproducer of finding C05-a: Shutdown, then one request whose every attempt fails, back-off 0 / 1 ns.
func directedC05a(c *driver.Ctx) {
	hist := map[string]map[int]int{}
	for it := 0; it < 240; it++ {
		spec := caseSpec{Type: "shutdown", Point: "before-call", NItems: 2, sig: it % len(kits)}
		spec.Cfg = shutdownIntervals[it%2]
		for i := 0; i < 14; i++ {
			spec.Script = append(spec.Script, mkStep(oTransient))
		}
		spec.Script = append(spec.Script, mkStep(oOK))
		spec.Signal = kits[spec.sig].name
		r := runDirect(c, spec)
		judge(c, r)
		if hist[spec.Cfg.Class] == nil {
			hist[spec.Cfg.Class] = map[int]int{}
		}
		hist[spec.Cfg.Class][len(r.Attempts)]++
	}
	c.Sample(map[string]any{"directed": "C05-a: Shutdown(), then one request, every attempt fails; attempts-per-request histogram (the property allows exactly 1)", "histogram": hist})
}

type job struct {
	idx  int64
	spec caseSpec
}

// runner executes jobs in chunks: the cases of a chunk run concurrently (they wait most of the time), the
// results are judged sequentially in case order so that every violation is attributed to its case index.
type runner struct {
	c       *driver.Ctx
	pending []job
	seen    int
}

const chunk = 192
const par = 48

func (rn *runner) emit(j job) {
	rn.pending = append(rn.pending, j)
	if len(rn.pending) >= chunk {
		rn.flush()
	}
}

func (rn *runner) flush() {
	c := rn.c
	jobs := rn.pending
	res := make([]*caseRes, len(jobs))
	sem := make(chan struct{}, par)
	var wg sync.WaitGroup
	for i := range jobs {
		wg.Add(1)
		sem <- struct{}{}
		go func(i int) {
			defer wg.Done()
			defer func() { <-sem }()
			sp := jobs[i].spec
			sp.Signal = kits[sp.sig].name
			switch sp.Type {
			case "queue":
				res[i] = runQueue(c, sp)
			case "inflight":
				res[i] = runInflight(c, sp)
			default:
				res[i] = runDirect(c, sp)
			}
		}(i)
	}
	wg.Wait()
	for i := range jobs {
		c.Want(jobs[i].idx)
		r := res[i]
		switch r.Spec.Type {
		case "queue":
			judgeQueue(c, r)
		case "inflight":
			judgeInflight(c, r)
		default:
			judge(c, r)
		}
		rn.seen++
		if rn.seen == 6 || rn.seen == 41 {
			c.Sample(r.witness("sample of an executed case"))
		}
	}
	rn.pending = rn.pending[:0]
}

func run(c *driver.Ctx) {
	race := c.Variant == "race"
	rn := &runner{c: c}
	// the directed reproducer runs first, in every run, on shard 0
	if c.Shard == 0 && c.Want(0) {
		directedC05a(c)
	}
	next := int64(1)
	// 1. exhaustive sweep: every script = prefix of non-terminal outcomes (length <= L) + verdict, each under several configurations
	maxPrefix := c.N(5, 7)
	perScript := c.N(5, len(sweepCfgs))
	if race {
		maxPrefix, perScript = c.N(4, 5), c.N(2, 5)
	}
	ns := nScripts(maxPrefix)
	for s := int64(0); s < ns; s++ {
		for r := 0; r < perScript; r++ {
			g := next
			next++
			if !c.Mine(g) {
				continue
			}
			rng := c.CaseRand(g)
			sc := sweepScript(rng, s)
			ci := int((s*int64(perScript) + int64(r) + c.Seed) % int64(len(sweepCfgs)))
			spec := caseSpec{Type: "sweep", Script: sc, NItems: 8, sig: int((s + int64(r)) % int64(len(kits)))}
			spec.Cfg = adapt(sweepCfgs[ci], sc)
			rn.emit(job{g, spec})
		}
	}
	// 2. random longer scripts (including throttle+partial)
	nLong := int64(c.N(800, 30000))
	if race {
		nLong = int64(c.N(160, 5000))
	}
	for k := int64(0); k < nLong; k++ {
		g := next
		next++
		if !c.Mine(g) {
			continue
		}
		rng := c.CaseRand(g)
		ln := 6 + rng.Intn(4)
		var sc []step
		for i := 0; i < ln; i++ {
			ks := []okind{oTransient, oThrottle, oPartial, oThrottlePartial, oTransient, oPartial}
			st := fillStep(rng, ks[rng.Intn(len(ks))])
			if st.Delay > 3*ms {
				st.Delay = 3 * ms
			}
			sc = append(sc, st)
		}
		sc = append(sc, mkStep([]okind{oOK, oPermanent, oCancel}[rng.Intn(3)]))
		spec := caseSpec{Type: "sweep", Script: sc, NItems: 12 + rng.Intn(12), sig: rng.Intn(len(kits))}
		spec.Cfg = adapt(sweepCfgs[fastCfgs[rng.Intn(len(fastCfgs))]], sc)
		rn.emit(job{g, spec})
	}
	// 2b. cancellation of a request without deadline while the pending wait is one hour: the call must return without a further attempt
	for k := int64(0); k < int64(4*c.N(2, 20)); k++ {
		g := next
		next++
		if !c.Mine(g) {
			continue
		}
		spec := caseSpec{Type: "sweep", Script: []step{mkStep(oCancel)}, NItems: 4, sig: int(k % int64(len(kits)))}
		spec.Cfg = rcfg{Class: "det-1h", Enabled: true, Initial: time.Hour, Mult: 1, Max: time.Hour}
		rn.emit(job{g, spec})
	}
	// 3. shutdown at scripted logical points
	nShut := int64(c.N(2880, 40000))
	if race {
		nShut = int64(c.N(720, 20000))
	}
	for k := int64(0); k < nShut; k++ {
		g := next
		next++
		if !c.Mine(g) {
			continue
		}
		rn.emit(job{g, shutdownCase(c.CaseRand(g), k)})
	}
	// 4. persistent queue: purpose of the shutdown classification
	nQueue := int64(c.N(320, 8000))
	if race {
		nQueue = int64(c.N(160, 4000))
	}
	for k := int64(0); k < nQueue; k++ {
		g := next
		next++
		if !c.Mine(g) {
			continue
		}
		rn.emit(job{g, queueCase(c.CaseRand(g), k)})
	}
	// 5. the same purpose when the queued request is split by the legacy batcher into several exports
	nSplit := int64(c.N(384, 8000))
	if race {
		nSplit = int64(c.N(192, 4000))
	}
	for k := int64(0); k < nSplit; k++ {
		g := next
		next++
		if !c.Mine(g) {
			continue
		}
		rn.emit(job{g, queueSplitCase(c.CaseRand(g), k)})
	}
	// 6. an attempt in flight while Shutdown has stopped the retry sender, released with a verdict or a transient error
	nInflight := int64(c.N(288, 6000))
	if race {
		nInflight = int64(c.N(144, 3000))
	}
	for k := int64(0); k < nInflight; k++ {
		g := next
		next++
		if !c.Mine(g) {
			continue
		}
		rn.emit(job{g, inflightCase(k)})
	}
	rn.flush()
}

func main() {
	driver.Main(driver.Spec{
		ID:    "C05",
		Level: "exploration",
		Rule: "a sweep case is one (outcome script, back-off configuration class, signal): every script consisting of a prefix of non-terminal outcomes {transient, throttle(d), partial(remaining subset), attempt-timeout} of length <= 5 (quick) / 7 (thorough) followed by a verdict {ok, permanent, request-deadline expiry, cancellation} is enumerated, each under 5 (quick) / all 15 (thorough) configuration classes (randomization 0 / 0.3 / 0.5 / 1, multiplier 1-3, intervals 0, 1 ns, 50 us, 1-2 ms, budgets and deadlines none / 9-12 ms / 1 h, retry disabled), plus random scripts of 6-9 failures incl. throttle+partial; " +
			"shutdown cases: Shutdown before the call, while attempt k is in flight (gate in the export function) or after the retry sender logged that wait k started, with waits of 0, 1 ns, 10 s and one hour; queue cases: the same behind a persistent queue on an in-memory storage extension, followed by a second incarnation, also with the queued request split by the legacy batcher (max_size) into 2-3 exports whose outcomes {interrupted by the shutdown inside / right at its retry wait, ok, permanent} are aggregated before the queue classifies them (8 outcome patterns); in-flight cases: an attempt held in the export function while Shutdown has stopped the retry sender (no queue; memory / persistent queue with a probe request whose cut wait shows the stop) is released with permanent / ok / transient - a verdict is final (no further attempt, gone from storage, not delivered again), only the transient failure is kept; " +
			"non-trivial = at least one retry decision (retry or give up after a failed attempt) was taken; distinct = distinct (script, configuration class [, shutdown point])",
		Assumptions: []string{
			"configurations are accepted by BackOffConfig.Validate, with multiplier >= 1 and initial_interval <= max_interval (for other values the envelope of the statement is not defined)",
			"the delay chosen by the retry sender is read from its log line 'Exporting failed. Will retry the request after interval.' (field interval); a retry without a parsable line is inconclusive",
			"the exponential interval is accepted in both readings, initial*multiplier^k capped at max_interval and the integer-nanosecond iteration of the back-off library, with (2+k) ns slack",
			"budget and deadline decisions are judged only when harness timestamps bracket the decision clearly on one side; cancellation of a request that has no deadline is only judged when the pending wait is long",
			"a retry counts as made after shutdown only if the failed attempt before it returned after Shutdown() had returned (whole decision window after the shutdown)",
		},
		TrustedBase:   []string{"zap field encoding of the interval", "time.Duration String/ParseDuration round trip", "Go race detector (race variant)"},
		Shards:        func(string) int { return 16 },
		Variants:      func(string) []string { return []string{"plain", "race"} },
		MinNontrivial: func(tier string) int { return map[string]int{"quick": 10000, "thorough": 200000}[tier] },
		ShardTimeout: func(tier string) time.Duration {
			if tier == "thorough" {
				return 45 * time.Minute
			}
			return 10 * time.Minute
		},
		Run:        run,
		MaxSamples: 3,
	})
}
