package main

// Signal kits: one exporterhelper exporter per signal whose export function hands every attempt to the case's
// handler and turns the scripted outcome into the error a backend client would return (plain error, permanent
// error, throttle error, partial-failure error carrying the undelivered subset, context error).

import (
	"context"
	"errors"
	"fmt"
	"time"

	"go.opentelemetry.io/collector/component"
	"go.opentelemetry.io/collector/consumer/consumererror"
	"go.opentelemetry.io/collector/consumer/consumererror/xconsumererror"
	"go.opentelemetry.io/collector/exporter"
	"go.opentelemetry.io/collector/exporter/exporterhelper"
	"go.opentelemetry.io/collector/exporter/exporterhelper/xexporterhelper"
	"go.opentelemetry.io/collector/pdata/plog"
	"go.opentelemetry.io/collector/pdata/pmetric"
	"go.opentelemetry.io/collector/pdata/pprofile"
	"go.opentelemetry.io/collector/pdata/ptrace"
)

type inst struct {
	comp    component.Component
	consume func(ctx context.Context, ids []string) error
}

type kit struct {
	name  string
	build func(set exporter.Settings, h *handler, opts []exporterhelper.Option) (*inst, error)
	// idsOfBytes decodes a stored request (persistent queue image) and returns its item ids, nil if the bytes
	// are not a payload of this signal carrying harness ids.
	idsOfBytes func(b []byte) []string
}

var (
	errTransient = errors.New("backend: transient failure")
	errPermBase  = errors.New("backend: permanent failure")
	errThrottle  = errors.New("backend: throttled")
	errPartial   = errors.New("backend: partial failure")
)

// decision is what the handler tells the kit to return for the attempt.
type decision struct {
	kind  okind
	delay time.Duration   // throttle
	keep  map[string]bool // partial: ids that remain undelivered
	ctx   error           // context error to return
}

// finish builds the error for a decision; mkPartial wraps err around the remaining payload and reports its
// encoding and ids.
func finish(h *handler, a *attemptRec, d decision, mkPartial func(err error, keep map[string]bool) (error, []byte, []string)) error {
	var err error
	switch d.kind {
	case oOK:
	case oTransient:
		err = errTransient
	case oPermanent:
		err = consumererror.NewPermanent(errPermBase)
	case oThrottle:
		err = exporterhelper.NewThrottleRetry(errThrottle, d.delay)
	case oPartial:
		var b []byte
		var ids []string
		err, b, ids = mkPartial(errPartial, d.keep)
		h.expectNext(b, ids)
	case oThrottlePartial:
		var b []byte
		var ids []string
		err, b, ids = mkPartial(errPartial, d.keep)
		err = exporterhelper.NewThrottleRetry(err, d.delay)
		h.expectNext(b, ids)
	case oAttemptTimeout, oReqExpiry, oCancel:
		err = d.ctx
		if err == nil {
			err = context.DeadlineExceeded
		}
	}
	h.leave(a, err)
	return err
}

// payload layout shared by all signals: ids are dealt round-robin to 2 resources x 2 scopes.
func slot(i int) (res, scope int) { return i % 2, (i / 2) % 2 }

// ---------------------------------------------------------------------------------------------------

var logsM = &plog.ProtoMarshaler{}

func mkLogs(ids []string) plog.Logs {
	ld := plog.NewLogs()
	for r := 0; r < 2; r++ {
		rl := ld.ResourceLogs().AppendEmpty()
		rl.Resource().Attributes().PutInt("res", int64(r))
		rl.SetSchemaUrl(fmt.Sprintf("schema/res/%d", r))
		for s := 0; s < 2; s++ {
			sl := rl.ScopeLogs().AppendEmpty()
			sl.Scope().SetName(fmt.Sprintf("scope%d.%d", r, s))
		}
	}
	for i, id := range ids {
		r, s := slot(i)
		lr := ld.ResourceLogs().At(r).ScopeLogs().At(s).LogRecords().AppendEmpty()
		lr.Body().SetStr(id)
		lr.Attributes().PutStr("id", id)
	}
	return ld
}

func logIDs(ld plog.Logs) []string {
	out := []string{}
	for i := 0; i < ld.ResourceLogs().Len(); i++ {
		rl := ld.ResourceLogs().At(i)
		for j := 0; j < rl.ScopeLogs().Len(); j++ {
			l := rl.ScopeLogs().At(j).LogRecords()
			for k := 0; k < l.Len(); k++ {
				out = append(out, l.At(k).Body().Str())
			}
		}
	}
	return out
}

var logsKit = kit{
	name: "logs",
	build: func(set exporter.Settings, h *handler, opts []exporterhelper.Option) (*inst, error) {
		exp, err := exporterhelper.NewLogs(context.Background(), set, struct{}{}, func(ctx context.Context, ld plog.Logs) error {
			b, _ := logsM.MarshalLogs(ld)
			a, d := h.enter(ctx, logIDs(ld), b)
			return finish(h, a, d, func(err error, keep map[string]bool) (error, []byte, []string) {
				rem := plog.NewLogs()
				ld.CopyTo(rem)
				for i := 0; i < rem.ResourceLogs().Len(); i++ {
					rl := rem.ResourceLogs().At(i)
					for j := 0; j < rl.ScopeLogs().Len(); j++ {
						rl.ScopeLogs().At(j).LogRecords().RemoveIf(func(lr plog.LogRecord) bool { return !keep[lr.Body().Str()] })
					}
				}
				rb, _ := logsM.MarshalLogs(rem)
				return consumererror.NewLogs(err, rem), rb, logIDs(rem)
			})
		}, opts...)
		if err != nil {
			return nil, err
		}
		return &inst{comp: exp, consume: func(ctx context.Context, ids []string) error { return exp.ConsumeLogs(ctx, mkLogs(ids)) }}, nil
	},
	idsOfBytes: func(b []byte) []string {
		ld, err := (&plog.ProtoUnmarshaler{}).UnmarshalLogs(b)
		if err != nil {
			return nil
		}
		return logIDs(ld)
	},
}

// ---------------------------------------------------------------------------------------------------

var tracesM = &ptrace.ProtoMarshaler{}

func mkTraces(ids []string) ptrace.Traces {
	td := ptrace.NewTraces()
	for r := 0; r < 2; r++ {
		rs := td.ResourceSpans().AppendEmpty()
		rs.Resource().Attributes().PutInt("res", int64(r))
		rs.SetSchemaUrl(fmt.Sprintf("schema/res/%d", r))
		for s := 0; s < 2; s++ {
			rs.ScopeSpans().AppendEmpty().Scope().SetName(fmt.Sprintf("scope%d.%d", r, s))
		}
	}
	for i, id := range ids {
		r, s := slot(i)
		sp := td.ResourceSpans().At(r).ScopeSpans().At(s).Spans().AppendEmpty()
		sp.SetName(id)
		sp.Attributes().PutStr("id", id)
	}
	return td
}

func traceIDs(td ptrace.Traces) []string {
	out := []string{}
	for i := 0; i < td.ResourceSpans().Len(); i++ {
		rs := td.ResourceSpans().At(i)
		for j := 0; j < rs.ScopeSpans().Len(); j++ {
			l := rs.ScopeSpans().At(j).Spans()
			for k := 0; k < l.Len(); k++ {
				out = append(out, l.At(k).Name())
			}
		}
	}
	return out
}

var tracesKit = kit{
	name: "traces",
	build: func(set exporter.Settings, h *handler, opts []exporterhelper.Option) (*inst, error) {
		exp, err := exporterhelper.NewTraces(context.Background(), set, struct{}{}, func(ctx context.Context, td ptrace.Traces) error {
			b, _ := tracesM.MarshalTraces(td)
			a, d := h.enter(ctx, traceIDs(td), b)
			return finish(h, a, d, func(err error, keep map[string]bool) (error, []byte, []string) {
				rem := ptrace.NewTraces()
				td.CopyTo(rem)
				for i := 0; i < rem.ResourceSpans().Len(); i++ {
					rs := rem.ResourceSpans().At(i)
					for j := 0; j < rs.ScopeSpans().Len(); j++ {
						rs.ScopeSpans().At(j).Spans().RemoveIf(func(sp ptrace.Span) bool { return !keep[sp.Name()] })
					}
				}
				rb, _ := tracesM.MarshalTraces(rem)
				return consumererror.NewTraces(err, rem), rb, traceIDs(rem)
			})
		}, opts...)
		if err != nil {
			return nil, err
		}
		return &inst{comp: exp, consume: func(ctx context.Context, ids []string) error { return exp.ConsumeTraces(ctx, mkTraces(ids)) }}, nil
	},
	idsOfBytes: func(b []byte) []string {
		td, err := (&ptrace.ProtoUnmarshaler{}).UnmarshalTraces(b)
		if err != nil {
			return nil
		}
		return traceIDs(td)
	},
}

// ---------------------------------------------------------------------------------------------------

var metricsM = &pmetric.ProtoMarshaler{}

func mkMetrics(ids []string) pmetric.Metrics {
	md := pmetric.NewMetrics()
	for r := 0; r < 2; r++ {
		rm := md.ResourceMetrics().AppendEmpty()
		rm.Resource().Attributes().PutInt("res", int64(r))
		rm.SetSchemaUrl(fmt.Sprintf("schema/res/%d", r))
		for s := 0; s < 2; s++ {
			rm.ScopeMetrics().AppendEmpty().Scope().SetName(fmt.Sprintf("scope%d.%d", r, s))
		}
	}
	for i, id := range ids {
		r, s := slot(i)
		m := md.ResourceMetrics().At(r).ScopeMetrics().At(s).Metrics().AppendEmpty()
		m.SetName(id)
		m.SetUnit("u")
		if i%2 == 0 {
			m.SetEmptyGauge().DataPoints().AppendEmpty().SetIntValue(int64(i))
		} else {
			sum := m.SetEmptySum()
			sum.SetIsMonotonic(true)
			sum.SetAggregationTemporality(pmetric.AggregationTemporalityCumulative)
			sum.DataPoints().AppendEmpty().SetDoubleValue(float64(i))
		}
	}
	return md
}

func metricIDs(md pmetric.Metrics) []string {
	out := []string{}
	for i := 0; i < md.ResourceMetrics().Len(); i++ {
		rm := md.ResourceMetrics().At(i)
		for j := 0; j < rm.ScopeMetrics().Len(); j++ {
			l := rm.ScopeMetrics().At(j).Metrics()
			for k := 0; k < l.Len(); k++ {
				out = append(out, l.At(k).Name())
			}
		}
	}
	return out
}

var metricsKit = kit{
	name: "metrics",
	build: func(set exporter.Settings, h *handler, opts []exporterhelper.Option) (*inst, error) {
		exp, err := exporterhelper.NewMetrics(context.Background(), set, struct{}{}, func(ctx context.Context, md pmetric.Metrics) error {
			b, _ := metricsM.MarshalMetrics(md)
			a, d := h.enter(ctx, metricIDs(md), b)
			return finish(h, a, d, func(err error, keep map[string]bool) (error, []byte, []string) {
				rem := pmetric.NewMetrics()
				md.CopyTo(rem)
				for i := 0; i < rem.ResourceMetrics().Len(); i++ {
					rm := rem.ResourceMetrics().At(i)
					for j := 0; j < rm.ScopeMetrics().Len(); j++ {
						rm.ScopeMetrics().At(j).Metrics().RemoveIf(func(m pmetric.Metric) bool { return !keep[m.Name()] })
					}
				}
				rb, _ := metricsM.MarshalMetrics(rem)
				return consumererror.NewMetrics(err, rem), rb, metricIDs(rem)
			})
		}, opts...)
		if err != nil {
			return nil, err
		}
		return &inst{comp: exp, consume: func(ctx context.Context, ids []string) error { return exp.ConsumeMetrics(ctx, mkMetrics(ids)) }}, nil
	},
	idsOfBytes: func(b []byte) []string {
		md, err := (&pmetric.ProtoUnmarshaler{}).UnmarshalMetrics(b)
		if err != nil {
			return nil
		}
		return metricIDs(md)
	},
}

// ---------------------------------------------------------------------------------------------------

var profilesM = &pprofile.ProtoMarshaler{}

func mkProfiles(ids []string) pprofile.Profiles {
	pd := pprofile.NewProfiles()
	for r := 0; r < 2; r++ {
		rp := pd.ResourceProfiles().AppendEmpty()
		rp.Resource().Attributes().PutInt("res", int64(r))
		rp.SetSchemaUrl(fmt.Sprintf("schema/res/%d", r))
		for s := 0; s < 2; s++ {
			rp.ScopeProfiles().AppendEmpty().Scope().SetName(fmt.Sprintf("scope%d.%d", r, s))
		}
	}
	for i, id := range ids {
		r, s := slot(i)
		p := pd.ResourceProfiles().At(r).ScopeProfiles().At(s).Profiles().AppendEmpty()
		p.SetOriginalPayloadFormat(id)
		p.Sample().AppendEmpty()
	}
	return pd
}

func profileIDs(pd pprofile.Profiles) []string {
	out := []string{}
	for i := 0; i < pd.ResourceProfiles().Len(); i++ {
		rp := pd.ResourceProfiles().At(i)
		for j := 0; j < rp.ScopeProfiles().Len(); j++ {
			l := rp.ScopeProfiles().At(j).Profiles()
			for k := 0; k < l.Len(); k++ {
				out = append(out, l.At(k).OriginalPayloadFormat())
			}
		}
	}
	return out
}

var profilesKit = kit{
	name: "profiles",
	build: func(set exporter.Settings, h *handler, opts []exporterhelper.Option) (*inst, error) {
		exp, err := xexporterhelper.NewProfilesExporter(context.Background(), set, struct{}{}, func(ctx context.Context, pd pprofile.Profiles) error {
			b, _ := profilesM.MarshalProfiles(pd)
			a, d := h.enter(ctx, profileIDs(pd), b)
			return finish(h, a, d, func(err error, keep map[string]bool) (error, []byte, []string) {
				rem := pprofile.NewProfiles()
				pd.CopyTo(rem)
				for i := 0; i < rem.ResourceProfiles().Len(); i++ {
					rp := rem.ResourceProfiles().At(i)
					for j := 0; j < rp.ScopeProfiles().Len(); j++ {
						rp.ScopeProfiles().At(j).Profiles().RemoveIf(func(p pprofile.Profile) bool { return !keep[p.OriginalPayloadFormat()] })
					}
				}
				rb, _ := profilesM.MarshalProfiles(rem)
				return xconsumererror.NewProfiles(err, rem), rb, profileIDs(rem)
			})
		}, opts...)
		if err != nil {
			return nil, err
		}
		return &inst{comp: exp, consume: func(ctx context.Context, ids []string) error { return exp.ConsumeProfiles(ctx, mkProfiles(ids)) }}, nil
	},
	idsOfBytes: func(b []byte) []string {
		pd, err := (&pprofile.ProtoUnmarshaler{}).UnmarshalProfiles(b)
		if err != nil {
			return nil
		}
		return profileIDs(pd)
	},
}

var kits = []kit{logsKit, tracesKit, metricsKit, profilesKit}
