package main

// A small in-memory storage extension for the persistent-queue scenarios: the durable medium outlives the
// exporter incarnation, every call is atomic, the number of calls is a logical progress counter.

import (
	"context"
	"sync"
	"sync/atomic"

	"go.opentelemetry.io/collector/component"
	"go.opentelemetry.io/collector/extension/xextension/storage"
)

type memStore struct {
	mu   sync.Mutex
	live map[string][]byte
	ops  atomic.Int64
}

func newMemStore() *memStore { return &memStore{live: map[string][]byte{}} }

func (s *memStore) Get(_ context.Context, k string) ([]byte, error) {
	s.mu.Lock()
	defer s.mu.Unlock()
	s.ops.Add(1)
	v, ok := s.live[k]
	if !ok {
		return nil, nil
	}
	return append([]byte(nil), v...), nil
}

func (s *memStore) Set(_ context.Context, k string, v []byte) error {
	s.mu.Lock()
	defer s.mu.Unlock()
	s.ops.Add(1)
	s.live[k] = append([]byte(nil), v...)
	return nil
}

func (s *memStore) Delete(_ context.Context, k string) error {
	s.mu.Lock()
	defer s.mu.Unlock()
	s.ops.Add(1)
	delete(s.live, k)
	return nil
}

func (s *memStore) Batch(_ context.Context, ops ...*storage.Operation) error {
	s.mu.Lock()
	defer s.mu.Unlock()
	s.ops.Add(1)
	for _, op := range ops {
		switch op.Type {
		case storage.Get:
			if v, ok := s.live[op.Key]; ok {
				op.Value = append([]byte(nil), v...)
			} else {
				op.Value = nil
			}
		case storage.Set:
			s.live[op.Key] = append([]byte(nil), op.Value...)
		case storage.Delete:
			delete(s.live, op.Key)
		}
	}
	return nil
}

func (s *memStore) Close(context.Context) error { return nil }

// values returns a copy of all stored values.
func (s *memStore) values() [][]byte {
	s.mu.Lock()
	defer s.mu.Unlock()
	out := make([][]byte, 0, len(s.live))
	for _, v := range s.live {
		out = append(out, append([]byte(nil), v...))
	}
	return out
}

func (s *memStore) keys() []string {
	s.mu.Lock()
	defer s.mu.Unlock()
	out := make([]string, 0, len(s.live))
	for k := range s.live {
		out = append(out, k)
	}
	return out
}

type storeExt struct {
	component.StartFunc
	component.ShutdownFunc
	s *memStore
}

func (e *storeExt) GetClient(context.Context, component.Kind, component.ID, string) (storage.Client, error) {
	return e.s, nil
}

var storeID = component.MustNewID("verifstore")

type storeHost struct{ e *storeExt }

func (h storeHost) GetExtensions() map[component.ID]component.Component {
	return map[component.ID]component.Component{storeID: h.e}
}
