// C12 — config resolution: right-biased merge; exact, escapable, terminating expansion.
//
// Monitor: every case builds a real confmap.Resolver (harness provider "vv" with table-driven values
// returned through NewRetrievedFromYAML, plus the real env and yaml providers, default scheme
// off / vv / env), resolves a generated source list and compares
//   - Conf.ToStringMap / Conf.Get,
//   - Conf.Unmarshal into typed targets (any, string, []any, []string, map[string]any,
//     map[string]string, and a field of the value's own kind)
//
// with two independent reference interpreters (ref.go) and, for source lists, with a recursive
// right-biased reference merge. The code under test runs in a sub-child whose per-case CPU time and
// live heap are watched: a resolution that does not come back is a violation with the input as
// witness (the input is reported to the shard process before the call).
package main

import (
	"context"
	"fmt"
	"go.opentelemetry.io/collector/component"
	"math/rand"
	"os"
	"path/filepath"
	"reflect"
	"sort"
	"strings"
	"time"

	yaml "gopkg.in/yaml.v3"

	"go.opentelemetry.io/collector/confmap"
	"go.opentelemetry.io/collector/confmap/provider/envprovider"
	"go.opentelemetry.io/collector/confmap/provider/fileprovider"
	"go.opentelemetry.io/collector/confmap/provider/yamlprovider"
	"go.opentelemetry.io/collector/verifharness/lib/confgen"
	"go.opentelemetry.io/collector/verifharness/lib/driver"
)

func canonScalar(t any) string { return confgen.Canon(t) }

// ---------------------------------------------------------------------------------------------
// harness provider

type caseData struct {
	vv      map[string]string // provider table of the case (static + generated)
	docs    map[string]any    // ROOT / SRCn: either a YAML text (string) or a Go map handed over directly
	lookups int
	// re-resolution cases: retrievals per uri and watcher functions of the current resolution, closes so far
	perURI   map[string]int
	watchers []confmap.WatcherFunc
	closes   int
}

func (cd *caseData) note(uri string, w confmap.WatcherFunc) []confmap.RetrievedOption {
	cd.lookups++
	if cd.perURI == nil {
		return nil
	}
	cd.perURI[uri]++
	if w != nil {
		cd.watchers = append(cd.watchers, w)
	}
	return []confmap.RetrievedOption{confmap.WithRetrievedClose(func(context.Context) error { cd.closes++; return nil })}
}

type vvProvider struct{ cur *caseData }

var theWorker *confgen.Worker

// counted wraps a real provider so that its retrievals are logical steps of the case too.
type counted struct {
	confmap.Provider
	cur *caseData
}

func (p *counted) Retrieve(ctx context.Context, uri string, w confmap.WatcherFunc) (*confmap.Retrieved, error) {
	p.cur.note(uri, w)
	theWorker.Step()
	return p.Provider.Retrieve(ctx, uri, w)
}

func (p *vvProvider) Retrieve(_ context.Context, uri string, w confmap.WatcherFunc) (*confmap.Retrieved, error) {
	k := strings.TrimPrefix(uri, "vv:")
	opts := p.cur.note(uri, w)
	theWorker.Step()
	if d, ok := p.cur.docs[k]; ok {
		switch x := d.(type) {
		case string:
			return confmap.NewRetrievedFromYAML([]byte(x), opts...)
		case *changingDoc:
			// a source whose content differs at every retrieval
			m := x.Seq[len(x.Seq)-1]
			if x.n < len(x.Seq) {
				m = x.Seq[x.n]
			}
			x.n++
			x.returned = append(x.returned, m)
			return confmap.NewRetrieved(m, opts...)
		default:
			return confmap.NewRetrieved(x, opts...)
		}
	}
	v, ok := p.cur.vv[k]
	if !ok {
		return nil, fmt.Errorf("vv: no such key %q", k)
	}
	return confmap.NewRetrievedFromYAML([]byte(v), opts...)
}
func (*vvProvider) Scheme() string                 { return "vv" }
func (*vvProvider) Shutdown(context.Context) error { return nil }

func newResolver(cd *caseData, uris []string, def string) (*confmap.Resolver, error) {
	return confmap.NewResolver(confmap.ResolverSettings{
		URIs: uris,
		ProviderFactories: []confmap.ProviderFactory{
			confmap.NewProviderFactory(func(confmap.ProviderSettings) confmap.Provider { return &vvProvider{cd} }),
			confmap.NewProviderFactory(func(s confmap.ProviderSettings) confmap.Provider {
				return &counted{envprovider.NewFactory().Create(s), cd}
			}),
			confmap.NewProviderFactory(func(s confmap.ProviderSettings) confmap.Provider {
				return &counted{yamlprovider.NewFactory().Create(s), cd}
			}),
			confmap.NewProviderFactory(func(s confmap.ProviderSettings) confmap.Provider {
				return &counted{fileprovider.NewFactory().Create(s), cd}
			}),
		},
		DefaultScheme: def,
	})
}

func resolve(cd *caseData, uris []string, def string) (conf *confmap.Conf, err error, pv any, stack string) {
	pv, stack = driver.Catch(func() {
		var r *confmap.Resolver
		r, err = newResolver(cd, uris, def)
		if err != nil {
			return
		}
		conf, err = r.Resolve(context.Background())
		_ = r.Shutdown(context.Background())
	})
	return
}

// ---------------------------------------------------------------------------------------------
// expansion cases

type expandInput struct {
	Kind  string            `json:"kind"`
	Def   string            `json:"default_scheme"`
	S     string            `json:"string"`
	Extra map[string]string `json:"extra_provider_values,omitempty"`
	Mode  string            `json:"root_mode"`
	Note  string            `json:"note,omitempty"`
}

var rootModes = []string{"direct-map", "vv-yaml", "vv-yaml-plain", "yaml-uri", "shadowed-bad-ref"}

// position results read from the implementation
type obsPos struct {
	name   string
	got    any
	err    string
	panicv string
	site   string
	skip   bool
}

type observation struct {
	resolveErr string
	pos        []*obsPos
}

func buildRoot(s string) map[string]any {
	return map[string]any{"k": s, "s": s, "l": []any{s, "lit"}, "ls": []any{s, "lit"}, "m": map[string]any{"x": s}, "ms": map[string]any{"x": s},
		"lo": []any{map[string]any{"x": s}}, "mo": map[string]any{"a": map[string]any{"x": s}}, "ps": s}
}

func decodeInto(conf *confmap.Conf, name string, target any, read func() any) *obsPos {
	p := &obsPos{name: name}
	var err error
	pv, stack := driver.Catch(func() { err = conf.Unmarshal(target, confmap.WithIgnoreUnused()) })
	switch {
	case pv != nil:
		p.panicv, p.site = fmt.Sprint(pv), driver.PanicSite(stack)
	case err != nil:
		p.err = err.Error()
	default:
		p.got = read()
	}
	return p
}

func observe(conf *confmap.Conf, kind ykind) []*obsPos {
	var out []*obsPos
	var sm map[string]any
	pv, stack := driver.Catch(func() { sm = conf.ToStringMap() })
	if pv != nil {
		return []*obsPos{{name: "map:k", panicv: fmt.Sprint(pv), site: driver.PanicSite(stack)}}
	}
	idx := func(v any, i int) any {
		if l, ok := v.([]any); ok && i < len(l) {
			return l[i]
		}
		return fmt.Sprintf("<not a list of >%d: %v>", i, v)
	}
	key := func(v any, k string) any {
		if m, ok := v.(map[string]any); ok {
			return m[k]
		}
		return fmt.Sprintf("<not a map: %v>", v)
	}
	out = append(out,
		&obsPos{name: "map:k", got: sm["k"]}, &obsPos{name: "map:s", got: sm["s"]},
		&obsPos{name: "map:l", got: idx(sm["l"], 0)}, &obsPos{name: "map:ls", got: idx(sm["ls"], 0)},
		&obsPos{name: "map:m", got: key(sm["m"], "x")}, &obsPos{name: "map:ms", got: key(sm["ms"], "x")},
		&obsPos{name: "get:k", got: conf.Get("k")}, &obsPos{name: "get:m::x", got: conf.Get("m::x")})
	{
		var t struct {
			K any `mapstructure:"k"`
		}
		out = append(out, decodeInto(conf, "any", &t, func() any { return t.K }))
	}
	{
		var t struct {
			S string `mapstructure:"s"`
		}
		out = append(out, decodeInto(conf, "string", &t, func() any { return t.S }))
	}
	{
		var t struct {
			L []any `mapstructure:"l"`
		}
		out = append(out, decodeInto(conf, "[]any", &t, func() any { return idx(t.L, 0) }))
	}
	{
		var t struct {
			L []string `mapstructure:"ls"`
		}
		out = append(out, decodeInto(conf, "[]string", &t, func() any {
			if len(t.L) > 0 {
				return t.L[0]
			}
			return "<empty []string>"
		}))
	}
	{
		var t struct {
			M map[string]any `mapstructure:"m"`
		}
		out = append(out, decodeInto(conf, "map[string]any", &t, func() any { return t.M["x"] }))
	}
	{
		var t struct {
			M map[string]string `mapstructure:"ms"`
		}
		out = append(out, decodeInto(conf, "map[string]string", &t, func() any { return t.M["x"] }))
	}
	// The shapes real components use: the collector unmarshals every component section into a non-nil
	// component.Config (an interface holding a pointer to the component's struct), components embed
	// (squash) shared structs, keep sub-structs behind pointers, use named string types and implement
	// confmap.Unmarshaler on top of a sub-Conf. A string field must get the original text in all of them.
	{
		t := &heldCfg{}
		var held any = t
		out = append(out, decodeInto(conf, "held:string", &held, func() any { return t.S }))
		t2 := &heldCfg{}
		var held2 any = t2
		out = append(out, decodeInto(conf, "held:[]string", &held2, func() any {
			if len(t2.LS) > 0 {
				return t2.LS[0]
			}
			return "<empty []string>"
		}))
		t3 := &heldCfg{}
		var held3 any = t3
		out = append(out, decodeInto(conf, "held:map[string]string", &held3, func() any { return t3.MS["x"] }))
		t4 := &heldCfg{}
		var held4 any = t4
		out = append(out, decodeInto(conf, "held:any", &held4, func() any { return t4.K }))
	}
	{
		var t struct {
			squashed `mapstructure:",squash"`
		}
		out = append(out, decodeInto(conf, "squash:string", &t, func() any { return t.S }))
	}
	{
		var t struct {
			MS *struct {
				X string `mapstructure:"x"`
			} `mapstructure:"ms"`
		}
		out = append(out, decodeInto(conf, "ptr-struct:string", &t, func() any {
			if t.MS == nil {
				return "<nil sub-struct>"
			}
			return t.MS.X
		}))
	}
	{
		// a string field is a string field wherever its struct sits: in a list of sub-configurations, in a map of them,
		// or behind a pointer (optional setting)
		var t struct {
			LO []struct {
				X string `mapstructure:"x"`
			} `mapstructure:"lo"`
		}
		out = append(out, decodeInto(conf, "slice-of-struct:string", &t, func() any {
			if len(t.LO) == 0 {
				return "<empty list>"
			}
			return t.LO[0].X
		}))
		var t2 struct {
			MO map[string]struct {
				X string `mapstructure:"x"`
			} `mapstructure:"mo"`
		}
		out = append(out, decodeInto(conf, "map-of-struct:string", &t2, func() any { return t2.MO["a"].X }))
		// a map of strings keyed by a type that is read from text (component ids in a `headers`-like map)
		var t4 struct {
			MS map[component.ID]string `mapstructure:"ms"`
		}
		out = append(out, decodeInto(conf, "map-keyed-by-id:string", &t4, func() any { return t4.MS[component.MustNewID("x")] }))
		var t3 struct {
			PS *string `mapstructure:"ps"`
		}
		out = append(out, decodeInto(conf, "ptr:string", &t3, func() any {
			if t3.PS == nil {
				return "<nil>"
			}
			return *t3.PS
		}))
	}
	{
		var t struct {
			S namedStr `mapstructure:"s"`
		}
		out = append(out, decodeInto(conf, "named:string", &t, func() any { return string(t.S) }))
	}
	{
		t := &selfUnm{}
		var held any = t
		out = append(out, decodeInto(conf, "unmarshaler:string", &held, func() any { return t.MS.X }))
	}
	{
		p := &obsPos{name: "sub:string"}
		var t struct {
			X string `mapstructure:"x"`
		}
		var err error
		pv, stack := driver.Catch(func() {
			var sub *confmap.Conf
			if sub, err = conf.Sub("ms"); err == nil {
				err = sub.Unmarshal(&t, confmap.WithIgnoreUnused())
			}
		})
		switch {
		case pv != nil:
			p.panicv, p.site = fmt.Sprint(pv), driver.PanicSite(stack)
		case err != nil:
			p.err = err.Error()
		default:
			p.got = t.X
		}
		out = append(out, p)
	}
	switch kind {
	case kInt:
		var t struct {
			K int64 `mapstructure:"k"`
		}
		out = append(out, decodeInto(conf, "typed:int", &t, func() any { return t.K }))
		var tb struct {
			K bool `mapstructure:"k"`
		}
		out = append(out, decodeInto(conf, "typed:int-into-bool", &tb, func() any { return tb.K }))
	case kFloat:
		var t struct {
			K float64 `mapstructure:"k"`
		}
		out = append(out, decodeInto(conf, "typed:float", &t, func() any { return t.K }))
	case kBool:
		var t struct {
			K bool `mapstructure:"k"`
		}
		out = append(out, decodeInto(conf, "typed:bool", &t, func() any { return t.K }))
	case kMap:
		var t struct {
			K map[string]any `mapstructure:"k"`
		}
		out = append(out, decodeInto(conf, "typed:map", &t, func() any { return t.K }))
	case kList:
		var t struct {
			K []any `mapstructure:"k"`
		}
		out = append(out, decodeInto(conf, "typed:list", &t, func() any { return t.K }))
	case kStr:
		var tb struct {
			K bool `mapstructure:"k"`
		}
		out = append(out, decodeInto(conf, "typed:string-into-bool", &tb, func() any { return tb.K }))
	}
	return out
}

type heldCfg struct {
	K  any               `mapstructure:"k"`
	S  string            `mapstructure:"s"`
	LS []string          `mapstructure:"ls"`
	MS map[string]string `mapstructure:"ms"`
}

type squashed struct {
	S string `mapstructure:"s"`
}

type namedStr string

// selfUnm unmarshals itself the way components with a custom Unmarshal do: defaults first, then a sub-Conf.
type selfUnm struct {
	MS struct {
		X string `mapstructure:"x"`
	} `mapstructure:"ms"`
	S string `mapstructure:"s"`
}

func (u *selfUnm) Unmarshal(c *confmap.Conf) error {
	if err := c.Unmarshal(u, confmap.WithIgnoreUnused()); err != nil {
		return err
	}
	sub, err := c.Sub("ms")
	if err != nil {
		return err
	}
	return sub.Unmarshal(&u.MS, confmap.WithIgnoreUnused())
}

func treeKind(t any) ykind {
	switch x := t.(type) {
	case *xnode:
		return treeKind(x.Val)
	case string:
		return kStr
	case int64, int:
		return kInt
	case float64:
		return kFloat
	case bool:
		return kBool
	case nil:
		return kNil
	case time.Time:
		return kTime
	case []any:
		return kList
	case map[string]any:
		return kMap
	}
	return kUnsupported
}

type mismatch struct {
	pos, kind  string
	want, got  string
	valueKind  string
	implErr    string
	wantsError bool
}

// wantAt returns the canonical expectation for a position; ok=false when the position is not judged.
func wantAt(tree any, pos string) (want string, wantErr bool, ok bool) {
	av := confgen.Canon(anyView(tree))
	sv, hasS := strView(tree)
	switch pos {
	case "map:k", "map:s", "map:l", "map:ls", "map:m", "map:ms", "get:k", "get:m::x", "any", "held:any", "[]any", "map[string]any", "typed:int", "typed:float", "typed:bool", "typed:map", "typed:list":
		if pos == "held:any" && !hasS {
			// the held struct also has string-typed fields fed by the same value: a value without an
			// original text (a provider map/list that needed further expansion) legitimately fails there
			return "", false, false
		}
		return av, false, true
	case "string", "[]string", "map[string]string", "held:string", "held:[]string", "held:map[string]string", "squash:string",
		"ptr-struct:string", "named:string", "unmarshaler:string", "sub:string", "slice-of-struct:string", "map-of-struct:string", "ptr:string", "map-keyed-by-id:string":
		if !hasS {
			return "", false, false
		}
		return confgen.Canon(sv), false, true
	case "typed:int-into-bool", "typed:string-into-bool":
		// RFC table: "Error: mapping integer to bool" / "mapping string to bool"
		return "", true, true
	}
	return "", false, false
}

// compare returns the first position whose (unwrapped) value differs from the expectation.
func compare(tree any, obs []*obsPos, skipTyped bool) *mismatch {
	for _, p := range obs {
		if p.panicv != "" || p.skip || (skipTyped && strings.HasPrefix(p.name, "typed:")) {
			continue
		}
		want, wantErr, ok := wantAt(tree, p.name)
		if !ok {
			continue
		}
		if wantErr {
			if p.err == "" {
				return &mismatch{pos: p.name, kind: "missing-decode-error", want: "an error", got: confgen.Canon(p.got), wantsError: true}
			}
			continue
		}
		if p.err != "" {
			return &mismatch{pos: p.name, kind: "decode-error", want: want, got: "error: " + p.err, implErr: p.err}
		}
		if p.name == "ptr:string" && fmt.Sprint(p.got) == "<nil>" && anyView(tree) == nil {
			continue // an optional (*string) setting given a null value stays unset: a nil pointer is the typed reading of null
		}
		if got := confgen.Canon(confgen.Unwrap(p.got)); got != want {
			return &mismatch{pos: p.name, kind: "value", want: want, got: got}
		}
	}
	return nil
}

func firstLeak(obs []*obsPos) *obsPos {
	for _, p := range obs {
		if p.panicv == "" && p.err == "" && strings.Contains(confgen.Canon(p.got), "WRAP<") {
			return p
		}
	}
	return nil
}

func clip(s string, n int) string {
	if len(s) > n {
		return s[:n] + "…"
	}
	return s
}

func hasSyntax(s string) bool { return strings.Contains(s, "$") }

func runExpand(w *confgen.Worker, i int64, in *expandInput, hand *directed) {
	world := &world{vv: staticVVMap(), env: staticEnv, def: in.Def}
	for k, v := range in.Extra {
		world.vv[k] = v
	}
	ex := evaluate(world, in.S)
	if hand != nil {
		hand.selfTest(ex)
	}
	cd := &caseData{vv: world.vv, docs: map[string]any{}}
	root := buildRoot(in.S)
	uris := []string{"vv:ROOT"}
	rootOK := true
	switch in.Mode {
	case "direct-map":
		cd.docs["ROOT"] = root
	case "vv-yaml", "vv-yaml-plain", "yaml-uri", "shadowed-bad-ref":
		txt := confgen.YAML(root, confgen.YAMLOpts{PlainStrings: in.Mode == "vv-yaml-plain"})
		var back any
		if err := yaml.Unmarshal([]byte(txt), &back); err != nil || confgen.Canon(back) != confgen.Canon(root) {
			rootOK = false
		}
		cd.docs["ROOT"] = txt
		if in.Mode == "yaml-uri" {
			uris = []string{"yaml:" + txt}
		}
		if in.Mode == "shadowed-bad-ref" {
			// an earlier source whose values are replaced by the later one: merge happens before expansion
			cd.docs["SRC0"] = map[string]any{"k": "${vv:nope}", "m": map[string]any{"x": "${vv:cyc1}"}, "l": []any{"${vv:$bad}"}}
			uris = []string{"vv:SRC0", "vv:ROOT"}
		}
	}
	pre := map[string]string{"kind": "expand", "class": ex.Class, "bug_blowup": fmt.Sprint(ex.BugBlow), "cycle": fmt.Sprint(ex.Cycle), "typed_cycle": fmt.Sprint(ex.TypedCycle), "ambiguous": ex.Ambig}
	if ex.TypedCycle {
		// A cycle through a map/list value nests one level per round: the pinned code reports it, but only
		// after ~11 s CPU and ~1 GiB. It is executed once (directed case, thorough tier) with raised limits.
		fanOut := hand != nil && strings.HasPrefix(hand.note, "C12-e")
		if fanOut {
			// the self-reference occurs twice: the value doubles every round. With the standard limits (200 000 retrievals /
			// 256 MiB) this either ends with an error quickly or is a resolution that does not terminate.
		} else if hand == nil || !w.Thorough() {
			m := w.Start(i, in, pre)
			w.Disarm()
			m.Obs("not_executed:typed-nesting-cycle", 1)
			w.Done()
			return
		}
		if !fanOut {
			w.RaiseLimits(600000, 4096, 5000000)
		}
	}
	m := w.Start(i, in, pre)
	m.Evals = 1
	if !rootOK {
		w.Disarm()
		m.Inconclusive = append(m.Inconclusive, "harness YAML writer could not round-trip the root document")
		w.Done()
		return
	}
	conf, err, pv, stack := resolve(cd, uris, in.Def)
	var obs []*obsPos
	if pv == nil && err == nil {
		k := kUnsupported
		if !ex.IsErr {
			k = treeKind(ex.Tree)
		}
		obs = observe(conf, k)
	}
	w.Disarm()

	// ---- bookkeeping
	m.Obs("resolves", 1)
	m.Obs("provider_lookups", int64(cd.lookups))
	m.ObserveMax = map[string]int64{"max:case_provider_retrievals": int64(cd.lookups)}
	m.Obs("class:"+ex.Class, 1)
	m.Obs("mode:"+in.Mode, 1)
	m.Obs("ref_steps", int64(ex.Steps))
	m.Obs("ref_whole_value_expansions", int64(ex.Whole))
	m.Obs("ref_embedded_expansions", int64(ex.Embed))
	m.Obs("positions_compared", int64(len(obs)))
	if hasSyntax(in.S) {
		m.AddNontrivial("expand", in.Def, in.S, fmt.Sprint(in.Extra))
	}
	if ex.Cycle {
		m.Obs("cycles", 1)
	}
	wit := func(extra map[string]any) map[string]any {
		o := map[string]any{"input": in, "class": ex.Class}
		for k, v := range extra {
			o[k] = v
		}
		return o
	}
	if pv != nil {
		m.Violation("panic", fmt.Sprintf("Resolve panicked on %q: %v", clip(in.S, 120), pv), wit(map[string]any{"panic": fmt.Sprint(pv), "stack": clip(stack, 3000)}),
			"site", driver.PanicSite(stack), "target", "resolve", "cause", "-")
		w.Done()
		return
	}
	// panics while decoding
	for _, p := range obs {
		if p.panicv != "" {
			cause := "-"
			if (!ex.IsErr && hasNullRef(ex.Tree)) || obsHasNull(obs) {
				cause = "null-reference"
			}
			m.Violation("panic", fmt.Sprintf("decoding the resolved value of %q into a %s target panicked: %s", clip(in.S, 120), p.name, p.panicv),
				wit(map[string]any{"panic": p.panicv, "target": p.name}), "site", p.site, "target", p.name, "cause", cause)
		}
	}
	if lp := firstLeak(obs); lp != nil {
		m.Obs("wrapper_leaks", 1)
		m.Violation("expand", fmt.Sprintf("resolved value of %q read through %s contains the resolver's internal wrapper type instead of the typed value: %s", clip(in.S, 120), lp.name, clip(confgen.Canon(lp.got), 300)),
			wit(map[string]any{"pos": lp.name, "got": confgen.Canon(lp.got)}), "kind", "wrapper-leak", "class", "-", "explained", "-", "pos", posClass(lp.name))
	}
	if ex.Ambig != "" {
		m.Obs("weak_oracle:"+ex.Ambig, 1)
		w.Done()
		return
	}
	m.Obs("exact_oracle", 1)
	var mm *mismatch
	switch {
	case ex.IsErr && err == nil:
		mm = &mismatch{pos: "resolve", kind: "missing-error", want: "an error (" + ex.ErrWhy + ")", got: clip(confgen.Canon(conf.ToStringMap()["k"]), 300)}
	case !ex.IsErr && err != nil:
		mm = &mismatch{pos: "resolve", kind: "spurious-error", want: clip(confgen.Canon(anyView(ex.Tree)), 300), got: "error: " + err.Error()}
	case ex.IsErr:
		m.Obs("errors_agreed:"+ex.ErrWhy, 1)
	default:
		mm = compare(ex.Tree, obs, false)
		if mm == nil {
			m.Obs("values_agreed", 1)
			if _, isX := ex.Tree.(*xnode); isX {
				m.Obs("typed_results_agreed:"+kindNames[treeKind(ex.Tree)], 1)
			}
		}
	}
	if mm != nil {
		explained := "no"
		if ex.Class != "plain" && (ex.Class != "duplicate" || mm.kind == "value") {
			switch {
			case ex.BugErr && err != nil:
				explained = "C12-a"
			case !ex.BugErr && err == nil && compare(ex.BugTree, obs, true) == nil: // typed targets were chosen for the kind the strict reference expects
				explained = "C12-a"
			}
		}
		m.Violation("expand", fmt.Sprintf("%q (default scheme %q) at %s: want %s, got %s", clip(in.S, 120), in.Def, mm.pos, clip(mm.want, 200), clip(mm.got, 200)),
			wit(map[string]any{"pos": mm.pos, "want": mm.want, "got": mm.got, "explained_by_defect_model": explained}),
			"kind", mm.kind, "class", ex.Class, "explained", explained, "pos", posClass(mm.pos))
	}
	if i < 3 && w.Args.Shard == 1 {
		m.Sample = map[string]any{"input": in, "reference": map[string]any{"error": ex.IsErr, "value": confgen.Canon(anyView(ex.Tree)), "class": ex.Class, "steps": ex.Steps}}
	}
	w.Done()
}

// hasNullRef tells whether the expected tree contains a whole-value reference that resolved to null.
func hasNullRef(t any) bool {
	switch x := t.(type) {
	case *xnode:
		return x.Val == nil || hasNullRef(x.Val)
	case []any:
		for _, e := range x {
			if hasNullRef(e) {
				return true
			}
		}
	case map[string]any:
		for _, e := range x {
			if hasNullRef(e) {
				return true
			}
		}
	}
	return false
}

// obsHasNull tells whether the value the resolver produced (read through ToStringMap, wrappers
// included) is, or contains, a reference that resolved to null.
func obsHasNull(obs []*obsPos) bool {
	var has func(v any, top bool) bool
	has = func(v any, top bool) bool {
		switch x := v.(type) {
		case nil:
			return top
		case map[string]any:
			for _, e := range x {
				if has(e, false) {
					return true
				}
			}
		case []any:
			for _, e := range x {
				if has(e, false) {
					return true
				}
			}
		case string, bool, int, int64, float64, time.Time:
		default:
			rv := reflect.ValueOf(v)
			if rv.Kind() == reflect.Struct {
				if f := rv.FieldByName("Value"); f.IsValid() && f.CanInterface() {
					return f.Interface() == nil || has(f.Interface(), false)
				}
			}
		}
		return false
	}
	for _, p := range obs {
		if p.name == "map:k" {
			return has(p.got, true)
		}
	}
	return false
}

func posClass(p string) string {
	switch {
	case strings.HasPrefix(p, "map:"), strings.HasPrefix(p, "get:"):
		return "stringmap"
	case p == "string" || p == "[]string" || p == "map[string]string" || strings.HasSuffix(p, ":string") ||
		p == "held:[]string" || p == "held:map[string]string":
		return "string-target"
	case p == "resolve":
		return "resolve"
	}
	return "typed-target"
}

// ---------------------------------------------------------------------------------------------
// merge cases

type mergeInput struct {
	Kind    string   `json:"kind"`
	Sources []any    `json:"sources"` // logical source maps
	Modes   []string `json:"modes"`
	Texts   []string `json:"texts,omitempty"`
}

var mergeLeaves = []string{"${vv:a}", "${vv:int}", "pre-${vv:b}", "$$x", "${vv:list}", "$${vv:a}", "${vv:map}", "${vv:oct}"}

func genMergeVal(rng *rand.Rand, depth int) any {
	switch k := rng.Intn(12); {
	case k == 0:
		return nil
	case k == 1:
		return int64(rng.Intn(100))
	case k == 2:
		return fmt.Sprint("s", rng.Intn(100))
	case k == 3:
		return rng.Intn(2) == 0
	case k == 4:
		return float64(rng.Intn(100)) + 0.5
	case k == 5:
		l := []any{}
		for i := 0; i < rng.Intn(3); i++ {
			if rng.Intn(4) == 0 && depth < 3 {
				l = append(l, genMergeMap(rng, depth+1))
			} else {
				l = append(l, int64(rng.Intn(10)))
			}
		}
		return l
	case k == 6:
		return mergeLeaves[rng.Intn(len(mergeLeaves))]
	case depth < 3:
		return genMergeMap(rng, depth+1)
	}
	return "leaf"
}

func genMergeMap(rng *rand.Rand, depth int) map[string]any {
	m := map[string]any{}
	for i := 0; i < rng.Intn(4); i++ {
		m[[]string{"a", "b", "c", "d", "A", "k1"}[rng.Intn(6)]] = genMergeVal(rng, depth)
	}
	return m
}

// refMerge is the reference: recursive right-biased merge; nil and lists are scalars.
func refMerge(dst, src map[string]any) map[string]any {
	out := make(map[string]any, len(dst)+len(src))
	for k, v := range dst {
		out[k] = v
	}
	for k, v := range src {
		sm, sok := v.(map[string]any)
		dm, dok := out[k].(map[string]any)
		switch {
		case sok && dok:
			out[k] = refMerge(dm, sm)
		case sok:
			out[k] = refMerge(map[string]any{}, sm)
		default:
			out[k] = v
		}
	}
	return out
}

// collapse rewrites top-level single-child chains {a: {b: v}} as the delimiter key "a::b": v (the same
// logical source; "::" is a path delimiter in the top-level keys of a source only).
func collapse(rng *rand.Rand, m map[string]any) map[string]any {
	out := make(map[string]any, len(m))
	for k, v := range m {
		key := k
		for {
			c, ok := v.(map[string]any)
			if !ok || len(c) != 1 || rng.Intn(3) == 0 {
				break
			}
			for ck, cv := range c {
				key, v = key+"::"+ck, cv
			}
		}
		out[key] = v
	}
	return out
}

func firstDiff(want, got any, path string) (string, string, string) {
	wm, wok := want.(map[string]any)
	gm, gok := got.(map[string]any)
	if wok && gok {
		keys := map[string]bool{}
		for k := range wm {
			keys[k] = true
		}
		for k := range gm {
			keys[k] = true
		}
		ks := make([]string, 0, len(keys))
		for k := range keys {
			ks = append(ks, k)
		}
		sort.Strings(ks)
		for _, k := range ks {
			wv, wh := wm[k]
			gv, gh := gm[k]
			switch {
			case !wh:
				return path + "::" + k, "absent", confgen.KindName(gv)
			case !gh:
				return path + "::" + k, confgen.KindName(wv), "absent"
			case confgen.Canon(wv) != confgen.Canon(gv):
				return firstDiff(wv, gv, path+"::"+k)
			}
		}
	}
	return path, confgen.KindName(want), confgen.KindName(got)
}

func runMerge(w *confgen.Worker, i int64, rng *rand.Rand) {
	n := 1 + rng.Intn(4)
	in := &mergeInput{Kind: "merge"}
	cd := &caseData{vv: staticVVMap(), docs: map[string]any{}}
	world := &world{vv: cd.vv, env: staticEnv}
	want := map[string]any{}
	var uris []string
	selfOK := true
	overlap := false
	for s := 0; s < n; s++ {
		m := genMergeMap(rng, 0)
		if rng.Intn(6) == 0 {
			m = map[string]any{}
		}
		for k := range m {
			if _, ok := want[k]; ok {
				overlap = true
			}
		}
		in.Sources = append(in.Sources, m)
		mode := []string{"direct-map", "vv-yaml", "yaml-uri", "vv-yaml-delimiter-keys"}[rng.Intn(4)]
		phys := m
		if mode == "vv-yaml-delimiter-keys" {
			phys = collapse(rng, m)
		}
		key := fmt.Sprintf("SRC%d", s)
		txt := ""
		switch mode {
		case "direct-map":
			cd.docs[key] = phys
			uris = append(uris, "vv:"+key)
		default:
			txt = confgen.YAML(phys, confgen.YAMLOpts{PlainStrings: rng.Intn(2) == 0})
			if len(m) == 0 {
				txt = []string{"{}\n", "", "# nothing here\n"}[rng.Intn(3)]
			}
			var back any
			if err := yaml.Unmarshal([]byte(txt), &back); err != nil || (len(m) > 0 && confgen.Canon(back) != confgen.Canon(phys)) {
				selfOK = false
			}
			if mode == "yaml-uri" {
				uris = append(uris, "yaml:"+txt)
			} else {
				cd.docs[key] = txt
				uris = append(uris, "vv:"+key)
			}
		}
		in.Modes = append(in.Modes, mode)
		in.Texts = append(in.Texts, txt)
		before := confgen.Canon(want)
		want = refMerge(want, m)
		if len(m) == 0 && confgen.Canon(want) != before {
			panic("harness self-test: reference merge changed the result for an empty source")
		}
	}
	// leaves that are references are resolved after the merge
	r := &r1{w: world, maxSteps: 3000}
	wt, werr := r.evalTree(want)
	if werr != nil {
		panic("harness self-test: curated merge leaves must resolve: " + werr.Error())
	}
	wantView := anyView(unescapeTree(wt))
	m := w.Start(i, in, map[string]string{"kind": "merge", "class": "plain", "bug_blowup": "false"})
	m.Evals = 1
	if !selfOK {
		w.Disarm()
		m.Inconclusive = append(m.Inconclusive, "harness YAML writer could not round-trip a merge source")
		w.Done()
		return
	}
	conf, err, pv, stack := resolve(cd, uris, "")
	var got map[string]any
	if pv == nil && err == nil {
		pv, stack = driver.Catch(func() { got = conf.ToStringMap() })
	}
	w.Disarm()
	m.Obs("merge_resolves", 1)
	m.Obs(fmt.Sprintf("merge_sources:%d", n), 1)
	if n > 1 && overlap {
		m.Obs("merge_overlapping", 1)
		m.AddNontrivial("merge", confgen.Canon(in.Sources), strings.Join(in.Modes, ","))
	}
	wit := map[string]any{"input": in, "uris": uris}
	switch {
	case pv != nil:
		m.Violation("panic", fmt.Sprintf("resolving %d sources panicked: %v", n, pv), map[string]any{"input": in, "stack": clip(stack, 3000)}, "site", driver.PanicSite(stack), "target", "merge", "cause", "-")
	case err != nil:
		wit["error"] = err.Error()
		m.Violation("merge", fmt.Sprintf("resolving %d valid sources failed: %v", n, err), wit, "kind", "error", "want", "-", "got", "-")
	default:
		gu := confgen.Unwrap(got)
		if confgen.Canon(gu) != confgen.Canon(wantView) {
			p, wk, gk := firstDiff(wantView, gu, "")
			wit["want"], wit["got"], wit["first_difference"] = confgen.Canon(wantView), confgen.Canon(gu), p
			m.Violation("merge", fmt.Sprintf("merge of %d sources differs from the right-biased reference merge at %s: want %s, got %s", n, p, clip(confgen.Canon(wantView), 200), clip(confgen.Canon(gu), 200)),
				wit, "kind", "value", "want", wk, "got", gk)
		} else {
			m.Obs("merges_agreed", 1)
		}
		// every leaf path of the merged sources must be visible through IsSet as well (untouched keys survive)
		for _, path := range leafPaths(want, "") {
			if !conf.IsSet(path) {
				m.Violation("merge", fmt.Sprintf("key %s survives the reference merge but IsSet reports false", path), wit, "kind", "isset", "want", "set", "got", "unset")
				break
			}
		}
	}
	if i == 1 && w.Args.Shard == 2 {
		m.Sample = map[string]any{"input": in, "reference": confgen.Canon(wantView)}
	}
	w.Done()
}

func leafPaths(v any, prefix string) []string {
	m, ok := v.(map[string]any)
	if !ok || len(m) == 0 {
		if prefix == "" {
			return nil
		}
		return []string{prefix}
	}
	var out []string
	for k, e := range m {
		p := k
		if prefix != "" {
			p = prefix + "::" + k
		}
		out = append(out, leafPaths(e, p)...)
	}
	return out
}

// ---------------------------------------------------------------------------------------------
// directed cases (shard 0, first indices): reproducers of the known findings and hand-written
// expectations taken from the RFC tables and DESIGN §5; they also test the reference interpreter.

type directed struct {
	def, s  string
	typed   string // canonical typed expectation ("" = not given)
	str     string // expectation for a string field ("\x00" = not given)
	wantErr bool
	weak    bool // boundary class expected
	note    string
}

const ng = "\x00"

var directedCases = []directed{
	// known findings: reproducers
	{"", "${vv:b}$${vv:b}", `"B${vv:b}"`, "B${vv:b}", false, false, "C12-a1 escaped duplicate of an expanded reference"},
	{"", "$${vv:a} ${vv:b}", `"${vv:a} B"`, "${vv:a} B", false, false, "C12-a2 escaped reference first"},
	{"", "x${vv:cycdup}", "", ng, true, false, "C12-a3 cycle whose body repeats the reference"},
	{"", "${vv:mapref}", `{"x"=i:123,"y"="pre-0123","z"=[i:83,"A"]}`, "x: 123\ny: pre-0123\nz:\n  - 0123\n  - A\n", false, false, "C12-b references nested in a provider-returned map"},
	{"", "${vv:null}", "null", "", false, false, "C12-c null-valued reference into an `any` field"},
	// DESIGN §5 / probe table
	{"", "${vv:a}", `"A"`, "A", false, false, ""}, {"", "x${vv:a}y", `"xAy"`, "xAy", false, false, ""}, {"", "${vv:a}${vv:b}", `"AB"`, "AB", false, false, ""},
	{"", "$${vv:a}", `"${vv:a}"`, "${vv:a}", false, false, ""}, {"", "$$${vv:a}", `"$A"`, "$A", false, false, ""}, {"", "$$$${vv:a}", `"$${vv:a}"`, "$${vv:a}", false, false, ""},
	{"", "$$$$${vv:a}", `"$$A"`, "$$A", false, false, ""}, {"", "${vv:a} $${vv:b}", `"A ${vv:b}"`, "A ${vv:b}", false, false, ""},
	{"", "a$$b ${vv:a}", `"a$b A"`, "a$b A", false, false, ""}, {"", "$$", `"$"`, "$", false, false, ""}, {"", "$$$", `"$$"`, "$$", false, false, ""}, {"", "$", `"$"`, "$", false, false, ""},
	{"", "${vv:int}", "i:123", "123", false, false, ""}, {"", "x${vv:int}", `"x123"`, "x123", false, false, ""},
	{"", "${vv:oct}", "i:83", "0123", false, false, "RFC: 0123 is 83 as integer, 0123 as string"}, {"", "x${vv:oct}", `"x0123"`, "x0123", false, false, ""},
	{"", "${vv:hex}", "i:255", "0xff", false, false, ""},
	{"", "${vv:map}", `{"x"=i:1,"y"=[i:1,i:2]}`, "{x: 1, y: [1, 2]}", false, false, ""}, {"", "x${vv:map}", `"x{x: 1, y: [1, 2]}"`, "x{x: 1, y: [1, 2]}", false, false, ""},
	{"", "${vv:list}", "[i:1,i:2]", "[1, 2]", false, false, ""},
	{"", "${vv:ref}", `"A"`, "A", false, false, ""}, {"", "${vv:ref2}", `"pAq"`, "pAq", false, false, ""}, {"", "${vv:refint}", "i:123", "123", false, false, ""},
	{"", "${vv:esc}", `"${vv:a}"`, "${vv:a}", false, false, ""}, {"", "x${vv:esc}", `"x${vv:a}"`, "x${vv:a}", false, false, ""}, {"", "${vv:dd}", `"x$y"`, "x$y", false, false, ""},
	{"", "${vv:${vv:name}}", `"A"`, "A", false, false, ""}, {"", "${vv:${vv:${vv:nn}}}", `"A"`, "A", false, false, ""},
	{"", "x${vv:null}y", `"xy"`, "xy", false, false, ""}, {"", "${vv:quoted}", `"\"q\""`, `"q"`, false, false, "RFC: quotes are kept"},
	{"", "${vv:tagstr}", `"!!str 0123"`, "!!str 0123", false, false, "RFC: !!str 0123 stays"},
	{"", "${vv:float}", "f:1.5", "1.50", false, false, ""}, {"", "x${vv:float}", `"x1.50"`, "x1.50", false, false, ""}, {"", "${vv:bool}", "true", "true", false, false, ""},
	{"", "${vv:d1}", `"<D>"`, "<D>", false, false, ""},
	{"", "${vv:cyc1}", "", ng, true, false, ""}, {"", "${vv:self}", "", ng, true, false, ""}, {"", "${vv:cycmap}", "", ng, true, false, ""},
	{"", "${vv:cycfan}", "", ng, true, false, "C12-e cycle through a list that refers to itself twice"}, {"", "${vv:cycfanmap}", "", ng, true, false, "C12-e cycle through a map that refers to itself twice"},
	{"", "${vv:$a}", "", ng, true, false, "$ inside the name"}, {"", "${vv:${vv:dollarname}}", "", ng, true, false, "$ inside the name after nested expansion"}, {"", "${vv:nope}", "", ng, true, false, ""},
	{"", "${unknown:x}", "", ng, true, false, ""},
	{"", "${", `"${"`, "${", false, false, ""}, {"", "${}", `"${}"`, "${}", false, false, ""}, {"", "${vv:a", `"${vv:a"`, "${vv:a", false, false, ""}, {"", "}${vv:a}", `"}A"`, "}A", false, false, ""},
	{"", "${vv:a}}", `"A}"`, "A}", false, false, ""}, {"", "{${vv:a}}", `"{A}"`, "{A}", false, false, ""}, {"", "$${", `"${"`, "${", false, false, ""}, {"", "$}", `"$}"`, "$}", false, false, ""},
	{"", "${A}", `"${A}"`, "${A}", false, false, "no default scheme: not a reference"}, {"vv", "${a}", `"A"`, "A", false, false, "default scheme"}, {"vv", "${int}", "i:123", "123", false, false, ""},
	{"vv", "${}", "", ng, true, false, "default scheme: empty name"},
	// RFC comparison table through the real env provider, both syntaxes
	{"", "${env:C12_INT}", "i:123", "123", false, false, ""}, {"env", "${C12_INT}", "i:123", "123", false, false, ""},
	{"", "${env:C12_OCT}", "i:83", "0123", false, false, ""}, {"env", "${C12_OCT}", "i:83", "0123", false, false, ""},
	{"", "${env:C12_HEX}", "i:3735928559", "0xdeadbeef", false, false, ""}, {"", "${env:C12_QUOTED}", `"\"0123\""`, `"0123"`, false, false, ""},
	{"", "${env:C12_TAG}", `"!!str 0123"`, "!!str 0123", false, false, ""}, {"", "http://endpoint/${env:C12_OCT}", `"http://endpoint/0123"`, "http://endpoint/0123", false, false, "RFC inline"},
	{"", "${env:C12_T}", `"t"`, "t", false, false, "RFC: t is a string; into a boolean field it is an error"}, {"", "${env:C12_23}", "i:23", "23", false, false, "RFC: 23 into a boolean field is an error"},
	{"", "${env:C12_UNSET}", "null", "", false, false, ""}, {"", "${env:C12_UNSET:-dflt}", `"dflt"`, "dflt", false, false, ""}, {"", "${env:1ABC}", "", ng, true, false, "invalid identifier"},
	{"", "${env:C12_REF}", `"A"`, "A", false, false, ""}, {"", "${env:C12_ESC}", `"${env:C12_A}"`, "${env:C12_A}", false, false, ""}, {"", "${env:C12_CYC}", "", ng, true, false, ""},
	{"", "${yaml:[1, 2]}", "[i:1,i:2]", "[1, 2]", false, false, ""}, {"", "x${yaml:0123}", `"x0123"`, "x0123", false, false, ""},
	// '$' inside the braces: the escape applies outside references only, a name that contains '$' is an error
	{"", "${vv:$$k}", "", ng, true, false, "even run of $ inside the name (the key exists in the table)"}, {"", "x-${vv:a$$b}-y", "", ng, true, false, ""},
	{"vv", "${NA$$ME}", "", ng, true, false, "default scheme"}, {"", "${vv:k:-pa$$word}", "", ng, true, false, ""}, {"", "${env:C12_UNSET:-pa$$word}", "", ng, true, false, "$$ in an env default"},
	{"", "${yaml:a$$b}", "", ng, true, false, ""}, {"", "${vv:$$$$}", "", ng, true, false, ""}, {"", "${vv:a$b}", "", ng, true, false, "odd run"}, {"", "$${vv:$$k}", `"${vv:$k}"`, "${vv:$k}", false, false, "escaped as a whole: plain text"},
	// boundary class
	{"", "${vv:dollar}{vv:a}", "", ng, false, true, "value `$` meets a following brace"}, {"", "${vv:enddollar}$", "", ng, false, true, ""},
}

func (d *directed) selfTest(ex *expect) {
	fail := func(what string) {
		panic(fmt.Sprintf("harness self-test: reference interpreter disagrees with the hand-written table on %q (default %q): %s (reference: err=%v ambiguous=%q value=%s)",
			d.s, d.def, what, ex.IsErr, ex.Ambig, confgen.Canon(anyView(ex.Tree))))
	}
	if d.weak {
		if ex.Ambig == "" {
			fail("expected the boundary class")
		}
		return
	}
	if ex.Ambig != "" {
		fail("unexpectedly ambiguous")
	}
	if d.wantErr != ex.IsErr {
		fail("error expectation")
	}
	if d.wantErr {
		return
	}
	if d.typed != "" && confgen.Canon(anyView(ex.Tree)) != d.typed {
		fail("typed value, table says " + d.typed)
	}
	if d.str != ng {
		if s, ok := strView(ex.Tree); !ok || s != d.str {
			fail(fmt.Sprintf("string-field value, table says %q, reference %q", d.str, s))
		}
	}
}

// ---------------------------------------------------------------------------------------------

func workerBody(w *confgen.Worker) {
	theWorker = w
	if err := selfCheckTable(); err != nil {
		panic("harness self-test: " + err.Error())
	}
	// the real env provider must see exactly the variables the reference knows
	os.Clearenv()
	for k, v := range staticEnv {
		os.Setenv(k, v)
	}
	for i := w.Args.From; i < w.Args.To; i++ {
		if w.Args.Shard == 0 && i < int64(len(directedCases)) {
			d := &directedCases[i]
			runExpand(w, i, &expandInput{Kind: "expand", Def: d.def, S: d.s, Mode: rootModes[int(i)%4], Note: d.note}, d)
			continue
		}
		rng := w.CaseRand(i)
		if i%10 == 9 {
			runMergeRepeat(w, i, rng)
			continue
		}
		if i%5 == 4 {
			runMerge(w, i, rng)
			continue
		}
		if i%5 == 2 {
			if i%20 == 12 {
				runSharedObject(w, i, rng)
				continue
			}
			runReresolve(w, i, rng)
			continue
		}
		g := &genCtx{rng: rng, allowDup: rng.Intn(6) == 0}
		g.def = []string{"", "", "vv", "env"}[rng.Intn(4)]
		in := &expandInput{Kind: "expand", Def: g.def, Mode: rootModes[rng.Intn(len(rootModes))]}
		if n := rng.Intn(4); n > 0 {
			in.Extra = g.genExtra(n)
		}
		in.S, _ = g.genString(5)
		runExpand(w, i, in, nil)
	}
}

// workDirOfShard is the directory of the shard's result file (the parent's work directory, removed by it).
func workDirOfShard() string {
	for i, a := range os.Args {
		if (a == "-result" || a == "--result") && i+1 < len(os.Args) {
			return filepath.Dir(os.Args[i+1])
		}
		if strings.HasPrefix(a, "-result=") {
			return filepath.Dir(strings.TrimPrefix(a, "-result="))
		}
	}
	return ""
}

func run(c *driver.Ctx) {
	n := int64(c.N(4000, 60000))
	confgen.Supervise(c, n, confgen.Limits{CPUms: 120000, HeapMB: 256, Steps: 200000, MaxUnexplainedAborts: 3}, workDirOfShard(), func(a *confgen.Abort) bool {
		if a.Why == "cpu-limit" {
			// CPU time alone is no evidence on a loaded machine: neither the step nor the live-heap criterion fired
			c.Inconclusive("case stopped at the CPU backstop without logical evidence of non-termination")
			c.Note("cpu backstop: %s (steps %d, heap %d MiB)", clip(string(a.Input), 300), a.Steps, a.HeapMB)
			return false
		}
		explained := "no"
		if a.Pre["bug_blowup"] == "true" {
			explained = "C12-a"
		}
		how, site := a.Why, "-"
		if a.Why == "crash" {
			line, s := confgen.CrashSite(a.Stderr)
			site = s
			if strings.Contains(line, "out of memory") || strings.Contains(line, "cannot allocate") {
				how = "crash-oom"
			}
		}
		c.Violation("termination", fmt.Sprintf("resolution did not come back (%s: %d provider retrievals, live heap %d MiB, %d ms CPU): input %s", how, a.Steps, a.HeapMB, a.CPUms, clip(string(a.Input), 300)),
			map[string]any{"input": a.Input, "reference": a.Pre, "how": how, "provider_retrievals": a.Steps, "cpu_ms": a.CPUms, "heap_mb": a.HeapMB, "stderr": clip(a.Stderr, 2000)},
			"how", how, "class", a.Pre["class"], "explained", explained, "kind", a.Pre["kind"], "site", site)
		return explained != "no"
	})
}

func main() {
	if confgen.IsWorker() {
		confgen.WorkerMain(workerBody)
		return
	}
	driver.Main(driver.Spec{
		ID:    "C12",
		Level: "exploration",
		Rule: "a case is (default scheme, input string, generated provider values, root-document mode) or (list of 1-4 generated source maps with their delivery modes) or (list of 2-6 source URIs drawn with repetition from a pool of 2-4 sources: adjacent, non-adjacent and triple repeats of the same vv:, yaml:, env: and file: URI, compared with the plain right-biased fold over the list as given) or (one Resolver resolved 2-4 times while the provider table and an environment variable change between the resolutions, with and without a watcher event; every resolution is compared with the reference for the table current at that time and must retrieve every used uri again); strings are drawn from the token grammar " +
			"{literal, $, $$, ${vv:k}, ${NAME}, ${env:…}, ${yaml:…}, $${…}, runs of n '$' before '{', even and odd runs of '$' inside the braces, nested, adjacent and repeated references, unterminated and malformed forms}; provider values cover every YAML type, " +
			"values with references/escapes, cycles and '$' in the name; an expansion case is non-trivial when the string contains '$', a merge case when >= 2 sources overlap in a key; distinct = distinct input hash",
		Assumptions: []string{
			"the reference is the agreement of two independent interpreters (rewrite model / token model) written from docs/rfcs/env-vars.md and the statement; where they disagree (spliced text forming new syntax with its surroundings) only termination and absence of panics are demanded",
			"escaped references are judged exactly: an escaped reference protects only itself, later references in the same string are expanded",
			"a case 'does not terminate' when the resolver performs more than 200 000 provider retrievals for it (1000 rounds x a handful of references, about 10 000, is the legitimate maximum) or holds more than 256 MiB of live heap after a forced collection (typical case: < 1 MiB); a 120 s CPU backstop ends a case as inconclusive",
			"cycles that pass through a map/list value are reported by the pinned code only after ~11 s CPU / ~1 GiB (one more nesting level per round); they are predicted by the reference, executed once (directed case, thorough tier, limits 600 s CPU / 4 GiB; it performs ~500 000 retrievals) and otherwise counted as not executed",
			"YAML typing of provider texts is taken from yaml.v3 and cross-checked at start-up against hand-written kinds for the static table",
		},
		TrustedBase:   []string{"gopkg.in/yaml.v3 (typing of provider texts; round-trip self-check of generated documents)"},
		Shards:        func(string) int { return 16 },
		MinNontrivial: func(tier string) int { return 5000 },
		ShardTimeout:  func(string) time.Duration { return 120 * time.Minute },
		Run:           run,
		MaxSamples:    2,
	})
}

var _ = reflect.TypeOf
