package main

// Re-resolution: one Resolver object is resolved 2–4 times in a row, as the collector does on every
// reload, while the provider table changes between the resolutions (values change type and content,
// keys appear and disappear, an environment variable is set and unset), with and without a watcher
// event in between. Every resolution must equal what the reference interpreters give for the table
// that is current at that time, and the providers must be consulted again by every resolution.

import (
	"context"
	"fmt"
	"math/rand"
	"os"
	"sort"
	"strings"

	"go.opentelemetry.io/collector/confmap"
	"go.opentelemetry.io/collector/verifharness/lib/confgen"
	"go.opentelemetry.io/collector/verifharness/lib/driver"
)

type reStep struct {
	Table map[string]string `json:"provider_values"` // the r-keys present at this resolution
	Env   *string           `json:"env_C12_DYN"`     // nil: unset
	Fire  bool              `json:"watcher_fired_before"`
}

type reInput struct {
	Kind  string         `json:"kind"`
	Def   string         `json:"default_scheme"`
	Root  map[string]any `json:"root"`
	Steps []reStep       `json:"resolutions"`
}

func reSimple(rng *rand.Rand) string {
	n := rng.Intn(1000)
	switch rng.Intn(12) {
	case 0, 1:
		return fmt.Sprintf("A%d", n)
	case 2:
		return fmt.Sprint(n)
	case 3:
		return fmt.Sprintf("0%d", 10+n%60)
	case 4:
		return []string{"true", "false"}[n%2]
	case 5:
		return ""
	case 6:
		return "null"
	case 7:
		return fmt.Sprintf("%d.5", n)
	case 8:
		return fmt.Sprintf("x: %d\ny: [1, 2]\n", n)
	case 9:
		return fmt.Sprintf("[%d, two]", n)
	case 10:
		return fmt.Sprintf("\"q%d\"", n)
	default:
		return fmt.Sprintf("cost $$%d", n)
	}
}

func reValue(rng *rand.Rand) string {
	switch rng.Intn(10) {
	case 0:
		return "${vv:r3}"
	case 1:
		return "p${vv:r3}q"
	case 2:
		return "x: ${vv:r3}\nz: s${vv:r3}\n"
	case 3:
		return "- ${vv:r3}\n- lit\n"
	}
	return reSimple(rng)
}

func genReresolve(rng *rand.Rand) *reInput {
	in := &reInput{Kind: "reresolve", Def: []string{"", "vv"}[rng.Intn(2)]}
	ref := func(k string) string {
		if in.Def == "vv" && rng.Intn(2) == 0 {
			return "${" + k + "}"
		}
		return "${vv:" + k + "}"
	}
	in.Root = map[string]any{
		"w":  ref("r0"),
		"e":  "pre-" + ref("r1") + "-post",
		"l":  []any{ref("r2"), "lit", "x" + ref("r0")},
		"m":  map[string]any{"x": ref("r1"), "y": "a" + ref("r2") + "b"},
		"n":  "${vv:${vv:rname}}",
		"v":  "${env:C12_DYN}",
		"ve": "env=${env:C12_DYN:-dflt}.",
	}
	n := 2 + rng.Intn(3)
	for t := 0; t < n; t++ {
		st := reStep{Table: map[string]string{}, Fire: t > 0 && rng.Intn(2) == 0}
		for _, k := range []string{"r0", "r1", "r2"} {
			if rng.Intn(14) > 0 {
				st.Table[k] = reValue(rng)
			}
		}
		if rng.Intn(14) > 0 {
			st.Table["r3"] = reSimple(rng)
		}
		if rng.Intn(10) > 0 {
			st.Table["rname"] = []string{"r0", "r1", "r2", "r3"}[rng.Intn(4)]
		}
		if rng.Intn(3) > 0 {
			v := reSimple(rng)
			st.Env = &v
		}
		// sometimes nothing changes: the same table twice in a row
		if t > 0 && rng.Intn(6) == 0 {
			st.Table, st.Env = in.Steps[t-1].Table, in.Steps[t-1].Env
		}
		in.Steps = append(in.Steps, st)
	}
	return in
}

// rePositions lists the root strings with a name and how to read them from the resolved map.
type rePos struct {
	name string
	s    string
	get  func(m map[string]any) any
}

func rePositions(root map[string]any) []rePos {
	idx := func(v any, i int) any {
		if l, ok := v.([]any); ok && i < len(l) {
			return l[i]
		}
		return fmt.Sprintf("<not a list: %v>", v)
	}
	key := func(v any, k string) any {
		if m, ok := v.(map[string]any); ok {
			return m[k]
		}
		return fmt.Sprintf("<not a map: %v>", v)
	}
	l := root["l"].([]any)
	mm := root["m"].(map[string]any)
	out := []rePos{
		{"whole", root["w"].(string), func(m map[string]any) any { return m["w"] }},
		{"embedded", root["e"].(string), func(m map[string]any) any { return m["e"] }},
		{"list-whole", l[0].(string), func(m map[string]any) any { return idx(m["l"], 0) }},
		{"list-embedded", l[2].(string), func(m map[string]any) any { return idx(m["l"], 2) }},
		{"map-whole", mm["x"].(string), func(m map[string]any) any { return key(m["m"], "x") }},
		{"map-embedded", mm["y"].(string), func(m map[string]any) any { return key(m["m"], "y") }},
		{"nested", root["n"].(string), func(m map[string]any) any { return m["n"] }},
		{"env-whole", root["v"].(string), func(m map[string]any) any { return m["v"] }},
		{"env-embedded", root["ve"].(string), func(m map[string]any) any { return m["ve"] }},
	}
	return out
}

func runReresolve(w *confgen.Worker, i int64, rng *rand.Rand) {
	in := genReresolve(rng)
	pos := rePositions(in.Root)
	// the reference for every resolution, computed before the code under test runs
	type stepExp struct {
		exp   []*expect
		isErr bool
		weak  string
		used  []string
	}
	exps := make([]stepExp, len(in.Steps))
	for t, st := range in.Steps {
		world := &world{vv: staticVVMap(), env: map[string]string{}, def: in.Def, trace: map[string]int{}}
		for k, v := range staticEnv {
			world.env[k] = v
		}
		for k, v := range st.Table {
			world.vv[k] = v
		}
		if st.Env != nil {
			world.env["C12_DYN"] = *st.Env
		}
		for _, p := range pos {
			ex := evaluate(world, p.s)
			exps[t].exp = append(exps[t].exp, ex)
			if ex.Ambig != "" {
				exps[t].weak = ex.Ambig
			}
			if ex.IsErr {
				exps[t].isErr = true
			}
		}
		for k := range world.trace {
			exps[t].used = append(exps[t].used, k)
		}
		sort.Strings(exps[t].used)
	}
	m := w.Start(i, in, map[string]string{"kind": "reresolve", "class": "plain", "bug_blowup": "false"})
	m.Evals = 1
	cd := &caseData{docs: map[string]any{"ROOT": in.Root}, perURI: map[string]int{}}
	type stepObs struct {
		err     string
		got     map[string]any
		strs    [2]string
		strErr  string
		perURI  map[string]int
		watched bool
	}
	obs := make([]stepObs, len(in.Steps))
	var rerr error
	pv, stack := driver.Catch(func() {
		var r *confmap.Resolver
		if r, rerr = newResolver(cd, []string{"vv:ROOT"}, in.Def); rerr != nil {
			return
		}
		for t, st := range in.Steps {
			if st.Fire && len(cd.watchers) > 0 {
				cd.watchers[rng.Intn(len(cd.watchers))](&confmap.ChangeEvent{})
				select {
				case <-r.Watch():
					obs[t].watched = true
				default:
				}
			}
			cd.vv = staticVVMap()
			for k, v := range st.Table {
				cd.vv[k] = v
			}
			if st.Env != nil {
				os.Setenv("C12_DYN", *st.Env)
			} else {
				os.Unsetenv("C12_DYN")
			}
			cd.perURI, cd.watchers = map[string]int{}, nil
			conf, err := r.Resolve(context.Background())
			obs[t].perURI = cd.perURI
			if err != nil {
				obs[t].err = err.Error()
				continue
			}
			obs[t].got = conf.ToStringMap()
			var tg struct {
				W string `mapstructure:"w"`
				E string `mapstructure:"e"`
			}
			if uerr := conf.Unmarshal(&tg, confmap.WithIgnoreUnused()); uerr != nil {
				obs[t].strErr = uerr.Error()
			}
			obs[t].strs = [2]string{tg.W, tg.E}
		}
		_ = r.Shutdown(context.Background())
	})
	os.Unsetenv("C12_DYN")
	w.Disarm()
	m.Obs("reresolve_cases", 1)
	m.Obs("reresolve_resolutions", int64(len(in.Steps)))
	m.Obs("provider_lookups", int64(cd.lookups))
	m.Obs("retrieved_values_closed", int64(cd.closes))
	m.AddNontrivial("reresolve", confgen.Canon(in.Root), fmt.Sprint(in.Steps), in.Def)
	if pv != nil {
		m.Violation("panic", fmt.Sprintf("re-resolving panicked: %v", pv), map[string]any{"input": in, "stack": clip(stack, 3000)}, "site", driver.PanicSite(stack), "target", "reresolve", "cause", "-")
		w.Done()
		return
	}
	if rerr != nil {
		panic("harness: NewResolver failed: " + rerr.Error())
	}
	matchesEarlier := func(t int, name string, got string) string {
		for u := 0; u < t; u++ {
			for pi, p := range pos {
				if p.name == name && !exps[u].isErr && exps[u].weak == "" && confgen.Canon(anyView(exps[u].exp[pi].Tree)) == got {
					return fmt.Sprintf("equals the expectation of resolution %d", u+1)
				}
			}
		}
		return ""
	}
	for t, st := range in.Steps {
		ord := "later"
		if t == 0 {
			ord = "first"
		}
		fired := fmt.Sprint(st.Fire)
		if st.Fire && obs[t].watched {
			m.Obs("watch_events_delivered", 1)
		}
		wit := func(extra map[string]any) map[string]any {
			o := map[string]any{"input": in, "resolution": t + 1}
			for k, v := range extra {
				o[k] = v
			}
			return o
		}
		if exps[t].weak != "" {
			m.Obs("reresolve_weak:"+exps[t].weak, 1)
			continue
		}
		switch {
		case exps[t].isErr && obs[t].err == "":
			m.Violation("reresolve", fmt.Sprintf("resolution %d of the same Resolver: want an error for the table current at that time, got %s", t+1, clip(confgen.Canon(confgen.Unwrap(obs[t].got)), 200)),
				wit(nil), "kind", "missing-error", "resolution", ord, "fired", fired, "pos", "-")
			continue
		case !exps[t].isErr && obs[t].err != "":
			m.Violation("reresolve", fmt.Sprintf("resolution %d of the same Resolver fails although every reference resolves in the current table: %s", t+1, clip(obs[t].err, 200)),
				wit(map[string]any{"error": obs[t].err}), "kind", "spurious-error", "resolution", ord, "fired", fired, "pos", "-")
			continue
		case exps[t].isErr:
			m.Obs("reresolve_errors_agreed", 1)
			continue
		}
		bad := false
		for pi, p := range pos {
			want := confgen.Canon(anyView(exps[t].exp[pi].Tree))
			got := confgen.Canon(confgen.Unwrap(p.get(obs[t].got)))
			m.Obs("reresolve_positions_compared", 1)
			if want != got {
				bad = true
				m.Violation("reresolve", fmt.Sprintf("resolution %d of the same Resolver, %s position %q: want %s (table current at that time), got %s %s", t+1, p.name, clip(p.s, 60), clip(want, 160), clip(got, 160), matchesEarlier(t, p.name, got)),
					wit(map[string]any{"pos": p.name, "want": want, "got": got, "stale": matchesEarlier(t, p.name, got)}), "kind", "value", "resolution", ord, "fired", fired, "pos", p.name)
				break
			}
		}
		if !bad {
			// string targets of the whole-value and the embedded position
			for k, pi := range []int{0, 1} {
				if sv, ok := strView(exps[t].exp[pi].Tree); ok && obs[t].strErr == "" && sv != obs[t].strs[k] {
					bad = true
					m.Violation("reresolve", fmt.Sprintf("resolution %d, string field for %q: want %q, got %q", t+1, pos[pi].s, sv, obs[t].strs[k]), wit(nil), "kind", "value", "resolution", ord, "fired", fired, "pos", pos[pi].name+"-string")
				}
			}
		}
		// every uri the reference used must have been retrieved again by THIS resolution
		missing := []string{}
		for _, u := range append([]string{"vv:ROOT"}, exps[t].used...) {
			if obs[t].perURI[u] < 1 {
				missing = append(missing, u)
			}
		}
		m.Obs("reresolve_uris_expected", int64(len(exps[t].used)+1))
		if len(missing) > 0 {
			m.Violation("reresolve", fmt.Sprintf("resolution %d of the same Resolver did not consult the provider for %s", t+1, strings.Join(missing, ", ")),
				wit(map[string]any{"not_retrieved": missing, "retrievals": obs[t].perURI}), "kind", "not-retrieved", "resolution", ord, "fired", fired, "pos", "-")
		} else if !bad {
			m.Obs("reresolve_resolutions_agreed", 1)
		}
	}
	if i == 2 && w.Args.Shard == 4 {
		m.Sample = map[string]any{"input": in}
	}
	w.Done()
}
