package main

// Shared provider objects: a provider may hand out the SAME map / list object on every Retrieve (a provider that
// keeps its parsed document). What it returns is data: `$$` inside it is un-escaped in the resolved configuration,
// but the provider's own object must not be what gets rewritten — otherwise the second reference to it in one
// configuration, or the next resolution, sees text that lost one level of `$$` and an escaped `$${...}` turns
// into a live reference. The same object is referenced from 2–5 positions and the Resolver is resolved 2–3 times;
// every position of every resolution must hold the un-escaped value of the ORIGINAL object.

import (
	"context"
	"fmt"
	"math/rand"

	"go.opentelemetry.io/collector/confmap"
	"go.opentelemetry.io/collector/verifharness/lib/confgen"
	"go.opentelemetry.io/collector/verifharness/lib/driver"
)

type sharedInput struct {
	Kind   string         `json:"kind"`
	Object any            `json:"provider_object"`
	Root   map[string]any `json:"root"`
	Rounds int            `json:"resolutions"`
}

func sharedText(rng *rand.Rand) string {
	n := rng.Intn(100)
	switch rng.Intn(8) {
	case 0:
		return fmt.Sprintf("pa$$word%d", n)
	case 1:
		return "$${vv:a}" // escaped reference: must stay the text ${vv:a}
	case 2:
		return fmt.Sprintf("x$$$$y%d", n)
	case 3:
		return "pre-$${env:C12_A}-post"
	case 4:
		return "$$"
	case 5:
		return fmt.Sprintf("plain%d", n)
	case 6:
		return "$$${vv:a}" // escaped dollar followed by a live reference
	}
	return fmt.Sprintf("cost $$%d and $$%d", n, n+1)
}

func sharedObject(rng *rand.Rand, depth int) any {
	if depth > 2 || rng.Intn(3) == 0 {
		return sharedText(rng)
	}
	if rng.Intn(2) == 0 {
		n := 1 + rng.Intn(3)
		l := make([]any, n)
		for i := range l {
			l[i] = sharedObject(rng, depth+1)
		}
		return l
	}
	m := map[string]any{}
	for i, n := 0, 1+rng.Intn(3); i < n; i++ {
		m[fmt.Sprintf("k%d", i)] = sharedObject(rng, depth+1)
	}
	return m
}

func deepCopy(v any) any {
	switch x := v.(type) {
	case map[string]any:
		o := make(map[string]any, len(x))
		for k, e := range x {
			o[k] = deepCopy(e)
		}
		return o
	case []any:
		o := make([]any, len(x))
		for i, e := range x {
			o[i] = deepCopy(e)
		}
		return o
	}
	return v
}

// unescapeRef applies the reference semantics to provider data: strings are evaluated by the reference interpreter.
func sharedExpect(w *world, v any) (any, bool) {
	switch x := v.(type) {
	case map[string]any:
		o := make(map[string]any, len(x))
		for k, e := range x {
			r, ok := sharedExpect(w, e)
			if !ok {
				return nil, false
			}
			o[k] = r
		}
		return o, true
	case []any:
		o := make([]any, len(x))
		for i, e := range x {
			r, ok := sharedExpect(w, e)
			if !ok {
				return nil, false
			}
			o[i] = r
		}
		return o, true
	case string:
		ex := evaluate(w, x)
		if ex.IsErr || ex.Ambig != "" {
			return nil, false
		}
		return anyView(ex.Tree), true
	}
	return v, true
}

func runSharedObject(w *confgen.Worker, i int64, rng *rand.Rand) {
	var obj any
	if rng.Intn(2) == 0 {
		obj = map[string]any{"a": sharedObject(rng, 1), "b": sharedObject(rng, 0)}
	} else {
		obj = []any{sharedObject(rng, 1), sharedObject(rng, 0), sharedText(rng)}
	}
	in := &sharedInput{Kind: "shared-object", Object: deepCopy(obj), Rounds: 2 + rng.Intn(2)}
	in.Root = map[string]any{"p0": "${vv:sd}", "p1": "${vv:sd}"}
	if rng.Intn(2) == 0 {
		in.Root["m"] = map[string]any{"inner": "${vv:sd}"}
	}
	if rng.Intn(2) == 0 {
		in.Root["l"] = []any{"${vv:sd}", "lit"}
	}
	world := &world{vv: staticVVMap(), env: map[string]string{}, def: "", trace: map[string]int{}}
	for k, v := range staticEnv {
		world.env[k] = v
	}
	want, exact := sharedExpect(world, in.Object)
	m := w.Start(i, in, map[string]string{"kind": "shared-object", "class": "plain", "bug_blowup": "false"})
	m.Evals = 1
	cd := &caseData{docs: map[string]any{"ROOT": in.Root, "sd": obj}, perURI: map[string]int{}}
	cd.vv = staticVVMap()
	type res struct {
		err string
		got map[string]any
	}
	obs := make([]res, in.Rounds)
	var rerr error
	pv, stack := driver.Catch(func() {
		var r *confmap.Resolver
		if r, rerr = newResolver(cd, []string{"vv:ROOT"}, ""); rerr != nil {
			return
		}
		for t := 0; t < in.Rounds; t++ {
			conf, err := r.Resolve(context.Background())
			if err != nil {
				obs[t].err = err.Error()
				continue
			}
			obs[t].got = conf.ToStringMap()
		}
		_ = r.Shutdown(context.Background())
	})
	w.Disarm()
	m.Obs("shared_object_cases", 1)
	m.AddNontrivial("shared-object", confgen.Canon(in.Object), confgen.Canon(in.Root), fmt.Sprint(in.Rounds))
	if pv != nil {
		m.Violation("panic", fmt.Sprintf("resolving a configuration that references a shared provider object panicked: %v", pv), map[string]any{"input": in, "stack": clip(stack, 3000)}, "site", driver.PanicSite(stack), "target", "shared-object", "cause", "-")
		w.Done()
		return
	}
	if rerr != nil {
		panic("harness: NewResolver failed: " + rerr.Error())
	}
	if !exact {
		m.Obs("shared_object_weak", 1)
		w.Done()
		return
	}
	wantC := confgen.Canon(want)
	read := func(g map[string]any, pos string) any {
		switch pos {
		case "m":
			if mm, ok := g["m"].(map[string]any); ok {
				return mm["inner"]
			}
			return "<m is not a map>"
		case "l":
			if l, ok := g["l"].([]any); ok && len(l) > 0 {
				return l[0]
			}
			return "<l is not a list>"
		}
		return g[pos]
	}
	for t := 0; t < in.Rounds; t++ {
		ord := "later"
		if t == 0 {
			ord = "first"
		}
		if obs[t].err != "" {
			m.Violation("shared-object", fmt.Sprintf("resolution %d fails although every reference resolves: %s", t+1, clip(obs[t].err, 200)),
				map[string]any{"input": in, "resolution": t + 1, "error": obs[t].err}, "kind", "spurious-error", "resolution", ord, "pos", "-")
			break
		}
		bad := false
		for _, pos := range []string{"p0", "p1", "m", "l"} {
			if _, ok := in.Root[pos]; !ok {
				continue
			}
			m.Obs("shared_object_positions_compared", 1)
			if got := confgen.Canon(confgen.Unwrap(read(obs[t].got, pos))); got != wantC {
				usage := "first"
				if pos != "p0" {
					usage = "repeated"
				}
				m.Violation("shared-object", fmt.Sprintf("resolution %d, position %s (a whole-value reference to an object the provider returns on every Retrieve): want %s, got %s", t+1, pos, clip(wantC, 200), clip(got, 200)),
					map[string]any{"input": in, "resolution": t + 1, "pos": pos, "want": wantC, "got": got}, "kind", "value", "resolution", ord, "pos", usage)
				bad = true
				break
			}
		}
		if bad {
			break
		}
		m.Obs("shared_object_resolutions_agreed", 1)
	}
	w.Done()
}
