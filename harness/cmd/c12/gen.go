package main

import (
	"fmt"
	"math/rand"
	"strings"
)

// staticVV is the table of the harness provider (scheme vv). want is the YAML kind written by hand
// from the YAML 1.2 core schema and yaml.v3's documented exceptions; classify() must agree (start-up
// self-check), so the typing used by the oracle never rests on the parser alone.
var staticVV = []struct {
	key, raw string
	want     ykind
}{
	// strings
	{"a", "A", kStr}, {"b", "B", kStr}, {"str", "plain text", kStr}, {"sp", " padded ", kStr}, {"name", "a", kStr}, {"name2", "int", kStr},
	{"nn", "name", kStr}, {"scheme", "vv", kStr}, {"yes", "yes", kStr}, {"on", "on", kStr}, {"quoted", `"q"`, kStr}, {"squoted", `'s q'`, kStr},
	{"tagstr", "!!str 0123", kStr}, {"ver", "1.2.3", kStr}, {"hostport", "localhost:4317", kStr}, {"url", "http://h:1/p?q=1", kStr},
	// text that is not valid YAML is a string, verbatim
	{"badflow", "[1, 2", kStr}, {"badmap", "a: b: c", kStr}, {"lbrace1", "{", kStr}, {"at", "@at", kStr}, {"backtick", "`bt", kStr},
	{"flowref", "{x: ${vv:a}}", kStr},
	// integers
	{"int", "123", kInt}, {"neg", "-7", kInt}, {"oct", "0123", kInt}, {"oct2", "0o17", kInt}, {"hex", "0xff", kInt}, {"under", "1_000", kInt}, {"plus", "+12", kInt}, {"zero", "0", kInt},
	// floats
	{"float", "1.50", kFloat}, {"exp", "1e3", kFloat}, {"negf", "-0.5", kFloat}, {"inf", ".inf", kFloat}, {"nan", ".nan", kFloat},
	// booleans, nulls, timestamps
	{"bool", "true", kBool}, {"boolf", "false", kBool}, {"boolT", "True", kBool}, {"boolU", "FALSE", kBool},
	{"null", "", kNil}, {"nullw", "null", kNil}, {"tilde", "~", kNil}, {"nullU", "NULL", kNil}, {"comment", "# only a comment", kNil},
	{"date", "2001-12-14", kTime}, {"ts", "2001-12-14t21:59:43.10-05:00", kTime},
	// collections
	{"map", "{x: 1, y: [1, 2]}", kMap}, {"bmap", "x: 1\ny:\n  - 1\n  - two\nz: {}\n", kMap}, {"emap", "{}", kMap},
	{"list", "[1, 2]", kList}, {"blist", "- a\n- 1\n- true\n", kList}, {"elist", "[]", kList}, {"nlist", "[[1], [a, b]]", kList},
	// values that contain references and escapes
	{"ref", "${vv:a}", kStr}, {"ref2", "p${vv:ref}q", kStr}, {"refint", "${vv:int}", kStr}, {"refmap", "${vv:map}", kStr}, {"refnull", "${vv:null}", kStr},
	{"two", "${vv:a}-${vv:b}", kStr}, {"dupv", "${vv:a}${vv:a}", kStr},
	{"esc", "$${vv:a}", kStr}, {"escmix", "$${vv:a} ${vv:b}", kStr}, {"dupesc", "${vv:b}$${vv:b}", kStr}, {"dd", "x$$y", kStr}, {"dd2", "$$$$", kStr},
	{"mapref", "x: ${vv:int}\ny: pre-${vv:oct}\nz:\n  - ${vv:oct}\n  - ${vv:a}\n", kMap}, {"mapmap", "in: ${vv:mapref}\nn: ${vv:null}\n", kMap},
	{"listref", "- ${vv:float}\n- '${vv:b}$$'\n- q${vv:hex}\n", kList}, {"mapesc", "x: '$${vv:a}'\ny: 'a$$b'\n", kMap},
	{"qref", "'${vv:int}'", kStr}, {"envref", "${env:C12_INT}", kStr}, {"yamlref", "${yaml:[1, 2]}", kStr},
	{"d1", "${vv:d2}", kStr}, {"d2", "<${vv:d3}>", kStr}, {"d3", "${vv:d4}", kStr}, {"d4", "D", kStr},
	// text that becomes syntax only together with its surroundings (boundary class)
	{"dollar", "$", kStr}, {"enddollar", "x$", kStr}, {"lbrace", "{vv:a}", kMap}, {"rbrace", "}", kStr}, {"opener", "${", kStr}, {"colon", ":", kStr},
	{"dollarname", "$a", kStr}, {"vvcolon", "vv:", kMap},
	// keys whose name contains '$' (even and odd runs): present in the table, so only the rule "a reference
	// whose name contains $ is an error" keeps them from resolving
	{"$$k", "K-even", kStr}, {"a$$b", "AB-even", kStr}, {"NA$$ME", "NAME-even", kStr}, {"k:-pa$$word", "default-even", kStr}, {"$$$$", "four", kStr}, {"a$$", "trailing-even", kStr},
	{"$k", "K-odd", kStr}, {"a$b", "AB-odd", kStr}, {"a$$$b", "AB-three", kStr},
	// cycles
	{"self", "${vv:self}", kStr}, {"selfemb", "x${vv:selfemb}", kStr}, {"cyc1", "${vv:cyc2}", kStr}, {"cyc2", "-${vv:cyc1}", kStr},
	{"cyc3a", "${vv:cyc3b}", kStr}, {"cyc3b", "${vv:cyc3c}", kStr}, {"cyc3c", "${vv:cyc3a}", kStr},
	{"cycmap", "x: ${vv:cycmap}\n", kMap}, {"cyclist", "- ${vv:cycmap2}\n", kList}, {"cycmap2", "y: ${vv:cyclist}\n", kMap},
	// a cycle through a list / map value that refers to itself TWICE: one more nesting level per round and twice as many leaves
	{"cycfan", "- ${vv:cycfan}\n- ${vv:cycfan}\n", kList}, {"cycfanmap", "x: ${vv:cycfanmap}\ny: ${vv:cycfanmap}\n", kMap},
	{"cycdup", "${vv:cycdup} ${vv:cycdup}", kStr}, {"cycdup2", "<${vv:cycdup3}|${vv:cycdup3}>", kStr}, {"cycdup3", "${vv:cycdup2}${vv:cycdup2}", kStr},
}

// staticEnv is exported into the worker's environment.
var staticEnv = map[string]string{
	"C12_A": "A", "C12_INT": "123", "C12_OCT": "0123", "C12_HEX": "0xdeadbeef", "C12_EMPTY": "", "C12_BOOL": "true", "C12_T": "t",
	"C12_REF": "${env:C12_A}", "C12_VVREF": "${vv:b}", "C12_ESC": "$${env:C12_A}", "C12_MAP": "x: 1", "C12_LIST": "[1, 2]",
	"C12_QUOTED": `"0123"`, "C12_TAG": "!!str 0123", "C12_CYC": "${env:C12_CYC}", "C12_DUPCYC": "${env:C12_DUPCYC}/${env:C12_DUPCYC}",
	"c12_lower": "low", "_C12U": "under", "C12_23": "23",
}

func staticVVMap() map[string]string {
	m := make(map[string]string, len(staticVV))
	for _, e := range staticVV {
		m[e.key] = e.raw
	}
	return m
}

// selfCheckTable verifies that the parser used by the oracle types the static table as written by hand.
func selfCheckTable() error {
	seen := map[string]bool{}
	var bad []string
	for _, e := range staticVV {
		if seen[e.key] {
			return fmt.Errorf("duplicate static key %q", e.key)
		}
		seen[e.key] = true
		if got := classify(e.raw); got.kind != e.want {
			bad = append(bad, fmt.Sprintf("static value %q = %q: hand-written kind %s, yaml.v3 says %s", e.key, e.raw, kindNames[e.want], kindNames[got.kind]))
		}
	}
	if len(bad) > 0 {
		return fmt.Errorf("%s", strings.Join(bad, "; "))
	}
	return nil
}

// key pools by role
var (
	keysStr     = []string{"a", "b", "str", "sp", "name", "yes", "quoted", "squoted", "tagstr", "ver", "hostport", "url", "badflow", "badmap", "at", "flowref"}
	keysTyped   = []string{"int", "neg", "oct", "oct2", "hex", "under", "plus", "zero", "float", "exp", "negf", "inf", "nan", "bool", "boolf", "boolT", "boolU", "null", "nullw", "tilde", "nullU", "comment", "date", "ts"}
	keysColl    = []string{"map", "bmap", "emap", "list", "blist", "elist", "nlist", "mapref", "mapmap", "listref", "mapesc"}
	keysRef     = []string{"ref", "ref2", "refint", "refmap", "refnull", "two", "dupv", "esc", "escmix", "dupesc", "dd", "dd2", "qref", "envref", "yamlref", "d1", "d2"}
	keysEdge    = []string{"dollar", "enddollar", "lbrace", "rbrace", "opener", "colon", "dollarname", "vvcolon", "lbrace1", "backtick"}
	keysCycle   = []string{"self", "selfemb", "cyc1", "cyc2", "cyc3a", "cycmap", "cyclist"}
	keysCycDup  = []string{"cycdup", "cycdup2"}
	keysMissing = []string{"nope", "A", "a ", " a", ""}
	keysDollar  = []string{"$$k", "a$$b", "NA$$ME", "k:-pa$$word", "$$$$", "a$$", "$k", "a$b", "a$$$b"}
	envNames    = []string{"C12_A", "C12_INT", "C12_OCT", "C12_HEX", "C12_EMPTY", "C12_BOOL", "C12_REF", "C12_VVREF", "C12_ESC", "C12_MAP", "C12_LIST", "C12_QUOTED", "C12_TAG", "c12_lower", "_C12U", "C12_UNSET"}
	envBad      = []string{"1ABC", "A-B", "A B", "", "C12_A ", "C12.A"}
	literals    = []string{"a", "b-", " ", ":", "/x", ".", "{", "}", "lit", "=", "%", "#", "'", "\"", "\n", "\t", "::", "é", "{}", "vv:a", "0", "-"}
)

func pick(rng *rand.Rand, l []string) string { return l[rng.Intn(len(l))] }

// genCtx carries the per-case generated keys so that strings can refer to them.
type genCtx struct {
	rng      *rand.Rand
	extra    []string // keys g0.. usable in references
	allowDup bool     // duplicate-reference cycles (expensive on a tree with defect C12-a)
	def      string
}

func (g *genCtx) vvKey() string {
	r := g.rng
	switch k := r.Intn(100); {
	case k < 22:
		return pick(r, keysStr)
	case k < 42:
		return pick(r, keysTyped)
	case k < 54:
		return pick(r, keysColl)
	case k < 72:
		return pick(r, keysRef)
	case k < 78:
		return pick(r, keysEdge)
	case k < 82:
		return pick(r, keysCycle)
	case k < 85:
		return pick(r, keysMissing)
	case k < 86:
		if g.allowDup {
			return pick(r, keysCycDup)
		}
		return pick(r, keysCycle)
	default:
		if len(g.extra) > 0 {
			return pick(r, g.extra)
		}
		return pick(r, keysStr)
	}
}

// ref produces one complete, unescaped reference.
func (g *genCtx) ref() string {
	r := g.rng
	switch k := r.Intn(100); {
	case k < 62:
		return "${vv:" + g.vvKey() + "}"
	case k < 70:
		return "${" + g.vvKey() + "}" // meaningful only under a default scheme
	case k < 78:
		return "${env:" + pick(r, envNames) + "}"
	case k < 82:
		return "${" + pick(r, envNames) + "}"
	case k < 85:
		return "${env:" + pick(r, []string{"C12_UNSET", "C12_A", "C12_EMPTY"}) + ":-" + pick(r, []string{"dflt", "7", "", "a:b", "[1]"}) + "}"
	case k < 87:
		return "${env:" + pick(r, envBad) + "}"
	case k < 91:
		return "${yaml:" + pick(r, []string{"123", "abc", "[1, 2]", "x: 1", "0123", "", "true", "a b", "null", "1.5"}) + "}"
	case k < 93:
		// nested
		return pick(r, []string{"${vv:${vv:name}}", "${vv:${vv:name2}}", "${vv:${vv:${vv:nn}}}", "${${vv:scheme}:a}", "${vv:${vv:dollarname}}", "${vv:${vv:null}}", "${vv:${env:c12_lower}}", "${vv:x${vv:name}}", "${env:C12_${vv:a}}"})
	case k < 95:
		// '$' inside the braces, even and odd runs, with and without scheme, env defaults
		switch r.Intn(5) {
		case 0, 1:
			return "${vv:" + pick(r, keysDollar) + "}"
		case 2:
			return "${" + pick(r, keysDollar) + "}"
		case 3:
			return "${env:" + pick(r, []string{"C12_UNSET", "C12_A", "C12_EMPTY"}) + ":-" + pick(r, []string{"pa$$word", "$$", "a$$$$b", "p$w"}) + "}"
		default:
			return "${yaml:" + pick(r, []string{"a$$b", "$$", "x: $$y", "[$$]"}) + "}"
		}
	case k < 97:
		// bad names / schemes
		return pick(r, []string{"${vv:$a}", "${vv:a$}", "${vv:a$$b}", "${vv: a}", "${vv:}", "${:a}", "${a:b}", "${unknown:x}", "${VV:a}", "${http://x}", "${vv:a:b}", "${vv::}", "${env:$C12_A}", "${vv:a\nb}"})
	default:
		return "${vv:" + pick(r, []string{"a", "b", "int", "oct"}) + "}"
	}
}

// token produces one token of the grammar.
func (g *genCtx) token(prev []string) string {
	r := g.rng
	switch k := r.Intn(100); {
	case k < 20:
		return pick(r, literals)
	case k < 26:
		return "$$"
	case k < 31:
		return "$"
	case k < 61:
		return g.ref()
	case k < 70:
		// run of n '$' before a brace
		return strings.Repeat("$", 1+r.Intn(6)) + g.ref()[1:]
	case k < 76:
		return "$" + g.ref() // escaped reference
	case k < 84:
		// repeat an earlier token, possibly escaped / unescaped (duplicates)
		if len(prev) > 0 {
			p := prev[r.Intn(len(prev))]
			switch r.Intn(3) {
			case 0:
				return p
			case 1:
				return "$" + p
			default:
				return strings.TrimPrefix(p, "$")
			}
		}
		return g.ref()
	case k < 90:
		// adjacent references
		return g.ref() + g.ref()
	default:
		return pick(r, []string{"${", "${vv:a", "${}", "${X}", "$}", "{vv:a}", "}", "${ }", "$ {vv:a}", "${vv:a }", "${{vv:a}}", "$${", "${$", "$${vv:a", "${vv:a}}", "{${vv:a}}"})
	}
}

// genString produces a string of 1..maxTok tokens.
func (g *genCtx) genString(maxTok int) (string, []string) {
	n := 1 + g.rng.Intn(maxTok)
	var toks []string
	for i := 0; i < n; i++ {
		toks = append(toks, g.token(toks))
	}
	return strings.Join(toks, ""), toks
}

// genExtra produces the per-case provider values g0..g(n-1): strings from the grammar, collections
// whose leaves come from the grammar, scalars of random YAML types. g_i may refer to g_j, j < i (and,
// rarely, to itself or a later one: generated cycles).
func (g *genCtx) genExtra(n int) map[string]string {
	out := map[string]string{}
	for i := 0; i < n; i++ {
		key := fmt.Sprintf("g%d", i)
		r := g.rng
		var raw string
		switch k := r.Intn(10); {
		case k < 5:
			raw, _ = g.genString(3)
		case k < 7:
			// block map with grammar leaves
			var b strings.Builder
			for j, kk := range []string{"x", "y", "z"}[:1+r.Intn(3)] {
				s, _ := g.genString(2)
				switch (j + r.Intn(3)) % 3 {
				case 0:
					b.WriteString(kk + ": " + yamlScalar(r, s) + "\n")
				case 1:
					b.WriteString(kk + ":\n  - " + yamlScalar(r, s) + "\n  - " + pick(r, []string{"1", "lit", "true", "null", "0123"}) + "\n")
				default:
					b.WriteString(kk + ":\n  n: " + yamlScalar(r, s) + "\n")
				}
			}
			raw = b.String()
		case k < 8:
			var b strings.Builder
			for j := 0; j < 1+r.Intn(3); j++ {
				s, _ := g.genString(2)
				b.WriteString("- " + yamlScalar(r, s) + "\n")
			}
			raw = b.String()
		default:
			raw = pick(r, []string{fmt.Sprint(r.Intn(1000)), fmt.Sprintf("%d.%d", r.Intn(100), r.Intn(100)), "0" + fmt.Sprint(10+r.Intn(60)), "true", "", "null", "text" + fmt.Sprint(r.Intn(100)), "0x" + fmt.Sprintf("%x", r.Intn(4096)), "\"" + fmt.Sprint(r.Intn(100)) + "\""})
		}
		out[key] = raw
		g.extra = append(g.extra, key)
		if r.Intn(25) == 0 && i+1 < n {
			g.extra = append(g.extra, fmt.Sprintf("g%d", i+1)) // forward reference: possible cycle
		}
	}
	return out
}

// yamlScalar writes s as a YAML scalar inside a generated provider value: plain (as users write
// references) when that is safe, quoted otherwise. The typing of the whole text is decided by
// classify() in any case.
func yamlScalar(r *rand.Rand, s string) string {
	if r.Intn(3) > 0 && plainish(s) {
		return s
	}
	if strings.ContainsAny(s, "\n\t\"\\é") {
		q := strings.NewReplacer("\\", "\\\\", "\"", "\\\"", "\n", "\\n", "\t", "\\t").Replace(s)
		return "\"" + q + "\""
	}
	return "'" + strings.ReplaceAll(s, "'", "''") + "'"
}

func plainish(s string) bool {
	if s == "" || strings.ContainsAny(s, "\n\t\"'#%é `@") || strings.Contains(s, ": ") || strings.HasSuffix(s, ":") {
		return false
	}
	c := s[0]
	return c == '$' || (c >= 'a' && c <= 'z') || (c >= 'A' && c <= 'Z')
}
