package main

// Reference interpreters for configuration expansion, written from docs/rfcs/env-vars.md and the
// property statement — not from confmap/expand.go:
//
//   R1 ("rewrite model"): the leftmost innermost unescaped complete reference of a string is replaced
//       by the provider's text and the result is scanned again; "$$" is un-escaped once, at the end.
//   R2 ("token model"): the string is tokenised once (literal text, "$$", references with their
//       bodies), every reference is replaced by the *fully resolved* provider value, nothing is
//       scanned twice.
//
// The statement does not say whether spliced text may combine with its surroundings into new syntax
// (a value ending in "$" before "{…}", a value that is "}" closing an open "${", …); R1 and R2 differ
// exactly there. Where they agree the oracle is exact; where they differ the case is in the
// "boundary-ambiguous" class and only termination / no panic is demanded.
//
// A third evaluation, R1 with the two text-based shortcuts of the known defect C12-a switched on
// (stop at the first escaped reference; replace every textual occurrence), is used only to label a
// violation as "explained by C12-a" — it never makes a case pass.

import (
	"errors"
	"fmt"
	"regexp"
	"strings"
	"time"

	yaml "gopkg.in/yaml.v3"
)

type ykind int

const (
	kStr ykind = iota
	kInt
	kFloat
	kBool
	kNil
	kTime
	kList
	kMap
	kUnsupported
)

var kindNames = map[ykind]string{kStr: "string", kInt: "int", kFloat: "float", kBool: "bool", kNil: "null", kTime: "time", kList: "list", kMap: "map", kUnsupported: "unsupported"}

// entry is a provider value: its text and how YAML types it.
type entry struct {
	raw    string
	kind   ykind
	tree   any  // normalised tree for non-string kinds
	exotic bool // contains something the oracle does not model (non-string map keys …)
}

// classify types a provider text with yaml.v3 (trusted base, cross-checked against the hand-written
// kinds of the static table at start-up).
func classify(raw string) entry {
	var v any
	if err := yaml.Unmarshal([]byte(raw), &v); err != nil {
		return entry{raw: raw, kind: kStr}
	}
	e := entry{raw: raw}
	e.tree = normTree(v, &e.exotic)
	switch v.(type) {
	case string:
		e.kind, e.tree = kStr, nil
	case nil:
		e.kind = kNil
	case int, int64:
		e.kind = kInt
	case float64:
		e.kind = kFloat
	case bool:
		e.kind = kBool
	case time.Time:
		e.kind = kTime
	case []any:
		e.kind = kList
	case map[string]any:
		e.kind = kMap
	default:
		e.kind = kUnsupported // uint64, map[any]any …: NewRetrieved refuses these
	}
	return e
}

func normTree(v any, exotic *bool) any {
	switch x := v.(type) {
	case int:
		return int64(x)
	case []any:
		o := make([]any, len(x))
		for i, e := range x {
			o[i] = normTree(e, exotic)
		}
		return o
	case map[string]any:
		o := make(map[string]any, len(x))
		for k, e := range x {
			if strings.Contains(k, "::") {
				*exotic = true // "::" in a key of a provider-returned map is a path delimiter: not modelled
			}
			o[k] = normTree(e, exotic)
		}
		return o
	case nil, string, bool, int64, float64, time.Time:
		return v
	}
	*exotic = true
	return v
}

// world is everything the providers can return.
type world struct {
	vv  map[string]string // scheme vv: key -> text
	env map[string]string // scheme env: set variables
	def string            // default scheme ("" = none)
	// trace, when set, records every resolved uri (scheme:opaque) the interpreters looked up
	trace map[string]int
}

var (
	schemeRe  = regexp.MustCompile(`^[A-Za-z][A-Za-z0-9+.-]+$`)
	envNameRe = regexp.MustCompile(`^[a-zA-Z_][a-zA-Z0-9_]*$`)
)

var (
	errRef    = errors.New("reference cannot be resolved")
	errCycle  = errors.New("reference cycle")
	errBlowup = errors.New("size bound of the model exceeded")
)

// lookup resolves the text between "${" and "}" (after the default scheme has been applied).
func (w *world) lookup(uri string) (entry, string, error) {
	i := strings.Index(uri, ":")
	if i < 0 {
		return entry{}, "", fmt.Errorf("%w: no scheme in %q", errRef, uri)
	}
	scheme, opaque := uri[:i], uri[i+1:]
	if !schemeRe.MatchString(scheme) {
		return entry{}, "", fmt.Errorf("%w: invalid scheme %q", errRef, scheme)
	}
	if strings.Contains(opaque, "$") {
		return entry{}, "", fmt.Errorf("%w: name contains $: %q", errRef, uri)
	}
	var raw string
	switch scheme {
	case "vv":
		v, ok := w.vv[opaque]
		if !ok {
			return entry{}, "", fmt.Errorf("%w: unknown key %q", errRef, opaque)
		}
		raw = v
	case "env":
		name, dflt, hasD := strings.Cut(opaque, ":-")
		if !envNameRe.MatchString(name) {
			return entry{}, "", fmt.Errorf("%w: invalid variable name %q", errRef, name)
		}
		v, ok := w.env[name]
		switch {
		case ok:
			raw = v
		case hasD:
			raw = dflt
		}
	case "yaml":
		raw = opaque
	default:
		return entry{}, "", fmt.Errorf("%w: no provider for scheme %q", errRef, scheme)
	}
	if w.trace != nil {
		w.trace[scheme+":"+opaque]++
	}
	e := classify(raw)
	if e.kind == kUnsupported {
		return entry{}, "", fmt.Errorf("%w: provider cannot represent %q", errRef, raw)
	}
	return e, scheme + ":" + opaque, nil
}

// xnode is a typed value obtained from a whole-value reference, with its original text.
type xnode struct {
	Val     any
	Orig    string
	HasOrig bool
}

// ---------------------------------------------------------------------------------------------
// R1

type r1 struct {
	w *world
	// the two shortcuts of defect C12-a
	stopAtEscaped bool
	replaceAll    bool

	steps    int
	maxSteps int
	// observations of the strict run
	escFirst bool // an escaped complete reference precedes an unescaped one in some scanned string
	dupEsc   bool // the text of an expanded reference also occurs escaped in the same string
	dupPlain bool // … also occurs unescaped in the same string (simultaneous replacement changes the order of expansion)
	exotic   string
	whole    int
	embedded int
}

const maxModelLen = 1 << 20

func dollarsBefore(s string, i int) int {
	n := 0
	for j := i - 1; j >= 0 && s[j] == '$'; j-- {
		n++
	}
	return n
}

// findRef locates the reference to expand next: closing braces are visited left to right, the
// candidate of a closing brace is the nearest "${" to its left (after the previous closing brace);
// a candidate without ":" is a reference only under a default scheme; a candidate preceded by an odd
// number of "$" is escaped and protected.
func (m *r1) findRef(s string) (st, en int, ok bool) {
	off := 0
	skippedEscaped := false
	for {
		ci := strings.Index(s[off:], "}")
		if ci < 0 {
			return 0, 0, false
		}
		ci += off
		oi := strings.LastIndex(s[off:ci+1], "${")
		if oi >= 0 {
			oi += off
			if m.w.def != "" || strings.Contains(s[oi:ci+1], ":") {
				if dollarsBefore(s, oi)%2 == 1 {
					skippedEscaped = true
				} else {
					if skippedEscaped {
						m.escFirst = true
						if m.stopAtEscaped {
							return 0, 0, false // the defect model gives up at the first escaped reference
						}
					}
					return oi, ci + 1, true
				}
			}
		}
		off = ci + 1
	}
}

func (m *r1) noteDup(s string, st, en int) {
	if m.dupEsc {
		return
	}
	ref := s[st:en]
	for off := 0; ; {
		i := strings.Index(s[off:], ref)
		if i < 0 {
			return
		}
		i += off
		if i != st {
			if dollarsBefore(s, i)%2 == 1 {
				m.dupEsc = true
				return
			}
			m.dupPlain = true
		}
		off = i + 1
	}
}

func (m *r1) uriOf(s string, st, en int) string {
	uri := s[st+2 : en-1]
	if !strings.Contains(uri, ":") {
		uri = m.w.def + ":" + uri
	}
	return uri
}

// evalValue resolves a string in value position; the result is a string, or an *xnode.
func (m *r1) evalValue(s string, asString bool) (any, error) {
	cur := s
	for {
		if m.steps++; m.steps > m.maxSteps {
			return nil, errCycle
		}
		if len(cur) > maxModelLen {
			return nil, errBlowup
		}
		st, en, ok := m.findRef(cur)
		if !ok {
			return cur, nil
		}
		e, _, err := m.w.lookup(m.uriOf(cur, st, en))
		if err != nil {
			return nil, err
		}
		if e.exotic {
			m.exotic = "exotic-yaml"
		}
		if st == 0 && en == len(cur) {
			if e.kind == kStr {
				cur = e.raw
				m.whole++
				continue
			}
			if asString {
				// the original text of a typed value became exactly one reference: not modelled
				m.exotic = "original-is-one-reference"
			} else {
				m.whole++
				val, err := m.evalTree(e.tree)
				if err != nil {
					return nil, err
				}
				n := &xnode{Val: val}
				if o, err := m.evalValue(e.raw, true); err == nil {
					n.Orig, n.HasOrig = o.(string), true
				} else if errors.Is(err, errCycle) || errors.Is(err, errBlowup) {
					return nil, err
				}
				return n, nil
			}
		}
		m.embedded++
		m.noteDup(cur, st, en)
		if m.replaceAll {
			cur = strings.ReplaceAll(cur, cur[st:en], e.raw)
		} else {
			cur = cur[:st] + e.raw + cur[en:]
		}
	}
}

func (m *r1) evalTree(t any) (any, error) {
	switch x := t.(type) {
	case string:
		return m.evalValue(x, false)
	case []any:
		o := make([]any, len(x))
		for i, e := range x {
			v, err := m.evalTree(e)
			if err != nil {
				return nil, err
			}
			o[i] = v
		}
		return o, nil
	case map[string]any:
		o := make(map[string]any, len(x))
		for k, e := range x {
			v, err := m.evalTree(e)
			if err != nil {
				return nil, err
			}
			o[k] = v
		}
		return o, nil
	}
	return t, nil
}

func unescape(s string) string { return strings.ReplaceAll(s, "$$", "$") }

// unescapeTree applies the final "$$" → "$" to every string and original text.
func unescapeTree(t any) any {
	switch x := t.(type) {
	case string:
		return unescape(x)
	case *xnode:
		return &xnode{Val: unescapeTree(x.Val), Orig: unescape(x.Orig), HasOrig: x.HasOrig}
	case []any:
		o := make([]any, len(x))
		for i, e := range x {
			o[i] = unescapeTree(e)
		}
		return o
	case map[string]any:
		o := make(map[string]any, len(x))
		for k, e := range x {
			o[k] = unescapeTree(e)
		}
		return o
	}
	return t
}

// ---------------------------------------------------------------------------------------------
// R2

type tok struct {
	ref  bool
	text string // literal text (already un-escaped)
	body []tok
}

// parseSeq tokenises s[i:]; inside a reference body it stops at the closing brace.
func parseSeq(s string, i int, inRef bool, budget *int) (toks []tok, next int, closed bool) {
	lit := func(t string) {
		if t == "" {
			return
		}
		if n := len(toks); n > 0 && !toks[n-1].ref {
			toks[n-1].text += t
		} else {
			toks = append(toks, tok{text: t})
		}
	}
	for i < len(s) {
		if *budget--; *budget < 0 {
			return toks, len(s), false
		}
		c := s[i]
		switch {
		case inRef && c == '}':
			return toks, i + 1, true
		case c == '$':
			j := i
			for j < len(s) && s[j] == '$' {
				j++
			}
			n := j - i
			if j < len(s) && s[j] == '{' {
				lit(strings.Repeat("$", n/2))
				if n%2 == 1 {
					body, nx, cl := parseSeq(s, j+1, true, budget)
					if cl {
						toks = append(toks, tok{ref: true, body: body})
						i = nx
						continue
					}
					lit("${") // unterminated: literal text
					i = j + 1
					continue
				}
				i = j // the brace is literal
				continue
			}
			lit(strings.Repeat("$", n/2+n%2))
			i = j
		default:
			lit(s[i : i+1])
			i++
		}
	}
	return toks, i, false
}

type r2 struct {
	w      *world
	steps  int
	exotic string
	kinds  map[string]ykind
	// typedCycle: a cycle that passes through a non-string (map/list) value. Such a cycle nests one
	// more level per expansion round; the pinned code needs ~11 s CPU and ~1 GiB to report it.
	typedCycle bool
}

func (m *r2) tick() error {
	if m.steps++; m.steps > 20000 {
		return errBlowup
	}
	return nil
}

// name evaluates a reference body to its text and tells whether it denotes a reference at all.
func (m *r2) refEntry(t tok, stack []string) (e entry, key string, isRef bool, literal string, err error) {
	name, err := m.evalToks(t.body, stack)
	if err != nil {
		return entry{}, "", true, "", err
	}
	if !strings.Contains(name, ":") {
		if m.w.def == "" {
			return entry{}, "", false, "${" + name + "}", nil
		}
		name = m.w.def + ":" + name
	}
	e, key, err = m.w.lookup(name)
	if err != nil {
		return entry{}, "", true, "", err
	}
	if m.kinds == nil {
		m.kinds = map[string]ykind{}
	}
	m.kinds[key] = e.kind
	for i, k := range stack {
		if k == key {
			for _, kk := range stack[i:] {
				if m.kinds[kk] != kStr {
					m.typedCycle = true
				}
			}
			return entry{}, "", true, "", errCycle
		}
	}
	if e.exotic {
		m.exotic = "exotic-yaml"
	}
	return e, key, true, "", nil
}

func (m *r2) evalToks(toks []tok, stack []string) (string, error) {
	var b strings.Builder
	for _, t := range toks {
		if err := m.tick(); err != nil {
			return "", err
		}
		if !t.ref {
			b.WriteString(t.text)
			continue
		}
		e, key, isRef, literal, err := m.refEntry(t, stack)
		if err != nil {
			return "", err
		}
		if !isRef {
			b.WriteString(literal)
			continue
		}
		s, err := m.evalString(e.raw, append(stack[:len(stack):len(stack)], key))
		if err != nil {
			return "", err
		}
		b.WriteString(s)
		if b.Len() > maxModelLen {
			return "", errBlowup
		}
	}
	return b.String(), nil
}

func (m *r2) evalString(s string, stack []string) (string, error) {
	budget := 200000
	toks, _, _ := parseSeq(s, 0, false, &budget)
	if budget < 0 {
		return "", errBlowup
	}
	return m.evalToks(toks, stack)
}

func (m *r2) evalValue(s string, stack []string) (any, error) {
	if err := m.tick(); err != nil {
		return nil, err
	}
	budget := 200000
	toks, _, _ := parseSeq(s, 0, false, &budget)
	if budget < 0 {
		return nil, errBlowup
	}
	if len(toks) == 1 && toks[0].ref {
		e, key, isRef, _, err := m.refEntry(toks[0], stack)
		if err != nil {
			return nil, err
		}
		if isRef {
			st := append(stack[:len(stack):len(stack)], key)
			if e.kind == kStr {
				return m.evalValue(e.raw, st)
			}
			val, err := m.evalTree(e.tree, st)
			if err != nil {
				return nil, err
			}
			n := &xnode{Val: val}
			if o, err := m.evalString(e.raw, st); err == nil {
				n.Orig, n.HasOrig = o, true
			} else if errors.Is(err, errCycle) || errors.Is(err, errBlowup) {
				return nil, err
			}
			return n, nil
		}
	}
	return m.evalToks(toks, stack)
}

func (m *r2) evalTree(t any, stack []string) (any, error) {
	switch x := t.(type) {
	case string:
		return m.evalValue(x, stack)
	case []any:
		o := make([]any, len(x))
		for i, e := range x {
			v, err := m.evalTree(e, stack)
			if err != nil {
				return nil, err
			}
			o[i] = v
		}
		return o, nil
	case map[string]any:
		o := make(map[string]any, len(x))
		for k, e := range x {
			v, err := m.evalTree(e, stack)
			if err != nil {
				return nil, err
			}
			o[k] = v
		}
		return o, nil
	}
	return t, nil
}

// ---------------------------------------------------------------------------------------------
// views of a reference result

// anyView is what an untyped reader (ToStringMap, `any`, []any, map[string]any fields) must see.
func anyView(t any) any {
	switch x := t.(type) {
	case *xnode:
		return anyView(x.Val)
	case []any:
		o := make([]any, len(x))
		for i, e := range x {
			o[i] = anyView(e)
		}
		return o
	case map[string]any:
		o := make(map[string]any, len(x))
		for k, e := range x {
			o[k] = anyView(e)
		}
		return o
	}
	return t
}

// strView is what a string field must receive; ok=false when the value has no text form.
func strView(t any) (string, bool) {
	switch x := t.(type) {
	case string:
		return x, true
	case *xnode:
		return x.Orig, x.HasOrig
	}
	return "", false
}

// fullCanon renders a reference tree including original texts (to compare R1 with R2).
func fullCanon(t any) string {
	switch x := t.(type) {
	case *xnode:
		return "X<" + fullCanon(x.Val) + "|" + fmt.Sprint(x.HasOrig) + ":" + fmt.Sprintf("%q", x.Orig) + ">"
	case []any:
		p := make([]string, len(x))
		for i, e := range x {
			p[i] = fullCanon(e)
		}
		return "[" + strings.Join(p, ",") + "]"
	case map[string]any:
		p := make([]string, 0, len(x))
		for k, e := range x {
			p = append(p, fmt.Sprintf("%q=%s", k, fullCanon(e)))
		}
		sortStrings(p)
		return "{" + strings.Join(p, ",") + "}"
	}
	return canonScalar(t)
}

// ---------------------------------------------------------------------------------------------
// the verdict of the reference on one input string

type expect struct {
	IsErr      bool
	ErrWhy     string
	Tree       any // un-escaped reference tree (strings, *xnode, …)
	Class      string
	Ambig      string // non-empty: weak oracle only
	Steps      int
	Whole      int
	Embed      int
	Cycle      bool
	TypedCycle bool
	BugErr     bool // what R1 with the C12-a shortcuts yields
	BugTree    any
	BugBlow    bool
	bugOK      bool
}

func errClass(err error) string {
	switch {
	case errors.Is(err, errCycle):
		return "cycle"
	case errors.Is(err, errBlowup):
		return "blowup"
	}
	return "unresolvable"
}

const deepSteps = 250

func evaluate(w *world, s string) *expect {
	ex := &expect{}
	a := &r1{w: w, maxSteps: 1200}
	t1, err1 := a.evalValue(s, false)
	b := &r2{w: w}
	t2, err2 := b.evalValue(s, nil)
	ex.Steps, ex.Whole, ex.Embed = a.steps, a.whole, a.embedded
	if err1 == nil {
		t1 = unescapeTree(t1)
	}
	ex.IsErr = err1 != nil
	if err1 != nil {
		ex.ErrWhy = errClass(err1)
	}
	ex.Tree = t1
	ex.Cycle = errors.Is(err2, errCycle)
	ex.TypedCycle = b.typedCycle
	switch {
	case a.exotic != "":
		ex.Ambig = a.exotic
	case b.exotic != "":
		ex.Ambig = b.exotic
	case errors.Is(err1, errBlowup) || errors.Is(err2, errBlowup):
		ex.Ambig = "model-size-bound"
	case (err1 != nil) != (err2 != nil):
		ex.Ambig = "boundary-ambiguous"
	case err1 != nil && errClass(err1) != errClass(err2):
		// both fail; a cycle found by one model only is still a failure in both
	case err1 == nil && fullCanon(t1) != fullCanon(t2):
		ex.Ambig = "boundary-ambiguous"
	case err1 == nil && a.steps > deepSteps:
		ex.Ambig = "deep"
	}
	// the defect model
	d := &r1{w: w, maxSteps: 1000, stopAtEscaped: true, replaceAll: true}
	t3, err3 := d.evalValue(s, false)
	ex.bugOK = true
	// the class is taken over both trajectories: replacing every textual occurrence makes duplicates
	// coexist that the position-based model never sees side by side
	escFirst, dupEsc := a.escFirst || d.escFirst, a.dupEsc || d.dupEsc
	switch {
	case escFirst && dupEsc:
		ex.Class = "escaped-first+duplicate"
	case escFirst:
		ex.Class = "escaped-first"
	case dupEsc:
		ex.Class = "escaped-duplicate"
	case a.dupPlain || d.dupPlain:
		ex.Class = "duplicate"
	default:
		ex.Class = "plain"
	}
	if errors.Is(err3, errBlowup) {
		ex.BugBlow = true
	}
	ex.BugErr = err3 != nil
	if err3 == nil {
		ex.BugTree = unescapeTree(t3)
	}
	return ex
}

func sortStrings(p []string) {
	for i := 1; i < len(p); i++ {
		for j := i; j > 0 && p[j] < p[j-1]; j-- {
			p[j], p[j-1] = p[j-1], p[j]
		}
	}
}
