package main

// Source lists with repeated locations: the list [A, B, A] must yield merge(merge(A, B), A) — the plain
// right-biased fold over the list as given — whatever provider delivers A and however often the same
// URI string occurs (the collector's `--config base --config site --config base`, `--set k=a --set k=b
// --set k=a`).

import (
	"fmt"
	"math/rand"
	"os"
	"path/filepath"
	"strings"

	yaml "gopkg.in/yaml.v3"

	"go.opentelemetry.io/collector/verifharness/lib/confgen"
	"go.opentelemetry.io/collector/verifharness/lib/driver"
)

type changingDoc struct {
	Seq      []map[string]any `json:"sequence"`
	n        int
	returned []map[string]any
}

type repInput struct {
	Kind    string   `json:"kind"`
	Pattern string   `json:"pattern"`
	Pool    []any    `json:"pool"` // logical source maps (a changing source: the sequence of its maps)
	Modes   []string `json:"modes"`
	URIs    []string `json:"pool_uris"`
	Order   []int    `json:"order"` // the source list: indices into the pool
	List    []string `json:"uri_list"`
}

var repModes = []string{"direct-map", "vv-yaml", "yaml-uri", "env-uri", "file-uri", "vv-yaml-delimiter-keys", "vv-changing"}

var fileDir string

func sourceFileDir(w *confgen.Worker) string {
	if fileDir != "" {
		return fileDir
	}
	fileDir = w.Args.Extra
	if fileDir == "" {
		fileDir, _ = os.MkdirTemp("", "verif-C12-files-")
	}
	return fileDir
}

func runMergeRepeat(w *confgen.Worker, i int64, rng *rand.Rand) {
	np := 2 + rng.Intn(3)
	in := &repInput{Kind: "merge-repeat"}
	cd := &caseData{vv: staticVVMap(), docs: map[string]any{}}
	world := &world{vv: cd.vv, env: staticEnv}
	pool := make([]map[string]any, np)
	var changing []*changingDoc
	chg := map[int]*changingDoc{}
	selfOK := true
	var envSet []string
	for k := 0; k < np; k++ {
		pool[k] = genMergeMap(rng, 0)
	}
	// the source list
	switch p := rng.Intn(8); {
	case p == 0:
		in.Pattern, in.Order = "A,B,A", []int{0, 1, 0}
	case p == 1:
		in.Pattern, in.Order = "A,A,B", []int{0, 0, 1}
		if rng.Intn(2) == 0 {
			in.Pattern, in.Order = "B,A,A", []int{1, 0, 0}
		}
	case p == 2:
		in.Pattern, in.Order = "A,B,A,C,A", []int{0, 1, 0, np - 1, 0}
	case p == 3:
		in.Pattern, in.Order = "A,B,B,A", []int{0, 1, 1, 0}
	default:
		in.Pattern = "random"
		for n := 2 + rng.Intn(5); n > 0; n-- {
			in.Order = append(in.Order, rng.Intn(np))
		}
	}
	// the source between two occurrences of A sets a key that A sets as well
	if in.Pattern != "random" {
		a, b := pool[0], pool[1]
		if len(a) == 0 {
			a["k1"] = "a-value"
		}
		for k := range a {
			b[k] = []any{fmt.Sprint("b-", rng.Intn(100)), []any{int64(rng.Intn(9))}, int64(rng.Intn(100)), nil}[rng.Intn(4)]
			break
		}
	}
	for k := 0; k < np; k++ {
		m := pool[k]
		mode := repModes[rng.Intn(len(repModes))]
		if mode == "vv-changing" && rng.Intn(2) == 0 {
			mode = "vv-yaml" // keep the weak class small
		}
		phys := m
		if mode == "vv-yaml-delimiter-keys" {
			phys = collapse(rng, m)
		}
		key := fmt.Sprintf("SRC%d", k)
		txt := ""
		uri := "vv:" + key
		switch mode {
		case "direct-map":
			cd.docs[key] = phys
			in.Pool = append(in.Pool, m)
		case "vv-changing":
			d := &changingDoc{Seq: []map[string]any{m}}
			for n := 1 + rng.Intn(3); n > 0; n-- {
				d.Seq = append(d.Seq, genMergeMap(rng, 0))
			}
			cd.docs[key] = d
			changing = append(changing, d)
			chg[k] = d
			in.Pool = append(in.Pool, d)
		default:
			txt = confgen.YAML(phys, confgen.YAMLOpts{PlainStrings: rng.Intn(2) == 0})
			if len(m) == 0 {
				txt = []string{"{}\n", "", "# nothing here\n"}[rng.Intn(3)]
			}
			var back any
			if err := yaml.Unmarshal([]byte(txt), &back); err != nil || (len(m) > 0 && confgen.Canon(back) != confgen.Canon(phys)) {
				selfOK = false
			}
			switch mode {
			case "yaml-uri":
				uri = "yaml:" + txt
			case "env-uri":
				name := fmt.Sprintf("C12_SRC%d", k)
				os.Setenv(name, txt)
				envSet = append(envSet, name)
				uri = "env:" + name
			case "file-uri":
				path := filepath.Join(sourceFileDir(w), fmt.Sprintf("c12-src-%d-%d-%d.yaml", w.Args.Shard, i, k))
				if err := os.WriteFile(path, []byte(txt), 0o644); err != nil {
					selfOK = false
				}
				defer os.Remove(path)
				uri = "file:" + path
			default:
				cd.docs[key] = txt
			}
			in.Pool = append(in.Pool, m)
		}
		in.Modes = append(in.Modes, mode)
		in.URIs = append(in.URIs, uri)
	}
	defer func() {
		for _, n := range envSet {
			os.Unsetenv(n)
		}
	}()
	// reference: the plain right-biased fold over the list as given; every occurrence of a changing
	// source is modelled as a separate retrieval
	want := map[string]any{}
	occ := map[int]int{}
	repeated, nonAdjacent, usesChanging := false, false, false
	last := map[int]int{}
	for pos, k := range in.Order {
		in.List = append(in.List, in.URIs[k])
		m := pool[k]
		if d := chg[k]; d != nil {
			usesChanging = true
			m = d.Seq[len(d.Seq)-1]
			if occ[k] < len(d.Seq) {
				m = d.Seq[occ[k]]
			}
		}
		if lp, ok := last[k]; ok {
			repeated = true
			if pos-lp > 1 {
				nonAdjacent = true
			}
		}
		last[k] = pos
		occ[k]++
		want = refMerge(want, m)
	}
	r := &r1{w: world, maxSteps: 3000}
	wt, werr := r.evalTree(want)
	if werr != nil {
		panic("harness self-test: curated merge leaves must resolve: " + werr.Error())
	}
	wantView := anyView(unescapeTree(wt))
	m := w.Start(i, in, map[string]string{"kind": "merge-repeat", "class": "plain", "bug_blowup": "false"})
	m.Evals = 1
	if !selfOK {
		w.Disarm()
		m.Inconclusive = append(m.Inconclusive, "harness could not prepare a merge source")
		w.Done()
		return
	}
	cd.perURI = map[string]int{}
	conf, err, pv, stack := resolve(cd, in.List, "")
	var got map[string]any
	if pv == nil && err == nil {
		pv, stack = driver.Catch(func() { got = conf.ToStringMap() })
	}
	w.Disarm()
	m.Obs("merge_repeat_cases", 1)
	m.Obs("merge_repeat_pattern:"+in.Pattern, 1)
	for _, md := range in.Modes {
		m.Obs("merge_repeat_source_mode:"+md, 1)
	}
	if repeated {
		m.Obs("merge_repeat_lists_with_a_repeated_uri", 1)
	}
	if nonAdjacent {
		m.Obs("merge_repeat_lists_with_a_non_adjacent_repeat", 1)
		m.AddNontrivial("merge-repeat", confgen.Canon(in.Pool), fmt.Sprint(in.Order), strings.Join(in.Modes, ","))
	}
	for _, c := range occ {
		if c >= 3 {
			m.Obs("merge_repeat_lists_with_a_triple_occurrence", 1)
			break
		}
	}
	// how often every location was retrieved (observation: the pristine code retrieves every occurrence)
	perOcc := true
	for k, c := range occ {
		if cd.perURI[in.URIs[k]] != c {
			perOcc = false
		}
	}
	if pv == nil && err == nil && perOcc {
		m.Obs("merge_repeat_every_occurrence_retrieved", 1)
	}
	wit := map[string]any{"input": in}
	switch {
	case pv != nil:
		m.Violation("panic", fmt.Sprintf("resolving the source list %v panicked: %v", in.List, pv), map[string]any{"input": in, "stack": clip(stack, 3000)}, "site", driver.PanicSite(stack), "target", "merge", "cause", "-")
	case err != nil:
		wit["error"] = err.Error()
		m.Violation("merge", fmt.Sprintf("resolving %d valid sources failed: %v", len(in.List), err), wit, "kind", "error", "want", "-", "got", "-", "list", "repeated")
	case usesChanging:
		// the statement speaks of a list of source maps; for a location whose content differs at every
		// retrieval it does not say which content counts: only termination and no panic are demanded
		m.Obs("merge_repeat_weak(changing source)", 1)
		if confgen.Canon(confgen.Unwrap(got)) == confgen.Canon(wantView) {
			m.Obs("merge_repeat_changing_source_equals_per_occurrence_model", 1)
		}
	default:
		gu := confgen.Unwrap(got)
		if confgen.Canon(gu) != confgen.Canon(wantView) {
			p, wk, gk := firstDiff(wantView, gu, "")
			wit["want"], wit["got"], wit["first_difference"] = confgen.Canon(wantView), confgen.Canon(gu), p
			wit["retrievals_per_uri"] = cd.perURI
			m.Violation("merge", fmt.Sprintf("source list %s (%s) differs from the right-biased fold over the list as given at %s: want %s, got %s", in.Pattern, listShape(in.Order), p, clip(confgen.Canon(wantView), 200), clip(confgen.Canon(gu), 200)),
				wit, "kind", "value", "want", wk, "got", gk, "list", "repeated")
		} else {
			m.Obs("merge_repeat_agreed", 1)
		}
	}
	if i == 9 && w.Args.Shard == 5 {
		m.Sample = map[string]any{"input": in, "reference": confgen.Canon(wantView)}
	}
	w.Done()
}

func listShape(order []int) string {
	var b strings.Builder
	for _, k := range order {
		b.WriteByte(byte('A' + k))
	}
	return b.String()
}
