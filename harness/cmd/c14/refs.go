package main

// Secrets that reach the configuration through a reference (`token: ${env:TOKEN}`): the resolver YAML-parses what the
// provider returns, so a secret that looks like a number, a boolean, null, a list or a map is typed — and an opaque
// string field must nevertheless get the original text, exactly as a plain string field does. Control: a plain
// `string` field fed by the same reference (what the resolver promises for string fields is C12's business; here only
// "the opaque field stores what a string field stores" and "a failing decode does not print the secret" are judged).

import (
	"context"
	"fmt"
	"math/rand"
	"strings"

	"go.opentelemetry.io/collector/config/configopaque"
	"go.opentelemetry.io/collector/confmap"
	"go.opentelemetry.io/collector/verifharness/lib/driver"
)

type secProvider struct{ values map[string]string }

func (p *secProvider) Retrieve(_ context.Context, uri string, _ confmap.WatcherFunc) (*confmap.Retrieved, error) {
	k := strings.TrimPrefix(uri, "sec:")
	if k == "ROOT" {
		return confmap.NewRetrieved(map[string]any{
			"s": "${sec:x}", "p": "${sec:x}",
			"m": map[string]any{"k": "${sec:x}"}, "pm": map[string]any{"k": "${sec:x}"},
			"l": []any{"${sec:x}"}, "pl": []any{"${sec:x}"},
			"e": "Bearer ${sec:x}", "pe": "Bearer ${sec:x}",
		})
	}
	return confmap.NewRetrievedFromYAML([]byte(p.values[k]))
}
func (*secProvider) Scheme() string                 { return "sec" }
func (*secProvider) Shutdown(context.Context) error { return nil }

func scalarLooking(rng *rand.Rand) string {
	digits := func(n int) string {
		b := make([]byte, n)
		for i := range b {
			b[i] = byte('0' + rng.Intn(10))
		}
		if b[0] == '0' {
			b[0] = '7'
		}
		return string(b)
	}
	switch rng.Intn(12) {
	case 0, 1, 2:
		return digits(10 + rng.Intn(8))
	case 3:
		return "0" + digits(9) // leading zero: octal-looking
	case 4:
		return digits(4) + "e" + digits(2)
	case 5:
		return digits(6) + "." + digits(4) + "0"
	case 6:
		return "0x" + strings.ToUpper(fmt.Sprintf("%x", rng.Int63()))
	case 7:
		return []string{"true", "false", "yes", "null", "~", "True", "NULL"}[rng.Intn(7)]
	case 8:
		return "[" + digits(12) + "]"
	case 9:
		return "{k" + digits(10) + ": v}"
	case 10:
		return "k" + digits(10) + ": v" + digits(4)
	}
	return "-" + digits(12)
}

func refPositives(c *driver.Ctx, rng *rand.Rand, sec string) {
	cands := []string{scalarLooking(rng), scalarLooking(rng)}
	if !strings.Contains(sec, "$") {
		cands = append(cands, sec)
	}
	for _, s := range cands {
		prov := &secProvider{values: map[string]string{"x": s}}
		r, err := confmap.NewResolver(confmap.ResolverSettings{
			URIs:              []string{"sec:ROOT"},
			ProviderFactories: []confmap.ProviderFactory{confmap.NewProviderFactory(func(confmap.ProviderSettings) confmap.Provider { return prov })},
		})
		if err != nil {
			panic("harness: NewResolver: " + err.Error())
		}
		conf, err := r.Resolve(context.Background())
		_ = r.Shutdown(context.Background())
		if err != nil {
			c.Observe("reference_secrets_not_resolvable", 1) // e.g. text yaml cannot hold; no verdict
			continue
		}
		c.Observe("reference_secrets_checked", 1)
		type opaque struct {
			S configopaque.String            `mapstructure:"s"`
			M map[string]configopaque.String `mapstructure:"m"`
			L []configopaque.String          `mapstructure:"l"`
			E configopaque.String            `mapstructure:"e"`
		}
		type plain struct {
			S string            `mapstructure:"p"`
			M map[string]string `mapstructure:"pm"`
			L []string          `mapstructure:"pl"`
			E string            `mapstructure:"pe"`
		}
		var o opaque
		var p plain
		perr := conf.Unmarshal(&p, confmap.WithIgnoreUnused())
		oerr := conf.Unmarshal(&o, confmap.WithIgnoreUnused())
		wit := map[string]any{"secret_from_provider": s, "plain_error": fmt.Sprint(perr), "opaque_error": fmt.Sprint(oerr)}
		shape := "string-like"
		if s != sec {
			shape = "scalar-looking"
		}
		switch {
		case perr != nil:
			c.Observe("reference_secrets_plain_control_fails", 1) // the resolver's promise for plain strings is C12's
		case oerr != nil:
			c.Violation("unmarshal", fmt.Sprintf("a secret supplied through a reference (%q) decodes into plain string fields but not into opaque string fields: %v", s, oerr), wit,
				"path", "reference", "shape", shape, "fault", "decode-error")
		default:
			got := []string{string(o.S), string(o.M["k"]), first(o.L), string(o.E)}
			want := []string{p.S, p.M["k"], firstS(p.L), p.E}
			for i := range got {
				if got[i] != want[i] {
					wit["opaque_fields"], wit["plain_fields"] = got, want
					c.Violation("unmarshal", fmt.Sprintf("a secret supplied through a reference (%q) is stored as %q in an opaque string field and as %q in a plain string field", s, got[i], want[i]), wit,
						"path", "reference", "shape", shape, "fault", "differs-from-plain-string")
					break
				}
			}
		}
		// whatever the decode says, it must not print a distinctive secret
		if oerr != nil && len(s) >= 10 && strings.Contains(oerr.Error(), s) {
			c.Violation("leak", fmt.Sprintf("the error of decoding a secret supplied through a reference into an opaque field prints it: %s", oerr), wit,
				"path", "error", "verb", "-", "container", "reference-decode")
		}
	}
}

func first(l []configopaque.String) string {
	if len(l) == 0 {
		return "<empty>"
	}
	return string(l[0])
}

func firstS(l []string) string {
	if len(l) == 0 {
		return "<empty>"
	}
	return l[0]
}
