// C14 — opaque configuration values never appear in any rendering.
//
// Monitor: needle search. Every rendering path is executed on the real configopaque.String (alone and
// inside the containers a configuration can have); the output is searched for the secret and for its
// standard transforms. The fmt verb × flag × width grid is enumerated completely for every secret.
package main

import (
	"bytes"
	"context"
	"encoding/base64"
	"encoding/gob"
	"encoding/hex"
	"encoding/json"
	"encoding/xml"
	"errors"
	"fmt"
	"log/slog"
	"math/rand"
	"net/http"
	"net/http/httptest"
	"strconv"
	"strings"
	"text/template"
	"time"

	"go.uber.org/zap"
	"go.uber.org/zap/zapcore"
	"google.golang.org/protobuf/types/known/emptypb"
	yaml2 "gopkg.in/yaml.v2"
	yaml3 "gopkg.in/yaml.v3"

	"go.opentelemetry.io/collector/component/componenttest"
	"go.opentelemetry.io/collector/config/configcompression"
	"go.opentelemetry.io/collector/config/configgrpc"
	"go.opentelemetry.io/collector/config/confighttp"
	"go.opentelemetry.io/collector/config/configopaque"
	"go.opentelemetry.io/collector/config/configtls"
	"go.opentelemetry.io/collector/confmap"
	"go.opentelemetry.io/collector/confmap/xconfmap"
	"go.opentelemetry.io/collector/verifharness/lib/driver"
)

const marker = "[REDACTED]"

type inner struct {
	S configopaque.String            `mapstructure:"s" json:"s" yaml:"s"`
	P *configopaque.String           `mapstructure:"p" json:"p" yaml:"p"`
	M map[string]configopaque.String `mapstructure:"m" json:"m" yaml:"m"`
	L []configopaque.String          `mapstructure:"l" json:"l" yaml:"l"`
	A [2]configopaque.String         `mapstructure:"a" json:"a" yaml:"a"`
	I any                            `mapstructure:"i" json:"i" yaml:"i"`
	N nested                         `mapstructure:"n" json:"n" yaml:"n"`
}

// withPtr holds the secret behind a pointer-to-struct nested inside a struct.
type withPtr struct {
	Name string  `mapstructure:"name" json:"name" yaml:"name"`
	N    *nested `mapstructure:"n" json:"n" yaml:"n"`
}

type nested struct {
	Deep  map[string][]configopaque.String `mapstructure:"deep" json:"deep" yaml:"deep"`
	Inner struct {
		X configopaque.String `mapstructure:"x" json:"x" yaml:"x"`
	} `mapstructure:"inner" json:"inner" yaml:"inner"`
}

type keyed struct {
	K map[configopaque.String]string `mapstructure:"k" json:"k" yaml:"k"`
}

func build(s configopaque.String) (inner, keyed) {
	p := s
	in := inner{S: s, P: &p, M: map[string]configopaque.String{"h": s}, L: []configopaque.String{s, s}, A: [2]configopaque.String{s, s}, I: s,
		N: nested{Deep: map[string][]configopaque.String{"d": {s}}}}
	in.N.Inner.X = s
	return in, keyed{K: map[configopaque.String]string{s: "v"}}
}

// marshalerSub builds its configuration map by hand, as confmap's own test Marshaler does.
type marshalerSub struct {
	Token   configopaque.String
	Headers map[string]configopaque.String
	List    []configopaque.String
}

func (m marshalerSub) Marshal(c *confmap.Conf) error {
	return c.Merge(confmap.NewFromStringMap(map[string]any{"token": m.Token, "headers": m.Headers, "list": m.List}))
}

type withMarshaler struct {
	Name string       `mapstructure:"name"`
	Sub  marshalerSub `mapstructure:"sub"`
}

type markerFirst struct {
	A configopaque.String            `mapstructure:"a"`
	B configopaque.String            `mapstructure:"b"`
	C map[string]configopaque.String `mapstructure:"c"`
	D []configopaque.String          `mapstructure:"d"`
}

type withRemain struct {
	Name string         `mapstructure:"name"`
	Rest map[string]any `mapstructure:",remain"`
}

type badEntry struct {
	Limit int `mapstructure:"limit"`
}

func (*badEntry) Validate() error { return errors.New("limit must be positive") }

type keyedCfg struct {
	Tokens map[configopaque.String]*badEntry `mapstructure:"tokens"`
}

// needles returns the secret and its standard transforms.
func needles(sec string) []string {
	q := strconv.Quote(sec)
	q = q[1 : len(q)-1]
	qa := strconv.QuoteToASCII(sec)
	qa = qa[1 : len(qa)-1]
	jb, _ := json.Marshal(sec)
	js := string(jb[1 : len(jb)-1])
	var dec, uplus, hexsp []string
	for _, b := range []byte(sec) {
		dec = append(dec, strconv.Itoa(int(b)))
		hexsp = append(hexsp, fmt.Sprintf("%x", b))
	}
	for _, r := range sec {
		uplus = append(uplus, fmt.Sprintf("U+%04X", r))
	}
	out := []string{sec, q, qa, js,
		hex.EncodeToString([]byte(sec)), strings.ToUpper(hex.EncodeToString([]byte(sec))),
		base64.StdEncoding.EncodeToString([]byte(sec)), base64.RawStdEncoding.EncodeToString([]byte(sec)),
		base64.URLEncoding.EncodeToString([]byte(sec)),
		strings.Join(dec, " "), strings.Join(dec, ","), strings.Join(uplus, " "), strings.Join(hexsp, " ")}
	// a long infix of the secret is a leak too (truncating precisions such as %.10s)
	if len(sec) >= 16 {
		out = append(out, sec[:10], sec[len(sec)-10:])
	}
	return out
}

func leaks(out string, nd []string) string {
	for _, n := range nd {
		if n != "" && strings.Contains(out, n) {
			return n
		}
	}
	return ""
}

var secretClasses = []string{"token", "format-directives", "contains-marker", "unicode", "quotes-newlines", "long", "yaml-special", "only-percent", "whitespace-edges", "control-chars"}

func mkSecret(rng *rand.Rand, class string) string {
	const al = "abcdefghijkmnpqrstuvwxyzABCDEFGHJKLMNPQRSTUVWXYZ23456789"
	tok := func(n int) string {
		b := make([]byte, n)
		for i := range b {
			b[i] = al[rng.Intn(len(al))]
		}
		return string(b)
	}
	switch class {
	case "token":
		return tok(12 + rng.Intn(8))
	case "format-directives":
		return tok(6) + []string{"%s", "%v", "%!", "%d%%", "%[1]s", "%!s(MISSING)"}[rng.Intn(6)] + tok(8)
	case "contains-marker":
		return tok(6) + marker + tok(7)
	case "unicode":
		return tok(5) + []string{"пароль", "秘密", "🔑🔑", "é́"}[rng.Intn(4)] + tok(6)
	case "quotes-newlines":
		return tok(5) + []string{"\"", "'", "\n", "\t\\", "`", "\x00"}[rng.Intn(6)] + tok(8)
	case "long":
		return tok(200 + rng.Intn(200))
	case "whitespace-edges":
		// leading / trailing (unicode) white space is part of the secret and must survive unmarshalling
		ws := []string{" ", "\t", "\n", "\r\n", "\u00a0", "\u2003", "  "}
		return ws[rng.Intn(len(ws))] + tok(10) + ws[rng.Intn(len(ws))]
	case "control-chars":
		// what a token read from a file or a bad paste looks like: net/http rejects such header values
		cc := []string{"\n", "\r\n", "\x00", "\x7f", "\x1b[31m"}
		return tok(12) + cc[rng.Intn(len(cc))]
	case "yaml-special":
		return []string{": ", "- ", "{", "#", "!!", "&a "}[rng.Intn(6)] + tok(12)
	default:
		return "%" + tok(12) + "%"
	}
}

type rendering struct {
	path      string // rendering path family
	detail    string // exact format / function
	container string
	verb      string
	out       string
	strlike   bool // output must contain the marker
}

const verbs = "vsqxXdbcoOUeEfFgGtTpwzyk"

var flagSets = []string{"", "+", "#", "-", " ", "0", "+#", "# ", "#0", "+ #-0", "-#", "+0", " #"}
var widths = []string{"", "5", ".3", "20.10", "1", ".0", "300", "[1]"}

func fmtGrid(s configopaque.String, in inner, kd keyed, emit func(rendering)) {
	p := s
	var pp = &p
	conts := []struct {
		name string
		val  any
	}{
		{"val", s}, {"ptr", &p}, {"ptrptr", &pp}, {"struct", in}, {"structptr", &in}, {"slice", in.L}, {"mapval", in.M}, {"arr", in.A},
		{"mapkey", kd.K}, {"iface", in.I}, {"nested", &in.N}, {"struct-with-nested-ptr", withPtr{"n", &in.N}}, {"ptr-to-struct-with-nested-ptr", &withPtr{"n", &in.N}}, {"anyslice", []any{s, &p}}, {"structkeyed", kd},
		{"http.Headers", confighttp.ClientConfig{Headers: in.M}.Headers}, {"grpc.Headers", configgrpc.ClientConfig{Headers: in.M}.Headers},
		// pointers to structs held by slices and maps (a list of sub-configurations, a map of named ones)
		{"anyslice-of-structptr", []any{&in}}, {"slice-of-structptr", []*nested{&in.N}}, {"map-of-structptr", map[string]*nested{"k": &in.N}},
	}
	for _, v := range verbs {
		for _, f := range flagSets {
			for _, w := range widths {
				format := "%" + f + w + string(v)
				for _, c := range conts {
					strlike := (v == 's' || v == 'v') && (c.name == "val" || c.name == "iface") && w != ".3" && w != ".0" && w != "1" || false
					if w == "1" {
						strlike = (v == 's' || v == 'v') && (c.name == "val" || c.name == "iface")
					}
					emit(rendering{"fmt", "Sprintf " + format, c.name, string(v), fmt.Sprintf(format, c.val), strlike})
				}
			}
		}
		// the same verb through other entry points of fmt
		format := "%" + string(v)
		var b bytes.Buffer
		fmt.Fprintf(&b, format, s)
		emit(rendering{"fmt", "Fprintf " + format, "val", string(v), b.String(), false})
		emit(rendering{"fmt", "Errorf " + format, "val", string(v), fmt.Errorf("x: "+format, s).Error(), false})
		emit(rendering{"fmt", "Errorf-struct " + format, "struct", string(v), fmt.Errorf("x: "+format, in).Error(), false})
		emit(rendering{"fmt", "Appendf " + format, "val", string(v), string(fmt.Appendf(nil, format, s)), false})
	}
	emit(rendering{"fmt", "Sprint", "val", "v", fmt.Sprint(s), true})
	emit(rendering{"fmt", "Sprint", "struct", "v", fmt.Sprint(in, &in, in.L, in.M), true})
	emit(rendering{"fmt", "Sprintln", "val", "v", fmt.Sprintln(s, &p, in), true})
	emit(rendering{"fmt", "Sprint mapkey", "mapkey", "v", fmt.Sprint(kd.K, kd), true})
	emit(rendering{"fmt", "Errorf %w of Errorf %v", "struct", "v", fmt.Errorf("x %w", fmt.Errorf("%v", in)).Error(), true})
	emit(rendering{"fmt", "extra operands", "val", "v", fmt.Sprintf("no verbs", s), true})
	emit(rendering{"fmt", "missing width", "val", "v", fmt.Sprintf("%*v", s), false})
	emit(rendering{"fmt", "star width", "val", "v", fmt.Sprintf("%*v %.*v", 5, s, 3, s), false})
}

func encoders(s configopaque.String, in inner, kd keyed, emit func(rendering)) {
	enc := func(path, detail, cont string, out string, err error, strlike bool) {
		if err != nil {
			out = out + " ERR:" + err.Error()
		}
		emit(rendering{path, detail, cont, "", out, strlike && err == nil})
	}
	b, err := json.Marshal(s)
	enc("json", "Marshal", "val", string(b), err, true)
	b, err = json.Marshal(in)
	enc("json", "Marshal", "struct", string(b), err, true)
	b, err = json.MarshalIndent(&in, "", " ")
	enc("json", "MarshalIndent", "structptr", string(b), err, true)
	b, err = json.Marshal(map[string]any{"a": in.L, "b": in.M, "c": in.P, "d": in.A})
	enc("json", "Marshal", "anymap", string(b), err, true)
	b, err = json.Marshal(kd)
	enc("json", "Marshal", "mapkey", string(b), err, false)
	b, err = xml.Marshal(struct{ S configopaque.String }{s})
	enc("xml", "Marshal", "struct", string(b), err, true)
	b, err = xml.Marshal(struct {
		S configopaque.String `xml:"s,attr"`
		L []configopaque.String
	}{s, in.L})
	enc("xml", "Marshal attr", "struct", string(b), err, true)
	var gb bytes.Buffer
	err = gob.NewEncoder(&gb).Encode(struct {
		S configopaque.String
		L []configopaque.String
		M map[string]configopaque.String
	}{s, in.L, in.M})
	enc("gob", "Encode", "struct", gb.String(), err, true)
	b, err = yaml3.Marshal(in)
	enc("yaml.v3", "Marshal", "struct", string(b), err, true)
	b, err = yaml3.Marshal(s)
	enc("yaml.v3", "Marshal", "val", string(b), err, true)
	b, err = yaml3.Marshal(kd)
	enc("yaml.v3", "Marshal", "mapkey", string(b), err, false)
	b, err = yaml2.Marshal(in)
	enc("yaml.v2", "Marshal", "struct", string(b), err, true)
	b, err = yaml2.Marshal(kd)
	enc("yaml.v2", "Marshal", "mapkey", string(b), err, false)
	tb, err := s.MarshalText()
	enc("text", "MarshalText", "val", string(tb), err, true)
	bb, err := s.MarshalBinary()
	enc("binary", "MarshalBinary", "val", string(bb), err, true)
	enc("stringer", "String()", "val", s.String(), nil, true)
	enc("stringer", "GoString()", "val", s.GoString(), nil, true)
	enc("strconv", "fmt.Stringer via any", "val", fmt.Sprint(any(s).(fmt.Stringer)), nil, true)

	// confmap.Marshal and everything a user can do with the result
	for _, c := range []struct {
		name string
		val  any
	}{{"struct", in}, {"structptr", &in}, {"mapkey", kd},
		{"mapkey-two-entries", keyed{K: map[configopaque.String]string{s: "v", s + "-2": "w"}}},
		{"struct-with-marshaler", &withMarshaler{Name: "n", Sub: marshalerSub{Token: s, Headers: in.M, List: in.L}}},
		// a field that holds the marker itself (pasted from redacted output) in front of the real secrets
		{"struct-marker-then-secret", &markerFirst{A: configopaque.String(marker), B: s, C: map[string]configopaque.String{"h": s}, D: []configopaque.String{configopaque.String(marker), s}}},
		// left-over keys kept in a `,remain` map, some of them wrapped as opaque values by the component
		{"struct-with-remain-map", &withRemain{Name: "n", Rest: map[string]any{"token": s, "nested": map[string]any{"k": s}, "list": []any{s}, "sub": in}}},
		{"http.ClientConfig", &confighttp.ClientConfig{Endpoint: "http://x", Headers: in.M}},
		{"http.ServerConfig", &confighttp.ServerConfig{Endpoint: "x:1", ResponseHeaders: in.M}},
		{"grpc.ClientConfig", &configgrpc.ClientConfig{Endpoint: "x:1", Headers: in.M}}} {
		cm := confmap.New()
		err := cm.Marshal(c.val)
		sm := cm.ToStringMap()
		enc("confmap", "Marshal+ToStringMap %v", c.name, fmt.Sprint(sm), err, c.name != "mapkey" && c.name != "mapkey-two-entries")
		if (c.name == "struct-marker-then-secret" || c.name == "struct-with-remain-map") && err == nil {
			var back map[string]any
			uerr := cm.Unmarshal(&back)
			enc("confmap", "Marshal, then Unmarshal into map[string]any %#v", c.name, fmt.Sprintf("%#v", back), uerr, false)
			// and into plain strings, as code that reads the effective configuration does
			var plain struct {
				B      string            `mapstructure:"b"`
				C      map[string]string `mapstructure:"c"`
				D      []string          `mapstructure:"d"`
				Token  string            `mapstructure:"token"`
				Nested map[string]string `mapstructure:"nested"`
				List   []string          `mapstructure:"list"`
			}
			perr := cm.Unmarshal(&plain, confmap.WithIgnoreUnused())
			enc("confmap", "Marshal, then Unmarshal into plain strings", c.name, fmt.Sprintf("%+v", plain), perr, false)
		}
		if c.name == "struct-with-marshaler" && err == nil {
			// what the marshalled configuration gives back to code that reads it as plain strings
			var back struct {
				Sub struct {
					Token   string            `mapstructure:"token"`
					Headers map[string]string `mapstructure:"headers"`
					List    []string          `mapstructure:"list"`
				} `mapstructure:"sub"`
			}
			uerr := cm.Unmarshal(&back, confmap.WithIgnoreUnused())
			enc("confmap", "Marshal, then Unmarshal into plain strings", c.name, fmt.Sprintf("%+v", back), uerr, false)
		}
		enc("confmap", "Marshal+ToStringMap %#v", c.name, fmt.Sprintf("%#v", sm), err, false)
		jb, jerr := json.Marshal(sm)
		enc("confmap", "Marshal+ToStringMap json", c.name, string(jb), jerr, false)
		yb, yerr := yaml3.Marshal(sm)
		enc("confmap", "Marshal+ToStringMap yaml", c.name, string(yb), yerr, false)
		for _, k := range cm.AllKeys() {
			enc("confmap", "Marshal+Get", c.name, fmt.Sprintf("%s=%v", k, cm.Get(k)), nil, false)
		}
	}
	// error texts a user sees when a configuration holding the secret is validated or used
	errText := func(err error) string {
		if err == nil {
			return ""
		}
		return err.Error() + " | " + fmt.Sprintf("%v %+v %q", err, err, err)
	}
	hc := &confighttp.ClientConfig{Endpoint: "http://127.0.0.1:1", Headers: in.M, Compression: "gzip", CompressionParams: configcompression.CompressionParams{Level: 1000}}
	emit(rendering{"error", "confighttp.ClientConfig.Validate", "http.ClientConfig", "", errText(hc.Validate()), false})
	emit(rendering{"error", "xconfmap.Validate(http.ClientConfig)", "http.ClientConfig", "", errText(xconfmap.Validate(hc)), false})
	hc2 := &confighttp.ClientConfig{Endpoint: "http://127.0.0.1:1", Headers: in.M} // nothing else wrong: a check of the headers themselves would be the first error
	emit(rendering{"error", "confighttp.ClientConfig.Validate (headers only)", "http.ClientConfig", "", errText(hc2.Validate()), false})
	emit(rendering{"error", "xconfmap.Validate(http.ClientConfig, headers only)", "http.ClientConfig", "", errText(xconfmap.Validate(hc2)), false})
	hs := &confighttp.ServerConfig{Endpoint: "127.0.0.1:0", ResponseHeaders: in.M}
	emit(rendering{"error", "xconfmap.Validate(http.ServerConfig)", "http.ServerConfig", "", errText(xconfmap.Validate(hs)), false})
	gc := &configgrpc.ClientConfig{Endpoint: "127.0.0.1:1", Headers: in.M, BalancerName: "no_such_balancer"}
	emit(rendering{"error", "configgrpc.ClientConfig.Validate", "grpc.ClientConfig", "", errText(gc.Validate()), false})
	emit(rendering{"error", "xconfmap.Validate(grpc.ClientConfig)", "grpc.ClientConfig", "", errText(xconfmap.Validate(gc)), false})
	// a configuration map keyed by the secret (tenant tokens -> settings) with an invalid entry: the path in the error
	// names the entry
	kc := &keyedCfg{Tokens: map[configopaque.String]*badEntry{in.S: {}}}
	emit(rendering{"error", "xconfmap.Validate(map keyed by the opaque string, invalid entry)", "map[opaque]struct", "", errText(xconfmap.Validate(kc)), false})
	// a request through the real client: header values net/http rejects produce an error the exporter logs
	okc := &confighttp.ClientConfig{Endpoint: "http://127.0.0.1:1", Headers: in.M}
	if cl, err := okc.ToClient(context.Background(), componenttest.NewNopHost(), componenttest.NewNopTelemetrySettings()); err != nil {
		emit(rendering{"error", "confighttp.ToClient", "http.ClientConfig", "", errText(err), false})
	} else {
		req, _ := http.NewRequest(http.MethodPost, "http://127.0.0.1:1/x", strings.NewReader("x"))
		resp, err := cl.Do(req)
		if resp != nil {
			resp.Body.Close()
		}
		emit(rendering{"error", "http client Do with configured headers", "http.ClientConfig", "", errText(err), false})
		cl.CloseIdleConnections()
	}
	// zap field encoders
	for _, encName := range []string{"json", "console"} {
		var zb bytes.Buffer
		var ze zapcore.Encoder
		if encName == "json" {
			ze = zapcore.NewJSONEncoder(zap.NewProductionEncoderConfig())
		} else {
			ze = zapcore.NewConsoleEncoder(zap.NewDevelopmentEncoderConfig())
		}
		lg := zap.New(zapcore.NewCore(ze, zapcore.AddSync(&zb), zap.DebugLevel))
		p := s
		lg.Info("m", zap.Any("a", in), zap.Any("s", s), zap.Reflect("r", in), zap.Stringer("st", s), zap.String("f", fmt.Sprint(s)),
			zap.Any("l", in.L), zap.Any("m", in.M), zap.Any("p", &p), zap.Stringers("ss", in.L), zap.Any("arr", in.A), zap.Reflect("rp", &in),
			zap.Any("hdr", confighttp.ClientConfig{Headers: in.M}.Headers), zap.Error(fmt.Errorf("e: %v", s)))
		lg.Sugar().Infow("sugar", "s", s, "in", in)
		lg.Sugar().Infof("sugar %v %s %+v", s, s, in)
		emit(rendering{"zap", encName + " fields", "mixed", "", zb.String(), true})
		zb.Reset()
		lg.Info("k", zap.Any("k", kd.K), zap.Reflect("kr", kd))
		emit(rendering{"zap", encName + " fields", "mapkey", "", zb.String(), false})
	}
	// text/template and slog
	var tb2 bytes.Buffer
	t := template.Must(template.New("t").Parse(`{{.S}} {{.L}} {{.M}} {{printf "%v %s %q" .S .S .S}} {{.P}} {{index .M "h"}} {{.A}} {{print .I}} {{.N.Inner.X}}`))
	err = t.Execute(&tb2, in)
	enc("text/template", "Execute", "struct", tb2.String(), err, true)
	for _, h := range []string{"text", "json"} {
		var sb bytes.Buffer
		var hd slog.Handler
		if h == "text" {
			hd = slog.NewTextHandler(&sb, nil)
		} else {
			hd = slog.NewJSONHandler(&sb, nil)
		}
		lg := slog.New(hd)
		lg.Info("m", "s", s, "in", in, "l", in.L, "m", in.M, "p", in.P, slog.Any("any", s), slog.String("str", s.String()), slog.Group("g", "x", s))
		emit(rendering{"slog", h + " handler", "mixed", "", sb.String(), true})
		sb.Reset()
		lg.Info("k", "k", kd.K, "kd", kd)
		emit(rendering{"slog", h + " handler", "mapkey", "", sb.String(), false})
	}
}

// renderAll renders one value through the paths a configuration struct takes in practice (fmt in log lines and
// error messages, the encoders, confmap.Marshal, zap, slog).
func renderAll(container string, v any, emit func(rendering)) {
	for _, f := range []string{"%v", "%+v", "%#v", "%s", "%q", "%d", "%x"} {
		emit(rendering{"fmt", "Sprintf " + f, container, f[len(f)-1:], fmt.Sprintf(f, v), false})
	}
	emit(rendering{"fmt", "Sprint", container, "v", fmt.Sprint(v), false})
	emit(rendering{"fmt", "Sprint in slice", container, "v", fmt.Sprint([]any{v}, map[string]any{"c": v}), false})
	emit(rendering{"fmt", "Errorf %v", container, "v", fmt.Errorf("cannot use %v: %w", v, errors.New("x")).Error(), false})
	if b, err := json.Marshal(v); err == nil {
		emit(rendering{"json", "Marshal", container, "", string(b), false})
	}
	if b, err := yaml3.Marshal(v); err == nil {
		emit(rendering{"yaml.v3", "Marshal", container, "", string(b), false})
	}
	cm := confmap.New()
	if err := cm.Marshal(v); err == nil {
		sm := cm.ToStringMap()
		emit(rendering{"confmap", "Marshal+ToStringMap %v", container, "", fmt.Sprint(sm), false})
		if b, err := json.Marshal(sm); err == nil {
			emit(rendering{"confmap", "Marshal+ToStringMap json", container, "", string(b), false})
		}
	}
	var zb bytes.Buffer
	lg := zap.New(zapcore.NewCore(zapcore.NewJSONEncoder(zap.NewProductionEncoderConfig()), zapcore.AddSync(&zb), zap.DebugLevel))
	lg.Info("m", zap.Any("cfg", v), zap.Reflect("r", v))
	lg.Sugar().Infof("cfg %v %+v", v, v)
	emit(rendering{"zap", "json fields", container, "", zb.String(), false})
	var sb bytes.Buffer
	slog.New(slog.NewTextHandler(&sb, nil)).Info("m", "cfg", v)
	slog.New(slog.NewJSONHandler(&sb, nil)).Info("m", "cfg", v)
	emit(rendering{"slog", "handlers", container, "", sb.String(), false})
}

// usedConfigs: configuration structs are rendered AFTER they were put to use (client / server built from
// them, one request sent): whatever the build step derives from the opaque values and keeps (caches,
// flattened header lists) must not turn up in a later rendering of the configuration.
func usedConfigs(in inner, emit func(rendering)) {
	ctx := context.Background()
	host := componenttest.NewNopHost()
	ts := componenttest.NewNopTelemetrySettings()
	errText := func(err error) string {
		if err == nil {
			return ""
		}
		return err.Error() + " | " + fmt.Sprintf("%v %+v %q", err, err, err)
	}
	gc := &configgrpc.ClientConfig{Endpoint: "127.0.0.1:1", Headers: in.M, TLSSetting: configtls.ClientConfig{Insecure: true}}
	conn, err := gc.ToClientConn(ctx, host, ts)
	emit(rendering{"error", "configgrpc.ToClientConn", "grpc.ClientConfig", "", errText(err), false})
	if conn != nil {
		// one call, so that per-RPC header handling has run; the dial fails (nobody listens), which is fine
		cctx, cancel := context.WithTimeout(ctx, 50*time.Millisecond)
		ierr := conn.Invoke(cctx, "/verif.S/M", &emptypb.Empty{}, &emptypb.Empty{})
		cancel()
		emit(rendering{"error", "grpc Invoke with configured headers", "grpc.ClientConfig", "", errText(ierr), false})
		conn.Close()
	}
	renderAll("grpc.ClientConfig after ToClientConn", gc, emit)
	renderAll("grpc.ClientConfig (value) after ToClientConn", *gc, emit)

	hc := &confighttp.ClientConfig{Endpoint: "http://127.0.0.1:1", Headers: in.M}
	if cl, err := hc.ToClient(ctx, host, ts); err == nil {
		req, _ := http.NewRequest(http.MethodPost, "http://127.0.0.1:1/x", strings.NewReader("x"))
		if resp, err := cl.Do(req); err == nil {
			resp.Body.Close()
		}
		cl.CloseIdleConnections()
	}
	renderAll("http.ClientConfig after ToClient", hc, emit)
	renderAll("http.ClientConfig (value) after ToClient", *hc, emit)

	hs := &confighttp.ServerConfig{Endpoint: "127.0.0.1:0", ResponseHeaders: in.M}
	if srv, err := hs.ToServer(ctx, host, ts, http.NotFoundHandler()); err == nil && srv != nil {
		rec := httptest.NewRecorder()
		srv.Handler.ServeHTTP(rec, httptest.NewRequest(http.MethodGet, "/x", nil))
		_ = srv.Close()
	} else {
		emit(rendering{"error", "confighttp.ToServer", "http.ServerConfig", "", errText(err), false})
	}
	renderAll("http.ServerConfig after ToServer", hs, emit)
}

// marshalIntoSource: the round trip Conf -> Unmarshal(&cfg) -> Marshal(cfg) into THE SAME Conf (what a
// component does that normalises its own section): afterwards the Conf must hold the redacted values only.
func marshalIntoSource(sec string, emit func(rendering)) {
	raw := map[string]any{"s": sec, "p": sec, "m": map[string]any{"h": sec, "k2": sec}, "l": []any{sec, sec}, "a": []any{sec, sec},
		"n": map[string]any{"deep": map[string]any{"d": []any{sec}}, "inner": map[string]any{"x": sec}}}
	cm := confmap.NewFromStringMap(raw)
	var cfg inner
	if err := cm.Unmarshal(&cfg); err != nil {
		return
	}
	err := cm.Marshal(cfg)
	if err != nil {
		emit(rendering{"error", "Conf.Marshal into its source", "struct", "", err.Error(), false})
		return
	}
	sm := cm.ToStringMap()
	emit(rendering{"confmap", "Unmarshal+Marshal into the same Conf, ToStringMap %v", "struct", "", fmt.Sprint(sm), false})
	if b, err := json.Marshal(sm); err == nil {
		emit(rendering{"confmap", "Unmarshal+Marshal into the same Conf, json", "struct", "", string(b), false})
	}
	for _, k := range cm.AllKeys() {
		emit(rendering{"confmap", "Unmarshal+Marshal into the same Conf, Get", "struct", "", fmt.Sprintf("%s=%v", k, cm.Get(k)), false})
	}
	// the same through a real configuration type
	hraw := map[string]any{"endpoint": "http://x", "headers": map[string]any{"authorization": sec, "x-k": sec}}
	hcm := confmap.NewFromStringMap(hraw)
	hc := confighttp.NewDefaultClientConfig()
	if err := hcm.Unmarshal(&hc); err == nil {
		if err := hcm.Marshal(hc); err == nil {
			emit(rendering{"confmap", "Unmarshal+Marshal into the same Conf, ToStringMap %v", "http.ClientConfig", "", fmt.Sprint(hcm.ToStringMap()), false})
			emit(rendering{"confmap", "Unmarshal+Marshal into the same Conf, Sub", "http.ClientConfig", "", fmt.Sprint(hcm.Get("headers")), false})
		}
	}
}

// The shapes configuration structs of real components have: shared sub-structs embedded with `squash` (plain, or
// implementing confmap.Unmarshaler — alone under an outer Unmarshal method, or two of them side by side), sub-structs
// behind pointers, nested Unmarshalers, lists and maps of sub-structs, and the non-nil component.Config interface the
// collector decodes every section into. Unmarshalling must store the secret unchanged in every one of them.
type shapeLeaf struct {
	Tok configopaque.String            `mapstructure:"tok"`
	Hdr map[string]configopaque.String `mapstructure:"hdr"`
	N   int                            `mapstructure:"n"`
}

type ShapeEmbPlain struct {
	Tok configopaque.String `mapstructure:"tok"`
}

type ShapeEmbA struct {
	TokA configopaque.String            `mapstructure:"tok_a"`
	HdrA map[string]configopaque.String `mapstructure:"hdr_a"`
}

func (e *ShapeEmbA) Unmarshal(cm *confmap.Conf) error {
	return cm.Unmarshal(e, confmap.WithIgnoreUnused())
}

type ShapeEmbB struct {
	TokB configopaque.String `mapstructure:"tok_b"`
}

func (e *ShapeEmbB) Unmarshal(cm *confmap.Conf) error {
	return cm.Unmarshal(e, confmap.WithIgnoreUnused())
}

// ShapeEmbC moves a deprecated key to its new name in its own Unmarshal: the secret ends up under a key the input
// does not have.
type ShapeEmbC struct {
	TokC configopaque.String `mapstructure:"tok_c"`
	Old  configopaque.String `mapstructure:"old_tok_c"`
}

func (e *ShapeEmbC) Unmarshal(cm *confmap.Conf) error {
	if err := cm.Unmarshal(e, confmap.WithIgnoreUnused()); err != nil {
		return err
	}
	if e.Old != "" {
		e.TokC, e.Old = e.Old, ""
	}
	return nil
}

type shapeSquashMoved struct {
	ShapeEmbC `mapstructure:",squash"`
	ShapeEmbB `mapstructure:",squash"`
	Other     string `mapstructure:"other"`
}

type shapeNestedU struct {
	Tok configopaque.String `mapstructure:"tok"`
}

func (e *shapeNestedU) Unmarshal(cm *confmap.Conf) error { return cm.Unmarshal(e) }

type shapeSquashPlain struct {
	ShapeEmbPlain `mapstructure:",squash"`
	Other         string `mapstructure:"other"`
}

type shapeSquashTwoU struct {
	ShapeEmbA `mapstructure:",squash"`
	ShapeEmbB `mapstructure:",squash"`
	Other     string `mapstructure:"other"`
}

type shapeSquashOneU struct {
	ShapeEmbA `mapstructure:",squash"`
	Other     string `mapstructure:"other"`
}

func (o *shapeSquashOneU) Unmarshal(cm *confmap.Conf) error { return cm.Unmarshal(o) }

type shapeAll struct {
	Ptr    *shapeLeaf           `mapstructure:"ptr"`
	Nested shapeNestedU         `mapstructure:"nested"`
	List   []shapeLeaf          `mapstructure:"list"`
	Map    map[string]shapeLeaf `mapstructure:"map"`
	SqP    shapeSquashPlain     `mapstructure:"sq_plain"`
	Sq2    shapeSquashTwoU      `mapstructure:"sq_two"`
	Sq1    shapeSquashOneU      `mapstructure:"sq_one"`
	SqM    shapeSquashMoved     `mapstructure:"sq_moved"`
}

func shapePositives(c *driver.Ctx, sec string) {
	leaf := func() map[string]any { return map[string]any{"tok": sec, "hdr": map[string]any{"h": sec}, "n": 7} }
	in := map[string]any{
		"ptr": leaf(), "nested": map[string]any{"tok": sec}, "list": []any{leaf(), leaf()}, "map": map[string]any{"a": leaf()},
		"sq_plain": map[string]any{"tok": sec, "other": "o"},
		"sq_two":   map[string]any{"tok_a": sec, "hdr_a": map[string]any{"h": sec}, "tok_b": sec, "other": "o"},
		"sq_one":   map[string]any{"tok_a": sec, "hdr_a": map[string]any{"h": sec}, "other": "o"},
		"sq_moved": map[string]any{"old_tok_c": sec, "tok_b": sec, "other": "o"},
	}
	check := func(target string, got *shapeAll, err error) {
		if err != nil {
			c.Violation("unmarshal", "confmap.Unmarshal of a configuration struct holding secrets failed ("+target+"): "+err.Error(), map[string]string{"secret": sec}, "path", "confmap.Unmarshal", "shape", "error")
			return
		}
		c.Observe("unmarshal_shape_checks", 1)
		type probe struct {
			shape string
			got   configopaque.String
			ok    bool
		}
		var ps []probe
		add := func(shape string, v configopaque.String) { ps = append(ps, probe{shape, v, true}) }
		if got.Ptr != nil {
			add("pointer-sub-struct", got.Ptr.Tok)
			add("pointer-sub-struct/headers", got.Ptr.Hdr["h"])
		} else {
			ps = append(ps, probe{"pointer-sub-struct", "", false})
		}
		add("nested-unmarshaler", got.Nested.Tok)
		for _, l := range got.List {
			add("list-of-structs", l.Tok)
			add("list-of-structs/headers", l.Hdr["h"])
		}
		if len(got.List) != 2 {
			ps = append(ps, probe{"list-of-structs", "", false})
		}
		add("map-of-structs", got.Map["a"].Tok)
		add("map-of-structs/headers", got.Map["a"].Hdr["h"])
		add("squash-plain", got.SqP.Tok)
		add("squash-two-unmarshalers", got.Sq2.TokA)
		add("squash-two-unmarshalers/headers", got.Sq2.HdrA["h"])
		add("squash-two-unmarshalers/second", got.Sq2.TokB)
		add("squash-unmarshaler-under-outer-unmarshal", got.Sq1.TokA)
		add("squash-unmarshaler-under-outer-unmarshal/headers", got.Sq1.HdrA["h"])
		if sec != "" {
			add("squash-unmarshaler-that-moves-a-deprecated-key", got.SqM.TokC)
		}
		for _, p := range ps {
			if !p.ok || string(p.got) != sec {
				c.Violation("unmarshal", fmt.Sprintf("confmap.Unmarshal (%s) did not store the secret unchanged in the %s shape: got %q", target, p.shape, string(p.got)),
					map[string]any{"secret": sec, "got": string(p.got), "shape": p.shape, "target": target}, "path", "confmap.Unmarshal", "shape", strings.SplitN(p.shape, "/", 2)[0])
			}
		}
		if got.SqP.Other != "o" || got.Sq2.Other != "o" || got.Sq1.Other != "o" || (got.Ptr != nil && got.Ptr.N != 7) {
			c.Observe("unmarshal_shape_sibling_fields_differ", 1) // not C14's concern; C13 judges siblings
		}
	}
	{
		var got shapeAll
		err := confmap.NewFromStringMap(in).Unmarshal(&got)
		check("struct pointer", &got, err)
	}
	{
		got := &shapeAll{}
		var held any = got // the collector unmarshals into a non-nil component.Config
		err := confmap.NewFromStringMap(in).Unmarshal(&held)
		check("held interface", got, err)
	}
	{
		// through a sub-section, as a component's own Unmarshal does
		cm := confmap.NewFromStringMap(map[string]any{"component": in})
		sub, err := cm.Sub("component")
		var got shapeAll
		if err == nil {
			err = sub.Unmarshal(&got)
		}
		check("sub-section", &got, err)
	}
}

// positives: the explicit conversion returns the secret; unmarshalling stores it unchanged.
func positives(c *driver.Ctx, sec string) {
	s := configopaque.String(sec)
	if string(s) != sec {
		c.Violation("conversion", "string(s) does not return the secret", map[string]string{"secret": sec}, "path", "string()")
	}
	type cfg struct {
		S configopaque.String            `mapstructure:"s"`
		M map[string]configopaque.String `mapstructure:"m"`
		L []configopaque.String          `mapstructure:"l"`
		P *configopaque.String           `mapstructure:"p"`
	}
	var got cfg
	cm := confmap.NewFromStringMap(map[string]any{"s": sec, "m": map[string]any{"k": sec}, "l": []any{sec}, "p": sec})
	if err := cm.Unmarshal(&got); err != nil {
		c.Violation("unmarshal", "confmap.Unmarshal of a secret failed: "+err.Error(), map[string]string{"secret": sec}, "path", "confmap.Unmarshal")
		return
	}
	if string(got.S) != sec || string(got.M["k"]) != sec || len(got.L) != 1 || string(got.L[0]) != sec || got.P == nil || string(*got.P) != sec {
		c.Violation("unmarshal", "confmap.Unmarshal did not store the secret unchanged", map[string]any{"secret": sec, "got": fmt.Sprintf("%q %q", string(got.S), string(got.M["k"]))}, "path", "confmap.Unmarshal")
	}
	shapePositives(c, sec)
	// other decoders that honour encoding.TextUnmarshaler must store the secret unchanged as well
	var viaJSON struct {
		S configopaque.String            `json:"s"`
		M map[string]configopaque.String `json:"m"`
	}
	jb, _ := json.Marshal(map[string]any{"s": sec, "m": map[string]string{"k": sec}})
	if err := json.Unmarshal(jb, &viaJSON); err != nil || string(viaJSON.S) != sec || string(viaJSON.M["k"]) != sec {
		c.Violation("unmarshal", "encoding/json did not store the secret unchanged", map[string]any{"secret": sec, "got": string(viaJSON.S), "err": fmt.Sprint(err)}, "path", "json.Unmarshal")
	}
	// (control: a plain string field decoded from the same document — yaml.v3's own marshal/unmarshal is not
	// symmetric for some strings, e.g. a leading newline, which is no concern of the opaque type)
	var viaYAML struct {
		S configopaque.String `yaml:"s"`
		P string              `yaml:"p"`
	}
	yb, _ := yaml3.Marshal(map[string]string{"s": sec, "p": sec})
	// (a document yaml.v3 cannot read back at all — e.g. a leading tab — says nothing about the opaque type)
	if err := yaml3.Unmarshal(yb, &viaYAML); err == nil && string(viaYAML.S) != viaYAML.P {
		c.Violation("unmarshal", "yaml.v3 stored something else in the opaque field than in a plain string field", map[string]any{"secret": sec, "got": string(viaYAML.S), "plain": viaYAML.P, "err": fmt.Sprint(err)}, "path", "yaml.Unmarshal")
	}
	// the rendering must not depend on what an earlier caller did with the bytes it was handed
	for _, path := range []string{"MarshalText", "MarshalBinary"} {
		get := s.MarshalText
		if path == "MarshalBinary" {
			get = s.MarshalBinary
		}
		b1, _ := get()
		for i := range b1 {
			b1[i] = 'X'
		}
		b1 = append(b1[:0], sec...)
		_ = b1
		b2, _ := get()
		jb2, _ := json.Marshal(struct{ S configopaque.String }{s})
		yb2, _ := yaml3.Marshal(struct{ S configopaque.String }{s})
		cm := confmap.New()
		_ = cm.Marshal(struct {
			S configopaque.String `mapstructure:"s"`
		}{s})
		for name, out := range map[string]string{path: string(b2), "json": string(jb2), "yaml": string(yb2), "confmap": fmt.Sprint(cm.ToStringMap())} {
			if !strings.Contains(out, marker) || (sec != "" && strings.Contains(out, sec)) {
				c.Violation("marker", fmt.Sprintf("after a caller overwrote the bytes returned by %s, the %s rendering is %q", path, name, out),
					map[string]any{"secret": sec, "after": path, "rendering": name, "output": out}, "path", "aliasing", "detail", path, "container", name)
			}
		}
	}
	c.Observe("positives_checked", 6)
}

func run(c *driver.Ctx) {
	n := int64(c.N(6, 60)) // secrets per shard; every secret runs the complete grid
	for i := int64(0); i < n; i++ {
		if !c.Want(i) {
			continue
		}
		rng := c.CaseRand(i)
		class := secretClasses[(int(i)+c.Shard)%len(secretClasses)]
		sec := mkSecret(rng, class)
		nd := needles(sec)
		s := configopaque.String(sec)
		in, kd := build(s)
		paths := map[string]int{}
		emit := func(r rendering) {
			c.Eval()
			paths[r.path]++
			c.Nontrivial(r.path, r.detail, r.container, class)
			c.Distinct("rendering_paths", r.path, r.detail, r.container)
			if n := leaks(r.out, nd); n != "" {
				o := r.out
				if len(o) > 300 {
					o = o[:300]
				}
				verb := r.verb
				if r.path != "fmt" {
					verb = "-"
				}
				c.Violation("leak", fmt.Sprintf("secret visible via %s %s of %s: %q", r.path, r.detail, r.container, o),
					map[string]any{"secret": sec, "class": class, "path": r.path, "detail": r.detail, "container": r.container, "needle": n, "output": o},
					"path", r.path, "verb", verb, "container", r.container)
			}
			if r.strlike && !strings.Contains(r.out, marker) && !strings.Contains(r.out, "[REDA") {
				o := r.out
				if len(o) > 300 {
					o = o[:300]
				}
				c.Violation("marker", fmt.Sprintf("rendering via %s %s of %s does not show the redaction marker: %q", r.path, r.detail, r.container, o),
					map[string]any{"secret": sec, "path": r.path, "detail": r.detail, "container": r.container, "output": o},
					"path", r.path, "detail", r.detail, "container", r.container)
			}
		}
		fmtGrid(s, in, kd, emit)
		encoders(s, in, kd, emit)
		usedConfigs(in, emit)
		marshalIntoSource(sec, emit)
		positives(c, sec)
		refPositives(c, rng, sec)
		if i == 0 {
			c.Sample(map[string]any{"secret_class": class, "secret": sec, "renderings_per_path": paths,
				"example": fmt.Sprintf("Sprintf(%%+#10.3x, struct) = %q", fmt.Sprintf("%+#10.3x", in))})
		}
		// the empty secret: nothing can leak, but every string-like rendering must still show the fixed marker
		// (a rendering of "" would tell which credentials are unset)
		if i == 0 {
			e := configopaque.String("")
			for _, out := range []string{fmt.Sprint(e), fmt.Sprintf("%s|%v|%q|%#v", e, e, e, e), e.String()} {
				c.Eval()
				if !strings.Contains(out, marker) {
					c.Violation("marker", "empty secret not rendered as the marker: "+out, nil, "path", "fmt", "detail", "empty", "container", "val")
				}
			}
			ein, ekd := build(e)
			check := func(r rendering) {
				c.Eval()
				c.Nontrivial(r.path, r.detail, r.container, "empty-secret")
				if r.strlike && !strings.Contains(r.out, marker) {
					o := r.out
					if len(o) > 300 {
						o = o[:300]
					}
					c.Violation("marker", fmt.Sprintf("empty secret: rendering via %s %s of %s does not show the redaction marker: %q", r.path, r.detail, r.container, o),
						map[string]any{"secret": "", "path": r.path, "detail": r.detail, "container": r.container, "output": o},
						"path", r.path, "detail", "empty:"+r.detail, "container", r.container)
				}
			}
			encoders(e, ein, ekd, check)
			// every opaque position of the marshalled configuration map holds the marker
			cm := confmap.New()
			if err := cm.Marshal(ein); err == nil {
				for _, k := range []string{"s", "p", "m::h", "i", "n::inner::x"} {
					c.Eval()
					if v := cm.Get(k); fmt.Sprint(v) != marker {
						c.Violation("marker", fmt.Sprintf("empty secret: confmap.Marshal renders key %s as %q, want the marker", k, fmt.Sprint(v)), nil, "path", "confmap", "detail", "empty:key", "container", k)
					}
				}
			}
		}
	}
}

func main() {
	driver.Main(driver.Spec{
		ID:    "C14",
		Level: "exploration",
		Rule: "a case is one (rendering path, exact format/function, container, secret class); the fmt verb x flag x width grid (24 verbs x 13 flag sets x 8 width/precision forms x 20 containers, plus Fprintf/Errorf/Appendf/Sprint*) is enumerated completely for every generated secret (10 secret classes incl. format directives, the marker itself, unicode, white space at the edges, control characters; the empty secret must render the marker on every string-like path); error texts of Validate()/xconfmap.Validate and of a real client request with the configured headers are rendering paths too; configuration structs are rendered again AFTER a client/server was built from them and used once; Conf -> Unmarshal -> Marshal into the same Conf must leave only redacted values; per secret also: string(s) returns it, confmap / encoding/json / yaml.v3 unmarshalling store it unchanged, and renderings are unaffected by a caller overwriting the bytes MarshalText/MarshalBinary returned; " +
			"every case is non-trivial (a secret is present in the rendered value); distinct = distinct (path, format, container, secret class)",
		Assumptions: []string{
			"containers are the positions a configuration can have: exported struct fields, pointers, slices, arrays, map values, map keys, interfaces; unexported fields are excluded (fmt cannot call methods on them and mapstructure cannot populate them)",
			"a leak is the secret, or a standard transform of it (quoted, JSON-escaped, hex, base64, byte/rune lists, 10-byte prefix/suffix of long secrets), occurring in the output",
		},
		TrustedBase:   []string{"Go fmt/encoding packages, zap, yaml.v2/v3 as vendored in the module cache"},
		Shards:        func(tier string) int { return 16 },
		MinNontrivial: func(string) int { return 1000 },
		ShardTimeout:  func(string) time.Duration { return 15 * time.Minute },
		Run:           run,
		MaxSamples:    1,
	})
}
