// C17 — batch processor: conservation, size bound, metadata isolation, timely flush.
//
// batchprocessor.NewFactory() processors for logs, traces and metrics in front of a recording sink
// (canonical records + client metadata of the export context + event stamp + time), configurations from
// the validated space, 1..8 concurrent producers sending generated payloads (lib/gen) with random client
// metadata, Shutdown at a PRNG-chosen logical point. Monitors: identity-preserving conservation
// (lib/canon multiset), batch bound, size trigger and timer flush as bounded-progress checks with a
// scheduler-health witness, metadata isolation and exact export-context metadata, cardinality limit.
package main

import (
	"context"
	"fmt"
	"math/rand"
	"runtime"
	"sort"
	"strings"
	"sync"
	"sync/atomic"
	"time"

	"go.opentelemetry.io/collector/client"
	"go.opentelemetry.io/collector/component"
	"go.opentelemetry.io/collector/component/componenttest"
	"go.opentelemetry.io/collector/consumer"
	"go.opentelemetry.io/collector/pdata/plog"
	"go.opentelemetry.io/collector/pdata/pmetric"
	"go.opentelemetry.io/collector/pdata/ptrace"
	"go.opentelemetry.io/collector/processor/batchprocessor"
	"go.opentelemetry.io/collector/processor/processortest"
	"go.opentelemetry.io/collector/verifharness/lib/canon"
	"go.opentelemetry.io/collector/verifharness/lib/driver"
	"go.opentelemetry.io/collector/verifharness/lib/gen"
)

type runCfg struct {
	Signal      string        `json:"signal"`
	Size        uint32        `json:"send_batch_size"`
	Max         uint32        `json:"send_batch_max_size"`
	Timeout     time.Duration `json:"timeout_ns"`
	Keys        []string      `json:"metadata_keys"`
	Limit       uint32        `json:"metadata_cardinality_limit"`
	Mode        string        `json:"mode"`                                     // size | timer | trickle | immediate
	IntervalUS  int           `json:"trickle_interval_us,omitempty"`            // trickle: one small payload per producer every interval (timeout/4)
	MinSends    int           `json:"trickle_min_sends_per_producer,omitempty"` // trickle: arrivals continue for at least this many sends (>= 6 timeouts)
	TrickleSeed int64         `json:"trickle_seed,omitempty"`
	Producers   int           `json:"producers"`
	PerProducer int           `json:"payloads_per_producer_and_wave"`
	Waves       int           `json:"waves"`
	ShutdownAt  int           `json:"shutdown_after_n_completed_sends"` // -1: after everything was sent and settled
	Concurrent  bool          `json:"shutdown_while_producers_may_be_in_a_call"`
	HoldAt      int           `json:"hold_sink_call"` // -1: none; the sink call with this index blocks until Shutdown was called
	Lean        bool          `json:"lean_payloads"`
	Directed    string        `json:"directed,omitempty"`
	// Refuse: the sink calls with these indices (counted over the whole run) return a transient error; the items of
	// a refused export count as offered downstream (the processor does not retry) and are not owed again.
	Refuse     []int `json:"refused_sink_calls,omitempty"`
	BigArrival int   `json:"items_of_the_big_arrivals,omitempty"` // arrivals of 2..6 x send_batch_max_size (0: ordinary payloads)
}

func (c *runCfg) class() string {
	return fmt.Sprintf("%s/%s/size%s/max%s/keys%d/limit%d/p%d/conc=%v/hold=%v/at=%v/refusals=%d/big=%v", c.Signal, c.Mode, bucket(c.Size), bucket(c.Max), len(c.Keys), c.Limit, c.Producers, c.Concurrent, c.HoldAt >= 0, c.ShutdownAt >= 0, len(c.Refuse), c.BigArrival > 0)
}

func bucket(n uint32) string {
	switch {
	case n == 0:
		return "0"
	case n <= 3:
		return "1-3"
	case n <= 10:
		return "4-10"
	}
	return ">10"
}

type evlog struct {
	seq atomic.Int64
	mu  sync.Mutex
	evs []string
}

func (e *evlog) stamp(kind string, actor int) int64 {
	e.mu.Lock()
	n := e.seq.Add(1)
	e.evs = append(e.evs, fmt.Sprintf("%s%d", kind, actor))
	e.mu.Unlock()
	return n
}

func (e *evlog) signature() uint64 {
	e.mu.Lock()
	defer e.mu.Unlock()
	return driver.Hash64(strings.Join(e.evs, ","))
}

// schedWitness measures how late a 1 ms sleeper wakes up: the largest gap seen since the last reset.
type schedWitness struct {
	maxGap    atomic.Int64 // since the last reset
	maxGapRun atomic.Int64 // since the start
	stop      chan struct{}
}

func newSchedWitness() *schedWitness {
	w := &schedWitness{stop: make(chan struct{})}
	go func() {
		last := time.Now()
		for {
			select {
			case <-w.stop:
				return
			default:
			}
			time.Sleep(time.Millisecond)
			now := time.Now()
			g := int64(now.Sub(last))
			if g > w.maxGap.Load() {
				w.maxGap.Store(g)
			}
			if g > w.maxGapRun.Load() {
				w.maxGapRun.Store(g)
			}
			last = now
		}
	}()
	return w
}

type payload struct {
	owner    string
	p        any
	recs     []canon.Record
	shape    string
	md       map[string][]string // incoming client metadata
	group    string              // canonical rendering of the values of the configured keys
	producer int
	wave     int
	// results (written by the producer, read after the run / under mu)
	called   bool
	returned bool
	err      error
	callSeq  int64
	retSeq   int64
	callAt   time.Time
	retAt    time.Time
}

type sinkCall struct {
	k       int
	refused bool // the sink returned an error for this call (scripted)
	seq     int64
	at      time.Time
	recs    []canon.Record
	md      map[string][]string
	extra   []string // metadata keys of the export context that are not configured keys
}

type sigAdapter struct {
	name    string
	gen     func(g *gen.G) any
	flatten func(p any) ([]canon.Record, string)
	create  func(f component.Factory, cfg *batchprocessor.Config, sink func(context.Context, any) error) (component.Component, func(context.Context, any) error, error)
}

var factory = batchprocessor.NewFactory()

var adapters = []*sigAdapter{
	{name: "logs", gen: func(g *gen.G) any { return g.Logs() },
		flatten: func(p any) ([]canon.Record, string) { return canon.FlattenLogs(p.(plog.Logs)) },
		create: func(_ component.Factory, cfg *batchprocessor.Config, sink func(context.Context, any) error) (component.Component, func(context.Context, any) error, error) {
			next, _ := consumer.NewLogs(func(ctx context.Context, ld plog.Logs) error { return sink(ctx, ld) })
			p, err := factory.CreateLogs(context.Background(), processortest.NewNopSettings(factory.Type()), cfg, next)
			if err != nil {
				return nil, nil, err
			}
			return p, func(ctx context.Context, x any) error { return p.ConsumeLogs(ctx, x.(plog.Logs)) }, nil
		}},
	{name: "traces", gen: func(g *gen.G) any { return g.Traces() },
		flatten: func(p any) ([]canon.Record, string) { return canon.FlattenTraces(p.(ptrace.Traces)) },
		create: func(_ component.Factory, cfg *batchprocessor.Config, sink func(context.Context, any) error) (component.Component, func(context.Context, any) error, error) {
			next, _ := consumer.NewTraces(func(ctx context.Context, td ptrace.Traces) error { return sink(ctx, td) })
			p, err := factory.CreateTraces(context.Background(), processortest.NewNopSettings(factory.Type()), cfg, next)
			if err != nil {
				return nil, nil, err
			}
			return p, func(ctx context.Context, x any) error { return p.ConsumeTraces(ctx, x.(ptrace.Traces)) }, nil
		}},
	{name: "metrics", gen: func(g *gen.G) any { return g.Metrics() },
		flatten: func(p any) ([]canon.Record, string) { return canon.FlattenMetrics(p.(pmetric.Metrics)) },
		create: func(_ component.Factory, cfg *batchprocessor.Config, sink func(context.Context, any) error) (component.Component, func(context.Context, any) error, error) {
			next, _ := consumer.NewMetrics(func(ctx context.Context, md pmetric.Metrics) error { return sink(ctx, md) })
			p, err := factory.CreateMetrics(context.Background(), processortest.NewNopSettings(factory.Type()), cfg, next)
			if err != nil {
				return nil, nil, err
			}
			return p, func(ctx context.Context, x any) error { return p.ConsumeMetrics(ctx, x.(pmetric.Metrics)) }, nil
		}},
}

func adapterByName(n string) *sigAdapter {
	for _, a := range adapters {
		if a.name == n {
			return a
		}
	}
	return nil
}

func renderVals(vs []string) string {
	if len(vs) == 0 {
		return "<absent>"
	}
	return fmt.Sprintf("%q", vs)
}

func groupOf(keys []string, md map[string][]string) string {
	ks := make([]string, 0, len(keys))
	for _, k := range keys {
		ks = append(ks, strings.ToLower(k))
	}
	sort.Strings(ks)
	var b strings.Builder
	for _, k := range ks {
		b.WriteString(k + "=" + renderVals(md[k]) + ";")
	}
	return b.String()
}

var tenantVals = [][]string{{"t0"}, {"t1"}, {"t2"}, nil, {"a", "b"}, {"b", "a"}} // a value list in another order is another value
var regionVals = [][]string{{"r0"}, {"r1"}, nil, {""}}

func maxProducers() int {
	if n := runtime.NumCPU(); n < 8 {
		return n // a shard's input channel has NumCPU slots; more senders could block for ever after the shard exited
	}
	return 8
}

func buildRun(rng *rand.Rand) (*runCfg, []*payload) {
	a := adapters[rng.Intn(len(adapters))]
	cfg := &runCfg{Signal: a.name, ShutdownAt: -1, HoldAt: -1, Waves: 1}
	switch r := rng.Intn(20); {
	case r < 9:
		cfg.Mode = "size"
		cfg.Timeout = time.Hour
		cfg.Size = uint32(1 + rng.Intn(50))
	case r < 12:
		cfg.Mode = "timer"
		cfg.Timeout = []time.Duration{10 * time.Millisecond, 20 * time.Millisecond}[rng.Intn(2)]
		cfg.Size = 100000
		cfg.Waves = 2 + rng.Intn(2)
	case r < 14:
		// sustained trickle: arrivals spaced timeout/4 that never pause for >= 6 timeouts while the pending count stays
		// far below send_batch_size, so only the timer can flush (a timer restarted by every arrival never would)
		cfg.Mode = "trickle"
		cfg.Timeout = []time.Duration{20 * time.Millisecond, 40 * time.Millisecond}[rng.Intn(2)]
		cfg.Size = 100000
		cfg.IntervalUS = int(cfg.Timeout / 4 / time.Microsecond)
		cfg.MinSends = 24 + rng.Intn(9)
		cfg.TrickleSeed = rng.Int63()
	case r < 16:
		return buildRefusalRun(rng, a)
	default:
		cfg.Mode = "immediate"
		if rng.Intn(2) == 0 {
			cfg.Timeout = 0
			cfg.Size = uint32(rng.Intn(51))
		} else {
			cfg.Size = 0
			cfg.Timeout = []time.Duration{0, 20 * time.Millisecond, time.Hour}[rng.Intn(3)]
		}
	}
	if cfg.Mode != "timer" && cfg.Mode != "trickle" && rng.Intn(3) > 0 {
		cfg.Max = cfg.Size + uint32(rng.Intn(11))
		if cfg.Max == 0 {
			cfg.Max = uint32(1 + rng.Intn(20))
		}
	}
	switch rng.Intn(5) {
	case 0, 1:
	case 2:
		cfg.Keys = []string{"tenant"}
	case 3:
		cfg.Keys = []string{"Region"}
	default:
		cfg.Keys = []string{"Tenant", "region"}
	}
	if len(cfg.Keys) > 0 {
		cfg.Limit = uint32(rng.Intn(4))
	}
	cfg.Producers = 1 + rng.Intn(maxProducers())
	cfg.PerProducer = 1 + rng.Intn(5)
	if cfg.Mode == "timer" {
		cfg.PerProducer = 1 + rng.Intn(2)
	}
	cfg.Lean = rng.Intn(2) == 0
	if cfg.Mode == "trickle" {
		cfg.Producers = 1 + rng.Intn(2)
		cfg.PerProducer = 0
		cfg.Lean = true
		if cfg.Limit == 1 {
			cfg.Limit = 2 // every producer trickles into its own metadata group; none of them is to be refused
		}
		return cfg, nil // the payloads are generated while the trickle runs (its length depends on the first flush)
	}
	total := cfg.Producers * cfg.PerProducer * cfg.Waves
	switch rng.Intn(4) {
	case 0: // shutdown at a logical point in the middle of the run
		cfg.ShutdownAt = rng.Intn(total + 1)
		cfg.Concurrent = len(cfg.Keys) == 0 && rng.Intn(2) == 0
	case 1: // hold the shard inside a sink call so that accepted payloads sit in its input channel at Shutdown
		if len(cfg.Keys) == 0 && cfg.Mode != "timer" {
			limit := runtime.NumCPU() - 2
			if limit > 12 {
				limit = 12
			}
			for cfg.Producers*cfg.PerProducer > limit {
				if cfg.PerProducer > 1 {
					cfg.PerProducer--
				} else {
					cfg.Producers--
				}
			}
			cfg.HoldAt = rng.Intn(2)
		}
	}
	gc := gen.Config{MaxResources: 3, MaxScopes: 3, MaxItems: 5, MaxPoints: 4, Lean: cfg.Lean}
	if rng.Intn(3) == 0 {
		gc.NonEmpty = true
	}
	var pls []*payload
	for w := 0; w < cfg.Waves; w++ {
		for p := 0; p < cfg.Producers; p++ {
			for k := 0; k < cfg.PerProducer; k++ {
				owner := fmt.Sprintf("w%dp%dk%d", w, p, k)
				x := a.gen(gen.New(rng, owner, gc))
				recs, shape := a.flatten(x)
				md := map[string][]string{"other": {"x"}}
				if t := tenantVals[rng.Intn(len(tenantVals))]; t != nil {
					md["tenant"] = t
				}
				if r := regionVals[rng.Intn(len(regionVals))]; r != nil {
					md["region"] = r
				}
				pls = append(pls, &payload{owner: owner, p: x, recs: recs, shape: shape, md: md, group: groupOf(cfg.Keys, md), producer: p, wave: w})
			}
		}
	}
	return cfg, pls
}

// buildRefusalRun: big arrivals (2..6 x send_batch_max_size items in one payload, so the processor has to send
// several chunks in a row) in front of a sink that refuses some of its calls (seed-chosen indices, also chunks that
// are not the last one of an arrival, also several), no timer that could help (timeout 1 h or none), Shutdown either
// at once after the last arrival was accepted or after the run has settled.
func buildRefusalRun(rng *rand.Rand, a *sigAdapter) (*runCfg, []*payload) {
	cfg := &runCfg{Signal: a.name, ShutdownAt: -1, HoldAt: -1, Waves: 1}
	cfg.Max = uint32(2 + rng.Intn(7))
	switch rng.Intn(4) {
	case 0, 1:
		cfg.Mode, cfg.Timeout, cfg.Size = "size", time.Hour, uint32(1+rng.Intn(int(cfg.Max)))
	case 2:
		cfg.Mode, cfg.Timeout, cfg.Size = "immediate", 0, uint32(rng.Intn(int(cfg.Max)+1))
	default:
		cfg.Mode, cfg.Timeout, cfg.Size = "immediate", time.Hour, 0
	}
	switch rng.Intn(4) {
	case 0, 1:
	case 2:
		cfg.Keys = []string{"tenant"}
	default:
		cfg.Keys = []string{"Tenant", "region"}
	}
	if len(cfg.Keys) > 0 {
		cfg.Limit = uint32(rng.Intn(4))
	}
	cfg.Producers = 1
	if len(cfg.Keys) > 0 {
		cfg.Producers = 1 + rng.Intn(2)
	}
	cfg.PerProducer = 1 + rng.Intn(2)
	cfg.Lean = rng.Intn(2) == 0
	ratio := 2 + rng.Intn(5)
	cfg.BigArrival = int(cfg.Max)*ratio + 1 + rng.Intn(int(cfg.Max))
	var pls []*payload
	expectedCalls := 0
	for p := 0; p < cfg.Producers; p++ {
		for k := 0; k < cfg.PerProducer; k++ {
			owner := fmt.Sprintf("w0p%dk%d", p, k)
			gc := gen.Config{MaxResources: 1, MaxScopes: 1, MinItems: cfg.BigArrival, MaxItems: cfg.BigArrival, MaxPoints: 1 + rng.Intn(2), NonEmpty: true, Lean: cfg.Lean}
			if rng.Intn(2) == 0 { // the same number of items spread over up to 2 x 2 containers
				gc.MaxResources, gc.MaxScopes = 2, 2
				gc.MinItems = (cfg.BigArrival + 1) / 2
				gc.MaxItems = gc.MinItems
			}
			if k == 1 && rng.Intn(2) == 0 { // a small arrival after the big one
				gc = gen.Config{MaxResources: 1, MaxScopes: 1, MaxItems: 3, MaxPoints: 2, NonEmpty: true, Lean: cfg.Lean}
			}
			x := a.gen(gen.New(rng, owner, gc))
			recs, shape := a.flatten(x)
			md := map[string][]string{"other": {"x"}, "tenant": {fmt.Sprintf("t%d", rng.Intn(2))}}
			if rng.Intn(2) == 0 {
				md["region"] = []string{"r0"}
			}
			pls = append(pls, &payload{owner: owner, p: x, recs: recs, shape: shape, md: md, group: groupOf(cfg.Keys, md), producer: p})
			expectedCalls += (len(recs) + int(cfg.Max) - 1) / int(cfg.Max)
		}
	}
	set := map[int]bool{}
	for i, n := 0, 1+rng.Intn(3); i < n; i++ {
		set[rng.Intn(expectedCalls)] = true
	}
	if rng.Intn(3) == 0 { // the very first chunk of the first arrival
		set[0] = true
	}
	for k := range set {
		cfg.Refuse = append(cfg.Refuse, k)
	}
	sort.Ints(cfg.Refuse)
	if rng.Intn(3) > 0 {
		cfg.ShutdownAt = len(pls) // Shutdown at once after the last arrival was accepted: no further arrival, no tick
	}
	return cfg, pls
}

const (
	slack      = 4 * time.Second        // bounded-progress limit for "a flush that is due happens"; ≥ 150 x the timeout
	healthyGap = 200 * time.Millisecond // the scheduler witness must not have been delayed longer than this
	guardLimit = 15 * time.Second
	pollSleep  = 100 * time.Microsecond
)

// settleTimeouts counts, per child, the runs in which a due flush did not happen within the slack; after a few
// of them the remaining runs of that mode are skipped (each one costs the whole slack).
var settleTimeouts = map[string]int{}

func runOne(c *driver.Ctx, cfg *runCfg, pls []*payload) (splitSeen bool) {
	if settleTimeouts[cfg.Mode] >= 5 {
		c.Inconclusive("c17-" + cfg.Mode + "-runs-skipped-after-5-flushes-that-never-came")
		return false
	}
	a := adapterByName(cfg.Signal)
	sig := func(extra ...string) []string {
		return append([]string{"signal", cfg.Signal, "mode", cfg.Mode}, extra...)
	}
	c.Eval()
	pc := factory.CreateDefaultConfig().(*batchprocessor.Config)
	pc.SendBatchSize, pc.SendBatchMaxSize, pc.Timeout = cfg.Size, cfg.Max, cfg.Timeout
	pc.MetadataKeys, pc.MetadataCardinalityLimit = cfg.Keys, cfg.Limit
	if err := pc.Validate(); err != nil {
		panic(fmt.Sprintf("generated config is not valid: %v (%+v)", err, cfg))
	}
	lowKeys := map[string]bool{}
	for _, k := range cfg.Keys {
		lowKeys[strings.ToLower(k)] = true
	}
	ownerPl := map[string]*payload{}
	for _, pl := range pls {
		ownerPl[pl.owner] = pl
	}

	refuse := map[int]bool{}
	for _, k := range cfg.Refuse {
		refuse[k] = true
	}
	ev := &evlog{}
	var mu sync.Mutex
	var calls []*sinkCall
	emittedByGroup := map[string]int{}
	var nCalls atomic.Int64
	held := make(chan struct{})
	release := make(chan struct{})
	var heldOnce sync.Once
	var nItems, nPls atomic.Int64
	for _, pl := range pls {
		nItems.Add(int64(len(pl.recs)))
		nPls.Add(1)
	}
	emittedOwner := map[string]bool{} // guarded by mu
	var runaway atomic.Bool
	var abandoned atomic.Bool
	sink := func(ctx context.Context, x any) error {
		k := int(nCalls.Add(1)) - 1
		if int64(k) > 20*(nItems.Load()+nPls.Load())+1000 { // far more batches than items: the processor emits without end
			if runaway.CompareAndSwap(false, true) {
				c.Violation("runaway", fmt.Sprintf("more than %d batches were emitted for %d accepted items in %d payloads", k, nItems.Load(), nPls.Load()), map[string]any{"config": cfg}, "signal", cfg.Signal, "mode", cfg.Mode)
			}
			for !abandoned.Load() {
				time.Sleep(10 * time.Millisecond)
			}
			return nil
		}
		sc := &sinkCall{k: k, at: time.Now(), md: map[string][]string{}}
		sc.seq = ev.stamp("s", 0)
		sc.recs, _ = a.flatten(x)
		info := client.FromContext(ctx)
		for key := range lowKeys {
			sc.md[key] = info.Metadata.Get(key)
			// a downstream consumer may do what it likes with the values it was handed (normalise, redact): Get returns
			// a copy, so this must never show in the metadata of a later batch
			if scratch := info.Metadata.Get(key); k%2 == 1 {
				for i := range scratch {
					scratch[i] = "edited-by-the-consumer-of-batch-" + fmt.Sprint(k)
				}
			}
		}
		for key := range info.Metadata.Keys() {
			if !lowKeys[strings.ToLower(key)] {
				sc.extra = append(sc.extra, key)
			}
		}
		if k == cfg.HoldAt {
			heldOnce.Do(func() { close(held) })
			<-release
		}
		sc.refused = refuse[k]
		mu.Lock()
		calls = append(calls, sc)
		for i := range sc.recs {
			o := sc.recs[i].Owner()
			emittedOwner[o] = true
			if pl := ownerPl[o]; pl != nil {
				emittedByGroup[pl.group]++
			}
		}
		mu.Unlock()
		if sc.refused {
			return fmt.Errorf("scripted transient refusal of sink call %d", k)
		}
		return nil
	}
	proc, consume, err := a.create(factory, pc, sink)
	if err != nil {
		panic(err)
	}

	witness := func(more map[string]any) map[string]any {
		w := map[string]any{"config": cfg}
		var hist []string
		mu.Lock()
		for _, pl := range pls {
			if pl.called {
				hist = append(hist, fmt.Sprintf("%s group[%s] items=%d call@%d return@%d err=%v", pl.owner, pl.group, len(pl.recs), pl.callSeq, pl.retSeq, pl.err))
			}
		}
		for _, sc := range calls {
			hist = append(hist, fmt.Sprintf("sink call %d @%d items=%d metadata=%v owners=%v%s", sc.k, sc.seq, len(sc.recs), sc.md, canon.Owners(sc.recs), map[bool]string{true: " REFUSED by the sink", false: ""}[sc.refused]))
		}
		mu.Unlock()
		if len(hist) > 120 {
			hist = append(hist[:120], "…")
		}
		w["history"] = hist
		for k, v := range more {
			w[k] = v
		}
		return w
	}

	var completed atomic.Int64 // sends that returned
	var stopping atomic.Bool
	var shutdownCall, shutdownRet atomic.Int64
	sw := newSchedWitness()
	defer close(sw.stop)

	// pendingOK: every group has fewer than `below` accepted-and-not-yet-emitted items
	pendingOK := func(below int) (bool, string) {
		mu.Lock()
		defer mu.Unlock()
		acc := map[string]int{}
		for _, pl := range pls {
			if pl.returned && pl.err == nil {
				acc[pl.group] += len(pl.recs)
			}
		}
		for g, n := range acc {
			if n-emittedByGroup[g] >= below {
				return false, fmt.Sprintf("group [%s]: %d items accepted, %d emitted", g, n, emittedByGroup[g])
			}
		}
		return true, ""
	}
	// settle waits (bounded progress, no verdict by time alone) until pendingOK(below).
	settle := func(below int, rule, what string) bool {
		sw.maxGap.Store(0)
		t0 := time.Now()
		for !abandoned.Load() {
			ok, why := pendingOK(below)
			if ok || stopping.Load() { // once the shutdown point is reached, what is pending is Shutdown's business
				return true
			}
			if time.Since(t0) > slack {
				if gap := time.Duration(sw.maxGap.Load()); gap > healthyGap {
					c.Inconclusive("c17-" + rule + "-scheduler-unhealthy")
					return false
				}
				c.Violation(rule, fmt.Sprintf("%s: %s — still pending after %v (timeout %v, send_batch_size %d; scheduler witness healthy: worst 1 ms sleep took %v)", what, why, slack, cfg.Timeout, cfg.Size, time.Duration(sw.maxGap.Load())),
					witness(nil), sig()...)
				return false
			}
			time.Sleep(pollSleep)
		}
		return false
	}

	runWave := func(w int) {
		var wg sync.WaitGroup
		for p := 0; p < cfg.Producers; p++ {
			wg.Add(1)
			go func(p int) {
				defer wg.Done()
				for _, pl := range pls {
					if pl.producer != p || pl.wave != w {
						continue
					}
					if stopping.Load() {
						return
					}
					ctx := client.NewContext(context.Background(), client.Info{Metadata: client.NewMetadata(pl.md)})
					mu.Lock()
					pl.called, pl.callAt = true, time.Now()
					mu.Unlock()
					cs := ev.stamp("c", p)
					err := consume(ctx, pl.p)
					rs := ev.stamp("r", p)
					mu.Lock()
					pl.callSeq, pl.retSeq, pl.err, pl.returned, pl.retAt = cs, rs, err, true, time.Now()
					mu.Unlock()
					completed.Add(1)
				}
			}(p)
		}
		wg.Wait()
	}

	// runTrickle: every producer sends one small payload per interval (timeout/4) into its own metadata group and
	// never pauses: at least MinSends times (>= 6 timeouts) and until the first payload it got accepted has been
	// emitted. It gives up after timeout + slack + 2 timeouts; the verdict is then taken from the recorded latencies.
	var trickleSent atomic.Int64
	runTrickle := func() {
		interval := time.Duration(cfg.IntervalUS) * time.Microsecond
		giveUp := cfg.Timeout + slack + 2*cfg.Timeout
		gc := gen.Config{MaxResources: 1, MaxScopes: 1, MaxItems: 2, MaxPoints: 2, NonEmpty: true, Lean: true}
		var wg sync.WaitGroup
		for p := 0; p < cfg.Producers; p++ {
			wg.Add(1)
			go func(p int) {
				defer wg.Done()
				r := rand.New(rand.NewSource(cfg.TrickleSeed + int64(p)))
				md := map[string][]string{"other": {"x"}, "tenant": {fmt.Sprintf("t%d", p)}, "region": {"r0"}}
				group := groupOf(cfg.Keys, md)
				var firstRet time.Time
				firstOwner := ""
				for k := 0; !stopping.Load() && !abandoned.Load(); k++ {
					if k >= cfg.MinSends {
						if firstOwner == "" {
							return // nothing of this producer was ever accepted
						}
						mu.Lock()
						out := emittedOwner[firstOwner]
						mu.Unlock()
						if out {
							return
						}
					}
					if firstOwner != "" && time.Since(firstRet) > giveUp {
						return
					}
					owner := fmt.Sprintf("w0p%dk%d", p, k)
					x := a.gen(gen.New(r, owner, gc))
					recs, shape := a.flatten(x)
					pl := &payload{owner: owner, p: x, recs: recs, shape: shape, md: md, group: group, producer: p}
					nItems.Add(int64(len(recs)))
					nPls.Add(1)
					mu.Lock()
					pls = append(pls, pl)
					ownerPl[owner] = pl
					pl.called, pl.callAt = true, time.Now()
					mu.Unlock()
					ctx := client.NewContext(context.Background(), client.Info{Metadata: client.NewMetadata(md)})
					cs := ev.stamp("c", p)
					err := consume(ctx, x)
					rs := ev.stamp("r", p)
					now := time.Now()
					mu.Lock()
					pl.callSeq, pl.retSeq, pl.err, pl.returned, pl.retAt = cs, rs, err, true, now
					mu.Unlock()
					completed.Add(1)
					trickleSent.Add(1)
					if err == nil && firstOwner == "" {
						firstOwner, firstRet = owner, now
					}
					time.Sleep(interval)
				}
			}(p)
		}
		wg.Wait()
	}

	below := 1
	if cfg.Mode == "size" {
		below = int(cfg.Size)
	}
	settled := true
	st := c.Guard(guardLimit, func() int64 { return ev.seq.Load() }, func() {
		if err := proc.Start(context.Background(), componenttest.NewNopHost()); err != nil {
			panic(err)
		}
		done := make(chan struct{})
		go func() { // the workload
			defer close(done)
			if cfg.Mode == "trickle" {
				runTrickle()
				// the arrivals have stopped: what is still pending is due one timeout later at the latest
				if !settle(1, "timer-flush", "trickle ended: pending items are due by the timer") {
					settled = false
				}
				return
			}
			for w := 0; w < cfg.Waves && !stopping.Load(); w++ {
				runWave(w)
				if cfg.HoldAt >= 0 || stopping.Load() {
					continue
				}
				if cfg.ShutdownAt >= 0 && w == cfg.Waves-1 {
					continue
				}
				// all producers of the wave returned: what is due must now be flushed
				rule, what := "size-trigger", "a batch is due by size"
				if cfg.Mode == "timer" {
					rule, what = "timer-flush", fmt.Sprintf("wave %d: pending items are due by the timer", w)
				} else if cfg.Mode == "immediate" {
					what = "without a timer every accepted payload is sent at once"
				}
				if !settle(below, rule, what) {
					settled = false
					return
				}
			}
		}()
		if cfg.ShutdownAt >= 0 {
			for completed.Load() < int64(cfg.ShutdownAt) && !abandoned.Load() { // logical shutdown point
				select {
				case <-done:
				default:
					time.Sleep(20 * time.Microsecond)
					continue
				}
				break
			}
			stopping.Store(true)
			if !cfg.Concurrent {
				<-done // every call that was in flight has returned
			}
		} else if cfg.HoldAt >= 0 {
			<-done // all payloads were accepted (they fit into the shard's input channel while it is held in the sink)
			stopping.Store(true)
		} else {
			<-done
			stopping.Store(true)
		}
		if cfg.HoldAt >= 0 {
			select {
			case <-held:
				go func() { // let Shutdown begin, then let the held sink call return
					for shutdownCall.Load() == 0 {
						runtime.Gosched()
					}
					time.Sleep(300 * time.Microsecond)
					close(release)
				}()
			default: // the held call never happened (nothing was due): nothing to release
				close(release)
			}
		}
		shutdownCall.Store(ev.stamp("D", 0))
		if err := proc.Shutdown(context.Background()); err != nil {
			c.Violation("shutdown-error", "Shutdown returned "+err.Error(), witness(nil), sig()...)
		}
		shutdownRet.Store(ev.stamp("d", 0))
		<-done
	})
	if st != nil {
		abandoned.Store(true)
		select {
		case <-release:
		default:
			close(release)
		}
		if len(st.RepoFrames) == 1 && st.RepoFrames[0] == "panic" {
			site := driver.PanicSite(st.Dump)
			if site == "" {
				panic("harness panic: " + st.Dump)
			}
			c.Violation("panic", "panic in the batch processor: "+strings.SplitN(st.Dump, "\n", 2)[0], witness(map[string]any{"stack": st.Dump}), sig("site", site)...)
			return false
		}
		if gap := time.Duration(sw.maxGapRun.Load()); gap > 2*time.Second {
			c.Inconclusive("c17-stuck-but-scheduler-unhealthy")
			return false
		}
		phase := "before-shutdown"
		if shutdownCall.Load() > 0 {
			phase = "in-shutdown"
		}
		var fr []string
		for _, f := range st.RepoFrames {
			if strings.Contains(f, "batchprocessor") {
				fr = append(fr, strings.SplitN(f, " ", 2)[0])
			}
		}
		c.Violation("stuck", fmt.Sprintf("%s: no logical progress; blocked in %s", phase, strings.Join(st.RepoFrames, " | ")),
			witness(map[string]any{"goroutines": st.Dump}), sig("phase", phase, "frames", strings.Join(fr, ","))...)
		return false
	}
	if !settled {
		settleTimeouts[cfg.Mode]++
		return false
	}

	// ------------------------------------------------------------------ oracles on the finished run
	mu.Lock()
	snapshotCalls := append([]*sinkCall{}, calls...)
	mu.Unlock()
	sdCall, sdRet := shutdownCall.Load(), shutdownRet.Load()

	// (1) conservation with identity
	var expected, emitted []canon.Record
	emittedOwners := map[string]int{}
	for _, sc := range snapshotCalls {
		emitted = append(emitted, sc.recs...)
		for i := range sc.recs {
			emittedOwners[sc.recs[i].Owner()]++
		}
	}
	accepted, refused, late, groupsAccepted := 0, 0, 0, map[string]bool{}
	for _, pl := range pls {
		if !pl.called {
			continue
		}
		switch {
		case pl.err != nil:
			refused++
			if emittedOwners[pl.owner] > 0 {
				c.Violation("cardinality", fmt.Sprintf("payload %s was refused (%v) but %d of its items were emitted", pl.owner, pl.err, emittedOwners[pl.owner]), witness(nil), sig("rule", "refused-but-emitted")...)
			}
		case pl.returned && pl.retSeq < sdCall:
			accepted++
			groupsAccepted[pl.group] = true
			expected = append(expected, pl.recs...) // accepted before Shutdown began: must be emitted exactly once
		default:
			late++
			groupsAccepted[pl.group] = true
			if emittedOwners[pl.owner] > 0 { // accepted while Shutdown was running: may or may not be emitted, but not partially or twice
				expected = append(expected, pl.recs...)
			}
		}
	}
	refusedCalls0 := 0
	for _, sc := range snapshotCalls {
		if sc.refused {
			refusedCalls0++
		}
	}
	reported := map[string]bool{}
	for _, m := range canon.Diff(expected, emitted) {
		fields := m.Fields
		if len(fields) == 0 {
			fields = []string{"-"}
		}
		for _, f := range fields {
			if k := m.Kind + "/" + f; !reported[k] {
				reported[k] = true
				note := ""
				if refusedCalls0 > 0 {
					note = fmt.Sprintf(" [%d sink calls were refused by script; their items count as offered]", refusedCalls0)
				}
				c.Violation("conservation", fmt.Sprintf("%s: item %s %s (%s) by the time Shutdown returned (offered downstream = handed to the sink, accepted or refused)%s: in[%s] out[%s]", cfg.Signal, m.ID, m.Kind, f, note, clip(m.In, 160), clip(m.Out, 160)),
					witness(map[string]any{"mismatch": m}), "signal", cfg.Signal, "kind", m.Kind, "field", f)
			}
		}
	}
	// (2) bound, (5) metadata isolation and export context, emission after Shutdown returned
	groupsSeen := map[string]bool{}
	duringShutdown := 0
	var maxLatency time.Duration
	for _, sc := range snapshotCalls {
		if cfg.Max > 0 && len(sc.recs) > int(cfg.Max) {
			c.Violation("batch-bound", fmt.Sprintf("sink call %d holds %d items, send_batch_max_size %d", sc.k, len(sc.recs), cfg.Max), witness(nil), sig()...)
		}
		if len(sc.recs) == 0 {
			c.Observe("empty_batches_emitted", 1)
		}
		if sc.seq > sdRet {
			c.Violation("late-emission", fmt.Sprintf("sink call %d happened after Shutdown had returned", sc.k), witness(nil), sig()...)
		}
		if sc.seq > sdCall {
			duringShutdown++
		}
		gs := map[string]bool{}
		for i := range sc.recs {
			if pl := ownerPl[sc.recs[i].Owner()]; pl != nil {
				gs[pl.group] = true
				if cfg.Mode == "timer" {
					if l := sc.at.Sub(pl.callAt); l > maxLatency {
						maxLatency = l
					}
				}
			}
		}
		if len(gs) > 1 {
			var l []string
			for g := range gs {
				l = append(l, "["+g+"]")
			}
			sort.Strings(l)
			c.Violation("metadata", fmt.Sprintf("sink call %d mixes items of %d metadata groups: %s", sc.k, len(gs), strings.Join(l, " ")), witness(nil), sig("rule", "mixed-groups")...)
		}
		for g := range gs {
			groupsSeen[g] = true
			if got := groupOf(cfg.Keys, sc.md); len(gs) == 1 && got != g {
				c.Violation("metadata", fmt.Sprintf("sink call %d: items of group [%s] were sent with export-context metadata [%s]", sc.k, g, got), witness(nil), sig("rule", "wrong-export-metadata")...)
			}
		}
		if len(sc.extra) > 0 && len(cfg.Keys) > 0 {
			c.Violation("metadata", fmt.Sprintf("sink call %d: export context carries metadata keys %v that are not configured metadata_keys", sc.k, sc.extra), witness(nil), sig("rule", "extra-export-metadata")...)
		}
	}
	// (6) cardinality limit
	if len(cfg.Keys) == 0 && refused > 0 {
		c.Violation("cardinality", "a payload was refused although no metadata_keys are configured", witness(nil), sig("rule", "refusal-without-keys")...)
	}
	if len(cfg.Keys) > 0 {
		if cfg.Limit > 0 && len(groupsAccepted) > int(cfg.Limit) {
			c.Violation("cardinality", fmt.Sprintf("payloads of %d distinct metadata groups were accepted, metadata_cardinality_limit is %d", len(groupsAccepted), cfg.Limit), witness(nil), sig("rule", "limit-exceeded")...)
		}
		firstAccept := map[string]int64{} // group -> return stamp of its first accepted payload
		for _, pl := range pls {
			if pl.returned && pl.err == nil {
				if s, ok := firstAccept[pl.group]; !ok || pl.retSeq < s {
					firstAccept[pl.group] = pl.retSeq
				}
			}
		}
		for _, pl := range pls {
			if pl.err == nil || !pl.returned {
				continue
			}
			if cfg.Limit == 0 {
				c.Violation("cardinality", fmt.Sprintf("payload %s refused (%v) although metadata_cardinality_limit is 0 (unlimited)", pl.owner, pl.err), witness(nil), sig("rule", "refusal-without-limit")...)
			} else if s, ok := firstAccept[pl.group]; ok && s < pl.callSeq {
				c.Violation("cardinality", fmt.Sprintf("payload %s of group [%s] refused (%v) although a payload of the same group had been accepted before the call began", pl.owner, pl.group, pl.err), witness(nil), sig("rule", "admitted-group-refused")...)
			}
		}
	}

	// ------------------------------------------------------------------ evidence
	spreadPayloads := 0
	perOwnerCalls := map[string]map[int]bool{}
	for _, sc := range snapshotCalls {
		for i := range sc.recs {
			o := sc.recs[i].Owner()
			if perOwnerCalls[o] == nil {
				perOwnerCalls[o] = map[int]bool{}
			}
			perOwnerCalls[o][sc.k] = true
		}
	}
	for _, m := range perOwnerCalls {
		if len(m) > 1 {
			spreadPayloads++
		}
	}
	// (7) sustained trickle: at every emission the OLDEST item that was pending had not waited longer than
	// timeout + slack, although arrivals never paused (arrival = the moment its Consume call had returned; every
	// timer flush sends all the shard holds, so the oldest pending item of a group is the oldest one in the batch)
	trickleFlushes := 0
	if cfg.Mode == "trickle" {
		var worst time.Duration
		worstWhat := ""
		for _, sc := range snapshotCalls {
			if sc.seq < sdCall {
				trickleFlushes++
			}
			var oldest *payload
			for _, o := range canon.Owners(sc.recs) {
				if pl := ownerPl[o]; pl != nil && pl.returned && (oldest == nil || pl.retAt.Before(oldest.retAt)) {
					oldest = pl
				}
			}
			if oldest == nil {
				continue
			}
			if l := sc.at.Sub(oldest.retAt); l > worst {
				worst = l
				worstWhat = fmt.Sprintf("sink call %d (event %d%s) emitted %s of group [%s], accepted at event %d, %v after it had arrived", sc.k, sc.seq,
					map[bool]string{true: ", during Shutdown", false: ""}[sc.seq > sdCall], oldest.owner, oldest.group, oldest.retSeq, l.Round(time.Millisecond))
			}
		}
		c.ObserveMax("max:trickle_oldest_pending_latency_ms", worst.Milliseconds())
		c.ObserveMax("max:scheduler_witness_gap_ms_in_trickle_runs", time.Duration(sw.maxGapRun.Load()).Milliseconds())
		c.Observe("trickle_payloads_sent", trickleSent.Load())
		c.Observe("trickle_timer_flushes_before_shutdown", int64(trickleFlushes))
		if worst > cfg.Timeout+slack {
			settleTimeouts[cfg.Mode]++
			if gap := time.Duration(sw.maxGapRun.Load()); gap > healthyGap {
				c.Inconclusive("c17-trickle-scheduler-unhealthy")
			} else {
				c.Violation("timer-flush", fmt.Sprintf("sustained trickle (one payload every %v per producer, timeout %v, send_batch_size %d never reached): %s — more than timeout + %v (scheduler witness healthy: worst 1 ms sleep took %v)",
					time.Duration(cfg.IntervalUS)*time.Microsecond, cfg.Timeout, cfg.Size, worstWhat, slack, time.Duration(sw.maxGapRun.Load())), witness(nil), sig()...)
			}
		}
	}

	c.Observe("runs", 1)
	c.Observe("runs_"+cfg.Mode, 1)
	refusedCalls, refusedItems, chunksAfterRefusal := 0, 0, 0
	for i, sc := range snapshotCalls {
		if sc.refused {
			refusedCalls++
			refusedItems += len(sc.recs)
			if i+1 < len(snapshotCalls) {
				chunksAfterRefusal++
			}
		}
	}
	if len(cfg.Refuse) > 0 {
		c.Observe("runs_with_scripted_sink_refusals", 1)
		c.Observe("sink_calls_refused", int64(refusedCalls))
		c.Observe("items_in_refused_exports(offered, not owed again)", int64(refusedItems))
		c.Observe("refused_exports_followed_by_further_exports", int64(chunksAfterRefusal))
		if cfg.ShutdownAt >= 0 {
			c.Observe("runs_with_refusals_and_shutdown_at_once", 1)
		}
	}
	c.Observe("sink_calls", int64(len(snapshotCalls)))
	c.Observe("items_emitted", int64(len(emitted)))
	c.Observe("payloads_accepted_before_shutdown", int64(accepted))
	c.Observe("payloads_accepted_during_shutdown", int64(late))
	c.Observe("payloads_refused_by_cardinality_limit", int64(refused))
	c.Observe("payloads_split_over_several_batches", int64(spreadPayloads))
	c.Observe("batches_emitted_during_shutdown", int64(duringShutdown))
	c.Observe("metadata_groups_emitted", int64(len(groupsSeen)))
	c.Observe("events", ev.seq.Load())
	if cfg.Mode == "timer" {
		c.ObserveMax("max:timer_latency_ms", maxLatency.Milliseconds())
		c.ObserveMax("max:scheduler_witness_gap_ms_in_timer_runs", time.Duration(sw.maxGap.Load()).Milliseconds())
	}
	isig := ev.signature()
	c.Distinct("interleavings", isig)
	c.Distinct("config_classes", cfg.class())
	if spreadPayloads > 0 || len(groupsSeen) >= 2 || duringShutdown > 0 || trickleFlushes >= 2 || chunksAfterRefusal > 0 {
		c.Nontrivial(cfg.class(), cfg.Size, cfg.Max, cfg.Timeout, isig)
	}
	if c.Shard == 0 {
		c.Sample(map[string]any{"config": cfg, "sink_calls": len(snapshotCalls), "accepted": accepted, "accepted_during_shutdown": late, "refused": refused,
			"payloads_split": spreadPayloads, "groups": len(groupsSeen), "batches_during_shutdown": duringShutdown})
	}
	return spreadPayloads > 0
}

func clip(s string, n int) string {
	if len(s) > n {
		return s[:n] + "…"
	}
	return s
}

// directed: the partial split inside one resource / scope / metric (finding C17-a on the pinned tree): one
// payload with a single resource and scope (both with schema URLs) and, for metrics, one metric with
// metadata, more items than send_batch_max_size.
func directed(c *driver.Ctx, signal string) {
	rng := rand.New(rand.NewSource(17))
	a := adapterByName(signal)
	gc := gen.Config{MaxResources: 1, MaxScopes: 1, MaxItems: 5, MinItems: 5, MaxPoints: 4, NonEmpty: true, Lean: true}
	for try := 0; try < 100000; try++ {
		x := a.gen(gen.New(rng, "w0p0k0", gc))
		recs, shape := a.flatten(x)
		ok := len(recs) >= 5
		for _, r := range recs {
			for _, p := range r.Ctx {
				if (strings.HasSuffix(p.Name, "schema_url") && p.Val == "") || (p.Name == "metric.metadata" && p.Val == "{}") {
					ok = false
				}
			}
		}
		if !ok {
			continue
		}
		cfg := &runCfg{Signal: signal, Size: 2, Max: 3, Timeout: time.Hour, Mode: "size", Producers: 1, PerProducer: 1, Waves: 1, ShutdownAt: -1, HoldAt: -1, Lean: true, Directed: "partial-split-" + signal}
		md := map[string][]string{}
		runOne(c, cfg, []*payload{{owner: "w0p0k0", p: x, recs: recs, shape: shape, md: md, group: groupOf(nil, md)}})
		c.Observe("directed_runs", 1)
		return
	}
	panic("directed payload not found")
}

const directedBase = int64(0)
const randomBase = int64(100)

func run(c *driver.Ctx) {
	runtime.GOMAXPROCS([]int{2, 4, 8, 16}[c.Shard%4])
	for j, a := range adapters {
		if j%c.NShards == c.Shard && c.Want(directedBase+int64(j)) {
			directed(c, a.name)
		}
	}
	n := int64(c.N(300, 6000))
	if c.Variant == "race" {
		n = int64(c.N(150, 3000))
	}
	for k := int64(0); k < n; k++ {
		i := randomBase + k
		if !c.Want(i) {
			continue
		}
		cfg, pls := buildRun(c.CaseRand(i))
		runOne(c, cfg, pls)
	}
}

func main() {
	driver.Main(driver.Spec{
		ID:    "C17",
		Level: "exploration",
		Rule: "a run is (signal, send_batch_size 0..50 or 'never', send_batch_max_size 0 or >= size, timeout 0 / 10-20 ms / 1 h, 0..2 metadata_keys, cardinality limit 0..3, 1..8 producers x generated payloads with random client metadata in 1..3 waves, big arrivals of 2..6 x send_batch_max_size in front of a sink that refuses seed-chosen calls (timeout 1 h or no timer, Shutdown at once or after settling), or a sustained trickle: 1..2 producers sending one small payload every timeout/4 for >= 6 timeouts and until their first payload is out, " +
			"shutdown point: after everything settled / after n completed sends (producers quiesced or still in a call) / while the shard is held inside a sink call with accepted payloads in its input channel); " +
			"distinct by (config class, size, max, timeout, interleaving signature = hash of the consume-call/return, sink-call and shutdown events with actors); " +
			"non-trivial when a payload was split over >= 2 batches, >= 2 metadata groups were emitted, a batch was emitted during Shutdown (items were pending at shutdown), a trickle run saw >= 2 timer flushes while arrivals continued, or a refused export was followed by further exports",
		Assumptions: []string{
			"downstream accepts everything, except in the runs with scripted refusals: there the sink returns a transient error for seed-chosen calls; conservation is judged on what was OFFERED downstream (handed to the sink, accepted or refused): by the time Shutdown returns every accepted item was offered exactly once; the items of a refused export are not owed again (the processor does not retry), items never offered are lost",
			"must-emit set = payloads whose Consume call returned nil before the Shutdown call was made (event counter); payloads accepted while Shutdown runs may or may not be emitted, but never partially or twice; Shutdown concurrent with Consume calls is only exercised without metadata_keys (a shard started after Shutdown began is outside the statement)",
			"size trigger / timer flush are bounded-progress checks: after all producers of a wave returned, every group must get below send_batch_size (size mode) / to zero pending items (timer, immediate) within 4 s (>= 200 x the timeout); the verdict needs a healthy scheduler witness (no 1 ms sleep took longer than 200 ms), else the run is inconclusive",
			"sustained trickle (timeout 20/40 ms, arrivals every timeout/4 that never pause, send_batch_size never reached): at every emission the oldest pending item (arrival = return of its Consume call) must not be older than timeout + 4 s; the arrivals go on until each producer's first payload is out, or timeout + 4 s + 2 timeouts have passed, so a timer that every arrival restarts is seen; verdict only with a healthy scheduler witness over the whole run, else inconclusive",
			"metadata group = values of the configured keys in the incoming client.Info (key lookup case-insensitive, absent and empty string distinct); the export context must return exactly these values for the configured keys and carry no other key",
			"a refusal is wrong only if metadata_cardinality_limit is 0 or a payload of the same group had already been accepted before the refused call began (two first arrivals of one group racing at the limit are not judged)",
		},
		TrustedBase: []string{"lib/gen, lib/canon (reflective snapshot through pdata getters)", "client.FromContext / client.Metadata"},
		Shards:      func(string) int { return 16 },
		Variants:    func(string) []string { return []string{"plain", "race"} },
		MinNontrivial: func(tier string) int {
			if tier == "thorough" {
				return 8000
			}
			return 400
		},
		ShardTimeout: func(tier string) time.Duration {
			if tier == "thorough" {
				return 90 * time.Minute
			}
			return 8 * time.Minute
		},
		Run:        run,
		MaxSamples: 2,
	})
}
