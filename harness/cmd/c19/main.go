// C19 — self-telemetry item counters balance with what actually happened.
//
// Monitor: a ledger kept by the harness's own sinks, process functions and export backend is compared
// with what a metric reader attached to the component's meter provider (componenttest.NewTelemetry)
// reports, over generated histories for
//
//	receivers   receiverhelper.NewObsReport Start/End operations (three signals, concurrent callers)
//	scrapers    scraperhelper.NewMetricsController / NewLogsController driven by WithTickerChannel
//	processors  processorhelper.New{Logs,Traces,Metrics} with process functions that keep/drop/add/fail/skip
//	exporters   exporterhelper.New{Logs,Traces,Metrics} over the C03 configuration cross product
//	            (queue full, batching, splitting, retries, partial and permanent failures, shutdown with
//	            a persistent queue), including the queue_size / queue_capacity gauges at quiescent samples
package main

import (
	"context"
	"errors"
	"fmt"
	"go.opentelemetry.io/collector/consumer/consumererror"
	"google.golang.org/grpc/codes"
	"google.golang.org/grpc/status"
	"hash/fnv"
	"math"
	"math/rand"
	"runtime"
	"sort"
	"strconv"
	"strings"
	"sync"
	"sync/atomic"
	"time"

	"go.opentelemetry.io/collector/component"
	"go.opentelemetry.io/collector/component/componenttest"
	"go.opentelemetry.io/collector/consumer"
	"go.opentelemetry.io/collector/exporter/exporterhelper"
	"go.opentelemetry.io/collector/exporter/exportertest"
	"go.opentelemetry.io/collector/pdata/plog"
	"go.opentelemetry.io/collector/pdata/pmetric"
	"go.opentelemetry.io/collector/pdata/ptrace"
	"go.opentelemetry.io/collector/processor/processorhelper"
	"go.opentelemetry.io/collector/processor/processortest"
	"go.opentelemetry.io/collector/receiver/receiverhelper"
	"go.opentelemetry.io/collector/receiver/receivertest"
	"go.opentelemetry.io/collector/scraper"
	"go.opentelemetry.io/collector/scraper/scrapererror"
	"go.opentelemetry.io/collector/scraper/scraperhelper"
	"go.opentelemetry.io/collector/verifharness/lib/driver"
	"go.opentelemetry.io/collector/verifharness/lib/expkit"
)

func h32(parts ...any) uint32 {
	h := fnv.New32a()
	for _, p := range parts {
		fmt.Fprintf(h, "%v/", p)
	}
	return h.Sum32()
}

var errDownstream = errors.New("downstream refused (scripted)")

// downstreamErrs: what a downstream consumer really returns when it refuses data — a plain error, a permanent one, a
// caller that hung up (context.Canceled, also wrapped), an expired deadline, a gRPC status. Whatever it is, the
// operation's items were refused.
var downstreamErrs = []error{
	errDownstream,
	consumererror.NewPermanent(errDownstream),
	context.Canceled,
	fmt.Errorf("forwarding to the next consumer: %w", context.Canceled),
	context.DeadlineExceeded,
	fmt.Errorf("export: %w", context.DeadlineExceeded),
	status.Error(codes.Unavailable, "downstream unavailable (scripted)"),
	status.Error(codes.Canceled, "downstream cancelled (scripted)"),
}

var downstreamErrN atomic.Int64

func nextDownstreamErr() error {
	return downstreamErrs[int(downstreamErrN.Add(1))%len(downstreamErrs)]
}

func mkIDs(tag string, n int) []string {
	ids := make([]string, n)
	for i := range ids {
		ids[i] = tag + "." + strconv.Itoa(i)
	}
	return ids
}

// =====================================================================================================
// receivers

type RecvOp struct {
	Signal string `json:"signal"`
	N      int    `json:"n"`
	Err    bool   `json:"err"`
}

type RecvCase struct {
	Transport  string   `json:"transport"`
	LongLived  bool     `json:"long_lived_ctx"`
	Goroutines int      `json:"goroutines"`
	Ops        []RecvOp `json:"ops"`
}

func genRecv(rng *rand.Rand) RecvCase {
	rc := RecvCase{Transport: []string{"", "grpc", "http"}[rng.Intn(3)], LongLived: rng.Intn(3) == 0, Goroutines: 1 + rng.Intn(3)}
	// single-signal histories (the other signals' counters must stay untouched) and mixed ones
	sigs := expkit.Signals
	if rng.Intn(2) == 0 {
		s := expkit.Signals[rng.Intn(3)]
		sigs = []expkit.Signal{s}
	}
	errMode := rng.Intn(3) // 0 never, 1 always, 2 mixed
	for n := 1 + rng.Intn(12); n > 0; n-- {
		op := RecvOp{Signal: sigs[rng.Intn(len(sigs))].String(), N: rng.Intn(20)}
		if rng.Intn(8) == 0 {
			op.N = 0
		}
		op.Err = errMode == 1 || (errMode == 2 && rng.Intn(2) == 0)
		rc.Ops = append(rc.Ops, op)
	}
	return rc
}

func runRecv(c *driver.Ctx, rc RecvCase) {
	tel := expkit.NewTel()
	defer tel.Close()
	set := receivertest.NewNopSettings(component.MustNewType("c19recv"))
	set.TelemetrySettings = tel.NewTelemetrySettings()
	or, err := receiverhelper.NewObsReport(receiverhelper.ObsReportSettings{ReceiverID: set.ID, Transport: rc.Transport, LongLivedCtx: rc.LongLived, ReceiverCreateSettings: set})
	if err != nil {
		c.Note("NewObsReport: %v", err)
		return
	}
	var wg sync.WaitGroup
	for g := 0; g < rc.Goroutines; g++ {
		wg.Add(1)
		go func(g int) {
			defer wg.Done()
			for i := g; i < len(rc.Ops); i += rc.Goroutines {
				op := rc.Ops[i]
				var e error
				if op.Err {
					e = nextDownstreamErr()
				}
				switch op.Signal {
				case "logs":
					or.EndLogsOp(or.StartLogsOp(context.Background()), "f", op.N, e)
				case "traces":
					or.EndTracesOp(or.StartTracesOp(context.Background()), "f", op.N, e)
				default:
					or.EndMetricsOp(or.StartMetricsOp(context.Background()), "f", op.N, e)
				}
			}
		}(g)
	}
	wg.Wait()
	c.Eval()
	snap, err := tel.Collect()
	if err != nil {
		c.Inconclusive("reader-collect-failed")
		return
	}
	type led struct{ acc, ref, okOps, errOps int64 }
	want := map[string]*led{"logs": {}, "traces": {}, "metrics": {}}
	for _, op := range rc.Ops {
		l := want[op.Signal]
		if op.Err {
			l.ref += int64(op.N)
			l.errOps++
		} else {
			l.acc += int64(op.N)
			l.okOps++
		}
	}
	var pattern []string
	for _, s := range expkit.Signals {
		l := want[s.String()]
		cls := "none"
		switch {
		case l.okOps > 0 && l.errOps > 0:
			cls = "ok+err"
		case l.okOps > 0:
			cls = "ok-only"
		case l.errOps > 0:
			cls = "err-only"
		}
		if cls != "none" {
			pattern = append(pattern, s.String()+":"+cls)
		}
		for _, kind := range []string{"accepted", "refused"} {
			name := "otelcol_receiver_" + kind + "_" + s.ItemNoun()
			exp := l.acc
			if kind == "refused" {
				exp = l.ref
			}
			got := snap.Sum(name)
			c.Observe("receiver_counters_compared", 1)
			if got != exp {
				c.Violation("receiver", fmt.Sprintf("%s = %d, ledger says %d (%s operations of this signal: %d ok / %d failed; offered items must be booked as accepted iff the downstream result was nil, under the operation's own signal)", name, got, exp, s, l.okOps, l.errOps),
					map[string]any{"case": rc, "counters": snap.NonZero("otelcol_receiver_")}, "signal", s.String(), "counter", kind, "ops", cls)
			}
			if own := snap.SumWhere(name, "receiver="+set.ID.String(), "transport="+rc.Transport); own != got {
				c.Violation("receiver-attrs", fmt.Sprintf("%s: %d of %d booked under other receiver/transport attributes", name, got-own, got), map[string]any{"case": rc, "counters": snap.NonZero("otelcol_receiver_")}, "signal", s.String(), "counter", kind)
			}
		}
	}
	c.Nontrivial("receiver", strings.Join(pattern, ","), rc.Goroutines > 1)
	c.Observe("receiver_histories", 1)
	c.Observe("receiver_ops", int64(len(rc.Ops)))
}

// =====================================================================================================
// scraper controllers

type ScrapeCase struct {
	Kind     string   `json:"controller"` // metrics | logs
	Scrapers int      `json:"scrapers"`
	Ticks    int      `json:"ticks"`
	Items    []int    `json:"items"`    // per (scrape, scraper), cyclic
	Outcome  []string `json:"outcome"`  // per (scrape, scraper), cyclic: ok | partial | error
	SinkErr  []bool   `json:"sink_err"` // per scrape, cyclic
	Directed string   `json:"directed,omitempty"`
}

func genScrape(rng *rand.Rand) ScrapeCase {
	sc := ScrapeCase{Kind: []string{"metrics", "logs"}[rng.Intn(2)], Scrapers: 1 + rng.Intn(3), Ticks: rng.Intn(4)}
	for i := 0; i < 7; i++ {
		sc.Items = append(sc.Items, rng.Intn(7))
		sc.Outcome = append(sc.Outcome, []string{"ok", "ok", "ok", "partial", "error"}[rng.Intn(5)])
	}
	mode := rng.Intn(3)
	for i := 0; i < 5; i++ {
		sc.SinkErr = append(sc.SinkErr, mode == 1 || (mode == 2 && rng.Intn(2) == 0))
	}
	return sc
}

func runScrape(c *driver.Ctx, sc ScrapeCase) {
	tel := expkit.NewTel()
	defer tel.Close()
	set := receivertest.NewNopSettings(component.MustNewType("c19scrape"))
	set.TelemetrySettings = tel.NewTelemetrySettings()
	own := expkit.Metrics
	if sc.Kind == "logs" {
		own = expkit.Logs
	}
	var mu sync.Mutex
	var sinkCalls, accepted, refused, okCalls, errCalls int64
	var scrapeNo atomic.Int64 // number of sink calls so far = index of the current scrape
	sink := func(n int) error {
		mu.Lock()
		defer mu.Unlock()
		i := sinkCalls
		sinkCalls++
		scrapeNo.Store(sinkCalls)
		if sc.SinkErr[int(i)%len(sc.SinkErr)] {
			refused += int64(n)
			errCalls++
			return nextDownstreamErr()
		}
		accepted += int64(n)
		okCalls++
		return nil
	}
	scrapeOne := func(s int) (expkit.Payload, error) {
		round := int(scrapeNo.Load())
		k := (round*sc.Scrapers + s)
		n := sc.Items[k%len(sc.Items)]
		p := expkit.Make(own, mkIDs(fmt.Sprintf("r%d.s%d", round, s), n))
		switch sc.Outcome[k%len(sc.Outcome)] {
		case "partial":
			return p, scrapererror.NewPartialScrapeError(errors.New("partial scrape (scripted)"), 1)
		case "error":
			return p, errors.New("scrape failed (scripted)")
		}
		return p, nil
	}
	cfg := scraperhelper.NewDefaultControllerConfig()
	cfg.InitialDelay = 0
	cfg.CollectionInterval = time.Hour
	tick := make(chan time.Time)
	opts := []scraperhelper.ControllerOption{scraperhelper.WithTickerChannel(tick)}
	var ctl component.Component
	var err error
	if sc.Kind == "metrics" {
		for s := 0; s < sc.Scrapers; s++ {
			s := s
			ms, e := scraper.NewMetrics(func(context.Context) (pmetric.Metrics, error) { p, err := scrapeOne(s); return p.M, err })
			if e != nil {
				c.Note("scraper.NewMetrics: %v", e)
				return
			}
			opts = append(opts, scraperhelper.AddScraper(component.MustNewType(fmt.Sprintf("sm%d", s)), ms))
		}
		next, _ := consumer.NewMetrics(func(_ context.Context, md pmetric.Metrics) error { return sink(md.DataPointCount()) })
		ctl, err = scraperhelper.NewMetricsController(&cfg, set, next, opts...)
	} else {
		for s := 0; s < sc.Scrapers; s++ {
			s := s
			ls, e := scraper.NewLogs(func(context.Context) (plog.Logs, error) { p, err := scrapeOne(s); return p.L, err })
			if e != nil {
				c.Note("scraper.NewLogs: %v", e)
				return
			}
			f := scraper.NewFactory(component.MustNewType(fmt.Sprintf("sl%d", s)), nil,
				scraper.WithLogs(func(context.Context, scraper.Settings, component.Config) (scraper.Logs, error) { return ls, nil }, component.StabilityLevelAlpha))
			opts = append(opts, scraperhelper.AddFactoryWithConfig(f, nil))
		}
		next, _ := consumer.NewLogs(func(_ context.Context, ld plog.Logs) error { return sink(ld.LogRecordCount()) })
		ctl, err = scraperhelper.NewLogsController(&cfg, set, next, opts...)
	}
	if err != nil {
		c.Note("controller construction: %v", err)
		return
	}
	var prog atomic.Int64
	stuck := c.Guard(20*time.Second, prog.Load, func() {
		if err := ctl.Start(context.Background(), componenttest.NewNopHost()); err != nil {
			c.Note("controller start: %v", err)
			return
		}
		// the tick channel is unbuffered: a send returns when the scrape loop has taken the tick, i.e. the
		// previous scrape (including its end-of-operation bookkeeping) is over; Shutdown joins the loop.
		for t := 0; t < sc.Ticks; t++ {
			tick <- time.Now()
			prog.Add(1)
		}
		_ = ctl.Shutdown(context.Background())
	})
	c.Eval()
	if stuck != nil {
		c.Inconclusive("scraper-controller-watchdog")
		return
	}
	mu.Lock()
	defer mu.Unlock()
	if sinkCalls != int64(1+sc.Ticks) {
		c.Violation("scraper", fmt.Sprintf("%s controller: %d scrapes reached the consumer, %d expected (one on start plus one per tick)", sc.Kind, sinkCalls, 1+sc.Ticks), sc, "controller", sc.Kind, "booked_under", "scrape-count")
	}
	snap, err := tel.Collect()
	if err != nil {
		c.Inconclusive("reader-collect-failed")
		return
	}
	get := func(kind string, s expkit.Signal) int64 {
		return snap.Sum("otelcol_receiver_" + kind + "_" + s.ItemNoun())
	}
	// where did the items go
	booked := "nowhere"
	bad := false
	for _, kv := range []struct {
		kind string
		exp  int64
	}{{"accepted", accepted}, {"refused", refused}} {
		c.Observe("scraper_counters_compared", 1)
		if got := get(kv.kind, own); got != kv.exp {
			bad = true
			for _, f := range expkit.Signals {
				if f != own && kv.exp-got != 0 && get(kv.kind, f) == kv.exp-got {
					booked = f.ItemNoun()
				}
			}
		}
	}
	foreign := false
	for _, f := range expkit.Signals {
		if f != own && (get("accepted", f) != 0 || get("refused", f) != 0) {
			foreign = true
		}
	}
	if bad || foreign {
		if !bad {
			booked = "foreign-extra"
		}
		c.Violation("scraper", fmt.Sprintf("%s scraper controller: consumer accepted %d and refused %d %s, reader shows %v — the operation's items are booked under %s",
			sc.Kind, accepted, refused, own.ItemNoun(), snap.NonZero("otelcol_receiver_"), booked),
			map[string]any{"case": sc, "ledger": map[string]int64{"accepted": accepted, "refused": refused, "scrapes": sinkCalls}, "counters": snap.NonZero("otelcol_")},
			"controller", sc.Kind, "booked_under", booked)
	}
	// information only (not in the statement): scraped_metric_points counts metrics, not data points
	pat := "ok-only"
	switch {
	case okCalls > 0 && errCalls > 0:
		pat = "ok+err"
	case errCalls > 0:
		pat = "err-only"
	}
	outs := map[string]bool{}
	for i := 0; i < int(sinkCalls)*sc.Scrapers; i++ {
		outs[sc.Outcome[i%len(sc.Outcome)]] = true
	}
	var ol []string
	for o := range outs {
		ol = append(ol, o)
	}
	sort.Strings(ol)
	c.Nontrivial("scraper", sc.Kind, pat, strings.Join(ol, "+"), sc.Scrapers > 1)
	c.Observe("scraper_histories", 1)
	c.Observe("scraper_scrapes", sinkCalls)
}

// =====================================================================================================
// processors

type ProcCall struct {
	N       int    `json:"n"`
	Action  string `json:"action"` // keep | drop-some | drop-all | add | fail | skip
	SinkErr bool   `json:"sink_err"`
}

type ProcCase struct {
	DeclaresReadOnly bool       `json:"declares_mutates_data_false,omitempty"`
	Signal           string     `json:"signal"`
	Goroutines       int        `json:"goroutines"`
	Calls            []ProcCall `json:"calls"`
}

func genProc(rng *rand.Rand) ProcCase {
	pc := ProcCase{Signal: expkit.Signals[rng.Intn(3)].String(), Goroutines: 1 + rng.Intn(3)}
	// a processor that declares it does not mutate its input works on a copy and forwards that copy (a sampler, a
	// filter): what it forwards is what counts as outgoing
	pc.DeclaresReadOnly = rng.Intn(2) == 0
	acts := []string{"keep", "drop-some", "drop-all", "add", "fail", "skip"}
	if rng.Intn(3) == 0 { // histories with a single behaviour
		acts = []string{acts[rng.Intn(len(acts))]}
	}
	for n := 1 + rng.Intn(10); n > 0; n-- {
		pc.Calls = append(pc.Calls, ProcCall{N: 1 + rng.Intn(8), Action: acts[rng.Intn(len(acts))], SinkErr: rng.Intn(4) == 0})
	}
	return pc
}

func callIndex(p expkit.Payload) int {
	ids := p.IDs()
	if len(ids) == 0 {
		return -1
	}
	// ids are "c<idx>.<k>"
	s := strings.TrimPrefix(ids[0], "c")
	if i := strings.Index(s, "."); i > 0 {
		n, err := strconv.Atoi(s[:i])
		if err == nil {
			return n
		}
	}
	return -1
}

func runProc(c *driver.Ctx, pc ProcCase) {
	tel := expkit.NewTel()
	defer tel.Close()
	set := processortest.NewNopSettings(component.MustNewType("c19proc"))
	set.TelemetrySettings = tel.NewTelemetrySettings()
	var sig expkit.Signal
	for _, s := range expkit.Signals {
		if s.String() == pc.Signal {
			sig = s
		}
	}
	var forwarded, given atomic.Int64
	var extra atomic.Int64
	process := func(p expkit.Payload) error {
		i := callIndex(p)
		if i < 0 {
			return nil
		}
		switch pc.Calls[i].Action {
		case "drop-some":
			p.RemoveItems(func(k int) bool { return k%2 == 0 })
		case "drop-all":
			p.RemoveItems(func(int) bool { return true })
		case "add":
			p.AppendItems(mkIDs(fmt.Sprintf("c%d.x%d", i, extra.Add(1)), 1+i%3))
		case "fail":
			return errors.New("process function failed (scripted)")
		case "skip":
			return processorhelper.ErrSkipProcessingData
		}
		return nil
	}
	sink := func(p expkit.Payload) error {
		forwarded.Add(int64(p.Items()))
		if i := callIndex(p); i >= 0 && pc.Calls[i].SinkErr {
			return errDownstream
		}
		return nil
	}
	var consume func(p expkit.Payload) error
	ctx := context.Background()
	var procOpts []processorhelper.Option
	if pc.DeclaresReadOnly {
		procOpts = append(procOpts, processorhelper.WithCapabilities(consumer.Capabilities{MutatesData: false}))
		c.Observe("processors_declaring_mutates_data_false", 1)
	}
	switch sig {
	case expkit.Logs:
		next, _ := consumer.NewLogs(func(_ context.Context, ld plog.Logs) error { return sink(expkit.FromLogs(ld)) })
		p, err := processorhelper.NewLogs(ctx, set, struct{}{}, next, func(_ context.Context, ld plog.Logs) (plog.Logs, error) {
			if pc.DeclaresReadOnly {
				cp := plog.NewLogs()
				ld.CopyTo(cp)
				ld = cp
			}
			return ld, process(expkit.FromLogs(ld))
		}, procOpts...)
		if err != nil {
			c.Note("processorhelper.NewLogs: %v", err)
			return
		}
		consume = func(pl expkit.Payload) error { return p.ConsumeLogs(ctx, pl.L) }
	case expkit.Traces:
		next, _ := consumer.NewTraces(func(_ context.Context, td ptrace.Traces) error { return sink(expkit.FromTraces(td)) })
		p, err := processorhelper.NewTraces(ctx, set, struct{}{}, next, func(_ context.Context, td ptrace.Traces) (ptrace.Traces, error) {
			if pc.DeclaresReadOnly {
				cp := ptrace.NewTraces()
				td.CopyTo(cp)
				td = cp
			}
			return td, process(expkit.FromTraces(td))
		}, procOpts...)
		if err != nil {
			c.Note("processorhelper.NewTraces: %v", err)
			return
		}
		consume = func(pl expkit.Payload) error { return p.ConsumeTraces(ctx, pl.T) }
	default:
		next, _ := consumer.NewMetrics(func(_ context.Context, md pmetric.Metrics) error { return sink(expkit.FromMetrics(md)) })
		p, err := processorhelper.NewMetrics(ctx, set, struct{}{}, next, func(_ context.Context, md pmetric.Metrics) (pmetric.Metrics, error) {
			if pc.DeclaresReadOnly {
				cp := pmetric.NewMetrics()
				md.CopyTo(cp)
				md = cp
			}
			return md, process(expkit.FromMetrics(md))
		}, procOpts...)
		if err != nil {
			c.Note("processorhelper.NewMetrics: %v", err)
			return
		}
		consume = func(pl expkit.Payload) error { return p.ConsumeMetrics(ctx, pl.M) }
	}
	var wg sync.WaitGroup
	for g := 0; g < pc.Goroutines; g++ {
		wg.Add(1)
		go func(g int) {
			defer wg.Done()
			for i := g; i < len(pc.Calls); i += pc.Goroutines {
				pl := expkit.Make(sig, mkIDs(fmt.Sprintf("c%d", i), pc.Calls[i].N))
				given.Add(int64(pl.Items()))
				_ = consume(pl)
			}
		}(g)
	}
	wg.Wait()
	c.Eval()
	snap, err := tel.Collect()
	if err != nil {
		c.Inconclusive("reader-collect-failed")
		return
	}
	acts := map[string]bool{}
	for _, cl := range pc.Calls {
		a := cl.Action
		if cl.SinkErr && (a == "keep" || a == "drop-some" || a == "add") {
			a += "/next-fails"
		}
		acts[a] = true
	}
	var al []string
	for a := range acts {
		al = append(al, a)
	}
	sort.Strings(al)
	for _, kv := range []struct {
		name string
		exp  int64
		dir  string
	}{{"otelcol_processor_incoming_items", given.Load(), "incoming"}, {"otelcol_processor_outgoing_items", forwarded.Load(), "outgoing"}} {
		c.Observe("processor_counters_compared", 1)
		own := snap.SumWhere(kv.name, "otel.signal="+sig.String(), "processor="+set.ID.String())
		all := snap.Sum(kv.name)
		if own != kv.exp {
			c.Violation("processor", fmt.Sprintf("%s{otel.signal=%s} = %d, ledger says %d (actions %v)", kv.name, sig, own, kv.exp, al),
				map[string]any{"case": pc, "counters": snap.NonZero("otelcol_processor_")}, "signal", sig.String(), "counter", kv.dir)
		}
		if all != own {
			c.Violation("processor", fmt.Sprintf("%s: %d item(s) booked under another signal or processor", kv.name, all-own),
				map[string]any{"case": pc, "counters": snap.NonZero("otelcol_processor_")}, "signal", sig.String(), "counter", kv.dir+"-foreign")
		}
	}
	c.Nontrivial("processor", sig.String(), strings.Join(al, "+"))
	c.Observe("processor_histories", 1)
	c.Observe("processor_calls", int64(len(pc.Calls)))
}

// =====================================================================================================
// exporters

const (
	ScDrain         = "drain"          // everything is exported, then Shutdown
	ScGatedOpen     = "gated-open"     // exports held while producers run (gauge sample), released, drained, Shutdown
	ScGatedShutdown = "gated-shutdown" // Shutdown requested while exports are held and requests are queued
	ScQueueFull     = "queue-full"     // small queue + held exports: later enqueues are refused
	ScRetryWait     = "retry-wait"     // Shutdown while requests sit in a (one hour) retry wait
	// block_on_overflow with a tiny queue and held exports: producers park inside the queue's wait for space
	// (or, with wait_for_result, wait for the result) and their contexts are cancelled / time out there
	ScBlocked = "blocked-ctx-end"
)

type ExpCase struct {
	Cfg       expkit.ExpConfig `json:"cfg"`
	Script    string           `json:"script"` // ok | transient | permanent | mixed
	K         int              `json:"k"`
	Scenario  string           `json:"scenario"`
	Producers int              `json:"producers"`
	Reqs      int              `json:"reqs_per_producer"`
	Sizes     []int            `json:"sizes"`
	Directed  string           `json:"directed,omitempty"`
	// CtxPlan (ScBlocked), per producer: live | cancel-when-parked | deadline | cancelled-at-start
	CtxPlan []string `json:"ctx_plan,omitempty"`
}

const (
	ctxLive      = "live"               // never ends; the producer gets its space once exports are released
	ctxCancel    = "cancel-when-parked" // cancelled by the driver while the producer is parked (space or result wait)
	ctxDeadline  = "deadline"           // 1-3 ms deadline: expires while the producer is parked
	ctxCancelled = "cancelled-at-start" // starts, already cancelled, once the queue is full
)

func (ec ExpCase) scriptName() string {
	if ec.Script == "transient" {
		if ec.K >= 1000 {
			return "transient-always"
		}
		return "transient-k"
	}
	return ec.Script
}

func genExp(rng *rand.Rand) ExpCase {
	var ec ExpCase
	cfg := &ec.Cfg
	cfg.Sig = expkit.Signals[rng.Intn(3)]
	cfg.Signal = cfg.Sig.String()
	cfg.Persistent = rng.Intn(5) < 2
	if cfg.Persistent {
		cfg.Batch = []string{expkit.BatchNone, expkit.BatchNone, expkit.BatchLegacy}[rng.Intn(3)]
	} else {
		cfg.Batch = []string{expkit.BatchNone, expkit.BatchNone, expkit.BatchItems, expkit.BatchItems, expkit.BatchBytes, expkit.BatchLegacy, expkit.BatchLegacyNoQueue}[rng.Intn(7)]
	}
	cfg.Retry = rng.Intn(2) == 0
	cfg.Consumers = []int{1, 4}[rng.Intn(2)]
	cfg.NoTimeout = rng.Intn(2) == 0
	cfg.Mutates = rng.Intn(2) == 0 // the pusher then empties its input after a successful send
	if !cfg.Persistent && cfg.Batch != expkit.BatchLegacyNoQueue && rng.Intn(6) == 0 {
		cfg.WaitForResult = true
	}

	scs := []string{ScDrain, ScDrain, ScGatedOpen, ScGatedShutdown, ScQueueFull}
	if cfg.Retry {
		scs = append(scs, ScRetryWait, ScRetryWait)
	}
	if cfg.WaitsForResult() {
		scs = []string{ScDrain, ScDrain, ScQueueFull} // ConsumeX returns only after the export: nothing can be held
	}
	if cfg.Batch == expkit.BatchNone || cfg.Batch == expkit.BatchItems {
		scs = append(scs, ScBlocked, ScBlocked)
		if cfg.WaitsForResult() {
			scs = append(scs, ScBlocked)
		}
	}
	ec.Scenario = scs[rng.Intn(len(scs))]
	ec.Script = []string{"ok", "transient", "permanent", "mixed", "mixed"}[rng.Intn(5)]
	ec.K = []int{1, 2, 3, 1000}[rng.Intn(4)]
	if ec.Scenario == ScRetryWait {
		ec.Script = "transient"
		if rng.Intn(3) > 0 {
			ec.K = 1000
		}
	}
	ec.Producers = 1 + rng.Intn(3)
	ec.Reqs = 1 + rng.Intn(6)
	for i := 0; i < 6; i++ {
		ec.Sizes = append(ec.Sizes, 1+rng.Intn(5))
	}

	switch {
	case cfg.Persistent:
		cfg.Sizer, cfg.QueueSize = "requests", 1000
	case cfg.Batch == expkit.BatchItems:
		cfg.Sizer, cfg.QueueSize = "items", 100000
	case cfg.Batch == expkit.BatchBytes:
		cfg.Sizer, cfg.QueueSize = "bytes", 10_000_000
	default:
		cfg.Sizer = []string{"requests", "items", "bytes"}[rng.Intn(3)]
		cfg.QueueSize = map[string]int64{"requests": 1000, "items": 100000, "bytes": 10_000_000}[cfg.Sizer]
	}
	if ec.Scenario == ScBlocked {
		cfg.BlockOnOverflow = true
		ec.Producers = 2 + rng.Intn(3)
		ec.Reqs = 1 + rng.Intn(4)
		must := []string{ctxCancel, ctxDeadline, ctxCancelled}[rng.Intn(3)]
		for p := 0; p < ec.Producers; p++ {
			ec.CtxPlan = append(ec.CtxPlan, []string{ctxLive, ctxLive, ctxCancel, ctxCancel, ctxDeadline, ctxCancelled}[rng.Intn(6)])
		}
		ec.CtxPlan[rng.Intn(ec.Producers)] = must
		if ec.CtxPlan[0] == ctxCancelled {
			ec.CtxPlan[0] = ctxLive // somebody has to fill the queue first
		}
	}
	if ec.Scenario == ScQueueFull || ec.Scenario == ScBlocked {
		// room for a few requests only (some single requests may not fit at all)
		cfg.QueueSize = map[string]int64{"requests": int64(1 + rng.Intn(3)), "items": int64(3 + rng.Intn(8)), "bytes": int64(150 + rng.Intn(500))}[cfg.Sizer]
	}
	if cfg.Batched() {
		bytes := cfg.Batch == expkit.BatchBytes
		unit := int64(1)
		if bytes {
			unit = 120
		}
		switch rng.Intn(4) {
		case 0:
			cfg.MinSize = 0
		case 1:
			cfg.MinSize = 1_000_000
		default:
			cfg.MinSize = int64(3+rng.Intn(10)) * unit
		}
		if rng.Intn(2) == 0 {
			cfg.MaxSize = cfg.MinSize%1_000_000 + int64(1+rng.Intn(6))*unit
			if bytes && cfg.MaxSize < 1500 {
				cfg.MaxSize = 1500 + int64(rng.Intn(800))
			}
			if cfg.MinSize > cfg.MaxSize {
				cfg.MinSize = cfg.MaxSize
			}
		}
		cfg.FlushMS = []int64{1, 2, 5, 3_600_000}[rng.Intn(4)]
		if cfg.WaitsForResult() || ec.Scenario == ScRetryWait || ec.Scenario == ScBlocked {
			cfg.FlushMS = int64(1 + rng.Intn(3)) // ScBlocked: a pending partial batch would keep the space occupied for ever
		}
	}
	if cfg.Retry {
		cfg.RetryInitMS = int64(1 + rng.Intn(3))
		cfg.RetryMaxMS = 5
		if ec.Scenario == ScRetryWait {
			cfg.RetryInitMS, cfg.RetryMaxMS = 3_600_000, 3_600_000
		} else if rng.Intn(2) == 0 {
			cfg.RetryElapsedMS = int64(10 + rng.Intn(20))
		}
		if (cfg.WaitsForResult() || ec.Scenario == ScBlocked) && cfg.RetryElapsedMS == 0 && ec.Script == "transient" && ec.K >= 1000 {
			cfg.RetryElapsedMS = 15 // producers wait for the result / for space: let the retries give up
		}
	}
	return ec
}

func sizeOf(cfg expkit.ExpConfig, p expkit.Payload) int64 {
	switch cfg.Sizer {
	case "items":
		return int64(p.Items())
	case "bytes":
		return int64(p.Bytes())
	}
	return 1
}

func runExp(c *driver.Ctx, ec ExpCase) (reproduced bool) {
	cfg := ec.Cfg
	opts, err := cfg.Options()
	if err != nil {
		c.Observe("skipped_invalid_config", 1)
		return
	}
	sigKV := []string{"signal", cfg.Signal, "queue", cfg.QueueKind(), "batch", cfg.Batch, "retry", fmt.Sprint(cfg.Retry), "script", ec.scriptName(), "scenario", ec.Scenario}
	before := expkit.HelperGoroutines()
	log := expkit.NewLog()
	gated := ((ec.Scenario == ScGatedOpen || ec.Scenario == ScGatedShutdown || ec.Scenario == ScQueueFull) && !cfg.WaitsForResult()) || ec.Scenario == ScBlocked
	var gate *expkit.Gate
	if gated {
		gate = expkit.NewGate(false)
	}
	be := &expkit.Backend{Log: log, Gate: gate, Consume: cfg.Mutates}
	be.Script = func(no int, ids []string, prior []int) (string, func(string) bool) {
		none := func(string) bool { return false }
		switch ec.Script {
		case "transient":
			for _, p := range prior {
				if p < ec.K {
					return expkit.Transient, none
				}
			}
		case "permanent":
			if no%3 == 0 {
				return expkit.Permanent, none
			}
		case "ok-then-transient":
			if no > 1 {
				return expkit.Transient, none
			}
		case "mixed":
			switch h32(no, ec.Reqs, ec.Producers) % 6 {
			case 0:
				return expkit.Transient, none
			case 1:
				return expkit.Permanent, none
			case 2, 3:
				if len(ids) > 1 {
					return expkit.Partial, func(id string) bool { return h32(id)%2 == 0 || id == ids[0] }
				}
			}
		}
		return expkit.OK, none
	}
	tel := expkit.NewTel()
	defer tel.Close()
	set := exportertest.NewNopSettings(expkit.ExporterType)
	set.TelemetrySettings = tel.NewTelemetrySettings()
	set.TelemetrySettings.Logger = expkit.RetryLogHook(func() { log.Add(expkit.Event{Kind: expkit.EvRetryLog}) })
	store := expkit.NewStore(nil)
	var host component.Host = componenttest.NewNopHost()
	if cfg.Persistent {
		host = expkit.NewHost(store)
	}
	exp, err := expkit.NewExporter(cfg.Sig, set, be.Push, opts...)
	if err != nil {
		c.Observe("skipped_construction_error", 1)
		return
	}

	var mu sync.Mutex
	// refusedItems: never entered the queue (full / too large / context ended in the wait for space);
	// exportErrItems: ConsumeX returned an export result (wait_for_result); abandonedItems: the context ended while
	// the producer waited for the result of a request the queue had accepted
	var given, refusedItems, exportErrItems, abandonedItems, ctxRefusedItems, acceptedReqs, acceptedSize int64
	pstate := make([]string, ec.Producers) // ScBlocked: "" running | space | result | done
	lastWait := make([]string, ec.Producers)
	type gaugeSample struct {
		Where    string `json:"where"`
		Size     int64  `json:"size"`
		Lo, Hi   int64
		Capacity int64 `json:"capacity"`
	}
	var samples []gaugeSample
	var image map[string][]byte
	var drain expkit.DrainResult
	var snap expkit.Snapshot
	var started bool
	tag := fmt.Sprintf("s%dx%d", c.Shard, h32(cfg.Class(), ec.Reqs, ec.Producers, ec.Scenario)%100000)

	sample := func(where string, lo, hi int64) {
		sz, ok1 := tel.Gauge(expkit.QueueSizeGauge)
		cp, ok2 := tel.Gauge(expkit.QueueCapacityGauge)
		if !ok1 || !ok2 {
			c.Observe("gauge_not_reported", 1)
			return
		}
		samples = append(samples, gaugeSample{where, sz, lo, hi, cp})
	}
	allFinal := func() bool {
		// every accepted item has been attempted and every attempt has returned; a retry chain that is still
		// waiting keeps its consumer (or flush goroutine) busy, which ConsumersIdle sees
		if be.Inflight() != 0 {
			return false
		}
		atts := be.Attempts()
		seen := map[string]bool{}
		for _, a := range atts {
			if a.End == 0 {
				return false
			}
			for _, id := range a.IDs {
				seen[id] = true
			}
		}
		mu.Lock()
		defer mu.Unlock()
		return int64(len(seen)) >= given-refusedItems
	}

	record := func(p, n int, sz int64, err error) {
		mu.Lock()
		defer mu.Unlock()
		given += int64(n)
		switch {
		case err == nil:
			acceptedReqs++
			acceptedSize += sz
		case errors.Is(err, exporterhelper.ErrQueueIsFull) || strings.Contains(err.Error(), "size too large"):
			refusedItems += int64(n)
		case ec.Scenario == ScBlocked && (errors.Is(err, context.Canceled) || errors.Is(err, context.DeadlineExceeded)):
			switch lastWait[p] {
			case expkit.WaitResult: // accepted by the queue, the producer stopped waiting for the result
				abandonedItems += int64(n)
				acceptedReqs++
				acceptedSize += sz
			default:
				if lastWait[p] == "" {
					c.Note("context error from ConsumeX although the producer never reached a wait (%s): %v", cfg.Class(), err)
				}
				refusedItems += int64(n)
				ctxRefusedItems += int64(n)
			}
		case cfg.WaitsForResult():
			exportErrItems += int64(n)
		default:
			c.Note("unexpected ConsumeX error without wait_for_result (%s): %v", cfg.Class(), err)
			refusedItems += int64(n)
		}
	}

	// ScBlocked: producers with instrumented contexts
	blockedPhase := func() {
		ctxs := make([]context.Context, ec.Producers)
		cancels := make([]context.CancelFunc, ec.Producers)
		for p := range ctxs {
			switch ec.CtxPlan[p] {
			case ctxDeadline:
				ctxs[p], cancels[p] = context.WithTimeout(context.Background(), time.Duration(1+h32(tag, p)%3)*time.Millisecond)
			default:
				ctxs[p], cancels[p] = context.WithCancel(context.Background())
			}
			if ec.CtxPlan[p] == ctxCancelled {
				cancels[p]()
			}
		}
		defer func() {
			for _, cf := range cancels {
				cf()
			}
		}()
		var wg sync.WaitGroup
		start := func(p int) {
			wg.Add(1)
			go func() {
				defer wg.Done()
				hc := expkit.HookCtx{Context: ctxs[p], Owner: expkit.CurGID()}
				hc.OnBlock = func(where string) {
					mu.Lock()
					pstate[p], lastWait[p] = where, where
					mu.Unlock()
					log.Add(expkit.Event{Kind: "parked-" + where, Actor: p})
				}
				for r := 0; r < ec.Reqs; r++ {
					n := ec.Sizes[(p*ec.Reqs+r)%len(ec.Sizes)]
					pl := expkit.Make(cfg.Sig, mkIDs(fmt.Sprintf("%s.p%d.r%d", tag, p, r), n))
					sz := sizeOf(cfg, pl)
					mu.Lock()
					pstate[p], lastWait[p] = "", ""
					mu.Unlock()
					log.Add(expkit.Event{Kind: expkit.EvEnqCall, Actor: p, Req: r, N: n})
					err := exp.Consume(hc, pl)
					record(p, n, sz, err)
					mu.Lock()
					pstate[p] = ""
					if r == ec.Reqs-1 {
						pstate[p] = "done"
					}
					mu.Unlock()
					oc := ""
					switch {
					case err != nil && (errors.Is(err, context.Canceled) || errors.Is(err, context.DeadlineExceeded)):
						oc = "ctx-error"
					case err != nil:
						oc = "error"
					}
					log.Add(expkit.Event{Kind: expkit.EvEnqRet, Actor: p, Req: r, Outcome: oc, N: n})
				}
			}()
		}
		settled := func(only func(p int) bool, doneOnly bool) func() bool {
			return func() bool {
				mu.Lock()
				defer mu.Unlock()
				for p, st := range pstate {
					if !only(p) {
						continue
					}
					if st == "done" || (!doneOnly && (st == expkit.WaitSpace || st == expkit.WaitResult)) {
						continue
					}
					return false
				}
				return true
			}
		}
		early := func(p int) bool { return ec.CtxPlan[p] != ctxCancelled }
		all := func(int) bool { return true }
		steer := func(ok bool, which string) {
			if !ok {
				c.Observe("steer_cap_expired:blocked/"+which, 1)
				mu.Lock()
				c.Note("blocked steering %s expired: %s plan=%v states=%v", which, cfg.Class(), ec.CtxPlan, pstate)
				mu.Unlock()
			}
		}
		heldSample := func(where string) {
			// no export has ended (all are held at the gate) and nobody is between two states: the reported
			// size is the sum of the sizes of the requests the queue took
			if !cfg.Persistent && !cfg.WaitsForResult() {
				mu.Lock()
				sz := acceptedSize
				mu.Unlock()
				sample(where, sz, sz)
			}
		}
		for p := 0; p < ec.Producers; p++ {
			if early(p) {
				start(p)
			}
		}
		// logical point 1: every producer is finished or parked (in the wait for space / for its result)
		steer(log.WaitFor(settled(early, false), 4*time.Second), "point-1")
		mu.Lock()
		parkedSpace, parkedResult := 0, 0
		for _, st := range pstate {
			switch st {
			case expkit.WaitSpace:
				parkedSpace++
			case expkit.WaitResult:
				parkedResult++
			}
		}
		mu.Unlock()
		c.Observe("blocked_producers_parked_for_space", int64(parkedSpace))
		c.Observe("blocked_producers_parked_for_result", int64(parkedResult))
		heldSample("blocked/held-1")
		// end the contexts of the parked producers; late producers arrive with a dead context at the full queue
		for p := 0; p < ec.Producers; p++ {
			switch ec.CtxPlan[p] {
			case ctxCancel:
				cancels[p]()
			case ctxCancelled:
				start(p)
			}
		}
		// logical point 2: every producer whose context ended has returned from all its calls
		steer(log.WaitFor(settled(func(p int) bool { return ec.CtxPlan[p] != ctxLive }, true), 4*time.Second), "point-2a")
		steer(log.WaitFor(settled(all, false), 4*time.Second), "point-2b")
		heldSample("blocked/held-2")
		gate.Open()
		wg.Wait()
	}

	body := func() {
		if err := exp.Start(context.Background(), host); err != nil {
			c.Note("Start failed for %s: %v", cfg.Class(), err)
			return
		}
		started = true
		var wg sync.WaitGroup
		if ec.Scenario == ScBlocked {
			blockedPhase()
		}
		for p := 0; p < ec.Producers && ec.Scenario != ScBlocked; p++ {
			wg.Add(1)
			go func(p int) {
				defer wg.Done()
				for r := 0; r < ec.Reqs; r++ {
					n := ec.Sizes[(p*ec.Reqs+r)%len(ec.Sizes)]
					pl := expkit.Make(cfg.Sig, mkIDs(fmt.Sprintf("%s.p%d.r%d", tag, p, r), n))
					sz := sizeOf(cfg, pl)
					log.Add(expkit.Event{Kind: expkit.EvEnqCall, Actor: p, Req: r, N: n})
					err := exp.Consume(context.Background(), pl)
					record(p, n, sz, err)
					oc := ""
					if err != nil {
						oc = "error"
					}
					log.Add(expkit.Event{Kind: expkit.EvEnqRet, Actor: p, Req: r, Outcome: oc, N: n})
				}
			}(p)
		}
		wg.Wait() // every ConsumeX has returned before Shutdown is requested
		capWant := cfg.QueueSize
		_ = capWant
		if gated && !cfg.WaitsForResult() && ec.Scenario != ScBlocked {
			// quiescent sample 1: producers returned, no export has ended (all are held at the gate)
			if !cfg.Persistent {
				sample("held/memory", acceptedSize, acceptedSize)
			} else if !cfg.Batched() {
				want := int(min(int64(cfg.Consumers), acceptedReqs))
				if log.WaitCount(expkit.EvGate, want, nil, 4*time.Second) {
					// requests still waiting in the queue are counted; those handed to a consumer may or may not be
					sample("held/persistent", acceptedReqs-int64(want), acceptedReqs)
				} else {
					c.Observe("steer_cap_expired:held-persistent", 1)
					c.Note("held/persistent steering expired: %s %s want=%d accepted=%d gate=%d", cfg.Class(), ec.Scenario, want, acceptedReqs, log.Count(expkit.EvGate))
				}
			}
		}
		switch ec.Scenario {
		case ScRetryWait:
			want := min(cfg.EffectiveConsumers(), int(acceptedReqs), 1+ec.Reqs%3)
			if want > 0 && !log.WaitCount(expkit.EvRetryLog, want, nil, 4*time.Second) {
				c.Observe("steer_cap_expired:retry-wait", 1)
				c.Note("retry-wait steering expired: %s script=%s k=%d want=%d accepted=%d retrylogs=%d attempts=%d inflight=%d procs=%d gate=%v elapsed=%d init=%d sizer=%s qs=%d frames=%v", cfg.Class(), ec.Script, ec.K, want, acceptedReqs, log.Count(expkit.EvRetryLog), len(be.Attempts()), be.Inflight(), runtime.GOMAXPROCS(0), gate != nil, cfg.RetryElapsedMS, cfg.RetryInitMS, cfg.Sizer, cfg.QueueSize, func() []string {
					var o []string
					for _, g := range expkit.Dump() {
						if g.Helper() {
							o = append(o, g.TopRepo+" ["+g.State+"]")
						}
					}
					return o
				}())
			}
		case ScGatedShutdown:
			go func() {
				log.WaitCount(expkit.EvShutCall, 1, nil, 10*time.Minute)
				for y := h32(tag) % 30; y > 0; y-- {
					runtime.Gosched()
				}
				gate.Open()
			}()
		default:
			if gate != nil {
				gate.Open()
			}
			// quiescent sample 2: everything finished and the consumers are parked again => size 0.
			// Not reachable when a retry never gives up on an always-failing backend or when a partial batch
			// waits for a one-hour flush timer: then no sample is taken.
			canFinish := !(cfg.Retry && cfg.RetryElapsedMS == 0 && ec.Script == "transient" && ec.K >= 1000) && !(cfg.Batched() && cfg.FlushMS >= 3_600_000 && cfg.MinSize > 0)
			if !canFinish {
				c.Observe("idle_sample_not_applicable", 1)
				break
			}
			idle := false
			for try := 0; try < 1500 && !idle; try++ {
				if idle = allFinal() && expkit.ConsumersIdle(before, cfg.EffectiveConsumers()); !idle {
					if try < 30 {
						runtime.Gosched()
					} else {
						time.Sleep(100 * time.Microsecond)
					}
				}
			}
			if idle && !cfg.WaitsForResult() {
				sample("idle", 0, 0)
			} else if !idle {
				c.Observe("idle_sample_not_reached", 1)
			}
		}
		log.Add(expkit.Event{Kind: expkit.EvShutCall})
		_ = exp.Shutdown(context.Background())
		log.Add(expkit.Event{Kind: expkit.EvShutRet})
		snap, _ = tel.Collect()
		if cfg.Persistent {
			image = store.Image()
			drain = expkit.Drain(cfg.Sig, image, func() { log.Add(expkit.Event{Kind: "drain-delivery"}) })
		}
	}
	stuck := c.Guard(20*time.Second, log.Progress, body)
	c.Eval()
	if stuck != nil {
		log.Abort()
		if gate != nil {
			gate.Open()
		}
		c.Inconclusive("exporter-watchdog") // hangs are C03's subject
		c.Note("exporter case abandoned by the watchdog: %s %s/%s frames %v", cfg.Class(), ec.scriptName(), ec.Scenario, expkit.BlockedRepoFrames(stuck.Dump))
		return
	}
	if !started || snap == nil {
		return
	}
	be.Close()

	// ------------------------------------------------------------ ledger vs reader
	noun := cfg.Sig.ItemNoun()
	sent := snap.Sum("otelcol_exporter_sent_" + noun)
	failed := snap.Sum("otelcol_exporter_send_failed_" + noun)
	enq := snap.Sum("otelcol_exporter_enqueue_failed_" + noun)
	var stored, storedImage int64
	if cfg.Persistent {
		for _, n := range drain.Delivered {
			stored += int64(n)
		}
		im, _ := expkit.StoredIDs(cfg.Sig, image)
		for _, n := range im {
			storedImage += int64(n)
		}
		c.Observe("drain_incarnations", 1)
		if stored != storedImage {
			c.Observe("stored_by_drain_differs_from_image", 1)
		}
	}
	atts := be.Attempts()
	chains := expkit.Chains(atts)
	var interrupted int64 // items of requests whose retry chain was cut by the shutdown
	states := map[string]bool{}
	for _, ch := range chains {
		states[ch.State] = true
		if ch.State == "open" && cfg.Retry {
			interrupted += int64(ch.Orig)
		}
	}
	// items of finished retry chains (= what the exporter's obsreport booked as one request) that are
	// nevertheless still stored: booked as sent / booked as failed
	var sentAndStored, failedAndStored, permanentAndStored int64
	if cfg.Persistent {
		for _, ch := range chains {
			for _, id := range ch.IDs {
				n := int64(drain.Delivered[id])
				switch ch.State {
				case "ok":
					sentAndStored += n
				case "open", "permanent":
					failedAndStored += n
					if ch.State == "permanent" {
						permanentAndStored += n
					}
				}
			}
		}
	}
	attemptedAndStored := sentAndStored + failedAndStored
	lhs, rhs := sent+failed+enq, given-stored
	wit := func() map[string]any {
		return map[string]any{"case": ec, "ledger": map[string]int64{"given": given, "refused_at_enqueue": refusedItems, "still_stored_by_drain": stored, "still_stored_in_image": storedImage, "items_of_shutdown_interrupted_requests": interrupted,
			"consumex_returned_export_error": exportErrItems, "context_ended_in_wait_for_space": ctxRefusedItems, "context_ended_in_wait_for_result": abandonedItems, "booked_sent_and_still_stored": sentAndStored, "booked_failed_and_still_stored": failedAndStored, "of_these_permanent_failures": permanentAndStored},
			"reader": map[string]int64{"sent": sent, "send_failed": failed, "enqueue_failed": enq}, "attempts": len(atts), "counters": snap.NonZero("otelcol_exporter_")}
	}
	c.Observe("exporter_identities_checked", 1)
	if lhs != rhs {
		diff := "other"
		switch {
		case cfg.WaitsForResult() && abandonedItems > 0 && lhs-rhs == abandonedItems && enq-refusedItems == abandonedItems:
			diff = "request-abandoned-in-result-wait-also-counted-enqueue-failed"
		case ctxRefusedItems > 0 && rhs-lhs == ctxRefusedItems && refusedItems-enq == ctxRefusedItems:
			diff = "context-ended-in-wait-for-space-not-counted-enqueue-failed"
		case cfg.WaitsForResult() && exportErrItems > 0 && lhs-rhs == exportErrItems && enq-refusedItems == exportErrItems:
			diff = "wait-for-result-export-errors-also-counted-enqueue-failed"
		case cfg.Persistent && sentAndStored == 0 && failedAndStored > 0 && lhs-rhs == failedAndStored:
			diff = "attempted-items-counted-failed-and-still-stored"
		case cfg.Persistent && cfg.Batched() && lhs-rhs <= attemptedAndStored &&
			((sentAndStored+permanentAndStored > 0 && lhs-rhs >= sentAndStored+permanentAndStored) || (cfg.RetryElapsedMS > 0 && failedAndStored > permanentAndStored && lhs > rhs)):
			// (the finished part may also have ended with a final failure - permanent, or retries given up - instead of a success)
			// a request split over several batches: one part was exported, another part was interrupted by the
			// shutdown, the request stays stored as a whole
			diff = "part-of-split-request-exported-and-whole-request-still-stored"
		case interrupted > 0 && rhs-lhs == interrupted:
			diff = "interrupted-requests-neither-counted-nor-stored"
		case lhs > rhs:
			diff = "over"
		default:
			diff = "under"
		}
		if ec.Directed == "c19b" && diff == "attempted-items-counted-failed-and-still-stored" {
			reproduced = true
		}
		c.Violation("exporter-identity", fmt.Sprintf("after Shutdown: sent %d + send_failed %d + enqueue_failed %d = %d, but given %d - still stored %d = %d (%s, %s/%s; attempted and still stored: %d; open retry chains at shutdown: %d items; ConsumeX returned an export error for %d items)",
			sent, failed, enq, lhs, given, stored, rhs, cfg.Class(), ec.scriptName(), ec.Scenario, attemptedAndStored, interrupted, exportErrItems), wit(), append(sigKV, "diff", diff)...)
	}
	{
		c.Observe("enqueue_failed_compared", 1)
		if enq != refusedItems && !(cfg.WaitsForResult() && abandonedItems > 0 && enq-refusedItems == abandonedItems) {
			// (the excess that equals the items abandoned in a result wait is reported once, by the identity oracle)
			c.Violation("exporter-enqueue-failed", fmt.Sprintf("enqueue_failed_%s = %d, but %d item(s) never entered the queue (refused as full / too large: %d, context ended in the wait for space: %d; export errors returned by ConsumeX: %d, context ended while waiting for the result of an accepted request: %d) (%s, %s)",
				noun, enq, refusedItems, refusedItems-ctxRefusedItems, ctxRefusedItems, exportErrItems, abandonedItems, cfg.Class(), ec.Scenario), wit(), sigKV...)
		}
	}
	for _, f := range expkit.Signals {
		if f == cfg.Sig {
			continue
		}
		for _, k := range []string{"sent_", "send_failed_", "enqueue_failed_"} {
			if v := snap.Sum("otelcol_exporter_" + k + f.ItemNoun()); v != 0 {
				c.Violation("exporter-foreign", fmt.Sprintf("a %s exporter booked %d under otelcol_exporter_%s%s", cfg.Signal, v, k, f.ItemNoun()), wit(), sigKV...)
			}
		}
	}
	for _, s := range samples {
		c.Observe("gauge_samples", 1)
		c.Observe("gauge_samples:"+s.Where, 1)
		if s.Size < s.Lo || s.Size > s.Hi {
			c.Violation("queue-size-gauge", fmt.Sprintf("otelcol_exporter_queue_size = %d at a quiescent sample (%s) where the model says [%d, %d] (%s, sizer %s, capacity %d)", s.Size, s.Where, s.Lo, s.Hi, cfg.Class(), cfg.Sizer, cfg.QueueSize),
				map[string]any{"case": ec, "samples": samples}, append(sigKV, "where", s.Where, "sizer", cfg.Sizer)...)
		}
		wantCap := cfg.QueueSize
		if cfg.WaitsForResult() {
			wantCap = math.MaxInt
		}
		if s.Capacity != wantCap {
			c.Violation("queue-capacity-gauge", fmt.Sprintf("otelcol_exporter_queue_capacity = %d, configured %d (%s)", s.Capacity, wantCap, cfg.Class()),
				map[string]any{"case": ec, "samples": samples}, append(sigKV, "where", s.Where, "sizer", cfg.Sizer)...)
		}
	}

	// evidence: outcome pattern of the history
	var pat []string
	for s := range states {
		pat = append(pat, s)
	}
	if refusedItems > 0 {
		pat = append(pat, "enqueue-refused")
	}
	if stored > 0 {
		pat = append(pat, "left-stored")
	}
	if interrupted > 0 {
		pat = append(pat, "interrupted")
	}
	if ctxRefusedItems > 0 {
		pat = append(pat, "ctx-ended-in-space-wait")
	}
	if abandonedItems > 0 {
		pat = append(pat, "ctx-ended-in-result-wait")
	}
	if ec.Scenario == ScBlocked {
		plans := map[string]bool{}
		for _, pl := range ec.CtxPlan {
			plans[pl] = true
		}
		for pl := range plans {
			if pl != ctxLive {
				pat = append(pat, pl)
			}
		}
		c.Observe("exporter_histories_blocked_scenario", 1)
		if ctxRefusedItems > 0 {
			c.Observe("exporter_histories_ctx_ended_in_wait_for_space", 1)
		}
		if abandonedItems > 0 {
			c.Observe("exporter_histories_ctx_ended_in_wait_for_result", 1)
		}
	}
	partial := false
	for _, a := range atts {
		if a.Outcome == expkit.Partial {
			partial = true
		}
	}
	if partial {
		pat = append(pat, "partial")
	}
	sort.Strings(pat)
	c.Nontrivial("exporter", cfg.Signal, cfg.QueueKind(), cfg.Batch, cfg.Retry, ec.Scenario, strings.Join(pat, "+"))
	c.Distinct("exporter_config_classes", cfg.Class())
	c.Observe("exporter_histories", 1)
	c.Observe("exporter_export_attempts", int64(len(atts)))
	c.Observe("exporter_items_given", given)
	if refusedItems > 0 {
		c.Observe("exporter_histories_with_enqueue_refusal", 1)
	}
	if stored > 0 {
		c.Observe("exporter_histories_with_items_left_stored", 1)
	}
	if interrupted > 0 {
		c.Observe("exporter_histories_with_shutdown_interrupted_request", 1)
	}
	if ec.Directed != "" || h32(tag)%211 == 0 {
		c.Sample(map[string]any{"case": ec, "ledger": map[string]int64{"given": given, "refused": refusedItems, "stored": stored}, "reader": map[string]int64{"sent": sent, "send_failed": failed, "enqueue_failed": enq}, "gauge_samples": samples, "outcome_pattern": pat})
	}
	return reproduced
}

// =====================================================================================================

func run(c *driver.Ctx) {
	procs := []int{1, 2, 4, 8}[c.Shard%4]
	runtime.GOMAXPROCS(procs)
	c.Distinct("gomaxprocs", procs)

	// directed reproducers of the known findings (run in every run, in shard 0 of every variant)
	if c.Shard == 0 {
		if c.Want(0) {
			runScrape(c, ScrapeCase{Kind: "logs", Scrapers: 1, Ticks: 1, Items: []int{3}, Outcome: []string{"ok"}, SinkErr: []bool{false}, Directed: "c19a"})
			c.Observe("directed_cases", 1)
		}
		if c.Want(1) {
			for _, sig := range expkit.Signals {
				ec := ExpCase{Script: "transient", K: 1000, Scenario: ScRetryWait, Producers: 1, Reqs: 3, Sizes: []int{2}, Directed: "c19b"}
				ec.Cfg = expkit.ExpConfig{Sig: sig, Signal: sig.String(), Persistent: true, Batch: expkit.BatchNone, Sizer: "requests", QueueSize: 1000, Consumers: 1,
					Retry: true, RetryInitMS: 3_600_000, RetryMaxMS: 3_600_000, NoTimeout: true}
				if !runExp(c, ec) {
					c.Observe("directed_c19b_not_reproduced", 1)
				}
				c.Observe("directed_cases", 1)
			}
		}
		if c.Want(3) {
			// C19-d: legacy batcher behind a persistent queue splits one request of 5 items into 3 + 2; the first
			// part is exported, the second is interrupted in its retry wait: the whole request stays stored
			ec := ExpCase{Script: "ok-then-transient", Scenario: ScRetryWait, Producers: 1, Reqs: 1, Sizes: []int{5}, Directed: "c19d"}
			ec.Cfg = expkit.ExpConfig{Sig: expkit.Logs, Signal: "logs", Persistent: true, Batch: expkit.BatchLegacy, Sizer: "requests", QueueSize: 1000, Consumers: 1, NoTimeout: true,
				MinSize: 3, MaxSize: 3, FlushMS: 1, Retry: true, RetryInitMS: 3_600_000, RetryMaxMS: 3_600_000}
			runExp(c, ec)
			c.Observe("directed_cases", 1)
		}
		if c.Want(4) {
			// C19-e: wait_for_result, exports held; the first producer's context is cancelled while it waits for the
			// result of its accepted request; then the exports are released
			ec := ExpCase{Script: "ok", Scenario: ScBlocked, Producers: 2, Reqs: 1, Sizes: []int{3}, CtxPlan: []string{ctxCancel, ctxLive}, Directed: "c19e"}
			ec.Cfg = expkit.ExpConfig{Sig: expkit.Logs, Signal: "logs", Batch: expkit.BatchNone, Sizer: "requests", QueueSize: 4, Consumers: 1, NoTimeout: true, WaitForResult: true, BlockOnOverflow: true}
			runExp(c, ec)
			c.Observe("directed_cases", 1)
		}
		if c.Want(2) {
			// C19-c: wait_for_result, one request, permanent failure
			for _, batch := range []string{expkit.BatchNone, expkit.BatchLegacyNoQueue} {
				ec := ExpCase{Script: "permanent", Scenario: ScDrain, Producers: 1, Reqs: 3, Sizes: []int{3}, Directed: "c19c"}
				ec.Cfg = expkit.ExpConfig{Sig: expkit.Logs, Signal: "logs", Batch: batch, Sizer: "requests", QueueSize: 1000, Consumers: 1, NoTimeout: true, WaitForResult: batch == expkit.BatchNone, FlushMS: 1}
				runExp(c, ec)
				c.Observe("directed_cases", 1)
			}
		}
	}
	const (
		offRecv = 1_000_000
		offScr  = 2_000_000
		offProc = 3_000_000
		offExp  = 4_000_000
		offObs  = 5_000_000
	)
	for i := int64(0); i < int64(c.N(160, 4000)); i++ {
		if c.Want(offObs + i) {
			// the case index (offset by the shard) walks signal x number of static attributes systematically
			runObs(c, genObs(c.CaseRand(offObs+i), i+int64(c.Shard)*7))
		}
	}
	for i := int64(0); i < int64(c.N(120, 6000)); i++ {
		if c.Want(offRecv + i) {
			runRecv(c, genRecv(c.CaseRand(offRecv+i)))
		}
	}
	for i := int64(0); i < int64(c.N(60, 3000)); i++ {
		if c.Want(offScr + i) {
			runScrape(c, genScrape(c.CaseRand(offScr+i)))
		}
	}
	for i := int64(0); i < int64(c.N(120, 6000)); i++ {
		if c.Want(offProc + i) {
			runProc(c, genProc(c.CaseRand(offProc+i)))
		}
	}
	for i := int64(0); i < int64(c.N(200, 8000)); i++ {
		if c.Want(offExp + i) {
			runExp(c, genExp(c.CaseRand(offExp+i)))
		}
	}
}

func main() {
	driver.Main(driver.Spec{
		ID:    "C19",
		Level: "exploration",
		Rule: "a case is one generated history through one helper with a fresh meter provider and manual reader: receiver = Start/End operations over the three signals; scraper = one controller (metrics|logs) x scrapers x ticks x scrape outcomes x consumer outcomes; " +
			"processor = calls with keep/drop/add/fail/skip process functions and consumer outcomes; exporter = (configuration class, backend script, scenario) over the C03 cross product. " +
			"distinct = (component kind, signal, configuration/scenario, outcome pattern of the history); every case compares a ledger with the reader, so every executed case is non-trivial",
		Assumptions: []string{
			"the reader of componenttest.NewTelemetry shows what a user's metrics endpoint would show",
			"exporter 'given' = items of every ConsumeX call; all calls have returned before Shutdown is requested (enqueues racing with shutdown are C03's subject)",
			"'still stored' is measured by draining a fresh incarnation started on the storage image left by Shutdown (and cross-checked against the decoded image)",
			"queue_size model: memory queue = sum of sizes of accepted requests while every export is held (exact); persistent queue = between the number still waiting and the number unfinished (its reported size legitimately drops when the last waiting request is handed out); 0 when everything finished and the consumers are parked",
			"scraper 'scraped/errored' counters are not part of the statement and are not judged",
			"configurations are those the collector's own Validate accepts; bytes-sized batching only with max_size far above one item (C04-b); retry intervals >= 1 ms (C05-a)",
		},
		TrustedBase:   []string{"componenttest.NewTelemetry manual reader", "harness in-memory storage.Extension", "harness sinks / process functions / export backend (the ledger)"},
		Shards:        func(string) int { return 16 },
		Variants:      func(string) []string { return []string{"race", "plain"} },
		MinNontrivial: func(tier string) int { return 300 },
		ShardTimeout: func(tier string) time.Duration {
			if tier == "thorough" {
				return 40 * time.Minute
			}
			return 8 * time.Minute
		},
		Run:        run,
		MaxSamples: 2,
	})
}
