// C19, family "obsconsumer": service/internal/obsconsumer wrappers (reached through the tag-guarded
// re-exports in service/verif_hooks.go). A wrapper counts the items of every Consume call on one
// Int64Counter under {outcome=success|failure} plus its static data point attributes.
//
// Oracle (conservation, from the C19 statement): per wrapper the data point whose attribute set is exactly
// {outcome=success}+statics equals the items of the calls that returned nil, the one with
// {outcome=failure}+statics the items of the failed calls; the sum over all data points equals the items
// offered (measured before the call: the sinks mutate or empty the payload); no data point has any other
// attribute set; the error returned is the sink's error unchanged; Capabilities() is the sink's.
package main

import (
	"context"
	"errors"
	"fmt"
	"math/rand"
	"reflect"
	"sort"
	"strings"
	"sync"

	"go.opentelemetry.io/otel/attribute"

	"go.opentelemetry.io/collector/consumer"
	"go.opentelemetry.io/collector/consumer/consumererror"
	"go.opentelemetry.io/collector/consumer/xconsumer"
	"go.opentelemetry.io/collector/pdata/plog"
	"go.opentelemetry.io/collector/pdata/pmetric"
	"go.opentelemetry.io/collector/pdata/pprofile"
	"go.opentelemetry.io/collector/pdata/ptrace"
	"go.opentelemetry.io/collector/service"
	"go.opentelemetry.io/collector/verifharness/lib/driver"
	"go.opentelemetry.io/collector/verifharness/lib/expkit"
)

var obsSignals = []string{"logs", "traces", "metrics", "profiles"}

// ObsWrapper describes one wrapper of a case.
type ObsWrapper struct {
	List    int  `json:"list"`    // index of the attribute list it is built from
	Mutates bool `json:"mutates"` // capability of its sink
	Prefix  int  `json:"prefix"`  // >0: built from the first Prefix options of the list (same backing array)
}

// ObsCall is one Consume call.
type ObsCall struct {
	W       int    `json:"w"`
	N       int    `json:"n"`       // items offered
	Shape   string `json:"shape"`   // items | empty (no containers) | itemless (containers without items)
	Outcome string `json:"outcome"` // nil | plain | permanent | wrapped | signal
	Sink    string `json:"sink"`    // keep | add | drop | empty: what the sink does to the payload before it returns
}

// ObsCase is the replayable input of one obsconsumer case.
type ObsCase struct {
	Signal     string       `json:"signal"`
	Lists      []int        `json:"lists"` // number of static attributes of every attribute list
	Wrappers   []ObsWrapper `json:"wrappers"`
	Calls      []ObsCall    `json:"calls"`
	Goroutines int          `json:"goroutines"`
}

func genObs(rng *rand.Rand, i int64) ObsCase {
	oc := ObsCase{Signal: obsSignals[int(i)%4], Goroutines: 1}
	base := int(i/4) % 10 // every size 0..9 for every signal
	oc.Lists = []int{base}
	oc.Wrappers = []ObsWrapper{{List: 0, Mutates: rng.Intn(2) == 0}}
	switch rng.Intn(5) {
	case 1: // several wrappers built from the SAME option list
		for n := 1 + rng.Intn(2); n > 0; n-- {
			oc.Wrappers = append(oc.Wrappers, ObsWrapper{List: 0, Mutates: rng.Intn(2) == 0})
		}
	case 2: // wrappers sharing the counter, different attribute lists
		for n := 1 + rng.Intn(2); n > 0; n-- {
			oc.Lists = append(oc.Lists, []int{0, 3, 5, 6, 7, rng.Intn(10)}[rng.Intn(6)])
			oc.Wrappers = append(oc.Wrappers, ObsWrapper{List: len(oc.Lists) - 1, Mutates: rng.Intn(2) == 0})
		}
	case 3: // a wrapper built from a prefix of the option list another wrapper uses in full
		if base >= 2 {
			oc.Wrappers = append(oc.Wrappers, ObsWrapper{List: 0, Prefix: 1 + rng.Intn(base-1)})
		}
	}
	if rng.Intn(3) == 0 {
		oc.Goroutines = 2 + rng.Intn(3)
	}
	errMode := rng.Intn(4) // 0 never, 1 always, 2/3 mixed
	for n := 1 + rng.Intn(10); n > 0; n-- {
		cl := ObsCall{W: rng.Intn(len(oc.Wrappers)), N: 1 + rng.Intn(12), Shape: "items", Outcome: "nil",
			Sink: []string{"keep", "keep", "add", "drop", "empty"}[rng.Intn(5)]}
		switch rng.Intn(8) {
		case 0:
			cl.N, cl.Shape = 0, "empty"
		case 1:
			cl.N, cl.Shape = 0, "itemless"
		}
		if errMode == 1 || (errMode >= 2 && rng.Intn(2) == 0) {
			cl.Outcome = []string{"plain", "permanent", "wrapped", "signal"}[rng.Intn(4)]
		}
		oc.Calls = append(oc.Calls, cl)
	}
	return oc
}

// obsPayload is a payload of one of the four signals.
type obsPayload struct {
	sig string
	p   expkit.Payload    // logs, traces, metrics
	pd  pprofile.Profiles // profiles
}

func mkObsPayload(sig string, cl ObsCall, tag string) obsPayload {
	n := cl.N
	if cl.Shape == "itemless" {
		n = 3
	}
	op := obsPayload{sig: sig}
	switch sig {
	case "profiles":
		op.pd = pprofile.NewProfiles()
		if cl.Shape == "empty" {
			return op
		}
		for part := 0; part < 2; part++ {
			prof := op.pd.ResourceProfiles().AppendEmpty().ScopeProfiles().AppendEmpty().Profiles().AppendEmpty()
			for k := part; k < n; k += 2 {
				prof.Sample().AppendEmpty()
			}
		}
		if cl.Shape == "itemless" {
			op.mutate("drop-all")
		}
	default:
		s := map[string]expkit.Signal{"logs": expkit.Logs, "traces": expkit.Traces, "metrics": expkit.Metrics}[sig]
		op.p = expkit.Make(s, mkIDs(tag, n))
		if cl.Shape == "itemless" {
			op.p.RemoveItems(func(int) bool { return true }) // containers (and metrics) stay, items go
		}
	}
	return op
}

func (op obsPayload) items() int {
	if op.sig == "profiles" {
		return op.pd.SampleCount()
	}
	return op.p.Items()
}

func (op obsPayload) mutate(how string) {
	if op.sig == "profiles" {
		rps := op.pd.ResourceProfiles()
		switch how {
		case "add":
			rps.AppendEmpty().ScopeProfiles().AppendEmpty().Profiles().AppendEmpty().Sample().AppendEmpty()
		case "drop", "drop-all":
			k := 0
			for a := 0; a < rps.Len(); a++ {
				for b := 0; b < rps.At(a).ScopeProfiles().Len(); b++ {
					ps := rps.At(a).ScopeProfiles().At(b).Profiles()
					for c := 0; c < ps.Len(); c++ {
						ps.At(c).Sample().RemoveIf(func(pprofile.Sample) bool { k++; return how == "drop-all" || k%2 == 1 })
					}
				}
			}
		case "empty":
			rps.RemoveIf(func(pprofile.ResourceProfiles) bool { return true })
		}
		return
	}
	switch how {
	case "add":
		op.p.AppendItems([]string{"x.0", "x.1"})
	case "drop":
		op.p.RemoveItems(func(k int) bool { return k%2 == 0 })
	case "empty":
		op.p.Clear()
	}
}

type obsErr struct{ call int }

func (e *obsErr) Error() string { return fmt.Sprintf("sink refused call %d (scripted)", e.call) }

type obsCallKey struct{}

func staticKVs(list, n int) []attribute.KeyValue {
	kvs := make([]attribute.KeyValue, 0, n)
	for k := 0; k < n; k++ {
		kvs = append(kvs, attribute.String(fmt.Sprintf("k%d", k), fmt.Sprintf("l%dv%d", list, k)))
	}
	return kvs
}

func obsAttrKey(outcome string, statics []attribute.KeyValue) string {
	parts := []string{"outcome=" + outcome}
	for _, kv := range statics {
		parts = append(parts, string(kv.Key)+"="+kv.Value.Emit())
	}
	sort.Strings(parts)
	return strings.Join(parts, ",")
}

func runObs(c *driver.Ctx, oc ObsCase) {
	tel := expkit.NewTel()
	defer tel.Close()
	const counterName = "c19.obsconsumer.items"
	counter, err := tel.NewTelemetrySettings().MeterProvider.Meter("c19/obsconsumer").Int64Counter(counterName)
	if err != nil {
		c.Note("Int64Counter: %v", err)
		return
	}
	// attribute lists: the options of a list are added ONE at a time, so the slice grows by append and has
	// spare capacity for some sizes; wrappers of the same list get the very same slice
	optLists := make([][]service.VerifObsconsumerOption, len(oc.Lists))
	for l, n := range oc.Lists {
		var opts []service.VerifObsconsumerOption
		for _, kv := range staticKVs(l, n) {
			opts = append(opts, service.VerifObsconsumerWithStaticDataPointAttribute(kv))
		}
		optLists[l] = opts
	}

	// scripted sinks; the call's script travels in the context (the wrapper must pass it through)
	sinkErrs := make([]error, len(oc.Calls))
	var mu sync.Mutex
	sinkSaw := make([]int, len(oc.Calls))
	for i := range sinkSaw {
		sinkSaw[i] = -1
	}
	sink := func(ctx context.Context, op obsPayload) error {
		i, ok := ctx.Value(obsCallKey{}).(int)
		if !ok {
			return errors.New("context value lost")
		}
		cl := oc.Calls[i]
		mu.Lock()
		sinkSaw[i] = op.items()
		mu.Unlock()
		var e error
		base := &obsErr{i}
		switch cl.Outcome {
		case "plain":
			e = base
		case "permanent":
			e = consumererror.NewPermanent(base)
		case "wrapped":
			e = fmt.Errorf("downstream component failed: %w", base)
		case "signal":
			switch oc.Signal {
			case "logs":
				e = consumererror.NewLogs(base, plog.NewLogs())
			case "traces":
				e = consumererror.NewTraces(base, ptrace.NewTraces())
			case "metrics":
				e = consumererror.NewMetrics(base, pmetric.NewMetrics())
			default:
				e = fmt.Errorf("profiles: %w", base)
			}
		}
		mu.Lock()
		sinkErrs[i] = e
		mu.Unlock()
		op.mutate(cl.Sink)
		return e
	}

	type wrapper struct {
		consume func(ctx context.Context, op obsPayload) error
		statics []attribute.KeyValue
		capsOK  bool
	}
	ws := make([]wrapper, len(oc.Wrappers))
	for w, wd := range oc.Wrappers {
		opts := optLists[wd.List]
		statics := staticKVs(wd.List, oc.Lists[wd.List])
		if wd.Prefix > 0 && wd.Prefix < len(opts) {
			opts, statics = opts[:wd.Prefix], statics[:wd.Prefix]
		}
		co := consumer.WithCapabilities(consumer.Capabilities{MutatesData: wd.Mutates})
		wr := wrapper{statics: statics}
		switch oc.Signal {
		case "logs":
			s, _ := consumer.NewLogs(func(ctx context.Context, ld plog.Logs) error {
				return sink(ctx, obsPayload{sig: "logs", p: expkit.FromLogs(ld)})
			}, co)
			x := service.VerifObsconsumerNewLogs(s, counter, opts...)
			wr.capsOK = x.Capabilities() == s.Capabilities()
			wr.consume = func(ctx context.Context, op obsPayload) error { return x.ConsumeLogs(ctx, op.p.L) }
		case "traces":
			s, _ := consumer.NewTraces(func(ctx context.Context, td ptrace.Traces) error {
				return sink(ctx, obsPayload{sig: "traces", p: expkit.FromTraces(td)})
			}, co)
			x := service.VerifObsconsumerNewTraces(s, counter, opts...)
			wr.capsOK = x.Capabilities() == s.Capabilities()
			wr.consume = func(ctx context.Context, op obsPayload) error { return x.ConsumeTraces(ctx, op.p.T) }
		case "metrics":
			s, _ := consumer.NewMetrics(func(ctx context.Context, md pmetric.Metrics) error {
				return sink(ctx, obsPayload{sig: "metrics", p: expkit.FromMetrics(md)})
			}, co)
			x := service.VerifObsconsumerNewMetrics(s, counter, opts...)
			wr.capsOK = x.Capabilities() == s.Capabilities()
			wr.consume = func(ctx context.Context, op obsPayload) error { return x.ConsumeMetrics(ctx, op.p.M) }
		default:
			s, _ := xconsumer.NewProfiles(func(ctx context.Context, pd pprofile.Profiles) error {
				return sink(ctx, obsPayload{sig: "profiles", pd: pd})
			}, co)
			x := service.VerifObsconsumerNewProfiles(s, counter, opts...)
			wr.capsOK = x.Capabilities() == s.Capabilities()
			wr.consume = func(ctx context.Context, op obsPayload) error { return x.ConsumeProfiles(ctx, op.pd) }
		}
		ws[w] = wr
	}

	// the calls
	offered := make([]int, len(oc.Calls))
	returned := make([]error, len(oc.Calls))
	var wg sync.WaitGroup
	for g := 0; g < oc.Goroutines; g++ {
		wg.Add(1)
		go func(g int) {
			defer wg.Done()
			for i := g; i < len(oc.Calls); i += oc.Goroutines {
				cl := oc.Calls[i]
				op := mkObsPayload(oc.Signal, cl, fmt.Sprintf("c%d", i))
				offered[i] = op.items() // measured before the call
				returned[i] = ws[cl.W].consume(context.WithValue(context.Background(), obsCallKey{}, i), op)
			}
		}(g)
	}
	wg.Wait()
	c.Eval()

	// ledger: expected value per exact attribute set
	type exp struct {
		want    int64
		calls   int
		nStatic int
		outcome string
	}
	want := map[string]*exp{}
	var total int64
	outcomes := map[string]bool{}
	for i, cl := range oc.Calls {
		oname := "success"
		if cl.Outcome != "nil" {
			oname = "failure"
		}
		outcomes[cl.Outcome] = true
		k := obsAttrKey(oname, ws[cl.W].statics)
		e := want[k]
		if e == nil {
			e = &exp{nStatic: len(ws[cl.W].statics), outcome: oname}
			want[k] = e
		}
		e.want += int64(offered[i])
		e.calls++
		total += int64(offered[i])

		// the error is the sink's, unchanged
		se := sinkErrs[i]
		same := (se == nil) == (returned[i] == nil)
		if same && se != nil {
			same = errors.Is(returned[i], se)
			if same && reflect.TypeOf(se).Comparable() && reflect.TypeOf(returned[i]).Comparable() {
				same = returned[i] == se
			}
		}
		if !same || (cl.Outcome == "nil") != (returned[i] == nil) {
			c.Violation("obsconsumer-error", fmt.Sprintf("%s wrapper returned %v, its consumer returned %v (call %d, scripted outcome %s)", oc.Signal, returned[i], se, i, cl.Outcome),
				oc, "signal", oc.Signal, "n_static", fmt.Sprint(len(ws[cl.W].statics)), "outcome", cl.Outcome)
		}
		if sinkSaw[i] != offered[i] {
			c.Violation("obsconsumer-error", fmt.Sprintf("%s wrapper handed %d item(s) to its consumer, %d were offered (call %d)", oc.Signal, sinkSaw[i], offered[i], i),
				oc, "signal", oc.Signal, "n_static", fmt.Sprint(len(ws[cl.W].statics)), "outcome", "payload-changed")
		}
	}
	for w, wr := range ws {
		if !wr.capsOK {
			c.Violation("obsconsumer-capabilities", fmt.Sprintf("%s wrapper %d reports other capabilities than its consumer (MutatesData=%v)", oc.Signal, w, oc.Wrappers[w].Mutates),
				oc, "signal", oc.Signal, "n_static", fmt.Sprint(len(wr.statics)), "outcome", "-")
		}
	}

	snap, err := tel.Collect()
	if err != nil {
		c.Inconclusive("reader-collect-failed")
		return
	}
	got := map[string]int64{}
	var sum int64
	for _, pt := range snap[counterName] {
		got[pt.Attrs] += pt.Value
		sum += pt.Value
	}
	show := func() map[string]any { return map[string]any{"case": oc, "data_points": got, "ledger_total": total} }
	for k, e := range want {
		c.Observe("obsconsumer_points_compared", 1)
		if got[k] != e.want {
			c.Violation("obsconsumer-balance", fmt.Sprintf("%s: data point {%s} = %d, but the %d call(s) with this outcome through the wrapper(s) with these static attributes offered %d item(s); all data points: %v",
				oc.Signal, k, got[k], e.calls, e.want, got), show(), "signal", oc.Signal, "n_static", fmt.Sprint(e.nStatic), "outcome", e.outcome)
		}
	}
	for k, v := range got {
		if _, ok := want[k]; !ok {
			n, both := 0, strings.Contains(k, "outcome=success") && strings.Contains(k, "outcome=failure")
			for _, part := range strings.Split(k, ",") {
				if !strings.HasPrefix(part, "outcome=") {
					n++
				}
			}
			oname := "failure"
			switch {
			case both:
				oname = "both"
			case strings.Contains(k, "outcome=success"):
				oname = "success"
			case !strings.Contains(k, "outcome="):
				oname = "none"
			}
			c.Violation("obsconsumer-attrs", fmt.Sprintf("%s: data point with attribute set {%s} = %d, but no wrapper of the case has this set with a call of that outcome; expected sets: %v",
				oc.Signal, k, v, keysOf(want)), show(), "signal", oc.Signal, "n_static", fmt.Sprint(n), "outcome", oname)
		}
	}
	if sum != total {
		c.Violation("obsconsumer-balance", fmt.Sprintf("%s: the data points add up to %d, the calls offered %d item(s)", oc.Signal, sum, total), show(),
			"signal", oc.Signal, "n_static", fmt.Sprint(oc.Lists[0]), "outcome", "total")
	}

	// evidence
	var ol []string
	for o := range outcomes {
		ol = append(ol, o)
	}
	sort.Strings(ol)
	shape := "one-wrapper"
	switch {
	case len(oc.Lists) > 1:
		shape = "shared-counter-different-lists"
	case len(oc.Wrappers) > 1 && oc.Wrappers[1].Prefix > 0:
		shape = "prefix-of-same-options"
	case len(oc.Wrappers) > 1:
		shape = "same-option-list"
	}
	c.Nontrivial("obsconsumer", oc.Signal, oc.Lists[0], strings.Join(ol, "+"), shape, oc.Goroutines > 1)
	c.Distinct("obsconsumer_classes", oc.Signal, oc.Lists[0], strings.Join(ol, "+"))
	c.Observe("obsconsumer_cases", 1)
	c.Observe("obsconsumer_calls", int64(len(oc.Calls)))
	c.Observe("obsconsumer_items", total)
	if oc.Goroutines > 1 {
		c.Observe("obsconsumer_concurrent_cases", 1)
	}
}

func keysOf[V any](m map[string]V) []string {
	out := make([]string, 0, len(m))
	for k := range m {
		out = append(out, k)
	}
	sort.Strings(out)
	return out
}
