// C11 — component status events follow the documented state machine.
//
// Monitor: a status-watcher extension records every ComponentStatusChanged call of a real service
// (service.New / Start / Shutdown). Scripted receivers, processors, exporters, connectors, extensions and
// sharedcomponent-based multi-signal receivers report statuses through componentstatus.ReportStatus from
// inside Start, after start, inside Shutdown and after shutdown, from one or several goroutines. Per
// instance the delivered sequence must be an output of the reference machine (lib/statuskit: table
// written from docs/component-status.md) for the documented automation ⊕ the script — equality for
// sequential scripts, existence of an interleaving for concurrent ones — plus path legality and
// provenance (every delivered *Event was reported).
package main

import (
	"fmt"
	"math/rand"
	"runtime"
	"time"

	"go.opentelemetry.io/collector/verifharness/lib/driver"
	sk "go.opentelemetry.io/collector/verifharness/lib/statuskit"
)

const perLifetime = 256 // scripted instances hosted by one service lifetime of the exhaustive sweep

var pow8 = [...]int64{1, 8, 64, 512, 4096, 32768, 262144}

func binom3(l int) int64 { return int64((l + 3) * (l + 2) * (l + 1) / 6) } // compositions of l into 4 parts

// exhaustive enumerates (length, split into the four places, sequence): index -> script.
type exhaustive struct {
	maxLen int
	cum    []int64 // cum[l] = number of scripts of length < l
	splits [][][4]int
}

func newExhaustive(maxLen int) *exhaustive {
	e := &exhaustive{maxLen: maxLen}
	var total int64
	for l := 0; l <= maxLen; l++ {
		e.cum = append(e.cum, total)
		var sp [][4]int
		for a := 0; a <= l; a++ {
			for b := 0; a+b <= l; b++ {
				for c := 0; a+b+c <= l; c++ {
					sp = append(sp, [4]int{a, b, c, l - a - b - c})
				}
			}
		}
		e.splits = append(e.splits, sp)
		total += int64(len(sp)) * pow8[l]
	}
	e.cum = append(e.cum, total)
	return e
}

func (e *exhaustive) total() int64 { return e.cum[len(e.cum)-1] }

func (e *exhaustive) script(n int64) sk.Script {
	l := 0
	for l < e.maxLen && n >= e.cum[l+1] {
		l++
	}
	n -= e.cum[l]
	sp := e.splits[l][n/pow8[l]]
	code := n % pow8[l]
	seq := make([]sk.S, l)
	for i := l - 1; i >= 0; i-- {
		seq[i] = sk.Alphabet[code%8]
		code /= 8
	}
	return split(seq, sp)
}

func split(seq []sk.S, sp [4]int) sk.Script {
	var s sk.Script
	cut := func(n int) [][]sk.S {
		if n == 0 {
			return nil
		}
		p := seq[:n]
		seq = seq[n:]
		return [][]sk.S{p}
	}
	s.Start, s.Run, s.Stop, s.After = cut(sp[0]), cut(sp[1]), cut(sp[2]), cut(sp[3])
	return s
}

// extRepeat: about 40 % of the lifetimes list some extension ids repeatedly in service::extensions (modes 1..5 of
// sk.World.ExtRepeat: the watcher twice adjacent / non-adjacent, a non-watcher twice, the watcher three times, all).
func extRepeat(rng *rand.Rand) int {
	if x := rng.Intn(12); x < 5 {
		return x + 1
	}
	return 0
}

var kindsWeighted = []string{sk.KReceiver, sk.KReceiver, sk.KReceiver, sk.KProcessor, sk.KProcessor, sk.KExporter, sk.KExporter, sk.KExtension, sk.KExtension, sk.KConnector, sk.KShared, sk.KShared}

func pickKind(rng *rand.Rand, sp *sk.Spec) {
	sp.Kind = kindsWeighted[rng.Intn(len(kindsWeighted))]
	if sp.Kind == sk.KShared {
		sp.Signals = 2 + rng.Intn(2)
	}
}

// weighted statuses for sampled scripts: runtime statuses dominate so that long scripts stay alive
var weighted = []sk.S{sk.OK, sk.OK, sk.OK, sk.OK, sk.OK, sk.Recov, sk.Recov, sk.Recov, sk.Recov, sk.Recov, sk.Perm, sk.Fatal, sk.Starting, sk.Stopping, sk.Stopping, sk.Stopped, sk.None}

func randSeq(rng *rand.Rand, n int, uniform bool) []sk.S {
	s := make([]sk.S, n)
	for i := range s {
		if uniform {
			s[i] = sk.Alphabet[rng.Intn(8)]
		} else {
			s[i] = weighted[rng.Intn(len(weighted))]
		}
	}
	return s
}

// randSplit cuts a sequence at three random points.
func randSplit(rng *rand.Rand, seq []sk.S) sk.Script {
	l := len(seq)
	a, b, c := rng.Intn(l+1), rng.Intn(l+1), rng.Intn(l+1)
	if a > b {
		a, b = b, a
	}
	if b > c {
		b, c = c, b
	}
	if a > b {
		a, b = b, a
	}
	return split(seq, [4]int{a, b - a, c - b, l - c})
}

func threadsOf(rng *rand.Rand, nMin, nMax, lMin, lMax int) [][]sk.S {
	n := nMin + rng.Intn(nMax-nMin+1)
	var out [][]sk.S
	for i := 0; i < n; i++ {
		out = append(out, randSeq(rng, lMin+rng.Intn(lMax-lMin+1), rng.Intn(4) == 0))
	}
	return out
}

// concScript: several goroutines report for one instance in every place.
func concScript(rng *rand.Rand, shared bool) sk.Script {
	var s sk.Script
	s.Start = append([][]sk.S{randSeq(rng, rng.Intn(3), false)}, threadsOf(rng, 0, 2, 1, 2)...)
	if shared {
		// the replay buffer of sharedcomponent holds 5 events (Starting + 4): stay inside it here, the
		// beyond-the-buffer case is the sequential sweep's business
		for total(s.Start) > 4 {
			s.Start = s.Start[:len(s.Start)-1]
		}
		if len(s.Start) == 0 {
			s.Start = [][]sk.S{nil}
		}
	}
	s.Run = threadsOf(rng, 2, 4, 1, 4)
	s.Stop = append([][]sk.S{randSeq(rng, rng.Intn(2), false)}, threadsOf(rng, 0, 2, 1, 2)...)
	s.After = threadsOf(rng, 0, 2, 1, 2)
	s.StopErr = rng.Intn(8) == 0
	s.Yields = rng.Intn(4)
	return s
}

func total(t [][]sk.S) int {
	n := 0
	for _, x := range t {
		n += len(x)
	}
	return n
}

type witness struct {
	Lifetime  string   `json:"lifetime"`
	Instance  string   `json:"instance"`
	Kind      string   `json:"kind"`
	Script    string   `json:"script"`
	Reference string   `json:"reference_inputs"`
	Delivered []string `json:"delivered_per_watcher"`
}

type lifetimeStats struct {
	instances, events int64
}

// runWorld executes one lifetime and evaluates every instance.
func runWorld(c *driver.Ctx, name string, w *sk.World, sample bool) *sk.Result {
	res, err := w.Execute()
	if err != nil {
		c.Inconclusive("service.New failed: " + err.Error())
		c.Note("%s: %v", name, err)
		return nil
	}
	c.Observe("service_lifetimes", 1)
	if w.ExtRepeat != 0 {
		c.Observe(fmt.Sprintf("lifetimes_with_repeated_extension_ids_mode%d", w.ExtRepeat), 1)
	}
	c.Observe("status_events_delivered", res.Events)
	c.Observe("fatal_events_delivered", res.FatalSeen)
	c.Observe("async_errors_forwarded", res.AsyncErrs)
	if res.StartErr != nil {
		c.Observe("lifetimes_with_failed_start", 1)
	}
	for _, ir := range res.Instances {
		c.Eval()
		c.Observe("instances_checked", 1)
		c.Observe("instances_"+ir.Kind, 1)
		if ir.Late {
			c.Observe("shared_instances_attached_late", 1)
		}
		if ir.BeyondBuf {
			c.Observe("shared_instances_attached_late_beyond_replay_buffer", 1)
		}
		if ir.NoReport && ir.Spec.Script.Reports() > 0 {
			c.Observe("instances_whose_host_is_no_status_reporter", 1)
		}
		if ir.SpecIdx >= 0 {
			id := ir.Spec.Script.String()
			if ir.Rejected > 0 {
				c.Nontrivial(id, ir.Spec.Script.StartErr, res.StartErr != nil)
				c.Observe("scripted_reports_rejected_by_reference", int64(ir.Rejected))
			}
			c.Observe("scripted_reports", int64(ir.Spec.Script.Reports()))
			if len(ir.Delivered) > 0 {
				c.Distinct("delivered_sequences", sk.Names(ir.Delivered[0]))
				if ir.Mode == "conc" {
					c.Distinct("interleavings", id, sk.Names(ir.Delivered[0]))
					c.Observe("concurrent_instances", 1)
				}
			}
		}
		for _, p := range ir.Problems {
			var del []string
			for _, d := range ir.Delivered {
				del = append(del, sk.Names(d))
			}
			c.Violation(p.Sub, p.What, witness{name, ir.Key, ir.Kind, ir.Spec.Script.String(), sk.DescribePhases(ir.Phases), del}, p.Sig...)
		}
	}
	if sample && len(res.Instances) > 0 {
		// a few real (script, delivered) pairs
		var ex []map[string]string
		for _, ir := range res.Instances {
			if ir.Rejected > 0 && len(ir.Delivered) > 0 && len(ex) < 4 {
				ex = append(ex, map[string]string{"instance": ir.Key, "script": ir.Spec.Script.String(), "delivered": sk.Names(ir.Delivered[0])})
			}
		}
		c.Sample(map[string]any{"lifetime": name, "instances": len(res.Instances), "events": res.Events, "examples": ex})
	}
	return res
}

func run(c *driver.Ctx) {
	procs := []int{1, 2, 4, 8}[c.Shard%4]
	runtime.GOMAXPROCS(procs)
	maxLen := c.N(4, 5)
	ex := newExhaustive(maxLen)
	nA := (ex.total() + perLifetime - 1) / perLifetime
	nB := int64(c.N(320, 4800))   // lifetimes of sampled longer sequential scripts
	nC := int64(c.N(320, 6000))   // lifetimes with a component failing in Start
	nD := int64(c.N(2400, 48000)) // lifetimes of concurrent scripts
	nE := int64(c.N(160, 3200))   // lifetimes of shared receivers reporting 6..12 times inside Start
	var g int64

	// directed reproducer of the registered finding C11-a (see known_findings.d/C11.json): a shared
	// receiver reports more than its replay buffer holds before its second instance is attached.
	if c.Mine(g) {
		directedRingOverflow(c)
	}
	g++

	// Part A — every script over the 8-status alphabet up to maxLen reports x every way to place them
	// (inside Start / after start / inside Shutdown / after shutdown), sequential per instance.
	for a := int64(0); a < nA; a, g = a+1, g+1 {
		if !c.Mine(g) {
			continue
		}
		rng := c.CaseRand(g)
		w := &sk.World{NWatchers: 1 + rng.Intn(2), WatcherPos: rng.Intn(2), ExtRepeat: extRepeat(rng)}
		for n := a * perLifetime; n < (a+1)*perLifetime && n < ex.total(); n++ {
			sp := sk.Spec{Script: ex.script(n)}
			pickKind(rng, &sp)
			sp.Script.StopErr = rng.Intn(10) == 0
			w.Specs = append(w.Specs, sp)
		}
		c.Observe("exhaustive_scripts", int64(len(w.Specs)))
		runWorld(c, fmt.Sprintf("A%d", a), w, a == 0)
	}

	// Part B — sampled longer sequential scripts (5..10 reports), many of them inside Start.
	for b := int64(0); b < nB; b, g = b+1, g+1 {
		if !c.Mine(g) {
			continue
		}
		rng := c.CaseRand(g)
		w := &sk.World{NWatchers: 1 + rng.Intn(2), WatcherPos: rng.Intn(2), ExtRepeat: extRepeat(rng)}
		for i := 0; i < 64; i++ {
			seq := randSeq(rng, 5+rng.Intn(c.N(4, 6)), rng.Intn(3) == 0)
			var sp sk.Spec
			switch rng.Intn(4) {
			case 0:
				sp.Script = split(seq, [4]int{len(seq), 0, 0, 0})
			case 1:
				sp.Script = split(seq, [4]int{0, len(seq), 0, 0})
			default:
				sp.Script = randSplit(rng, seq)
			}
			pickKind(rng, &sp)
			sp.Script.StopErr = rng.Intn(10) == 0
			w.Specs = append(w.Specs, sp)
		}
		runWorld(c, fmt.Sprintf("B%d", b), w, b == 0)
	}

	// Part E — late attachment beyond the replay buffer, made frequent: shared 2–3-signal receivers that report
	// 6..12 times inside Start (before the second/third signal instance is started), the last report cycling
	// through all eight statuses; a few reports after start / inside Shutdown / after shutdown follow.
	for e := int64(0); e < nE; e, g = e+1, g+1 {
		if !c.Mine(g) {
			continue
		}
		rng := c.CaseRand(g)
		w := &sk.World{NWatchers: 1 + rng.Intn(2), WatcherPos: rng.Intn(2), ExtRepeat: extRepeat(rng)}
		for i := 0; i < 48; i++ {
			seq := randSeq(rng, 6+rng.Intn(7), rng.Intn(2) == 0)
			seq[len(seq)-1] = sk.Alphabet[(int(e)+i)%8]
			sp := sk.Spec{Kind: sk.KShared, Signals: 2 + rng.Intn(2)}
			sp.Script = randSplit(rng, randSeq(rng, rng.Intn(4), false))
			sp.Script.Start = [][]sk.S{seq}
			sp.Script.StopErr = rng.Intn(10) == 0
			w.Specs = append(w.Specs, sp)
		}
		runWorld(c, fmt.Sprintf("E%d", e), w, false)
	}

	// Part C — one component fails in Start: the service reports PermanentError for it, later components
	// are never started (no event at all for them), everything is shut down afterwards.
	for k := int64(0); k < nC; k, g = k+1, g+1 {
		if !c.Mine(g) {
			continue
		}
		rng := c.CaseRand(g)
		w := &sk.World{NWatchers: 1 + rng.Intn(2), WatcherPos: rng.Intn(2), ExtRepeat: extRepeat(rng)}
		n := 8 + rng.Intn(24)
		fail := rng.Intn(n)
		for i := 0; i < n; i++ {
			var sp sk.Spec
			sp.Script = randSplit(rng, randSeq(rng, rng.Intn(5), rng.Intn(2) == 0))
			pickKind(rng, &sp)
			if i == fail {
				sp.Script.StartErr = true
				if rng.Intn(3) == 0 {
					sp.Script.Start = append([][]sk.S{first(sp.Script.Start)}, threadsOf(rng, 1, 2, 1, 2)...)
					if sp.Kind == sk.KShared {
						sp.Script.Start = sp.Script.Start[:1]
					}
				}
			}
			sp.Script.StopErr = rng.Intn(6) == 0
			w.Specs = append(w.Specs, sp)
		}
		runWorld(c, fmt.Sprintf("C%d", k), w, k == 0)
	}

	// Part D — concurrent scripts: 2–4 goroutines per instance in every place, all instances of the
	// lifetime released together; every third lifetime is dominated by shared multi-signal receivers.
	for d := int64(0); d < nD; d, g = d+1, g+1 {
		if !c.Mine(g) {
			continue
		}
		rng := c.CaseRand(g)
		w := &sk.World{NWatchers: 1 + rng.Intn(2), WatcherPos: rng.Intn(2), ExtRepeat: extRepeat(rng)}
		n := 6 + rng.Intn(20)
		for i := 0; i < n; i++ {
			var sp sk.Spec
			pickKind(rng, &sp)
			if d%3 == 0 && rng.Intn(2) == 0 {
				sp.Kind, sp.Signals = sk.KShared, 2+rng.Intn(2)
			}
			sp.Script = concScript(rng, sp.Kind == sk.KShared)
			w.Specs = append(w.Specs, sp)
		}
		runWorld(c, fmt.Sprintf("D%d", d), w, d == 0)
	}
}

func first(t [][]sk.S) []sk.S {
	if len(t) == 0 {
		return nil
	}
	return t[0]
}

// directedRingOverflow: see known finding C11-a.
func directedRingOverflow(c *driver.Ctx) {
	w := &sk.World{NWatchers: 1}
	// PermanentError first, then five reports that change nothing: the wrapper remembers only the last
	// five reports for instances that attach later
	w.Specs = []sk.Spec{{Kind: sk.KShared, Signals: 3, Script: sk.Script{Start: [][]sk.S{{sk.Perm, sk.OK, sk.OK, sk.OK, sk.OK, sk.OK}}}}}
	runWorld(c, "directed-C11-a", w, false)
	// small lifetimes whose service::extensions repeats ids, one per mode, in every run
	for mode := 1; mode <= 5; mode++ {
		for pos := 0; pos < 2; pos++ {
			w := &sk.World{NWatchers: 1 + mode%2, WatcherPos: pos, ExtRepeat: mode}
			w.Specs = []sk.Spec{{Kind: sk.KReceiver, Script: sk.Script{Run: [][]sk.S{{sk.Recov, sk.OK}}}}, {Kind: sk.KExtension}, {Kind: sk.KExtension}}
			runWorld(c, fmt.Sprintf("directed-repeated-extension-ids-mode%d-pos%d", mode, pos), w, false)
		}
	}
}

func main() {
	driver.Main(driver.Spec{
		ID:    "C11",
		Level: "exploration",
		Rule: "a case is one scripted component instance of a real service lifetime: (reports placed inside Start / after start / inside Shutdown / after shutdown, threads per place, start/shutdown failure flags, component kind). " +
			"Part A enumerates every report sequence over the 8-status alphabet (StatusNone included) up to length 4 (thorough: 5) x every placement; parts B-D are seed-determined samples (longer scripts, a component failing in Start, 2-4 concurrent goroutines per instance, shared multi-signal receivers). " +
			"about 40 % of the lifetimes list extension ids repeatedly in service::extensions (the watcher twice adjacent / non-adjacent, a non-watcher twice, the watcher three times, all of them). Non-trivial: the script contains at least one report the reference machine rejects (illegal, duplicate or post-terminal); distinct = distinct (script, failure flags)",
		Assumptions: []string{
			"reference table = docs/component-status.md drawing+text reconciled with the statement: PermanentError->FatalError and FatalError->FatalError illegal; Starting->Stopping and Stopping->RecoverableError tolerated (accepted if delivered, not demanded); a report along any other drawn edge must produce an event",
			"documented automation taken as reference input: Starting before Start; PermanentError if Start fails else OK if still Starting; Stopping before Shutdown; PermanentError or Stopped after; a shared component reports its lifecycle and every report to each attached instance and replays earlier reports to an instance attached later",
			"concurrent scripts: the delivered sequence must be the reference output for SOME interleaving of the threads (reports are atomic); built with service.New and a harness-owned, continuously drained AsyncErrorChannel",
		},
		TrustedBase: []string{"harness reference acceptor lib/statuskit (table + interleaving search)", "Go race detector"},
		Shards:      func(tier string) int { return 16 },
		Variants:    func(tier string) []string { return []string{"race", "plain"} },
		MinNontrivial: func(tier string) int {
			if tier == "thorough" {
				return 100000
			}
			return 20000
		},
		ShardTimeout: func(tier string) time.Duration {
			if tier == "thorough" {
				return 40 * time.Minute
			}
			return 10 * time.Minute
		},
		Run:        run,
		MaxSamples: 2,
	})
}
