// C06 — fan-out never lets one consumer's mutation reach another consumer.
//
// L1: internal/fanoutconsumer directly, all four signals: every capability vector of 1–5 consumers ×
// every failing subset × mutable / read-only input, with generated payloads; test consumers record the
// bytes at call time, keep the payload, mutating ones apply a unique mutation (synchronously or from a
// goroutine after returning), non-mutating ones optionally re-read the payload from a goroutine.
// L2: the same non-interference statement through the built service (kit components): receivers and
// connectors feeding 1–4 pipelines whose processors / exporters declare or do not declare mutation.
// With -race every illegal sharing between an asynchronous mutator and a reader is a data race whose
// innermost frames are pdata accessors, i.e. a violation attributed to the repository.
package main

import (
	"bytes"
	"context"
	"errors"
	"fmt"
	"math/rand"
	"runtime"
	"sort"
	"strings"
	"sync"
	"sync/atomic"
	"time"

	"go.uber.org/multierr"

	"go.opentelemetry.io/collector/connector"
	"go.opentelemetry.io/collector/connector/xconnector"
	"go.opentelemetry.io/collector/consumer"
	"go.opentelemetry.io/collector/consumer/xconsumer"
	"go.opentelemetry.io/collector/internal/fanoutconsumer"
	"go.opentelemetry.io/collector/pdata/plog"
	"go.opentelemetry.io/collector/pdata/pmetric"
	"go.opentelemetry.io/collector/pdata/pprofile"
	"go.opentelemetry.io/collector/pdata/ptrace"
	"go.opentelemetry.io/collector/pipeline"
	"go.opentelemetry.io/collector/verifharness/lib/driver"
	"go.opentelemetry.io/collector/verifharness/lib/kit"
)

// ---- L1 ------------------------------------------------------------------------------------------

// tc is a test consumer of any signal.
type tc struct {
	idx        int
	mutates    bool
	async      bool // mutators: mutate after returning; readers: re-read after returning
	fail       error
	wg         *sync.WaitGroup
	mu         sync.Mutex
	calls      int
	atCall     []byte
	roAtCall   bool
	pl         kit.Payload
	asyncPanic string
	scen       *scenario
	ord        int   // invocation ordinal within the fan-out call (0-based)
	deadAtCall bool  // the context was already done when this consumer was invoked
	returned   error // what Consume returned
}

// ctxMode is the context dimension of an L1 case.
type ctxMode struct {
	Kind string `json:"kind"` // live | cancelled | expired | cancel-in | deadline-in
	Pos  string `json:"pos"`  // first | middle | last-but-one (cancel-in / deadline-in), else ""
	K    int    `json:"k"`    // invocation ordinal of the consumer that cancels / uses up the deadline, else -1
}

func (m ctxMode) label() string {
	if m.Pos == "" {
		return m.Kind
	}
	return m.Kind + "-" + m.Pos
}

// ctxModes lists the context scenarios for n consumers; positions are invocation ordinals, so they
// do not depend on the order in which the fan-out serves its consumers.
func ctxModes(n int) []ctxMode {
	out := []ctxMode{{"live", "", -1}, {"cancelled", "", -1}, {"expired", "", -1}}
	seen := map[int]bool{}
	for _, p := range []struct {
		pos string
		k   int
	}{{"first", 0}, {"middle", (n - 1) / 2}, {"last-but-one", n - 2}} {
		if p.k < 0 || seen[p.k] {
			continue
		}
		seen[p.k] = true
		out = append(out, ctxMode{"cancel-in", p.pos, p.k}, ctxMode{"deadline-in", p.pos, p.k})
	}
	return out
}

// scenario is the per-case state shared by the consumers of one fan-out call.
type scenario struct {
	mode   ctxMode
	order  atomic.Int32
	base   context.Context // the context handed to the fan-out
	cancel context.CancelFunc
}

// deadlineSlack is how far in the future the deadline of a deadline-in case lies when the fan-out is
// called. It only has to be positive: the consumer at ordinal k waits on ctx.Done(), so the deadline
// expires while it is running whenever it was not reached later than that (then it has expired
// before, which is the "expired" scenario for the remaining consumers). No verdict depends on it.
const deadlineSlack = 300 * time.Microsecond

func newScenario(m ctxMode) *scenario {
	sc := &scenario{mode: m}
	switch m.Kind {
	case "live":
		sc.base, sc.cancel = context.WithCancel(context.Background())
	case "cancelled":
		sc.base, sc.cancel = context.WithCancel(context.Background())
		sc.cancel()
	case "expired":
		sc.base, sc.cancel = context.WithDeadline(context.Background(), time.Now().Add(-time.Hour))
	case "cancel-in":
		sc.base, sc.cancel = context.WithCancel(context.Background())
	default: // deadline-in: armed by arm() right before the fan-out call
		sc.base, sc.cancel = context.WithCancel(context.Background())
	}
	return sc
}

func (sc *scenario) arm() {
	if sc.mode.Kind == "deadline-in" {
		sc.cancel()
		sc.base, sc.cancel = context.WithTimeout(context.Background(), deadlineSlack)
	}
}

func (c *tc) name() string { return fmt.Sprintf("c%d", c.idx) }

func (c *tc) Capabilities() consumer.Capabilities {
	return consumer.Capabilities{MutatesData: c.mutates}
}

// consume never refuses because of the context: like a queue-backed exporter it accepts the data
// regardless. Only the scripted failure, or the failure of the consumer that used up the deadline, is
// returned.
func (c *tc) consume(ctx context.Context, pl kit.Payload) (err error) {
	defer func() { c.returned = err }()
	c.mu.Lock()
	c.calls++
	c.ord = int(c.scen.order.Add(1)) - 1
	c.deadAtCall = ctx.Err() != nil
	c.atCall = pl.Marshal()
	c.roAtCall = pl.IsReadOnly()
	c.pl = pl
	c.mu.Unlock()
	fail := c.fail
	if c.ord == c.scen.mode.K {
		switch c.scen.mode.Kind {
		case "cancel-in":
			c.scen.cancel() // synchronously, before this consumer returns
		case "deadline-in":
			select { // a slow consumer: it runs until the request deadline has passed, then gives up
			case <-ctx.Done():
			case <-c.scen.base.Done(): // in case the fan-out handed us a context of its own
			}
			if fail == nil {
				fail = fmt.Errorf("consumer %d used up the deadline: %w", c.idx, context.DeadlineExceeded)
			}
		}
	}
	switch {
	case c.mutates && c.async:
		c.wg.Add(1)
		go func() {
			defer c.wg.Done()
			defer func() {
				if r := recover(); r != nil {
					c.mu.Lock()
					c.asyncPanic = fmt.Sprint(r)
					c.mu.Unlock()
				}
			}()
			runtime.Gosched()
			pl.Mutate(c.name())
		}()
	case c.mutates:
		pl.Mutate(c.name())
	case c.async:
		c.wg.Add(1)
		go func() {
			defer c.wg.Done()
			defer func() { // reading a payload that a sibling mutates concurrently can panic inside the marshaler
				if r := recover(); r != nil {
					c.mu.Lock()
					c.asyncPanic = fmt.Sprint(r)
					c.mu.Unlock()
				}
			}()
			for i := 0; i < 3; i++ {
				_ = pl.Marshal()
				runtime.Gosched()
			}
		}()
	}
	return fail
}

func (c *tc) ConsumeLogs(ctx context.Context, v plog.Logs) error {
	return c.consume(ctx, kit.OfLogs(v))
}
func (c *tc) ConsumeTraces(ctx context.Context, v ptrace.Traces) error {
	return c.consume(ctx, kit.OfTraces(v))
}
func (c *tc) ConsumeMetrics(ctx context.Context, v pmetric.Metrics) error {
	return c.consume(ctx, kit.OfMetrics(v))
}
func (c *tc) ConsumeProfiles(ctx context.Context, v pprofile.Profiles) error {
	return c.consume(ctx, kit.OfProfiles(v))
}

func newFanout(sig kit.Signal, cs []*tc) kit.Next {
	switch sig {
	case kit.Logs:
		l := make([]consumer.Logs, len(cs))
		for i, c := range cs {
			l[i] = c
		}
		return kit.NextLogs(fanoutconsumer.NewLogs(l))
	case kit.Traces:
		l := make([]consumer.Traces, len(cs))
		for i, c := range cs {
			l[i] = c
		}
		return kit.NextTraces(fanoutconsumer.NewTraces(l))
	case kit.Metrics:
		l := make([]consumer.Metrics, len(cs))
		for i, c := range cs {
			l[i] = c
		}
		return kit.NextMetrics(fanoutconsumer.NewMetrics(l))
	default:
		l := make([]xconsumer.Profiles, len(cs))
		for i, c := range cs {
			l[i] = c
		}
		return kit.NextProfiles(fanoutconsumer.NewProfiles(l))
	}
}

// front says through what the payload reaches the consumers: the fan-out consumer directly, or a
// connector router (connector.NewLogsRouter …, public API) over the same consumers — its default
// consumer, or the consumer it returns for a route of one / two pipeline ids.
type front struct {
	Kind  string `json:"kind"`            // fanout | router-default | router-one | router-two
	Route []int  `json:"route,omitempty"` // indices of the routed consumers (router-one / router-two)
}

func pid(sig kit.Signal, i int) pipeline.ID {
	id, err := kit.ParsePipelineID(fmt.Sprintf("%s/c%d", sig, i))
	if err != nil {
		panic(err)
	}
	return id
}

// newFront builds the consumer under test; routed[i] tells whether consumer i must be invoked.
func newFront(sig kit.Signal, cs []*tc, fr front) (kit.Next, []bool, error) {
	routed := make([]bool, len(cs))
	if fr.Kind == "fanout" || fr.Kind == "router-default" {
		for i := range routed {
			routed[i] = true
		}
	}
	if fr.Kind == "fanout" {
		return newFanout(sig, cs), routed, nil
	}
	var ids []pipeline.ID
	for _, i := range fr.Route {
		routed[i] = true
		ids = append(ids, pid(sig, i))
	}
	switch sig {
	case kit.Logs:
		m := map[pipeline.ID]consumer.Logs{}
		for i, c := range cs {
			m[pid(sig, i)] = c
		}
		r := connector.NewLogsRouter(m)
		if fr.Kind == "router-default" {
			return kit.NextLogs(r), routed, nil
		}
		c, err := r.Consumer(ids...)
		return kit.NextLogs(c), routed, err
	case kit.Traces:
		m := map[pipeline.ID]consumer.Traces{}
		for i, c := range cs {
			m[pid(sig, i)] = c
		}
		r := connector.NewTracesRouter(m)
		if fr.Kind == "router-default" {
			return kit.NextTraces(r), routed, nil
		}
		c, err := r.Consumer(ids...)
		return kit.NextTraces(c), routed, err
	case kit.Metrics:
		m := map[pipeline.ID]consumer.Metrics{}
		for i, c := range cs {
			m[pid(sig, i)] = c
		}
		r := connector.NewMetricsRouter(m)
		if fr.Kind == "router-default" {
			return kit.NextMetrics(r), routed, nil
		}
		c, err := r.Consumer(ids...)
		return kit.NextMetrics(c), routed, err
	default:
		m := map[pipeline.ID]xconsumer.Profiles{}
		for i, c := range cs {
			m[pid(sig, i)] = c
		}
		r := xconnector.NewProfilesRouter(m)
		if fr.Kind == "router-default" {
			return kit.NextProfiles(r), routed, nil
		}
		c, err := r.Consumer(ids...)
		return kit.NextProfiles(c), routed, err
	}
}

type l1Case struct {
	Signal   kit.Signal `json:"signal"`
	N        int        `json:"consumers"`
	Mutating string     `json:"mutating_mask"` // bit i = consumer i declares MutatesData
	Failing  string     `json:"failing_mask"`
	Async    string     `json:"async_mask"`
	ReadOnly bool       `json:"read_only_input"`
	Context  ctxMode    `json:"context"`
	Front    front      `json:"front"`
	Shape    string     `json:"payload_shape"`
	Payload  int64      `json:"payload_seed"`
	Problems []string   `json:"problems,omitempty"`
}

func bits(mask, n int) string {
	b := make([]byte, n)
	for i := 0; i < n; i++ {
		b[i] = '0'
		if mask>>i&1 == 1 {
			b[i] = '1'
		}
	}
	return string(b)
}

func shape(mask, n int) string { // low-cardinality class of a capability vector
	m := 0
	for i := 0; i < n; i++ {
		m += mask >> i & 1
	}
	switch {
	case m == 0:
		return "all-readers"
	case m == n:
		return "all-mutators"
	}
	return "mixed"
}

func l1(c *driver.Ctx, sig kit.Signal, n, mask, failMask int, ro bool, cm ctxMode, fr front, pseed int64) {
	c.Eval()
	rng := rand.New(rand.NewSource(pseed))
	asyncMask := rng.Intn(1 << n)
	var wg sync.WaitGroup
	cs := make([]*tc, n)
	var injected []error
	sc := newScenario(cm)
	defer func() { sc.cancel() }()
	for i := range cs {
		cs[i] = &tc{idx: i, mutates: mask>>i&1 == 1, async: asyncMask>>i&1 == 1, wg: &wg, scen: sc, ord: -1}
		if failMask>>i&1 == 1 {
			cs[i].fail = fmt.Errorf("injected failure of consumer %d", i)
		}
	}
	// payload shape: 40 % with items, 15 % each completely empty / resource-only / scope-only /
	// container-only (metric without data points, profile without samples)
	shp := "items"
	if x := rng.Intn(20); x >= 8 {
		shp = kit.PayloadShapes[1+(x-8)/3]
	}
	orig := kit.NewShapedPayload(sig, shp, kit.Msg{Tag: "l1"}, rng)
	if ro {
		orig.MarkReadOnly()
	}
	sent := orig.Marshal()
	f, routed, ferr := newFront(sig, cs, fr)
	if ferr != nil {
		c.Violation("router-error", fmt.Sprintf("router refused a route over connected pipelines %v: %v", fr.Route, ferr), fr, "level", "L1", "signal", string(sig), "front", fr.Kind)
		return
	}
	for i, x := range cs {
		if routed[i] && x.fail != nil {
			injected = append(injected, x.fail)
		}
	}
	advertised := f.Capabilities().MutatesData
	var err error
	sc.arm()
	pv, stack := driver.Catch(func() { err = f.Consume(sc.base, orig) })
	wg.Wait()

	w := l1Case{Signal: sig, N: n, Mutating: bits(mask, n), Failing: bits(failMask, n), Async: bits(asyncMask, n), ReadOnly: ro, Context: cm, Front: fr, Shape: shp, Payload: pseed}
	sg := []string{"level", "L1", "signal", string(sig), "vector", shape(mask, n), "ro_input", fmt.Sprint(ro), "ctx", cm.label(), "front", fr.Kind, "payload", shp}
	vio := func(sub, what string, extra ...string) {
		w.Problems = append(w.Problems, what)
		c.Violation(sub, what, w, append(append([]string(nil), sg...), extra...)...)
	}
	if n >= 2 {
		c.Nontrivial("L1", sig, n, mask, ro, failMask, cm.label(), fr.Kind, fr.Route)
	}
	c.Observe("L1_cases", 1)
	c.Observe("L1_cases_ctx:"+cm.Kind, 1)
	c.Observe("L1_cases_front:"+fr.Kind, 1)
	c.Observe("L1_cases_payload:"+shp, 1)
	c.Distinct("L1_payload_shape_x_vector", sig, shp, n, mask, ro, fr.Kind)
	for _, x := range cs {
		if x.calls > 0 && x.deadAtCall {
			c.Observe("L1_consumers_invoked_with_done_context", 1)
		}
	}
	if n == 4 && mask == 5 && failMask == 2 && !ro && cm.Kind == "deadline-in" && cm.K == 1 {
		c.Sample(map[string]any{"level": "L1", "case": w, "advertised_mutates": advertised, "returned_error": fmt.Sprint(err), "markers_per_consumer_at_end": func() map[string][]string {
			m := map[string][]string{}
			for _, x := range cs {
				if x.calls > 0 { // a consumer that was never invoked holds no payload
					m[x.name()+":"+role(x)] = kit.MarkersIn(x.pl.Marshal())
				}
			}
			return m
		}()})
	}
	if pv != nil {
		vio("fanout-panic", fmt.Sprintf("fan-out Consume panicked: %v (n=%d mutating=%s ro=%v)", pv, n, bits(mask, n), ro), "site", driver.PanicSite(stack))
		return
	}
	nro := 0
	for i, x := range cs {
		if !x.mutates && routed[i] {
			nro++
		}
	}
	for i, x := range cs {
		if !routed[i] {
			if x.calls != 0 {
				vio("invocation", fmt.Sprintf("consumer %d is not on the route %v but was invoked %d times", x.idx, fr.Route, x.calls), "problem", "off-route")
			}
			continue
		}
		if x.calls != 1 {
			vio("invocation", fmt.Sprintf("consumer %d of %d was invoked %d times (failing=%s, context %s, context error at return: %v)", x.idx, n, x.calls, bits(failMask, n), cm.label(), sc.base.Err()), "problem", fmt.Sprintf("calls-%d", min(x.calls, 2)))
			continue
		}
		c.Observe("L1_consumer_observations", 1)
		if !bytes.Equal(x.atCall, sent) {
			vio("content-at-call", fmt.Sprintf("consumer %d (mutates=%v) received content different from what was sent (markers seen: %v)", x.idx, x.mutates, kit.MarkersIn(x.atCall)), "consumer", role(x))
		}
		if x.asyncPanic != "" && !x.mutates {
			vio("reader-observes-change", fmt.Sprintf("non-mutating consumer %d crashed while re-reading its payload after returning (it is being changed concurrently): %s", x.idx, x.asyncPanic), "consumer", role(x), "problem", "read-panic")
		} else if x.asyncPanic != "" {
			vio("mutator-on-readonly", fmt.Sprintf("declared mutating consumer %d could not mutate the data it was given: %s", x.idx, x.asyncPanic), "consumer", role(x))
		}
		atEnd := x.pl.Marshal()
		marks := kit.MarkersIn(atEnd)
		if !x.mutates {
			if !bytes.Equal(atEnd, x.atCall) {
				vio("reader-observes-change", fmt.Sprintf("non-mutating consumer %d observed a change after its siblings finished (markers now: %v)", x.idx, marks), "consumer", role(x))
			}
			if nro >= 2 && !x.roAtCall {
				vio("not-read-only", fmt.Sprintf("payload shared by %d non-mutating consumers was not marked read-only when consumer %d got it", nro, x.idx), "consumer", role(x))
			}
		} else {
			if x.roAtCall {
				vio("mutator-on-readonly", fmt.Sprintf("declared mutating consumer %d was handed read-only data", x.idx), "consumer", role(x))
			}
			own := false
			for _, m := range marks {
				if m == x.name() {
					own = true
				} else {
					vio("marker-crossed", fmt.Sprintf("payload of mutating consumer %d carries the marker of %s", x.idx, m), "consumer", role(x))
				}
			}
			if !own && x.asyncPanic == "" {
				vio("marker-crossed", fmt.Sprintf("mutating consumer %d does not find its own mutation in its payload", x.idx), "consumer", role(x), "problem", "own-marker-lost")
			}
		}
		if !x.mutates {
			for _, m := range marks {
				vio("marker-crossed", fmt.Sprintf("payload of non-mutating consumer %d carries the marker of %s", x.idx, m), "consumer", role(x))
			}
		}
	}
	// errors: every scripted failure and every error a consumer actually returned (the consumer that
	// used up the deadline fails too) is in the result, nothing else — also not the context's own error
	got := multierr.Errors(err)
	expected := append([]error(nil), injected...)
	for _, x := range cs {
		if x.returned != nil && x.fail == nil {
			expected = append(expected, x.returned)
		}
	}
	for _, ie := range expected {
		if !errors.Is(err, ie) {
			vio("error-aggregation", fmt.Sprintf("returned error %v lacks %v (context %s)", err, ie, cm.label()), "problem", "lost")
		}
	}
	if len(got) != len(expected) {
		vio("error-aggregation", fmt.Sprintf("returned error has %d parts, %d consumers failed (context %s): %v", len(got), len(expected), cm.label(), err), "problem", "count")
	}
	// the caller's original
	origEnd := orig.Marshal()
	if !bytes.Equal(origEnd, sent) {
		if !advertised {
			vio("original-changed", fmt.Sprintf("the caller's payload changed although the fan-out does not advertise MutatesData (markers: %v)", kit.MarkersIn(origEnd)), "advertised", "false")
		} else if ro {
			vio("original-changed", "a read-only input was changed", "advertised", "true")
		} else if len(kit.MarkersIn(origEnd)) > 1 {
			vio("original-changed", fmt.Sprintf("the caller's payload was mutated by several consumers: %v", kit.MarkersIn(origEnd)), "advertised", "true")
		}
	}
	// an undeclared mutation of data shared by several readers panics and changes nothing
	if nro >= 2 {
		for i, x := range cs {
			if x.mutates || x.calls != 1 || !routed[i] {
				continue
			}
			before := x.pl.Marshal()
			pv, _ := driver.Catch(func() { x.pl.Mutate("undeclared") })
			after := x.pl.Marshal()
			c.Observe("L1_undeclared_mutation_attempts", 1)
			if pv == nil {
				vio("not-read-only", fmt.Sprintf("an undeclared mutation by non-mutating consumer %d on data shared by %d readers did not panic", x.idx, nro), "consumer", role(x), "problem", "no-panic")
			}
			if !bytes.Equal(before, after) {
				vio("not-read-only", fmt.Sprintf("an undeclared mutation by consumer %d changed the shared data", x.idx), "consumer", role(x), "problem", "changed")
			}
			break
		}
	}
}

func role(x *tc) string {
	r := "reader"
	if x.mutates {
		r = "mutator"
	}
	if x.async {
		r += "-async"
	}
	return r
}

func runL1(c *driver.Ctx) {
	// payload seeds per (signal, vector, failing subset, read-only, context scenario): 96 544 cases per round
	rounds := int64(c.N(1, 16))
	if c.Variant == "race" {
		rounds = int64(c.N(1, 5))
	}
	g := int64(0)
	halve := c.Variant == "race" && !c.Thorough()
	for round := int64(0); round < rounds; round++ {
		for _, sig := range kit.Signals {
			for n := 1; n <= 5; n++ {
				for mask := 0; mask < 1<<n; mask++ {
					for failMask := 0; failMask < 1<<n; failMask++ {
						for _, ro := range []bool{false, true} {
							for _, cm := range ctxModes(n) {
								g++
								if halve && (g/int64(c.NShards))%2 == 1 && c.Only < 0 {
									continue // quick tier, race variant: every second case of the shard (budget)
								}
								if !c.Mine(g) {
									continue
								}
								l1(c, sig, n, mask, failMask, ro, cm, front{Kind: "fanout"}, c.Seed*1000003+g)
							}
						}
					}
				}
			}
		}
	}
}

// runL1Routers: the same oracle with a connector router in front of the consumers: its default
// consumer and the consumers it returns for every route of one id and of two ids; all capability
// vectors × mutable / read-only input × {no failure, one seeded failing subset}; live context.
func runL1Routers(c *driver.Ctx) {
	rounds := int64(c.N(1, 16))
	if c.Variant == "race" {
		rounds = int64(c.N(1, 5))
	}
	g := int64(500_000_000)
	live := ctxMode{"live", "", -1}
	for round := int64(0); round < rounds; round++ {
		for _, sig := range kit.Signals {
			for n := 1; n <= 5; n++ {
				fronts := []front{{Kind: "router-default"}}
				for i := 0; i < n; i++ {
					fronts = append(fronts, front{Kind: "router-one", Route: []int{i}})
					for j := i + 1; j < n; j++ {
						fronts = append(fronts, front{Kind: "router-two", Route: []int{i, j}})
					}
				}
				for mask := 0; mask < 1<<n; mask++ {
					for _, ro := range []bool{false, true} {
						for _, fr := range fronts {
							for f := 0; f < 2; f++ {
								g++
								if !c.Mine(g) {
									continue
								}
								seed := c.Seed*1000003 + g
								failMask := 0
								if f == 1 {
									failMask = 1 + int(uint64(seed)*2654435761%uint64(1<<n-1))
								}
								l1(c, sig, n, mask, failMask, ro, live, fr, seed)
							}
						}
					}
				}
			}
		}
	}
}

// ---- L2 ------------------------------------------------------------------------------------------

type l2Witness struct {
	YAML     string   `json:"yaml"`
	Problems []string `json:"problems,omitempty"`
	Detail   string   `json:"detail,omitempty"`
}

func stripTrail(trail []string) []string {
	var out []string
	for _, e := range trail {
		s, _ := kit.StripInst(e)
		out = append(out, s)
	}
	return out
}

// withTrail returns the bytes of the sent payload with its trail replaced by trail.
func withTrail(sig kit.Signal, sent []byte, trail []string) ([]byte, error) {
	var pl kit.Payload
	switch sig {
	case kit.Logs:
		v, err := (&plog.ProtoUnmarshaler{}).UnmarshalLogs(sent)
		if err != nil {
			return nil, err
		}
		pl = kit.OfLogs(v)
	case kit.Traces:
		v, err := (&ptrace.ProtoUnmarshaler{}).UnmarshalTraces(sent)
		if err != nil {
			return nil, err
		}
		pl = kit.OfTraces(v)
	case kit.Metrics:
		v, err := (&pmetric.ProtoUnmarshaler{}).UnmarshalMetrics(sent)
		if err != nil {
			return nil, err
		}
		pl = kit.OfMetrics(v)
	default:
		v, err := (&pprofile.ProtoUnmarshaler{}).UnmarshalProfiles(sent)
		if err != nil {
			return nil, err
		}
		pl = kit.OfProfiles(v)
	}
	for _, e := range trail {
		pl.AppendTrail(e)
	}
	return pl.Marshal(), nil
}

func l2(c *driver.Ctx, rng *rand.Rand) {
	c.Eval()
	opt := kit.GenOptions{
		MaxPipelines: 4, RecvPool: 2, ExpPool: 3, ProcPool: 3, MaxConnUses: 3,
		NonMutatingProcs: []float64{0.3, 0.6, 1}[rng.Intn(3)],
		ExporterModes:    true, ConnModes: true,
		FailingExporters: []float64{0, 0.2}[rng.Intn(2)],
		Signals:          []kit.Signal{kit.Signals[rng.Intn(4)], kit.Signals[rng.Intn(4)]},
		SharedReceivers:  rng.Intn(4) == 0,
	}
	if opt.Signals[0] == opt.Signals[1] {
		opt.Signals = opt.Signals[:1]
	}
	t := kit.GenTopology(rng, opt)
	roRouting := rng.Intn(3) == 0
	if roRouting {
		addReadOnlyRouting(rng, t, opt.Signals)
	}
	yaml := t.YAML()
	w := l2Witness{YAML: yaml}
	env := kit.NewEnv(kit.Options{})
	type injection struct {
		in         *kit.Injector
		orig       kit.Payload
		sent       []byte
		advertised bool
		err        error
		ctx        string
		shape      string
	}
	var injs []*injection
	var running bool
	var runErr, launchErr error
	var pv any
	var pstack string
	stuck := c.Guard(60*time.Second, kit.Seq, func() {
		pv, pstack = driver.Catch(func() {
			run, err := env.Launch(yaml)
			if err != nil {
				launchErr = err
				return
			}
			if running = run.AwaitRunning(); !running {
				runErr = run.Wait()
				return
			}
			for _, in := range env.Injectors() {
				// payload shape: half with items, else resource-only / scope-only / container-only
				shp := "items"
				if x := rng.Intn(6); x >= 3 {
					shp = kit.PayloadShapes[x-1]
				}
				j := &injection{in: in, orig: kit.NewShapedPayload(in.Signal, shp, kit.Msg{Tag: in.Tag()}, rng), advertised: in.Next.Capabilities().MutatesData, shape: shp}
				j.sent = j.orig.Marshal()
				injs = append(injs, j)
				// the request context of the receiver: live, already cancelled, or past its deadline.
				// The kit components accept data regardless of the context, so nothing else changes.
				ctx, cancel := context.WithCancel(context.Background())
				switch rng.Intn(4) {
				case 0:
					cancel()
					j.ctx = "cancelled"
				case 1:
					cancel()
					ctx, cancel = context.WithDeadline(context.Background(), time.Now().Add(-time.Hour))
					j.ctx = "expired"
				default:
					j.ctx = "live"
				}
				j.err = in.Next.Consume(ctx, j.orig)
				cancel()
			}
			env.Settle()
			runErr = run.Stop()
		})
	})
	sigOf := func(extra ...string) []string { return append([]string{"level", "L2"}, extra...) }
	vio := func(sub, what string, sig ...string) {
		w.Problems = append(w.Problems, what)
		c.Violation(sub, what, w, sigOf(sig...)...)
	}
	switch {
	case stuck != nil:
		c.Inconclusive("collector run did not finish")
		c.Note("stuck L2 case frames=%v", stuck.RepoFrames)
		return
	case pv != nil:
		pv, pstack = kit.UnwrapPanic(pv, pstack)
		w.Detail = fmt.Sprintf("panic: %v\n%s", pv, pstack)
		what := "panic"
		if strings.Contains(fmt.Sprint(pv), "invalid access to shared data") {
			what = "a declared mutating component was handed shared read-only data"
		}
		vio("graph-panic", fmt.Sprintf("%s: %v; %s", what, pv, t.Describe()), "site", driver.PanicSite(pstack))
		return
	case launchErr != nil || !running:
		vio("launch", fmt.Sprintf("valid configuration did not run: %v %v", launchErr, runErr))
		return
	}
	c.Observe("L2_collectors", 1)
	defer func() {
		if len(w.Problems) == 0 && len(t.ConnInstances()) > 0 {
			c.Sample(map[string]any{"level": "L2", "topology": t.Describe(), "exporter_configs": t.Exporters, "processor_configs": t.Processors, "deliveries": len(env.Deliveries()), "receivers_told_mutates": func() map[string]bool {
				m := map[string]bool{}
				for _, j := range injs {
					m[j.in.Tag()] = j.advertised
				}
				return m
			}()})
		}
	}()
	if runErr != nil {
		vio("launch", "Run returned "+runErr.Error())
	}
	ex := t.Expect()
	ds := env.Deliveries()
	c.Observe("L2_deliveries", int64(len(ds)))
	multi := false
	for _, ri := range t.RecvInstances() {
		multi = multi || len(ri.Pipes) >= 2
	}
	for _, ci := range t.ConnInstances() {
		multi = multi || len(ci.Deliver) >= 2
	}
	for _, p := range t.Pipelines {
		multi = multi || len(p.Exporters) >= 2
	}
	if multi {
		c.Nontrivial("L2", t.Canonical())
	}
	for _, ap := range env.AsyncPanics() {
		w.Detail = ap.Stack
		vio("graph-panic", "a declared mutating exporter could not mutate the data it was given: "+ap.Value, "site", "async-exporter")
	}
	// every exporter sees exactly the trails (markers of mutating processors/connectors) of its own paths
	got := map[string]int{}
	for _, d := range ds {
		got[kit.DeliveryID(d.Exporter, d.Tag, stripTrail(d.Trail))]++
	}
	var diff []string
	for k, n := range ex.Deliveries {
		if got[k] != n {
			diff = append(diff, fmt.Sprintf("%s expected %d got %d", k, n, got[k]))
		}
	}
	for k, n := range got {
		if _, ok := ex.Deliveries[k]; !ok {
			diff = append(diff, fmt.Sprintf("%s expected 0 got %d", k, n))
		}
	}
	if len(diff) > 0 {
		sort.Strings(diff)
		vio("path-markers", fmt.Sprintf("an exporter saw markers that are not those of its own path (or a delivery is missing): %s; %s", diff[0], t.Describe()), "problem", "trail")
	}
	// content: bytes at call time = what the receiver sent + the trail of the path (paths without a converting connector)
	sentBy := map[string]*injection{}
	for _, j := range injs {
		sentBy[j.in.Tag()] = j
	}
	for _, d := range ds {
		if !d.HasKept {
			continue
		}
		c.Observe("L2_kept_payloads", 1)
		mutating := cfgBool(t.Exporters[idOfKey(d.Exporter)], "mutates")
		converted := false
		for _, e := range d.Trail {
			if strings.Contains(e, "[") {
				s, _ := kit.StripInst(e)
				a, b, _ := strings.Cut(s[strings.Index(s, "[")+1:len(s)-1], ">")
				mode := ""
				if cfg := t.Connectors[s[:strings.Index(s, "[")]]; cfg != nil {
					mode, _ = cfg["mode"].(string)
				}
				if a != b || mode != "mutate" {
					converted = true
				}
			}
		}
		if j := sentBy[d.Tag]; j != nil && !converted {
			want, err := withTrail(j.in.Signal, j.sent, d.Trail)
			if err == nil {
				c.Observe("L2_content_at_call_checked", 1)
				if !bytes.Equal(want, d.AtCall) {
					vio("content-at-call", fmt.Sprintf("%s received content that is not what %s sent plus its path's trail (markers seen: %v)", d.Exporter, d.Tag, kit.MarkersIn(d.AtCall)), "exporter", mode(mutating))
				}
			}
		}
		marks := kit.MarkersIn(d.AtEnd)
		for _, m := range marks {
			if m != d.Exporter || !mutating {
				vio("marker-crossed", fmt.Sprintf("payload held by %s carries the mutation marker of %s", d.Exporter, m), "exporter", mode(mutating))
			}
		}
		if !mutating && !bytes.Equal(d.AtCall, d.AtEnd) {
			vio("reader-observes-change", fmt.Sprintf("non-mutating exporter %s observed a change of its payload after all asynchronous work (markers now: %v)", d.Exporter, marks), "exporter", mode(mutating))
		}
		if ms := kit.MarkersIn(d.AtCall); len(ms) > 0 {
			vio("marker-crossed", fmt.Sprintf("%s received a payload already carrying the marker of %v", d.Exporter, ms), "exporter", mode(mutating), "when", "at-call")
		}
	}
	// payloads a connector marked read-only and sent to several routes in turn: nobody may change them
	for _, r := range env.Retained() {
		c.Observe("L2_readonly_connector_payloads", 1)
		if !bytes.Equal(r.AtSend, r.AtEnd) {
			vio("original-changed", fmt.Sprintf("the read-only payload retained by routing connector %s changed after it was consumed through its routes (markers now %v)", r.Key, kit.MarkersIn(r.AtEnd)), "advertised", "read-only-connector-payload")
		}
	}
	if roRouting {
		c.Observe("L2_collectors_with_readonly_route_sequence", 1)
	}
	// the receiver's original
	for _, j := range injs {
		c.Observe("L2_injections", 1)
		c.Observe("L2_injections_ctx:"+j.ctx, 1)
		c.Observe("L2_injections_payload:"+j.shape, 1)
		end := j.orig.Marshal()
		if !j.advertised {
			c.Observe("L2_originals_checked_unchanged", 1)
			if !bytes.Equal(end, j.sent) {
				vio("original-changed", fmt.Sprintf("the payload kept by receiver %s changed although the consumer it was given does not advertise MutatesData (trail now %v, markers %v)", j.in.Tag(), j.orig.Msg().Trail, kit.MarkersIn(end)), "advertised", "false")
			}
		} else {
			c.Observe("L2_receivers_told_mutates", 1)
		}
		wantFail := ex.FailingReachable[j.in.Tag()]
		for _, k := range wantFail {
			if j.err == nil || !strings.Contains(j.err.Error(), k+" refuses") {
				vio("error-aggregation", fmt.Sprintf("the error of failing exporter %s did not come back to receiver %s (got %v)", k, j.in.Tag(), j.err), "problem", "lost")
			}
		}
		if len(wantFail) == 0 && j.err != nil {
			vio("error-aggregation", fmt.Sprintf("receiver %s got %v although no failing exporter is reachable", j.in.Tag(), j.err), "problem", "spurious")
		}
	}
}

// addReadOnlyRouting appends source pipeline -> routing connector -> 2–3 downstream pipelines. The
// connector marks its outgoing payload read-only and sends that same payload to several routes in turn:
// Consumer(oneID), Consumer(id1,id2) and the default consumer, in a seeded order. The downstream
// pipelines use the pool processors / exporters, which do or do not declare (and perform) mutation.
func addReadOnlyRouting(rng *rand.Rand, t *kit.Topology, sigs []kit.Signal) {
	s := sigs[rng.Intn(len(sigs))]
	d := s
	typ := []string{"kconn", "ksame"}[rng.Intn(2)]
	if rng.Intn(4) == 0 {
		d = kit.Signals[rng.Intn(4)]
		typ = "kconn"
	}
	id := typ + "/ro"
	cfg := map[string]any{"mark_read_only": true}
	if s == d && rng.Intn(2) == 0 {
		cfg["mode"] = "mutate"
	}
	pool := func(prefix string, names []string, min int) []string {
		var out []string
		for _, i := range rng.Perm(len(names))[:min+rng.Intn(len(names)-min)] {
			out = append(out, prefix+names[i])
		}
		return out
	}
	def := func(m map[string]map[string]any, ids []string) []string {
		for _, x := range ids {
			if _, ok := m[x]; !ok {
				m[x] = nil
			}
		}
		return ids
	}
	t.Receivers["krecv/1"] = nil
	t.Pipelines = append(t.Pipelines, kit.Pipeline{Signal: s, Name: "ro_src", Receivers: []string{"krecv/1"},
		Processors: def(t.Processors, pool("kproc/", []string{"a", "b", "c"}, 0)), Exporters: []string{id}})
	var dests []string
	for k, n := 0, 2+rng.Intn(2); k < n; k++ {
		p := kit.Pipeline{Signal: d, Name: fmt.Sprintf("ro_d%d", k), Receivers: []string{id},
			Processors: def(t.Processors, pool("kproc/", []string{"a", "b", "c"}, 0)), Exporters: def(t.Exporters, pool("kexp/", []string{"1", "2", "3"}, 1))}
		t.Pipelines = append(t.Pipelines, p)
		dests = append(dests, p.ID())
	}
	perm := rng.Perm(len(dests))
	seq := [][]string{{dests[perm[0]]}, {dests[perm[1]], dests[perm[0]]}, {"*"}}
	if len(dests) > 2 && rng.Intn(2) == 0 {
		seq = append(seq, []string{dests[perm[2]]})
	}
	rng.Shuffle(len(seq), func(i, j int) { seq[i], seq[j] = seq[j], seq[i] })
	seq = seq[:2+rng.Intn(len(seq)-1)]
	cfg["route_sequence"] = map[string]any{string(d): seq}
	t.Connectors[id] = cfg
}

func mode(mutating bool) string {
	if mutating {
		return "mutator"
	}
	return "reader"
}

func idOfKey(key string) string { // "exporter:logs:kexp/1" -> "kexp/1"
	p := strings.SplitN(key, ":", 3)
	return p[len(p)-1]
}

func cfgBool(cfg map[string]any, k string) bool {
	b, _ := cfg[k].(bool)
	return b
}

func runL2(c *driver.Ctx) {
	n := int64(c.N(300, 40000))
	if c.Variant == "race" {
		n = int64(c.N(150, 8000))
	}
	for i := int64(0); i < n; i++ {
		if !c.Want(100_000_000 + i) {
			continue
		}
		l2(c, c.CaseRand(100_000_000+i))
	}
}

func run(c *driver.Ctx) {
	// case index ranges (for --replay): L1 fan-out < 100 M <= L2 < 500 M <= L1 routers < 800 M <= L1 real exporters
	if c.Only < 100_000_000 {
		runL1(c)
	}
	if c.Only < 0 || (c.Only >= 500_000_000 && c.Only < 800_000_000) {
		runL1Routers(c)
	}
	if c.Only < 0 || c.Only >= 800_000_000 {
		runL1Real(c)
	}
	if c.Only < 0 || (c.Only >= 100_000_000 && c.Only < 500_000_000) {
		runL2(c)
	}
}

func main() {
	driver.Main(driver.Spec{
		ID:    "C06",
		Level: "exploration",
		Rule: "L1: a case is (signal, capability vector of 1–5 consumers, failing subset, read-only flag, context scenario: live | already cancelled | deadline already expired | cancelled synchronously from inside the consumer invoked first / in the middle / last-but-one | deadline that expires while that consumer is running, i.e. it waits on ctx.Done() and then fails) — all 96 544 combinations are enumerated completely per payload round (quick tier: completely by the plain variant, every second one by the race variant), each with a generated payload (40 % with items, else completely empty / resource-only / scope-only / metric-without-data-points resp. profile-without-samples) and a random sync/async assignment; the same oracle runs with a connector router (connector.NewLogsRouter … public API) in front: default consumer and every route of one and of two ids × all vectors × read-only flag × {no failure, a seeded failing subset}; consumers never refuse because of the context; non-trivial = at least 2 consumers; distinct = (signal, n, vector, read-only, failing subset, context scenario). " +
			"L2: a case is one seeded random service configuration (1–4 pipelines, processors declaring or not declaring mutation, exporters mutating sync/async or re-reading async, same-signal connectors in mutate/pass mode; a third of the cases with a routing connector that marks its outgoing payload read-only and sends it to Consumer(oneID), Consumer(id1,id2) and the default consumer in turn) with one generated payload (half of them item-less) injected at every receiver instance; non-trivial = some receiver, connector or pipeline fans out to at least 2 consumers; distinct = canonical configuration",
		Assumptions: []string{
			"context scenarios are positioned by invocation ordinal (the k-th consumer the fan-out invokes), so they do not assume a serving order; the deadline of a deadline-in case lies 300 µs ahead when the fan-out is called and the consumer at ordinal k blocks on ctx.Done(): no verdict depends on that duration. L2 injects with a live, cancelled or expired context (kit components accept data regardless)",
			"content equality is equality of the OTLP protobuf bytes; a mutation is the kit's unique marker mutation (attribute on resource and scope, changed leaf, appended leaf item)",
			"L2: the capability of a single pipeline is not observable from outside, so the oracle is behavioural (markers/trails per path, bytes at call and at the end, the receiver's original whenever MutatesData=false was advertised)",
			"race reports whose innermost frames are pdata accessors are attributed to the repository by the driver: they mean a payload was shared between an asynchronous mutator and another consumer",
		},
		TrustedBase:   []string{"lib/kit test components, payload generator and reference model", "pdata proto marshalers as content observation"},
		Shards:        func(string) int { return 16 },
		Variants:      func(string) []string { return []string{"race", "plain"} },
		MinNontrivial: func(tier string) int { return 10000 },
		MaxSamples:    3,
		ShardTimeout: func(tier string) time.Duration {
			if tier == "thorough" {
				return 90 * time.Minute
			}
			return 8 * time.Minute
		},
		Run: run,
	})
}
