package main

// Real exporterhelper exporters as members of a fan-out (L1 "real" family).
//
// The exporter stage of a pipeline is usually an exporterhelper exporter. Whether its batcher merges /
// splits the payload it was handed decides whether the pipeline must advertise MutatesData. The cases
// here build exporterhelper.NewLogs / NewTraces / NewMetrics and xexporterhelper.NewProfilesExporter
// with (a) no batching (no queue, or a queue without batch), (b) sending_queue::batch (WithQueue with a
// Batch config) and (c) the deprecated WithBatcher with the queue on and off, put the exporter into
// fanoutconsumer.New<Signal> next to test consumers and send two requests so that a real merge (second
// request inside the min_size window) or split (request over max_size) happens.
//
// Static oracle: Capabilities().MutatesData == batching configured. Dynamic oracle: as for every other
// consumer — the siblings receive what was sent and never see it change, mutating siblings keep their
// private copies, data shared by several non-mutating consumers is read-only, the caller's originals
// change only if the fan-out advertised MutatesData, no panic (also with read-only input), and the
// exporter's push function finally received all items.

import (
	"bytes"
	"context"
	"fmt"
	"math/rand"
	"runtime"
	"sync"
	"sync/atomic"
	"time"

	"go.opentelemetry.io/collector/component"
	"go.opentelemetry.io/collector/component/componenttest"
	"go.opentelemetry.io/collector/consumer"
	"go.opentelemetry.io/collector/consumer/xconsumer"
	"go.opentelemetry.io/collector/exporter/exporterhelper"
	"go.opentelemetry.io/collector/exporter/exporterhelper/xexporterhelper"
	"go.opentelemetry.io/collector/exporter/exportertest"
	"go.opentelemetry.io/collector/internal/fanoutconsumer"
	"go.opentelemetry.io/collector/pdata/plog"
	"go.opentelemetry.io/collector/pdata/pmetric"
	"go.opentelemetry.io/collector/pdata/pprofile"
	"go.opentelemetry.io/collector/pdata/ptrace"
	"go.opentelemetry.io/collector/verifharness/lib/driver"
	"go.opentelemetry.io/collector/verifharness/lib/kit"
)

var realKinds = []string{"none", "queue-no-batch", "queue-batch", "legacy-batcher-queue-on", "legacy-batcher-queue-off"}

func batching(kind string) bool { return kind != "none" && kind != "queue-no-batch" }

// sink is the push function of the real exporter.
type sink struct {
	items atomic.Int64
	calls atomic.Int64
}

func (s *sink) push(pl kit.Payload) error {
	_ = pl.Marshal() // a real exporter reads what it sends
	s.items.Add(int64(pl.Items()))
	s.calls.Add(1)
	return nil
}

type realExporter struct {
	comp component.Component
	next kit.Next
}

var realType = component.MustNewType("kreal")

type realCfg struct{}

// capOpts: what the exporter's author says about mutation with an explicit WithCapabilities option, written before or
// after the queue / batcher options (otlp, otlphttp and debug exporters all pass MutatesData: false explicitly).
var capOpts = []string{"none", "false-before", "false-after", "true-before", "true-after"}

func newRealExporter(sig kit.Signal, kind, scenario, capOpt string, n1, n2 int, sk *sink) (*realExporter, error) {
	set := exportertest.NewNopSettings(realType)
	var opts []exporterhelper.Option
	switch capOpt {
	case "false-before":
		opts = append(opts, exporterhelper.WithCapabilities(consumer.Capabilities{MutatesData: false}))
	case "true-before":
		opts = append(opts, exporterhelper.WithCapabilities(consumer.Capabilities{MutatesData: true}))
	}
	minSize, maxSize := int64(n1+n2), int64(0) // merge: the first request waits for the second one
	if scenario == "split" {
		minSize, maxSize = 1, int64(max(1, n1/2)) // the first request is over max_size
		if n1 < 2 {
			maxSize = 1
		}
	}
	const flush = 25 * time.Millisecond
	q := exporterhelper.NewDefaultQueueConfig()
	q.Sizer = exporterhelper.RequestSizerTypeItems
	q.QueueSize = 1_000_000
	q.NumConsumers = 2
	b := exporterhelper.NewDefaultBatcherConfig()
	b.FlushTimeout, b.MinSize, b.MaxSize = flush, minSize, maxSize
	switch kind {
	case "queue-no-batch":
		opts = append(opts, exporterhelper.WithQueue(q))
	case "queue-batch":
		q.Batch = &exporterhelper.BatchConfig{FlushTimeout: flush, MinSize: minSize, MaxSize: maxSize}
		opts = append(opts, exporterhelper.WithQueue(q))
	case "legacy-batcher-queue-on":
		opts = append(opts, exporterhelper.WithQueue(q), exporterhelper.WithBatcher(b))
	case "legacy-batcher-queue-off":
		opts = append(opts, exporterhelper.WithBatcher(b))
	}
	switch capOpt {
	case "false-after":
		opts = append(opts, exporterhelper.WithCapabilities(consumer.Capabilities{MutatesData: false}))
	case "true-after":
		opts = append(opts, exporterhelper.WithCapabilities(consumer.Capabilities{MutatesData: true}))
	}
	ctx := context.Background()
	switch sig {
	case kit.Logs:
		e, err := exporterhelper.NewLogs(ctx, set, &realCfg{}, func(_ context.Context, v plog.Logs) error { return sk.push(kit.OfLogs(v)) }, opts...)
		if err != nil {
			return nil, err
		}
		return &realExporter{e, kit.NextLogs(e)}, nil
	case kit.Traces:
		e, err := exporterhelper.NewTraces(ctx, set, &realCfg{}, func(_ context.Context, v ptrace.Traces) error { return sk.push(kit.OfTraces(v)) }, opts...)
		if err != nil {
			return nil, err
		}
		return &realExporter{e, kit.NextTraces(e)}, nil
	case kit.Metrics:
		e, err := exporterhelper.NewMetrics(ctx, set, &realCfg{}, func(_ context.Context, v pmetric.Metrics) error { return sk.push(kit.OfMetrics(v)) }, opts...)
		if err != nil {
			return nil, err
		}
		return &realExporter{e, kit.NextMetrics(e)}, nil
	default:
		e, err := xexporterhelper.NewProfilesExporter(ctx, set, &realCfg{}, func(_ context.Context, v pprofile.Profiles) error { return sk.push(kit.OfProfiles(v)) }, opts...)
		if err != nil {
			return nil, err
		}
		return &realExporter{e, kit.NextProfiles(e)}, nil
	}
}

// sib is a sibling test consumer that is invoked once per request.
type sib struct {
	idx     int
	mutates bool
	async   bool
	wg      *sync.WaitGroup
	mu      sync.Mutex
	obs     []*sibObs
}

type sibObs struct {
	atCall     []byte
	ro         bool
	pl         kit.Payload
	asyncPanic string
}

func (s *sib) name() string { return fmt.Sprintf("s%d", s.idx) }

func (s *sib) Capabilities() consumer.Capabilities {
	return consumer.Capabilities{MutatesData: s.mutates}
}

func (s *sib) consume(pl kit.Payload) error {
	o := &sibObs{atCall: pl.Marshal(), ro: pl.IsReadOnly(), pl: pl}
	s.mu.Lock()
	s.obs = append(s.obs, o)
	s.mu.Unlock()
	work := func() {
		defer func() {
			if r := recover(); r != nil {
				s.mu.Lock()
				o.asyncPanic = fmt.Sprint(r)
				s.mu.Unlock()
			}
		}()
		if s.mutates {
			pl.Mutate(s.name())
			return
		}
		for i := 0; i < 3; i++ {
			_ = pl.Marshal()
			runtime.Gosched()
		}
	}
	switch {
	case s.async:
		s.wg.Add(1)
		go func() { defer s.wg.Done(); runtime.Gosched(); work() }()
	case s.mutates:
		pl.Mutate(s.name())
	}
	return nil
}

func (s *sib) ConsumeLogs(_ context.Context, v plog.Logs) error { return s.consume(kit.OfLogs(v)) }
func (s *sib) ConsumeTraces(_ context.Context, v ptrace.Traces) error {
	return s.consume(kit.OfTraces(v))
}
func (s *sib) ConsumeMetrics(_ context.Context, v pmetric.Metrics) error {
	return s.consume(kit.OfMetrics(v))
}
func (s *sib) ConsumeProfiles(_ context.Context, v pprofile.Profiles) error {
	return s.consume(kit.OfProfiles(v))
}

func realFanout(sig kit.Signal, e *realExporter, sibs []*sib, exporterFirst bool) kit.Next {
	switch sig {
	case kit.Logs:
		var l []consumer.Logs
		for _, s := range sibs {
			l = append(l, s)
		}
		if exporterFirst {
			l = append([]consumer.Logs{e.next.Logs()}, l...)
		} else {
			l = append(l, e.next.Logs())
		}
		return kit.NextLogs(fanoutconsumer.NewLogs(l))
	case kit.Traces:
		var l []consumer.Traces
		for _, s := range sibs {
			l = append(l, s)
		}
		if exporterFirst {
			l = append([]consumer.Traces{e.next.Traces()}, l...)
		} else {
			l = append(l, e.next.Traces())
		}
		return kit.NextTraces(fanoutconsumer.NewTraces(l))
	case kit.Metrics:
		var l []consumer.Metrics
		for _, s := range sibs {
			l = append(l, s)
		}
		if exporterFirst {
			l = append([]consumer.Metrics{e.next.Metrics()}, l...)
		} else {
			l = append(l, e.next.Metrics())
		}
		return kit.NextMetrics(fanoutconsumer.NewMetrics(l))
	default:
		var l []xconsumer.Profiles
		for _, s := range sibs {
			l = append(l, s)
		}
		if exporterFirst {
			l = append([]xconsumer.Profiles{e.next.Profiles()}, l...)
		} else {
			l = append(l, e.next.Profiles())
		}
		return kit.NextProfiles(fanoutconsumer.NewProfiles(l))
	}
}

type realCase struct {
	Signal        kit.Signal `json:"signal"`
	Exporter      string     `json:"exporter_config"`
	Capability    string     `json:"explicit_capability_option"`
	Scenario      string     `json:"scenario"`
	Siblings      string     `json:"siblings"` // r = non-mutating, m = mutating, upper case = asynchronous
	ReadOnly      bool       `json:"read_only_input"`
	ExporterFirst bool       `json:"exporter_first"`
	Items         [2]int     `json:"items"`
	Seed          int64      `json:"seed"`
	Problems      []string   `json:"problems,omitempty"`
}

var sibVectors = []string{"r", "m", "rr", "rm", "R", "M", "rR", "Rm"}

func realL1(c *driver.Ctx, sig kit.Signal, kind, scenario, vec string, ro bool, seed int64) {
	c.Eval()
	rng := rand.New(rand.NewSource(seed))
	r1 := kit.NewPayload(sig, kit.Msg{Tag: "real-1"}, rng)
	r2 := kit.NewPayload(sig, kit.Msg{Tag: "real-2"}, rng)
	n1, n2 := r1.Items(), r2.Items()
	w := realCase{Signal: sig, Exporter: kind, Scenario: scenario, Siblings: vec, ReadOnly: ro, ExporterFirst: rng.Intn(2) == 0, Items: [2]int{n1, n2}, Seed: seed}
	capOpt := capOpts[rng.Intn(len(capOpts))]
	w.Capability = capOpt
	sg := []string{"level", "L1", "front", "real-exporter", "signal", string(sig), "exporter", kind, "scenario", scenario, "ro_input", fmt.Sprint(ro), "capopt", capOpt}
	vio := func(sub, what string, extra ...string) {
		w.Problems = append(w.Problems, what)
		c.Violation(sub, what, w, append(append([]string(nil), sg...), extra...)...)
	}
	sk := &sink{}
	e, err := newRealExporter(sig, kind, scenario, capOpt, n1, n2, sk)
	if err != nil {
		vio("real-exporter-build", "exporterhelper refused the configuration: "+err.Error())
		return
	}
	c.Nontrivial("L1-real", sig, kind, scenario, vec, ro, capOpt)
	c.Observe("L1_real_exporter_cases", 1)
	c.Observe("L1_real_exporter_cases:"+kind, 1)
	c.Observe("L1_real_exporter_capability_option:"+capOpt, 1)

	// static oracle: the exporter stage acts on the original payload whenever it batches, whatever its author declared;
	// without batching it mutates nothing, so only an explicit "true" makes it a mutating stage
	declared := e.next.Capabilities().MutatesData
	wantDeclared := batching(kind) || capOpt == "true-before" || capOpt == "true-after"
	staticOK := declared == wantDeclared
	if !staticOK {
		vio("exporter-capability", fmt.Sprintf("%s exporter built with %s (explicit capability option: %s) advertises MutatesData=%v, want %v (its batcher merges / splits the payload it is handed: %v)", sig, kind, capOpt, declared, wantDeclared, batching(kind)), "declared", fmt.Sprint(declared))
	}
	var wg sync.WaitGroup
	var sibs []*sib
	readers := 0
	for i, ch := range vec {
		s := &sib{idx: i, mutates: ch == 'm' || ch == 'M', async: ch == 'R' || ch == 'M', wg: &wg}
		if !s.mutates {
			readers++
		}
		sibs = append(sibs, s)
	}
	// With a wrong capability the exporter shares read-only data with its siblings and its batcher,
	// running on the exporter's own goroutines, panics there: that cannot be recovered per case. The
	// capability violation is recorded above; the dynamic part then runs only where nothing is marked
	// read-only (mutable input and no reader beside the exporter).
	if !staticOK && (ro || readers > 0) {
		c.Observe("L1_real_dynamic_skipped_after_capability_violation", 1)
		return
	}
	if err := e.comp.Start(context.Background(), componenttest.NewNopHost()); err != nil {
		vio("real-exporter-build", "Start failed: "+err.Error())
		return
	}
	f := realFanout(sig, e, sibs, w.ExporterFirst)
	advertised := f.Capabilities().MutatesData
	if ro {
		r1.MarkReadOnly()
		r2.MarkReadOnly()
	}
	sent := [2][]byte{r1.Marshal(), r2.Marshal()}
	var errs [2]error
	var pvs [2]any
	var stacks [2]string
	delivered := false
	stuck := c.Guard(60*time.Second, func() int64 { return sk.calls.Load() + kit.Seq() }, func() {
		var cw sync.WaitGroup
		for i, r := range []kit.Payload{r1, r2} {
			cw.Add(1)
			go func() { // legacy batcher with the queue off waits for the result: the two requests must overlap
				defer cw.Done()
				pvs[i], stacks[i] = driver.Catch(func() { errs[i] = f.Consume(context.Background(), r) })
			}()
			if i == 0 {
				runtime.Gosched()
			}
		}
		cw.Wait()
		for sk.items.Load() < int64(n1+n2) && pvs[0] == nil && pvs[1] == nil && errs[0] == nil && errs[1] == nil {
			time.Sleep(200 * time.Microsecond) // waiting only: flush_timeout releases a remainder
		}
		delivered = sk.items.Load() >= int64(n1+n2)
		_ = e.comp.Shutdown(context.Background())
	})
	wg.Wait()
	if stuck != nil {
		c.Inconclusive("real exporter case did not finish")
		return
	}
	for i := range pvs {
		if pvs[i] != nil {
			vio("fanout-panic", fmt.Sprintf("Consume of request %d panicked: %v", i+1, pvs[i]), "site", driver.PanicSite(stacks[i]))
			return
		}
		if errs[i] != nil {
			vio("error-aggregation", fmt.Sprintf("Consume of request %d returned %v although nobody fails", i+1, errs[i]), "problem", "spurious")
		}
	}
	if !delivered && errs[0] == nil && errs[1] == nil {
		vio("invocation", fmt.Sprintf("the exporter's push function received %d of %d items", sk.items.Load(), n1+n2), "problem", "exporter-items")
	}
	if batching(kind) && sk.calls.Load() != 2 {
		c.Observe("L1_real_merges_or_splits_observed", 1)
	}
	nro := readers
	if !declared {
		nro++
	}
	for _, s := range sibs {
		if len(s.obs) != 2 {
			vio("invocation", fmt.Sprintf("sibling %d was invoked %d times for 2 requests", s.idx, len(s.obs)), "problem", "sibling-calls")
			continue
		}
		for _, o := range s.obs {
			c.Observe("L1_real_sibling_observations", 1)
			r := role2(s)
			if !bytes.Equal(o.atCall, sent[0]) && !bytes.Equal(o.atCall, sent[1]) {
				vio("content-at-call", fmt.Sprintf("sibling %d (%s) received content that is neither of the two requests sent (markers %v)", s.idx, r, kit.MarkersIn(o.atCall)), "consumer", r)
			}
			if o.asyncPanic != "" {
				sub := "mutator-on-readonly"
				if !s.mutates {
					sub = "reader-observes-change"
				}
				vio(sub, fmt.Sprintf("sibling %d (%s) panicked in its asynchronous work: %s", s.idx, r, o.asyncPanic), "consumer", r)
				continue
			}
			end := o.pl.Marshal()
			marks := kit.MarkersIn(end)
			if !s.mutates {
				if !bytes.Equal(end, o.atCall) {
					vio("reader-observes-change", fmt.Sprintf("non-mutating sibling %d of a %s exporter observed a change of its payload (items now %d)", s.idx, kind, o.pl.Items()), "consumer", r)
				}
				if nro >= 2 && !o.ro {
					vio("not-read-only", fmt.Sprintf("payload shared by %d non-mutating consumers was not read-only when sibling %d got it", nro, s.idx), "consumer", r)
				}
				for _, m := range marks {
					vio("marker-crossed", fmt.Sprintf("payload of non-mutating sibling %d carries the marker of %s", s.idx, m), "consumer", r)
				}
			} else {
				if o.ro {
					vio("mutator-on-readonly", fmt.Sprintf("mutating sibling %d was handed read-only data", s.idx), "consumer", r)
				}
				for _, m := range marks {
					if m != s.name() {
						vio("marker-crossed", fmt.Sprintf("payload of mutating sibling %d carries the marker of %s", s.idx, m), "consumer", r)
					}
				}
			}
		}
	}
	for i, r := range []kit.Payload{r1, r2} {
		if end := r.Marshal(); !bytes.Equal(end, sent[i]) && (!advertised || ro) {
			vio("original-changed", fmt.Sprintf("the caller's request %d changed (items %d -> %d) although the fan-out does not advertise MutatesData / the input was read-only (exporter %s declares MutatesData=%v)", i+1, w.Items[i], r.Items(), kind, declared), "advertised", fmt.Sprint(advertised))
		}
	}
}

func role2(s *sib) string {
	r := "reader"
	if s.mutates {
		r = "mutator"
	}
	if s.async {
		r += "-async"
	}
	return r
}

// runL1Real enumerates signal × exporter configuration × scenario × sibling vector × read-only flag.
// Case indices start at 800 M.
func runL1Real(c *driver.Ctx) {
	rounds := int64(c.N(1, 12))
	if c.Variant == "race" {
		rounds = int64(c.N(1, 6))
	}
	g := int64(800_000_000)
	for round := int64(0); round < rounds; round++ {
		for _, sig := range kit.Signals {
			for _, kind := range realKinds {
				for _, scenario := range []string{"merge", "split"} {
					for _, vec := range sibVectors {
						for _, ro := range []bool{false, true} {
							g++
							if !c.Mine(g) {
								continue
							}
							realL1(c, sig, kind, scenario, vec, ro, c.Seed*1000003+g)
						}
					}
				}
			}
		}
	}
}
