// C10 — components start downstream-first, stop upstream-first, each exactly once.
//
// Workload: seeded random valid topologies (kit.GenTopology with unique processor ids per pipeline so
// that an instance key names one instance; kshared multi-signal receivers; 0–4 extensions with a
// random Dependencies() DAG) × a failure set (nothing / 1–2 components failing in Start / 1–3 failing
// in Shutdown / both; victims drawn from all pipeline components, extensions and shared underlying
// components), each run several times through otelcol.NewCollector(...).Run because gonum's
// topological order iterates Go maps; invalid extension declarations (dependency cycle, dependency on
// an extension the service does not list); the real OTLP receiver for 2–4 signals.
//
// Oracle over the global lifecycle log (kit events, one atomic sequence): for every data-flow edge
// u→v computed from the configuration Start-return(v) < Start-call(u) and Shutdown-return(u) <
// Shutdown-call(v); extensions before/after all pipeline components and in dependency order; per created
// instance #Start ≤ 1 and #Shutdown == 1 once Run returned; start-failure and shutdown-failure
// semantics; a shared receiver's underlying component obeys the edge rule for the downstream
// components of all its signals.
package main

import (
	"bytes"
	"fmt"
	"math/rand"
	"net"
	"net/http"
	"sort"
	"strings"
	"time"

	"go.opentelemetry.io/collector/pdata/plog/plogotlp"
	"go.opentelemetry.io/collector/pdata/pmetric/pmetricotlp"
	"go.opentelemetry.io/collector/pdata/ptrace/ptraceotlp"
	"go.opentelemetry.io/collector/receiver"
	"go.opentelemetry.io/collector/receiver/otlpreceiver"
	"go.opentelemetry.io/collector/verifharness/lib/driver"
	"go.opentelemetry.io/collector/verifharness/lib/kit"
)

// ---- lifecycle index ---------------------------------------------------------------------------------

type life struct {
	key                                    string
	inst                                   int
	created                                bool
	startCall, startRet, stopCall, stopRet []kit.Event
}

type instKey struct {
	key  string
	inst int
}

func index(evs []kit.Event) (map[instKey]*life, []instKey) {
	m := map[instKey]*life{}
	var order []instKey
	for _, e := range evs {
		if e.Type == kit.EvLog {
			continue
		}
		k := instKey{e.Key, e.Inst}
		l := m[k]
		if l == nil {
			l = &life{key: e.Key, inst: e.Inst}
			m[k] = l
			order = append(order, k)
		}
		switch e.Type {
		case kit.EvCreate:
			l.created = true
		case kit.EvStartCall:
			l.startCall = append(l.startCall, e)
		case kit.EvStartReturn:
			l.startRet = append(l.startRet, e)
		case kit.EvShutdownCall:
			l.stopCall = append(l.stopCall, e)
		case kit.EvShutdownReturn:
			l.stopRet = append(l.stopRet, e)
		}
	}
	return m, order
}

// byKey maps a key to its single instance; keys with several instances are returned in ambiguous.
func byKey(m map[instKey]*life) (map[string]*life, map[string]bool) {
	out, amb := map[string]*life{}, map[string]bool{}
	for k, l := range m {
		if _, dup := out[k.key]; dup {
			amb[k.key] = true
		}
		out[k.key] = l
	}
	return out, amb
}

func orderSignature(evs []kit.Event) string {
	var b strings.Builder
	for _, e := range evs {
		if e.Type == kit.EvStartCall || e.Type == kit.EvShutdownCall {
			b.WriteString(string(e.Type[:2]) + e.Key + ";")
		}
	}
	return b.String()
}

func evStrings(evs []kit.Event) []string {
	var out []string
	for _, e := range evs {
		if e.Type == kit.EvCreate {
			continue
		}
		out = append(out, fmt.Sprintf("%d %s", e.Seq, e.String()))
		if len(out) > 120 {
			out = append(out, "…")
			break
		}
	}
	return out
}

// ---- one configuration, several runs -----------------------------------------------------------------

type caseSpec struct {
	Class     string        `json:"class"`
	Topo      *kit.Topology `json:"-"`
	YAML      string        `json:"yaml"`
	FailStart []string      `json:"fail_start,omitempty"`
	FailStop  []string      `json:"fail_shutdown,omitempty"`
}

type witness struct {
	caseSpec
	Run    int      `json:"run"`
	RunErr string   `json:"run_error,omitempty"`
	Events []string `json:"events"`
	Detail string   `json:"detail,omitempty"`
}

func startErr(key string) error { return fmt.Errorf("kit-startfail(%s)", key) }
func stopErr(key string) error  { return fmt.Errorf("kit-stopfail(%s)", key) }

type runResult struct {
	running bool
	runErr  error
	evs     []kit.Event
}

// oneRun executes one collector lifetime of the case under Guard. ok=false: inconclusive / violation
// already recorded.
func oneRun(c *driver.Ctx, env *kit.Env, cs *caseSpec, during func(run *kit.Running)) (res runResult, ok bool) {
	env.Reset()
	for _, k := range cs.FailStart {
		env.FailStart(k, startErr(k))
	}
	for _, k := range cs.FailStop {
		env.FailShutdown(k, stopErr(k))
	}
	var pv any
	var pstack string
	var launchErr error
	stuck := c.Guard(60*time.Second, kit.Seq, func() {
		pv, pstack = driver.Catch(func() {
			run, err := env.Launch(cs.YAML)
			if err != nil {
				launchErr = err
				return
			}
			res.running = run.AwaitRunning()
			if !res.running {
				res.runErr = run.Wait()
				return
			}
			if during != nil {
				during(run)
			}
			res.runErr = run.Stop()
		})
	})
	res.evs = env.Events()
	c.Observe("collector_lifetimes", 1)
	c.Observe("lifecycle_events", int64(len(res.evs)))
	w := witness{caseSpec: *cs, Events: evStrings(res.evs)}
	switch {
	case stuck != nil:
		c.Inconclusive("collector run did not finish")
		c.Note("stuck: class=%s frames=%v", cs.Class, stuck.RepoFrames)
		return res, false
	case pv != nil:
		pv, pstack = kit.UnwrapPanic(pv, pstack)
		w.Detail = fmt.Sprintf("panic: %v\n%s", pv, pstack)
		c.Violation("panic", fmt.Sprintf("panic during a collector lifetime (%s): %v", cs.Class, pv), w, "site", driver.PanicSite(pstack))
		return res, false
	case launchErr != nil:
		c.Violation("launch", "otelcol.NewCollector failed: "+launchErr.Error(), w, "class", cs.Class)
		return res, false
	}
	return res, true
}

func kinds(a, b string) (string, string) { return kit.KeyKind(a), kit.KeyKind(b) }

// checkRun applies the oracle to one finished run of a valid configuration. ignore lists keys that
// are not kit components (the real OTLP receiver).
func checkRun(c *driver.Ctx, cs *caseSpec, runNo int, res runResult, phase string, externalStartFailure ...bool) {
	extFail := len(externalStartFailure) > 0 && externalStartFailure[0]
	t := cs.Topo
	w := witness{caseSpec: *cs, Run: runNo, Events: evStrings(res.evs)}
	if res.runErr != nil {
		w.RunErr = res.runErr.Error()
	}
	vio := func(sub, what string, sig ...string) {
		c.Violation(sub, what, w, append(sig, "failures", phase)...)
	}
	lives, _ := index(res.evs)
	// an extension id listed several times under service::extensions is ONE component of the service:
	// its instances (the factory may be asked once per listing) are judged together
	repeated := t.RepeatedExtensionIDs()
	for id, listings := range repeated {
		k := kit.ExtKey(id)
		merged := &life{key: k}
		n := 0
		for ik, l := range lives {
			if ik.key != k {
				continue
			}
			n++
			merged.created = merged.created || l.created
			merged.startCall = append(merged.startCall, l.startCall...)
			merged.startRet = append(merged.startRet, l.startRet...)
			merged.stopCall = append(merged.stopCall, l.stopCall...)
			merged.stopRet = append(merged.stopRet, l.stopRet...)
			if len(l.startCall) == 0 && len(l.stopCall) == 0 {
				c.Observe("repeated_extension_instances_created_and_discarded", 1)
			}
			delete(lives, ik)
		}
		for _, l := range []*[]kit.Event{&merged.startCall, &merged.startRet, &merged.stopCall, &merged.stopRet} {
			sort.Slice(*l, func(i, j int) bool { return (*l)[i].Seq < (*l)[j].Seq })
		}
		c.Observe("repeated_extension_ids_checked", 1)
		if n == 0 || n > listings {
			vio("creates", fmt.Sprintf("%s is listed %d times under service::extensions and was created %d times", k, listings, n), "kind", "extension")
		}
		if n > 0 {
			lives[instKey{k, 0}] = merged
		}
	}
	lk, amb := byKey(lives)
	flow := t.Flow()

	// created == configured
	want := t.ExpectedCreates()
	for k, n := range want {
		if strings.Contains(k, ":otlp") {
			continue
		}
		got := 0
		for ik, l := range lives {
			if ik.key == k && l.created {
				got++
			}
		}
		if kit.KeyKind(k) == "extension" && repeated[strings.TrimPrefix(k, "extension:")] > 0 {
			continue // judged above
		}
		if got != n {
			vio("creates", fmt.Sprintf("%s created %d times, configuration calls for %d", k, got, n), "kind", kit.KeyKind(k))
		}
	}
	c.Observe("instances_checked", int64(len(lives)))

	// exactly once
	var startFailed []kit.Event // start-returns with an error, in order
	for ik, l := range lives {
		if len(l.startCall) > 1 {
			vio("exactly-once", fmt.Sprintf("%s#%d was started %d times", ik.key, ik.inst, len(l.startCall)), "kind", kit.KeyKind(ik.key), "problem", "started-more-than-once")
		}
		if len(l.stopCall) != 1 {
			p := "never-shut-down"
			if len(l.stopCall) > 1 {
				p = "shut-down-more-than-once"
			}
			vio("exactly-once", fmt.Sprintf("%s#%d was shut down %d times in one service lifetime (started %d times)", ik.key, ik.inst, len(l.stopCall), len(l.startCall)), "kind", kit.KeyKind(ik.key), "problem", p)
		}
		for _, e := range l.startRet {
			if e.Err != "" {
				startFailed = append(startFailed, e)
			}
		}
	}
	sort.Slice(startFailed, func(i, j int) bool { return startFailed[i].Seq < startFailed[j].Seq })

	started := func(k string) *kit.Event {
		if l := lk[k]; l != nil && len(l.startCall) > 0 {
			return &l.startCall[0]
		}
		return nil
	}
	startDone := func(k string) *kit.Event { // successful or not, the return of Start
		if l := lk[k]; l != nil && len(l.startRet) > 0 {
			return &l.startRet[0]
		}
		return nil
	}
	stopCall := func(k string) *kit.Event {
		if l := lk[k]; l != nil && len(l.stopCall) > 0 {
			return &l.stopCall[0]
		}
		return nil
	}
	stopDone := func(k string) *kit.Event {
		if l := lk[k]; l != nil && len(l.stopRet) > 0 {
			return &l.stopRet[0]
		}
		return nil
	}

	// data-flow edges
	edges := 0
	for _, e := range flow.Edges {
		if amb[e.From] || amb[e.To] || strings.Contains(e.From, ":otlp") {
			continue
		}
		edges++
		fk, tk := kinds(e.From, e.To)
		if su := started(e.From); su != nil {
			sv := startDone(e.To)
			if sv == nil || sv.Seq > su.Seq {
				vio("start-order", fmt.Sprintf("%s was started (seq %d) before its downstream %s had started (%v)", e.From, su.Seq, e.To, seqOf(sv)), "from", fk, "to", tk)
			} else if sv.Err != "" {
				vio("start-failure", fmt.Sprintf("%s was started although its downstream %s had failed to start", e.From, e.To), "rule", "started-after-failure")
			}
		}
		tu, tv := stopDone(e.From), stopCall(e.To)
		if tu != nil && tv != nil && tu.Seq > tv.Seq {
			vio("shutdown-order", fmt.Sprintf("%s was shut down (seq %d) before its upstream %s had been shut down (seq %d)", e.To, tv.Seq, e.From, tu.Seq), "from", fk, "to", tk)
		}
	}
	c.Observe("edges_checked", int64(edges))

	// shared receivers: the underlying component obeys the edge rule for all its signals
	for sk, instKeys := range flow.Shared {
		su := started(sk)
		tu := stopDone(sk)
		for _, ik := range instKeys {
			for _, v := range flow.Downstream(ik) {
				c.Observe("shared_underlying_edges_checked", 1)
				if su != nil {
					sv := startDone(v)
					if sv == nil || sv.Seq > su.Seq {
						vio("shared-underlying-order", fmt.Sprintf("the single underlying component %s of a multi-signal receiver was started (seq %d) before %s, downstream of its instance %s, had started (%v)", sk, su.Seq, v, ik, seqOf(sv)),
							"recv", "kit-shared", "phase", "start")
					}
				}
				if tv := stopCall(v); tu != nil && tv != nil && tu.Seq > tv.Seq {
					vio("shared-underlying-order", fmt.Sprintf("%s, downstream of %s, was shut down (seq %d) before the shared underlying component %s (seq %d)", v, ik, tv.Seq, sk, tu.Seq),
						"recv", "kit-shared", "phase", "shutdown")
				}
			}
		}
	}

	// extensions: dependency order, before / after every pipeline component
	deps := t.ExtDeps()
	var firstPipeStart, lastPipeStop *kit.Event
	for i := range res.evs {
		e := &res.evs[i]
		k := kit.KeyKind(e.Key)
		if k == "extension" || e.Type == kit.EvLog {
			continue
		}
		if e.Type == kit.EvStartCall && firstPipeStart == nil {
			firstPipeStart = e
		}
		if e.Type == kit.EvShutdownReturn {
			lastPipeStop = e
		}
	}
	for ek, ds := range deps {
		c.Observe("extension_instances_checked", 1)
		se, te := started(ek), stopCall(ek)
		if se != nil && firstPipeStart != nil && startDone(ek) != nil && startDone(ek).Seq > firstPipeStart.Seq {
			vio("extension-order", fmt.Sprintf("%s finished starting (seq %d) after pipeline component %s was started (seq %d)", ek, startDone(ek).Seq, firstPipeStart.Key, firstPipeStart.Seq), "rule", "extension-start-before-pipelines")
		}
		if se == nil && firstPipeStart != nil && len(startFailed) == 0 {
			vio("extension-order", fmt.Sprintf("%s was never started although pipelines were", ek), "rule", "extension-not-started")
		}
		if te != nil && lastPipeStop != nil && te.Seq < lastPipeStop.Seq {
			vio("extension-order", fmt.Sprintf("%s was shut down (seq %d) before pipeline component %s had been shut down (seq %d)", ek, te.Seq, lastPipeStop.Key, lastPipeStop.Seq), "rule", "extension-shutdown-after-pipelines")
		}
		for _, d := range ds {
			c.Observe("extension_dependency_edges_checked", 1)
			if se != nil {
				sd := startDone(d)
				if sd == nil || sd.Seq > se.Seq {
					vio("extension-order", fmt.Sprintf("%s was started before its dependency %s (%v)", ek, d, seqOf(sd)), "rule", "dependency-start")
				}
			}
			td := stopCall(d)
			if te != nil && td != nil && stopDone(ek) != nil && stopDone(ek).Seq > td.Seq {
				vio("extension-order", fmt.Sprintf("%s was shut down after its dependency %s", ek, d), "rule", "dependency-shutdown")
			}
		}
	}

	// start failure: that error is returned, nothing is started afterwards, everything is shut down
	if len(startFailed) > 0 {
		c.Observe("runs_with_start_failure", 1)
		f := startFailed[0]
		if res.runErr == nil || !strings.Contains(res.runErr.Error(), f.Err) {
			vio("start-failure", fmt.Sprintf("Start of %s failed with %q but Run returned %v", f.Key, f.Err, res.runErr), "rule", "error-not-returned")
		}
		for _, e := range res.evs {
			if e.Type == kit.EvStartCall && e.Seq > f.Seq {
				vio("start-failure", fmt.Sprintf("%s was started (seq %d) after Start of %s had failed (seq %d)", e.Key, e.Seq, f.Key, f.Seq), "rule", "started-after-failure")
				break
			}
		}
		if res.running {
			vio("start-failure", "the collector reached Running although a component failed to start", "rule", "running-after-failure")
		}
	} else if !extFail {
		if len(cs.FailStart) > 0 {
			vio("start-failure", fmt.Sprintf("components %v are set to fail in Start but no Start failed: they were never started", cs.FailStart), "rule", "victim-never-started")
		}
		if !res.running {
			vio("start-failure", fmt.Sprintf("no component failed to start but the collector did not reach Running: %v", res.runErr), "rule", "spurious-abort")
		}
		// a complete start: every created pipeline component and extension was started exactly once
		for ik, l := range lives {
			if len(l.startCall) == 0 {
				vio("exactly-once", fmt.Sprintf("%s#%d was started %d times in a service that started successfully", ik.key, ik.inst, len(l.startCall)), "kind", kit.KeyKind(ik.key), "problem", "not-started")
			}
		}
	}
	// shutdown failures are reported and do not stop the remaining shutdowns (exactly-once above)
	nStopFail := 0
	for _, l := range lives {
		for _, e := range l.stopRet {
			if e.Err == "" {
				continue
			}
			nStopFail++
			if res.runErr == nil || !strings.Contains(res.runErr.Error(), e.Err) {
				vio("shutdown-failure", fmt.Sprintf("Shutdown of %s failed with %q but Run returned %v", e.Key, e.Err, res.runErr), "rule", "error-lost", "kind", kit.KeyKind(e.Key))
			}
		}
	}
	if nStopFail > 0 {
		c.Observe("runs_with_shutdown_failure", 1)
	}
	if len(startFailed) == 0 && nStopFail == 0 && res.runErr != nil && !extFail {
		vio("run-error", "Run returned an error although nothing failed: "+res.runErr.Error(), "rule", "spurious-error")
	}
}

func seqOf(e *kit.Event) string {
	if e == nil {
		return "never"
	}
	return fmt.Sprintf("seq %d", e.Seq)
}

func runTopology(c *driver.Ctx, cs *caseSpec, repeats int, phase string) {
	env := kit.NewEnv(kit.Options{})
	orders := map[string]bool{}
	canon := cs.Topo.Canonical()
	for r := 0; r < repeats; r++ {
		c.Eval()
		res, ok := oneRun(c, env, cs, nil)
		if !ok {
			return
		}
		checkRun(c, cs, r, res, phase)
		sig := orderSignature(res.evs)
		orders[sig] = true
		c.Nontrivial(canon, cs.FailStart, cs.FailStop, sig)
		c.Distinct("event_orders", sig)
	}
	c.Distinct("topologies", canon)
	if len(orders) > 1 && len(cs.Topo.Flow().Shared) > 0 {
		var o []string
		for k := range orders {
			o = append(o, k)
		}
		sort.Strings(o)
		c.Sample(map[string]any{"topology": cs.Topo.Describe(), "fail_start": cs.FailStart, "fail_shutdown": cs.FailStop, "distinct_call_orders_in_repeats": o})
	}
	if len(orders) > 1 {
		c.Observe("configs_with_several_observed_orders", 1)
	}
	c.Observe("configs_run", 1)
}

// ---- invalid extension declarations --------------------------------------------------------------------

func runInvalidExtensions(c *driver.Ctx, rng *rand.Rand) {
	t := kit.GenTopology(rng, kit.GenOptions{MaxPipelines: 2, UniqueProcessors: true})
	n := 2 + rng.Intn(4)
	var ids []string
	for i := 0; i < n; i++ {
		ids = append(ids, fmt.Sprintf("kext/e%d", i))
	}
	deps := map[string][]string{}
	for i := 1; i < n; i++ {
		for j := 0; j < i; j++ {
			if rng.Intn(3) == 0 {
				deps[ids[i]] = append(deps[ids[i]], ids[j])
			}
		}
	}
	class := "ext-cycle"
	listed := append([]string(nil), ids...)
	if rng.Intn(3) == 0 {
		class = "ext-missing-dep"
		// depend on an extension that is configured but not listed in service::extensions
		v := rng.Intn(n)
		m := (v + 1 + rng.Intn(n-1)) % n
		deps[ids[v]] = append(deps[ids[v]], ids[m])
		listed = append(listed[:m:m], listed[m+1:]...)
		for id := range deps { // nobody else may reference the unlisted one except v
			if id == ids[m] {
				delete(deps, id)
			}
		}
	} else {
		// close a dependency cycle of length 2..n
		k := 2 + rng.Intn(n-1)
		perm := rng.Perm(n)[:k]
		for i := range perm {
			a, b := ids[perm[i]], ids[perm[(i+1)%k]]
			deps[a] = append(deps[a], b)
		}
	}
	for _, id := range ids {
		if len(deps[id]) > 0 {
			t.Extensions[id] = map[string]any{"deps": deps[id]}
		} else {
			t.Extensions[id] = nil
		}
	}
	rng.Shuffle(len(listed), func(i, j int) { listed[i], listed[j] = listed[j], listed[i] })
	t.ServiceExtensions = listed
	v := t.Validate()
	cs := &caseSpec{Class: class, Topo: t, YAML: t.YAML()}
	env := kit.NewEnv(kit.Options{})
	c.Eval()
	res, ok := oneRun(c, env, cs, nil)
	if !ok {
		return
	}
	w := witness{caseSpec: *cs, Events: evStrings(res.evs)}
	if res.runErr != nil {
		w.RunErr = res.runErr.Error()
	}
	reasons := strings.Join(v.Reasons, "+")
	c.Nontrivial(t.Canonical(), class)
	c.Observe("invalid_extension_configs:"+reasons, 1)
	if v.Valid {
		c.Note("invalid-extension generator produced a valid configuration (%s)", class)
		return
	}
	if res.running || res.runErr == nil {
		c.Violation("invalid-accepted", fmt.Sprintf("extension declarations the reference model rejects (%s) were accepted", reasons), w, "reasons", reasons)
		return
	}
	if st := kit.StartedKeys(res.evs); len(st) > 0 {
		c.Violation("started-despite-rejection", fmt.Sprintf("Run returned an error (%s) but %s was started first", reasons, st[0]), w, "reasons", reasons)
	}
	if class == "ext-cycle" && !strings.Contains(res.runErr.Error(), "cycle") {
		c.Violation("cycle-message", "extension dependency cycle rejected with a message that does not mention a cycle: "+res.runErr.Error(), w, "reasons", reasons)
	}
}

// ---- the real OTLP receiver --------------------------------------------------------------------------

func freePort() (int, error) {
	l, err := net.Listen("tcp", "127.0.0.1:0")
	if err != nil {
		return 0, err
	}
	defer l.Close()
	return l.Addr().(*net.TCPAddr).Port, nil
}

func dialable(port int) bool {
	conn, err := net.DialTimeout("tcp", fmt.Sprintf("127.0.0.1:%d", port), 2*time.Second)
	if err != nil {
		return false
	}
	conn.Close()
	return true
}

func post(port int, path string, body []byte) error {
	resp, err := http.Post(fmt.Sprintf("http://127.0.0.1:%d%s", port, path), "application/x-protobuf", bytes.NewReader(body))
	if err != nil {
		return err
	}
	defer resp.Body.Close()
	if resp.StatusCode != 200 {
		return fmt.Errorf("status %d", resp.StatusCode)
	}
	return nil
}

const otlpStartMsg = "Starting HTTP server"

// otlpCase: the OTLP receiver (HTTP protocol) in 2–3 signals, each pipeline with its own processors
// and exporter. Observations: the service log line "Starting HTTP server" (tapped into the event log)
// is the moment the single underlying server starts; the port accepts connections while Running and
// data posted for every signal reaches that signal's exporter; the port is closed after Run returned.
// Returns true when the C10-a order violation was observed.
func otlpCase(c *driver.Ctx, rng *rand.Rand, directed bool) bool {
	port, err := freePort()
	if err != nil {
		c.Inconclusive("no free port")
		return false
	}
	// one case in four: the port is held by the harness, so the real receiver's Start fails
	var holder net.Listener
	if !directed && rng.Intn(4) == 0 {
		if holder, err = net.Listen("tcp", fmt.Sprintf("127.0.0.1:%d", port)); err != nil {
			c.Inconclusive("port taken by another process")
			return false
		}
		defer holder.Close()
	}
	sigs := []kit.Signal{kit.Logs, kit.Traces, kit.Metrics}
	rng.Shuffle(3, func(i, j int) { sigs[i], sigs[j] = sigs[j], sigs[i] })
	sigs = sigs[:2+rng.Intn(2)]
	t := kit.NewTopology()
	t.Receivers["otlp"] = map[string]any{"protocols": map[string]any{"http": map[string]any{"endpoint": fmt.Sprintf("127.0.0.1:%d", port)}}}
	t.Exporters["kexp/1"] = nil
	for i, s := range sigs {
		p := kit.Pipeline{Signal: s, Name: fmt.Sprintf("p%d", i), Receivers: []string{"otlp"}, Exporters: []string{"kexp/1"}}
		for k, n := 0, 1+rng.Intn(2); k < n; k++ {
			id := fmt.Sprintf("kproc/p%d_%d", i, k)
			p.Processors = append(p.Processors, id)
			t.Processors[id] = nil
		}
		t.Pipelines = append(t.Pipelines, p)
	}
	cs := &caseSpec{Class: "otlp", Topo: t, YAML: t.YAML()}
	env := kit.NewEnv(kit.Options{ExtraReceivers: []receiver.Factory{otlpreceiver.NewFactory()}})
	env.TapLogs(func(m string) bool { return m == otlpStartMsg })
	var listening bool
	var postErrs []string
	c.Eval()
	res, ok := oneRun(c, env, cs, func(run *kit.Running) {
		listening = dialable(port)
		if directed {
			return
		}
		for _, s := range sigs {
			pl := kit.NewPayload(s, kit.Msg{Tag: "otlp-" + string(s)}, nil)
			var body []byte
			var path string
			var err error
			switch s {
			case kit.Logs:
				body, err = plogotlp.NewExportRequestFromLogs(pl.Logs()).MarshalProto()
				path = "/v1/logs"
			case kit.Traces:
				body, err = ptraceotlp.NewExportRequestFromTraces(pl.Traces()).MarshalProto()
				path = "/v1/traces"
			default:
				body, err = pmetricotlp.NewExportRequestFromMetrics(pl.Metrics()).MarshalProto()
				path = "/v1/metrics"
			}
			if err == nil {
				err = post(port, path, body)
			}
			if err != nil {
				postErrs = append(postErrs, fmt.Sprintf("%s: %v", s, err))
			}
		}
	})
	if !ok {
		return false
	}
	w := witness{caseSpec: *cs, Events: evStrings(res.evs)}
	if res.runErr != nil {
		w.RunErr = res.runErr.Error()
	}
	var starts []kit.Event
	for _, e := range res.evs {
		if e.Type == kit.EvLog && e.Msg == otlpStartMsg {
			starts = append(starts, e)
		}
	}
	c.Observe("otlp_lifetimes", 1)
	if holder != nil {
		// start failure of a real component: the error is returned, no kit component is started after
		// the failing Start, everything is shut down exactly once
		c.Observe("otlp_start_failures_injected", 1)
		c.Nontrivial(t.Canonical(), "otlp-port-held", orderSignature(res.evs))
		if res.running || res.runErr == nil || !strings.Contains(res.runErr.Error(), "address already in use") {
			c.Violation("start-failure", fmt.Sprintf("the OTLP receiver could not bind its port but Run returned %v (running=%v)", res.runErr, res.running), w, "rule", "error-not-returned", "failures", "otlp-port-held")
		}
		if len(starts) > 0 {
			for _, e := range res.evs {
				if e.Type == kit.EvStartCall && e.Seq > starts[len(starts)-1].Seq {
					c.Violation("start-failure", fmt.Sprintf("%s was started (seq %d) after Start of the OTLP receiver had failed (server start attempt at seq %d)", e.Key, e.Seq, starts[len(starts)-1].Seq), w, "rule", "started-after-failure", "failures", "otlp-port-held")
					break
				}
			}
		}
		checkRun(c, cs, 0, res, "otlp-port-held", true)
		return false
	}
	if !res.running {
		if len(starts) <= 1 && res.runErr != nil && strings.Contains(res.runErr.Error(), "address already in use") {
			c.Inconclusive("port taken by another process")
			return false
		}
		c.Violation("shared-otlp", fmt.Sprintf("OTLP receiver for %v did not start: %v (server start lines: %d)", sigs, res.runErr, len(starts)), w, "rule", "start-failed")
		return false
	}
	c.Nontrivial(t.Canonical(), "otlp", orderSignature(res.evs))
	c.Distinct("event_orders", orderSignature(res.evs))
	if len(starts) != 1 {
		c.Violation("shared-otlp", fmt.Sprintf("the OTLP receiver shared by %d signals started its HTTP server %d times", len(sigs), len(starts)), w, "rule", "underlying-start-count")
	}
	if !listening {
		c.Violation("shared-otlp", "the OTLP receiver's port does not accept connections while the collector is Running", w, "rule", "not-listening")
	}
	if dialable(port) {
		c.Violation("shared-otlp", "the OTLP receiver's port still accepts connections after Run returned", w, "rule", "still-listening")
	}
	if res.runErr != nil {
		c.Violation("run-error", "Run returned an error although nothing failed: "+res.runErr.Error(), w, "rule", "spurious-error", "failures", "none")
	}
	if !directed {
		if len(postErrs) > 0 {
			c.Violation("shared-otlp", "posting to the shared OTLP server failed: "+strings.Join(postErrs, "; "), w, "rule", "post-failed")
		}
		got := map[string]bool{}
		for _, d := range env.Deliveries() {
			got[d.Exporter+"<="+d.Tag] = true
		}
		for _, s := range sigs {
			if !got[kit.ExpKey(s, "kexp/1")+"<=otlp-"+string(s)] {
				c.Violation("shared-otlp", fmt.Sprintf("data posted for %s to the shared OTLP server did not reach the %s exporter", s, s), w, "rule", "not-delivered")
			}
		}
		c.Observe("otlp_signals_served", int64(len(sigs)))
	}
	// kit components of the case obey the instance-level rules
	checkRun(c, cs, 0, res, "none")
	// the underlying server obeys the edge rule for the downstream of all its signals
	hit := false
	if len(starts) >= 1 {
		lives, _ := index(res.evs)
		lk, _ := byKey(lives)
		for _, p := range t.Pipelines {
			v := kit.ProcKey(p.Signal, p.Processors[0])
			c.Observe("shared_underlying_edges_checked", 1)
			l := lk[v]
			if l == nil || len(l.startRet) == 0 || l.startRet[0].Seq > starts[0].Seq {
				hit = true
				c.Violation("shared-underlying-order", fmt.Sprintf("the OTLP receiver started its single HTTP server (seq %d) before %s, downstream of its %s instance, had started", starts[0].Seq, v, p.Signal), w,
					"recv", "otlp", "phase", "start", "failures", "none")
			}
		}
	}
	return hit
}

// ---- directed reproducer of C10-a ------------------------------------------------------------------

func reproduceC10a(c *driver.Ctx) {
	t := kit.NewTopology()
	t.Receivers["kshared/1"] = nil
	t.Exporters["kexp/1"] = nil
	for i, s := range []kit.Signal{kit.Logs, kit.Traces} {
		id := fmt.Sprintf("kproc/p%d_0", i)
		t.Processors[id] = nil
		t.Pipelines = append(t.Pipelines, kit.Pipeline{Signal: s, Name: fmt.Sprintf("p%d", i), Receivers: []string{"kshared/1"}, Processors: []string{id}, Exporters: []string{"kexp/1"}})
	}
	cs := &caseSpec{Class: "directed-C10-a", Topo: t, YAML: t.YAML()}
	env := kit.NewEnv(kit.Options{})
	const tries = 80
	found := 0
	for i := 0; i < tries && found == 0; i++ {
		c.Eval()
		res, ok := oneRun(c, env, cs, nil)
		if !ok {
			return
		}
		before := c.NViolations()
		checkRun(c, cs, i, res, "none")
		c.Nontrivial(t.Canonical(), "directed", orderSignature(res.evs))
		c.Observe("c10a_kit_reproducer_runs", 1)
		if c.NViolations() > before {
			found = i + 1
		}
	}
	if found == 0 {
		c.Note("C10-a (kit shared receiver) not reproduced in %d directed runs: repaired?", tries)
	} else {
		c.Observe("c10a_kit_reproduced_at_run", int64(found))
	}
	rng := rand.New(rand.NewSource(c.Seed))
	hit := false
	n := 0
	for i := 0; i < tries && !hit; i++ {
		hit = otlpCase(c, rng, true)
		n++
	}
	c.Observe("c10a_otlp_reproducer_runs", int64(n))
	if !hit {
		c.Note("C10-a (real OTLP receiver) not reproduced in %d directed runs: repaired?", tries)
	}
}

// ---- driver ----------------------------------------------------------------------------------------

func run(c *driver.Ctx) {
	n := int64(c.N(220, 13000)) // configurations per shard
	repeats := c.N(3, 5)
	if c.Variant == "race" {
		n = int64(c.N(80, 2000))
	}
	for i := int64(0); i < n; i++ {
		if !c.Want(i) {
			continue
		}
		rng := c.CaseRand(i)
		if i == 0 {
			if c.Shard == 0 {
				reproduceC10a(c)
			}
			continue
		}
		switch {
		case i%16 == 5:
			runInvalidExtensions(c, rng)
			continue
		case i%16 == 11:
			otlpCase(c, rng, false)
			continue
		}
		t := kit.GenTopology(rng, kit.GenOptions{
			UniqueProcessors: true, SharedReceivers: rng.Intn(2) == 0, MaxExtensions: 4, MaxPipelines: 5,
			ConnModes: rng.Intn(2) == 0, CaseTwins: rng.Intn(5) == 0, RepeatedExtensions: rng.Intn(3) == 0,
		})
		cs := &caseSpec{Class: "random", Topo: t, YAML: t.YAML()}
		flow := t.Flow()
		var cand []string
		cand = append(cand, flow.Nodes...)
		for k := range t.ExtDeps() {
			cand = append(cand, k)
		}
		for k := range flow.Shared {
			cand = append(cand, k)
		}
		sort.Strings(cand)
		phase := []string{"none", "start", "shutdown", "start+shutdown"}[rng.Intn(4)]
		pickN := func(max int) []string {
			var out []string
			for _, j := range rng.Perm(len(cand))[:min(len(cand), 1+rng.Intn(max))] {
				out = append(out, cand[j])
			}
			sort.Strings(out)
			return out
		}
		if strings.Contains(phase, "start") {
			cs.FailStart = pickN(2)
		}
		if strings.Contains(phase, "shutdown") {
			cs.FailStop = pickN(3)
		}
		runTopology(c, cs, repeats, phase)
	}
}

func main() {
	driver.Main(driver.Spec{
		ID:    "C10",
		Level: "exploration",
		Rule: "a case is one collector lifetime of a seeded random valid configuration (1–5 pipelines over the 4 signals, unique processor ids per pipeline, kshared multi-signal receivers, connectors, 0–4 extensions with a random Dependencies() DAG) with a failure set (none / 1–2 Start victims / 1–3 Shutdown victims / both), each configuration run 3 (quick) or 5 (thorough) times; plus extension declarations the service must reject and the real OTLP receiver for 2–3 signals; " +
			"distinct = (canonical configuration, failure set, observed order of Start/Shutdown calls); every case is non-trivial (≥ 1 data-flow edge is checked in each)",
		Assumptions: []string{
			"data-flow edges, extension dependencies and expected instances are computed from the configuration alone (lib/kit/oracle.go)",
			"the moment the real OTLP receiver starts its single server is taken from its own log line \"Starting HTTP server\", tapped from the service logger into the event log",
			"an extension depending on itself is not generated",
		},
		TrustedBase: []string{"lib/kit test components and reference model", "receiver/otlpreceiver's log line as start marker"},
		Shards:      func(string) int { return 16 },
		Variants:    func(string) []string { return []string{"race", "plain"} },
		MinNontrivial: func(tier string) int {
			if tier == "thorough" {
				return 20000
			}
			return 1500
		},
		ShardTimeout: func(tier string) time.Duration {
			if tier == "thorough" {
				return 90 * time.Minute
			}
			return 8 * time.Minute
		},
		Run:        run,
		MaxSamples: 2,
	})
}
