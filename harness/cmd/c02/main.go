// C02 — sending queue: exactly-once hand-off, FIFO, bounded size, no lost wake-ups.
//
// L1: scripted operations (offer / complete / cancel) issued one at a time against the real exporter
// helper (memory and persistent queue, the three real sizers, block_on_overflow, wait_for_result) and
// compared after every step with an exact reference model; instrumented contexts report when a
// producer parks inside the queue. L2: concurrent producers / consumers / cancellers under the race
// detector, offline checkers over the recorded history (exactly-once, never-for-refused, real-time
// FIFO, size bounds, own outcome, bounded progress with a stuck classifier) and porcupine
// linearizability of the non-blocking memory queue's accounting.
package main

import (
	"time"

	"go.opentelemetry.io/collector/verifharness/lib/driver"
)

func run(c *driver.Ctx) {
	settleWaitNs.Store(int64(3 * time.Second))
	n1 := int64(c.N(150, 2500))
	n2 := int64(c.N(40, 700))
	nd := int64(c.N(40, 600))
	n3 := int64(c.N(6, 60))
	nr := int64(c.N(60, 900))
	if c.Variant == "race" {
		n1 = int64(c.N(40, 500))
		n2 = int64(c.N(30, 500))
		nd = int64(c.N(20, 300))
		n3 = int64(c.N(3, 20))
		nr = int64(c.N(30, 400))
	}
	for i := int64(0); i < n1+nd+n2+n3+nr; i++ {
		if !c.Want(i) {
			continue
		}
		if c.NViolations() >= 12 || c.TotalViolations() >= 8 || abandonedRigs.Load() >= 6 {
			break
		}
		rng := c.CaseRand(i)
		c.Eval()
		switch {
		case i < n1 && i%16 == 7:
			runShutdownWindow(c, rng, i)
		case i < n1:
			runL1(c, rng, i)
			c.Observe("l1_scripts", 1)
		case i < n1+nd:
			runDirected(c, rng, i-n1)
			c.Observe("l1_directed_rendezvous", 1)
		case i < n1+nd+n2:
			runL2(c, rng, i-n1-nd)
			c.Observe("l2_histories", 1)
		case i < n1+nd+n2+n3:
			runStress(c, rng, i-n1-nd-n2)
			c.Observe("l3_stress_histories", 1)
		default:
			runRecovered(c, rng, i-n1-nd-n2-n3)
			c.Observe("l1_recovered_backlogs", 1)
		}
	}
}

func main() {
	driver.Main(driver.Spec{
		ID:    "C02",
		Level: "exploration",
		Rule: "L1: a case is a seed-generated script of offer / complete / cancel steps on a seed-generated configuration (memory|persistent, requests|items|bytes sizer, capacity, 1-3 consumers, block_on_overflow, wait_for_result), distinct by (configuration, step trace), non-trivial when it reached a refusal, a blocked producer, >= 2 requests in flight or a cancellation while blocked; " +
			"L1-shutdown-window: every accepted request of a full blocking queue waits in a one-hour retry back-off, one producer is blocked for space, the exporter is shut down (the retry sender stops before the queue): Shutdown returns and the producer is released by the interrupted requests' completions; " +
			"L1-directed: the signal-versus-cancel rendezvous inside a blocked producer's wait window (completion and cancellation made ready at the same instant through the instrumented context), followed by a block/complete/release probe of the wake-up bookkeeping; " +
			"L1-recovered: a persistent queue restarted on the image of a previous incarnation in which a seed-chosen subset of the stored elements cannot be dispatched (garbage / truncated / short payloads, optionally one transient storage error), with block_on_overflow and producers blocked behind the backlog; judged by exactly-once for intact and new requests, never-for-refused, order of intact elements, no producer left blocked with nothing in flight, size zero at rest; " +
			"L3: high-volume accounting stress (4-8 producers x 1200-4000 blocking offers of different sizes, with and without wait_for_result, size readers hammering the lock) judged only by size bounds, zero at rest, every producer returning; " +
			"L2: a case is one concurrent history (2-5 producers x 3-7 offers, auto-completing consumers, cancellers, size reader), distinct by interleaving signature (order of call/return/hand-off/done events with ids erased), non-trivial when >= 2 offers overlapped in time",
		Assumptions: []string{
			"reported size = the exporter's own otelcol_exporter_queue_size gauge (what a user sees)",
			"persistent queue: accept/refuse is judged against the size reported immediately before the offer (its reported size legitimately drops to 0 when the last queued request is dequeued); only the requests sizer and no wait_for_result are valid configurations there",
			"a completion releases exactly one waiting producer (observed behaviour); the blocked-producer oracle is no stronger than the statement: re-checked fit of the woken producer, never blocked while the queue is empty, cancelled producers return their context error, all producers return once everything drains",
			"bounded progress: a producer that has not returned 30 s after all exports completed, with no logical progress between two samples, is reported with the blocked frames of the goroutine dump",
		},
		TrustedBase:   []string{"porcupine v1.3.0", "componenttest telemetry reader", "harness/lib/qstore"},
		Shards:        func(string) int { return 16 },
		Variants:      func(tier string) []string { return []string{"plain", "race"} },
		MinNontrivial: func(string) int { return 300 },
		ShardTimeout:  func(tier string) time.Duration { return 25 * time.Minute },
		Run:           run,
		MaxSamples:    2,
	})
}
