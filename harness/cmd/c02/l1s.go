package main

// Shutdown window: a producer blocked by block_on_overflow while the exporter shuts down. The retry sender is
// stopped before the queue, so a request parked in its back-off finishes with a shutdown-classified outcome while
// the queue is still running. That completion frees the request's space like any other: the blocked producer must
// be released (the queue is empty of accepted-but-unfinished work from then on), it must not stay blocked after
// Shutdown has returned. Exactly one producer is blocked and nothing else completes, so the release can only come
// from that completion (the unambiguous instance of "released once earlier requests finish").

import (
	"context"
	"fmt"
	"math/rand"
	"runtime"
	"strings"
	"sync/atomic"
	"time"

	"go.opentelemetry.io/collector/component"
	"go.opentelemetry.io/collector/component/componenttest"
	"go.opentelemetry.io/collector/config/configretry"
	"go.opentelemetry.io/collector/exporter/exporterhelper"
	"go.opentelemetry.io/collector/exporter/exportertest"
	"go.opentelemetry.io/collector/pdata/plog"
	"go.opentelemetry.io/collector/verifharness/lib/driver"
	"go.opentelemetry.io/collector/verifharness/lib/expkit"
	"go.opentelemetry.io/collector/verifharness/lib/qstore"
)

func runShutdownWindow(c *driver.Ctx, rng *rand.Rand, caseNo int64) {
	persistent := rng.Intn(4) > 0
	// memory queue: every accepted request is in flight (consumers = capacity). Persistent queue: its reported size
	// drops to zero when the last queued request is dequeued, so it is only full while something still waits in it:
	// one consumer, capacity >= 2, the first request in flight and the others queued (they stay stored at shutdown).
	capacity := int64(1 + rng.Intn(2))
	consumers := capacity
	if persistent {
		capacity, consumers = int64(2+rng.Intn(2)), 1
	}
	wit := map[string]any{"persistent": persistent, "capacity": capacity, "consumers": consumers, "sizer": "requests", "block_on_overflow": true, "retry_backoff": "1h"}
	class := fmt.Sprintf("%s/requests/cap=%d/consumers=%d/block=true/shutdown-window", map[bool]string{true: "persistent", false: "memory"}[persistent], capacity, consumers)
	vio := func(sub, what string, kv ...string) {
		c.Violation(sub, what+" ["+class+"]", wit, append(kv, "queue", map[bool]string{true: "persistent", false: "memory"}[persistent], "family", "shutdown-window")...)
	}
	c.Eval()
	qc := exporterhelper.NewDefaultQueueConfig()
	qc.NumConsumers = int(consumers)
	qc.QueueSize = capacity
	qc.BlockOnOverflow = true
	qc.Sizer = exporterhelper.RequestSizerTypeRequests
	var host component.Host = componenttest.NewNopHost()
	if persistent {
		id := qstore.ID
		qc.StorageID = &id
		host = qstore.NewHost(qstore.New(nil, -1))
	}
	rc := configretry.NewDefaultBackOffConfig()
	rc.InitialInterval, rc.MaxInterval, rc.MaxElapsedTime, rc.RandomizationFactor, rc.Multiplier = time.Hour, time.Hour, 0, 0, 1
	var retryLogs, attempts atomic.Int64
	set := exportertest.NewNopSettings(component.MustNewType("verif"))
	set.TelemetrySettings.Logger = expkit.RetryLogHook(func() { retryLogs.Add(1) })
	exp, err := exporterhelper.NewLogs(context.Background(), set, struct{}{}, func(context.Context, plog.Logs) error {
		attempts.Add(1)
		return fmt.Errorf("transient failure (c02 shutdown window)")
	}, exporterhelper.WithQueue(qc), exporterhelper.WithRetry(rc), exporterhelper.WithTimeout(exporterhelper.TimeoutConfig{}))
	if err != nil {
		c.Inconclusive("shutdown-window rig: " + err.Error())
		return
	}
	if err := exp.Start(context.Background(), host); err != nil {
		c.Inconclusive("shutdown-window rig start: " + err.Error())
		return
	}
	poll := func(cond func() bool, d time.Duration) bool {
		t0 := time.Now()
		for !cond() {
			if time.Since(t0) > d {
				return false
			}
			if time.Since(t0) < 2*time.Millisecond {
				runtime.Gosched()
			} else {
				time.Sleep(200 * time.Microsecond)
			}
		}
		return true
	}
	for i := int64(0); i < capacity; i++ {
		if err := exp.ConsumeLogs(context.Background(), mkReq(fmt.Sprintf("w%d", i), 1, 0, false)); err != nil {
			c.Inconclusive("shutdown-window fill refused: " + err.Error())
			_ = exp.Shutdown(context.Background())
			return
		}
	}
	// every request in flight has failed once and waits in its one-hour back-off
	if !poll(func() bool { return retryLogs.Load() >= consumers }, 20*time.Second) {
		c.Inconclusive("shutdown-window: the requests did not reach their retry wait")
		_ = exp.Shutdown(context.Background())
		return
	}
	// one more producer: the queue is full, it parks for space
	var parked atomic.Bool
	ret := make(chan error, 1)
	go func() {
		ctx := expkit.HookCtx{Context: context.Background(), Owner: expkit.CurGID(), OnBlock: func(where string) {
			if where == expkit.WaitSpace {
				parked.Store(true)
			}
		}}
		ret <- exp.ConsumeLogs(ctx, mkReq("blocked", 1, 0, false))
	}()
	if !poll(parked.Load, 20*time.Second) {
		select {
		case err := <-ret:
			if persistent {
				// the persistent queue's reported size drops to zero when a dequeue empties it (the consumer took the first
				// request before the second one was offered): the queue was not full after all — not this family's situation
				c.Observe("l1s_persistent_queue_was_not_full(size reset by an emptying dequeue)", 1)
			} else {
				vio("decision", fmt.Sprintf("an offer to a full queue (size %d of %d, block_on_overflow) returned %v instead of blocking", capacity, capacity, err), "what", "not-blocked")
			}
		default:
			c.Inconclusive("shutdown-window: the extra producer was not seen parking")
		}
		_ = exp.Shutdown(context.Background())
		return
	}
	for y := rng.Intn(4); y > 0; y-- {
		runtime.Gosched()
	}
	shut := make(chan error, 1)
	go func() { shut <- exp.Shutdown(context.Background()) }()
	c.Observe("l1s_shutdown_windows", 1)
	c.Nontrivial("L1-shutdown-window", persistent, capacity, caseNo%64)
	select {
	case <-shut:
	case <-time.After(30 * time.Second):
		fr := driver.BlockedRepoFrames(goroutineDump())
		vio("shutdown-stuck", "Shutdown of an exporter whose requests wait in their retry back-off, with one producer blocked for space, did not return; blocked frames: "+strings.Join(fr, "; "), "what", "shutdown")
		return
	}
	// the interrupted requests have finished (shutdown-classified) and freed their space: the producer returns
	select {
	case err := <-ret:
		c.Observe("l1s_blocked_producer_released:"+map[bool]string{true: "accepted", false: "error"}[err == nil], 1)
	case <-time.After(15 * time.Second):
		fr := driver.BlockedRepoFrames(goroutineDump())
		vio("left-blocked", fmt.Sprintf("a producer blocked by block_on_overflow is still blocked after Shutdown returned although the requests in flight have finished (interrupted in their retry wait) and freed their space (capacity %d); blocked frames: %s", capacity, strings.Join(fr, "; ")), "what", "after-shutdown")
	}
}
