package main

import (
	"context"
	"errors"
	"fmt"
	"math/rand"
	"runtime"
	"strings"
	"sync"
	"time"

	"go.opentelemetry.io/collector/verifharness/lib/driver"
)

// Directed rendezvous in the signal-versus-cancel window of a blocked producer (memory queue,
// capacity 1, one gated consumer). The instrumented context's Done() runs inside the queue's space wait
// right after the queue lock was released and before the select: from there the driver finishes the
// in-flight request (so the wake-up signal is pending) AND cancels the waiting producer, which makes both
// select cases ready. Whichever the producer takes, the queue's wake-up bookkeeping must stay intact: the
// next blocked producer has to be released by the next completion.
func runDirected(c *driver.Ctx, rng *rand.Rand, caseNo int64) {
	cfg := qcfg{Sizer: "requests", Capacity: 1, Consumers: 1, Block: true, WFR: false}
	twoCancelled := rng.Intn(2) == 0 // a second blocked producer is cancelled in the same window
	r, err := newRig(cfg)
	if err != nil {
		c.Inconclusive("rig: " + err.Error())
		return
	}
	trace := []string{}
	fail := func(sub, what string, sig ...string) {
		sig = append(sig, "queue", "memory", "level", "L1-directed")
		c.Violation(sub, what+" [directed rendezvous, "+cfg.String()+fmt.Sprintf(" twoCancelled=%v]", twoCancelled), map[string]any{"config": cfg, "two_cancelled": twoCancelled, "trace": trace}, sig...)
	}
	const bound = 20 * time.Second
	waitEntry := func(what string) *entry {
		select {
		case e := <-r.entered:
			trace = append(trace, "handoff("+e.id+")")
			return e
		case <-time.After(bound):
			fail("never-handed", what+" was accepted but never handed to the idle consumer; blocked frames: "+strings.Join(driver.BlockedRepoFrames(goroutineDump()), "; "), "what", "lost")
			return nil
		}
	}
	pollSize := func(want int64) bool {
		dl := time.Now().Add(bound)
		for time.Now().Before(dl) {
			if g, ok := r.size(); ok && g == want {
				return true
			}
			time.Sleep(20 * time.Microsecond)
		}
		return false
	}
	abandon := func() {
		abandonedRigs.Add(1)
		c.Observe("abandoned_rigs", 1)
	}

	// X occupies the whole capacity and is held by the consumer
	if err := r.exp.ConsumeLogs(context.Background(), mkReq("X", 1, 0, false)); err != nil {
		fail("decision", "first offer into an empty queue refused: "+err.Error(), "what", "ret-accept")
		r.close(bound)
		return
	}
	eX := waitEntry("X")
	if eX == nil {
		abandon()
		return
	}
	// optional second waiter A2 (blocks first; cancelled inside A's window as well)
	var a2Err error
	a2Done := make(chan struct{})
	a2Parked := make(chan struct{}, 4)
	a2Ctx, a2Cancel := context.WithCancel(context.Background())
	defer a2Cancel()
	if twoCancelled {
		go func() {
			a2Err = r.exp.ConsumeLogs(hookCtx{Context: a2Ctx, onDone: func(space bool) {
				if space {
					a2Parked <- struct{}{}
				}
			}}, mkReq("A2", 1, 0, false))
			close(a2Done)
		}()
		select {
		case <-a2Parked:
			trace = append(trace, "blocked(A2)")
		case <-time.After(bound):
			fail("decision", "offer into a full blocking queue neither returned nor parked", "what", "no-park")
			abandon()
			return
		}
	} else {
		close(a2Done)
	}
	// A blocks; inside its wait window: finish X (signal pending) and cancel A (and A2)
	aCtx, aCancel := context.WithCancel(context.Background())
	var once sync.Once
	windowOK := false
	var aErr error
	aDone := make(chan struct{})
	go func() {
		aErr = r.exp.ConsumeLogs(hookCtx{Context: aCtx, onDone: func(space bool) {
			if !space {
				return
			}
			once.Do(func() {
				eX.gate <- nil
				if twoCancelled {
					// the other waiter may take the signal at once, so the size need not read 0: a few
					// reads of the gauge (each takes the queue lock) let the completion get through
					for i := 0; i < 3; i++ {
						r.size()
						runtime.Gosched()
					}
					windowOK = true
					a2Cancel()
				} else {
					windowOK = pollSize(0) // the completion released the size and sent its wake-up signal
				}
				aCancel()
			})
		}}, mkReq("A", 1, 0, false))
		close(aDone)
	}()
	select {
	case <-aDone:
	case <-time.After(bound + 10*time.Second):
		fail("never-returned", "a blocked producer whose context was cancelled while a wake-up signal was pending never returned; blocked frames: "+strings.Join(driver.BlockedRepoFrames(goroutineDump()), "; "), "what", stuckClass(driver.BlockedRepoFrames(goroutineDump())))
		abandon()
		return
	}
	select {
	case <-a2Done:
	case <-time.After(bound):
		fail("never-returned", "a second blocked producer whose context was cancelled never returned; blocked frames: "+strings.Join(driver.BlockedRepoFrames(goroutineDump()), "; "), "what", stuckClass(driver.BlockedRepoFrames(goroutineDump())))
		abandon()
		return
	}
	if !windowOK {
		c.Inconclusive("directed: completion inside the window did not show in the gauge")
		r.close(bound)
		return
	}
	trace = append(trace, "window: complete(X)+cancel -> A="+errStr(aErr))
	if twoCancelled {
		trace = append(trace, "A2="+errStr(a2Err))
	}
	outcome := "A:" + classify(aErr)
	if twoCancelled {
		outcome += " A2:" + classify(a2Err)
	}
	c.Distinct("window_outcomes", outcome)
	c.Observe("directed_window_"+outcome, 1)
	for name, e := range map[string]error{"A": aErr, "A2": a2Err} {
		if e != nil && !errors.Is(e, context.Canceled) {
			fail("blocked-return", fmt.Sprintf("blocked producer %s returned %v", name, e), "what", "unexpected-error")
		}
	}
	// whoever was accepted is handed off and finished, one at a time (capacity 1)
	acceptedN := 0
	if aErr == nil {
		acceptedN++
	}
	if twoCancelled && a2Err == nil {
		acceptedN++
	}
	if acceptedN == 2 {
		fail("decision", "two producers were accepted into a queue of capacity 1", "what", "accepted-nofit")
	}
	for i := 0; i < acceptedN; i++ {
		e := waitEntry("a released producer's request")
		if e == nil {
			abandon()
			return
		}
		e.gate <- nil
	}
	if !pollSize(0) {
		g, _ := r.size()
		fail("size", fmt.Sprintf("every accepted request has finished but the reported size is %d", g), "what", "nonzero-at-rest")
		r.close(bound)
		return
	}
	// the bookkeeping must be intact: Y fills the queue, B blocks, finishing Y must release B
	if err := r.exp.ConsumeLogs(context.Background(), mkReq("Y", 1, 0, false)); err != nil {
		fail("decision", "offer into an empty queue refused after the rendezvous: "+err.Error(), "what", "ret-accept")
		r.close(bound)
		return
	}
	eY := waitEntry("Y")
	if eY == nil {
		abandon()
		return
	}
	bParked := make(chan struct{}, 8)
	bDone := make(chan struct{})
	var bErr error
	go func() {
		bErr = r.exp.ConsumeLogs(hookCtx{Context: context.Background(), onDone: func(space bool) {
			if space {
				bParked <- struct{}{}
			}
		}}, mkReq("B", 1, 0, false))
		close(bDone)
	}()
	select {
	case <-bParked:
		trace = append(trace, "blocked(B)")
	case <-bDone:
		fail("decision", "offer into a full queue returned "+errStr(bErr)+" instead of blocking", "what", "ret-block")
		r.close(bound)
		return
	case <-time.After(bound):
		fail("decision", "offer into a full blocking queue neither returned nor parked", "what", "no-park")
		abandon()
		return
	}
	eY.gate <- nil
	trace = append(trace, "complete(Y)")
	select {
	case <-bDone:
		trace = append(trace, "released(B)="+errStr(bErr))
		if bErr != nil {
			fail("blocked-return", "blocked producer returned "+bErr.Error(), "what", "unexpected-error")
		}
	case <-time.After(bound):
		fr := driver.BlockedRepoFrames(goroutineDump())
		g, _ := r.size()
		fail("left-blocked", fmt.Sprintf("after a signal-versus-cancel rendezvous the next blocked producer is not released by the next completion (reported size %d, nothing in flight); blocked frames: %s", g, strings.Join(fr, "; ")), "what", "queue-empty")
		abandon()
		return
	}
	if e := waitEntry("B"); e != nil {
		e.gate <- nil
	}
	c.Nontrivial("L1-directed", twoCancelled, outcome)
	if caseNo == 0 {
		c.Sample(map[string]any{"level": "L1-directed", "two_cancelled": twoCancelled, "trace": trace})
	}
	if !r.close(bound) {
		fail("shutdown-stuck", "Shutdown did not return; blocked frames: "+strings.Join(driver.BlockedRepoFrames(goroutineDump()), "; "), "what", "shutdown")
	}
}

func classify(err error) string {
	switch {
	case err == nil:
		return "signal-won"
	case errors.Is(err, context.Canceled):
		return "cancel-won"
	default:
		return "error"
	}
}
