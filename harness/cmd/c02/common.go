package main

import (
	"context"
	"errors"
	"fmt"
	"runtime"
	"strings"
	"sync"
	"sync/atomic"
	"time"

	"go.opentelemetry.io/otel/sdk/metric/metricdata"
	"go.uber.org/zap"

	"go.opentelemetry.io/collector/component"
	"go.opentelemetry.io/collector/component/componenttest"
	"go.opentelemetry.io/collector/exporter"
	"go.opentelemetry.io/collector/exporter/exporterhelper"
	"go.opentelemetry.io/collector/exporter/exportertest"
	"go.opentelemetry.io/collector/pdata/plog"
	"go.opentelemetry.io/collector/verifharness/lib/qstore"
)

// qcfg is one queue configuration of the explored space.
type qcfg struct {
	Persistent bool   `json:"persistent"`
	Sizer      string `json:"sizer"` // requests | items | bytes
	Capacity   int64  `json:"capacity"`
	Consumers  int    `json:"consumers"`
	Block      bool   `json:"block_on_overflow"`
	WFR        bool   `json:"wait_for_result"`
	// StartCtxEnds: the context handed to Start is cancelled as soon as Start has returned (a start-up
	// deadline), and the storage client honours contexts. Nothing the queue does afterwards may depend on it.
	StartCtxEnds bool `json:"start_context_ends,omitempty"`
}

func (q qcfg) String() string {
	k := "memory"
	if q.Persistent {
		k = "persistent"
	}
	sc := ""
	if q.StartCtxEnds {
		sc = "/start-ctx-ends"
	}
	return fmt.Sprintf("%s/%s/cap=%d/consumers=%d/block=%v/wfr=%v%s", k, q.Sizer, q.Capacity, q.Consumers, q.Block, q.WFR, sc)
}

var marshaler plog.ProtoMarshaler

// mkReq builds a real logs request: `items` log records, identified by a resource attribute (even when
// it has no records); pad enlarges the byte size. bare=true returns the completely empty payload.
func mkReq(id string, items int, pad int, bare bool) plog.Logs {
	ld := plog.NewLogs()
	if bare {
		return ld
	}
	rl := ld.ResourceLogs().AppendEmpty()
	rl.Resource().Attributes().PutStr("id", id)
	sl := rl.ScopeLogs().AppendEmpty()
	for i := 0; i < items; i++ {
		lr := sl.LogRecords().AppendEmpty()
		if i == 0 && pad > 0 {
			lr.Body().SetStr(strings.Repeat("x", pad))
		}
	}
	return ld
}

func idOf(ld plog.Logs) string {
	if ld.ResourceLogs().Len() == 0 {
		return "?empty"
	}
	v, ok := ld.ResourceLogs().At(0).Resource().Attributes().Get("id")
	if !ok {
		return "?noid"
	}
	return v.Str()
}

func sizeOf(sizer string, ld plog.Logs) int64 {
	switch sizer {
	case "items":
		return int64(ld.LogRecordCount())
	case "bytes":
		return int64(marshaler.LogsSize(ld))
	default:
		return 1
	}
}

// seq is the single logical clock of a run (call/return stamps, event order).
var seq atomic.Int64

func now() int64 { return seq.Add(1) }

type entry struct {
	id    string
	t     int64 // logical time of the hand-off (entry into the export function)
	doneT int64 // auto mode: logical time taken just before the export function returns
	gate  chan error
	items int
}

// hookCtx is a context whose Done() reports that the caller is about to block on it. The queue
// evaluates ctx.Done() right after releasing its lock inside the space wait, and when a
// wait-for-result producer starts waiting for its outcome.
type hookCtx struct {
	context.Context
	onDone func(spaceWait bool)
}

func (h hookCtx) Done() <-chan struct{} {
	if h.onDone != nil {
		var pcs [24]uintptr
		n := runtime.Callers(2, pcs[:])
		fr := runtime.CallersFrames(pcs[:n])
		space := false
		for {
			f, more := fr.Next()
			if strings.HasSuffix(f.Function, ".Wait") && strings.Contains(f.Function, "go.opentelemetry.io/collector/") {
				space = true
				break
			}
			if !more {
				break
			}
		}
		h.onDone(space)
	}
	return h.Context.Done()
}

type rig struct {
	cfg         qcfg
	exp         exporter.Logs
	tel         *componenttest.Telemetry
	store       *qstore.Store
	entered     chan *entry
	auto        atomic.Bool // export function returns nil immediately
	yield       atomic.Int64
	wedged      atomic.Bool
	startCancel context.CancelFunc
	mu          sync.Mutex
	handed      []*entry
}

func newRig(cfg qcfg) (*rig, error) { return newRigOn(cfg, nil) }

// newRigOn builds the rig on an existing durable store (a later incarnation of a persistent queue).
func newRigOn(cfg qcfg, st *qstore.Store) (*rig, error) {
	r := &rig{cfg: cfg, entered: make(chan *entry, 4096)}
	r.tel = componenttest.NewTelemetry()
	set := exportertest.NewNopSettings(component.MustNewType("verif"))
	set.TelemetrySettings = r.tel.NewTelemetrySettings()
	set.Logger = zap.NewNop()
	set.TelemetrySettings.Logger = zap.NewNop()
	qc := exporterhelper.NewDefaultQueueConfig()
	qc.NumConsumers = cfg.Consumers
	qc.QueueSize = cfg.Capacity
	qc.BlockOnOverflow = cfg.Block
	qc.WaitForResult = cfg.WFR
	switch cfg.Sizer {
	case "items":
		qc.Sizer = exporterhelper.RequestSizerTypeItems
	case "bytes":
		qc.Sizer = exporterhelper.RequestSizerTypeBytes
	default:
		qc.Sizer = exporterhelper.RequestSizerTypeRequests
	}
	var host component.Host = componenttest.NewNopHost()
	if cfg.Persistent {
		id := qstore.ID
		qc.StorageID = &id
		r.store = st
		if r.store == nil {
			r.store = qstore.New(nil, -1)
		}
		host = qstore.NewHost(r.store)
	}
	if err := qc.Validate(); err != nil {
		return nil, fmt.Errorf("configuration rejected by validation: %w", err)
	}
	exp, err := exporterhelper.NewLogs(context.Background(), set, struct{}{}, func(_ context.Context, ld plog.Logs) error {
		e := &entry{id: idOf(ld), t: now(), gate: make(chan error, 1), items: ld.LogRecordCount()}
		r.mu.Lock()
		r.handed = append(r.handed, e)
		r.mu.Unlock()
		if r.auto.Load() {
			if y := r.yield.Load(); y > 0 {
				for i := int64(0); i < y; i++ {
					runtime.Gosched()
				}
			}
			e.doneT = now()
			r.entered <- e
			return nil
		}
		r.entered <- e
		return <-e.gate
	}, exporterhelper.WithQueue(qc), exporterhelper.WithTimeout(exporterhelper.TimeoutConfig{}))
	if err != nil {
		return nil, err
	}
	startCtx, startCancel := context.WithCancel(context.Background())
	if cfg.StartCtxEnds && r.store != nil {
		r.store.HonorContext(true)
	}
	if err := exp.Start(startCtx, host); err != nil {
		startCancel()
		return nil, err
	}
	if cfg.StartCtxEnds {
		startCancel()
	}
	r.startCancel = startCancel
	r.exp = exp
	return r, nil
}

// gauge reads one of the exporter's own queue gauges. Reading the size takes the queue's lock, so a
// deadlocked queue would hang the reader: the read runs in its own goroutine under a watchdog, and a rig
// whose gauge did not answer is marked wedged (the stuck classifier, not this watchdog, decides).
func (r *rig) gauge(name string) (int64, bool) {
	if r.wedged.Load() {
		return 0, false
	}
	type res struct {
		v  int64
		ok bool
	}
	ch := make(chan res, 1)
	go func() {
		m, err := r.tel.GetMetric(name)
		if err != nil {
			ch <- res{}
			return
		}
		g, ok := m.Data.(metricdata.Gauge[int64])
		if !ok || len(g.DataPoints) == 0 {
			ch <- res{}
			return
		}
		ch <- res{g.DataPoints[0].Value, true}
	}()
	t := time.NewTimer(30 * time.Second)
	defer t.Stop()
	select {
	case x := <-ch:
		return x.v, x.ok
	case <-t.C:
		r.wedged.Store(true)
		return 0, false
	}
}

func (r *rig) size() (int64, bool)     { return r.gauge("otelcol_exporter_queue_size") }
func (r *rig) capacity() (int64, bool) { return r.gauge("otelcol_exporter_queue_capacity") }

// close releases everything and shuts the exporter down; returns false if Shutdown did not return.
func (r *rig) close(limit time.Duration) bool {
	r.auto.Store(true)
	r.mu.Lock()
	for _, e := range r.handed {
		select {
		case e.gate <- nil:
		default:
		}
	}
	r.mu.Unlock()
	done := make(chan struct{})
	go func() { _ = r.exp.Shutdown(context.Background()); close(done) }()
	t := time.NewTimer(limit)
	defer t.Stop()
	for {
		select {
		case <-done:
			_ = r.tel.Shutdown(context.Background())
			if r.startCancel != nil {
				r.startCancel()
			}
			return true
		case e := <-r.entered:
			select {
			case e.gate <- nil:
			default:
			}
		case <-t.C:
			return false
		}
	}
}

// settle wait: scheduling only, never a verdict (see C01).
var settleWaitNs atomic.Int64

func settleWait() time.Duration { return time.Duration(settleWaitNs.Load()) }
func settleExpired() {
	if v := settleWaitNs.Load(); v > int64(20*time.Millisecond) {
		settleWaitNs.Store(v / 2)
	}
}

func isFull(err error) bool { return errors.Is(err, exporterhelper.ErrQueueIsFull) }

func goroutineDump() string {
	buf := make([]byte, 1<<21)
	return string(buf[:runtime.Stack(buf, true)])
}
