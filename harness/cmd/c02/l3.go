package main

import (
	"context"
	"fmt"
	"math/rand"
	"strings"
	"sync"
	"sync/atomic"
	"time"

	"go.opentelemetry.io/collector/verifharness/lib/driver"
)

// L3 — high-volume accounting stress without history recording: many producers offer small requests of
// different sizes in tight loops (blocking, with and without wait_for_result), consumers complete at once,
// hammer goroutines read the size. The only oracles are the cheap ones that need no history: every sampled
// size within [0, capacity], every producer returns, every offer that is not cancelled is acknowledged, and
// the reported size is 0 at rest. The volume (tens of thousands of completions per history) is what reaches
// windows of a few nanoseconds inside the queue that only an OS pre-emption can open.
func runStress(c *driver.Ctx, rng *rand.Rand, caseNo int64) {
	cfg := qcfg{Sizer: "items", Capacity: int64(4 + rng.Intn(8)), Consumers: 1 + rng.Intn(4), Block: true, WFR: caseNo%3 != 2}
	r, err := newRig(cfg)
	if err != nil {
		c.Inconclusive("rig: " + err.Error())
		return
	}
	r.auto.Store(true)
	nProd := 4 + rng.Intn(5)
	per := c.N(1200, 4000)
	stopRel := make(chan struct{})
	go func() { // drain the hand-off notifications
		for {
			select {
			case <-r.entered:
			case <-stopRel:
				return
			}
		}
	}()
	var progress, errs, oob atomic.Int64
	var firstErr atomic.Value
	var wg sync.WaitGroup
	seeds := make([]int64, nProd)
	for i := range seeds {
		seeds[i] = rng.Int63()
	}
	for p := 0; p < nProd; p++ {
		wg.Add(1)
		go func(p int) {
			defer wg.Done()
			pr := rand.New(rand.NewSource(seeds[p]))
			for k := 0; k < per; k++ {
				items := 1 + pr.Intn(int(cfg.Capacity))
				if pr.Intn(3) > 0 {
					items = 1 + pr.Intn(3)
				}
				if err := r.exp.ConsumeLogs(context.Background(), mkReq("s", items, 0, false)); err != nil {
					errs.Add(1)
					firstErr.CompareAndSwap(nil, err.Error())
				}
				progress.Add(1)
			}
		}(p)
	}
	stopHam := make(chan struct{})
	var hamWG sync.WaitGroup
	for h := 0; h < 2; h++ {
		hamWG.Add(1)
		go func() {
			defer hamWG.Done()
			for {
				select {
				case <-stopHam:
					return
				default:
				}
				if n, ok := r.size(); ok && (n < 0 || n > cfg.Capacity) {
					oob.Add(1)
				}
			}
		}()
	}
	vio := func(sub, what string, sig ...string) {
		sig = append(sig, "queue", "memory", "level", "L3")
		c.Violation(sub, what+" ["+cfg.String()+fmt.Sprintf(" producers=%d offers=%d]", nProd, per), map[string]any{"config": cfg, "producers": nProd, "offers_per_producer": per}, sig...)
	}
	st := c.Guard(60*time.Second, progress.Load, wg.Wait)
	close(stopHam)
	if st != nil {
		vio("never-returned", "producers never returned although every export completes; blocked frames: "+strings.Join(st.RepoFrames, "; "), "what", stuckClass(st.RepoFrames))
		abandonedRigs.Add(1)
		c.Observe("abandoned_rigs", 1)
		close(stopRel)
		return
	}
	hamWG.Wait()
	if n := errs.Load(); n > 0 {
		vio("own-outcome", fmt.Sprintf("%d offers with a live context into a blocking queue whose exports all succeed returned an error, e.g. %v", n, firstErr.Load()), "what", "unexpected-error")
	}
	if n := oob.Load(); n > 0 {
		vio("size", fmt.Sprintf("%d sampled sizes outside [0, %d]", n, cfg.Capacity), "what", "out-of-bounds")
	}
	dl := time.Now().Add(20 * time.Second)
	for {
		g, ok := r.size()
		if ok && g == 0 {
			break
		}
		if time.Now().After(dl) {
			vio("size", fmt.Sprintf("every accepted request has finished but the reported size stays %d", g), "what", "nonzero-at-rest")
			break
		}
		time.Sleep(100 * time.Microsecond)
	}
	close(stopRel)
	if !r.close(30 * time.Second) {
		vio("shutdown-stuck", "Shutdown did not return; blocked frames: "+strings.Join(driver.BlockedRepoFrames(goroutineDump()), "; "), "what", "shutdown")
		abandonedRigs.Add(1)
		return
	}
	c.Observe("l3_completions", int64(nProd*per))
	c.Nontrivial("L3", cfg.String(), nProd)
}
