package main

import (
	"context"
	"errors"
	"fmt"
	"math/rand"
	"strings"
	"time"

	"go.opentelemetry.io/collector/verifharness/lib/driver"
)

// L1 — scripted operations, one at a time, against an exact reference model of the queue's accounting.

type prod struct {
	n         int
	id        string
	size      int64
	items     int
	pad       int
	bare      bool
	cancel    context.CancelFunc
	state     string // started | space | result | returned
	cancelled bool
	accepted  bool
	refused   bool
	completed bool
	outcome   error
	handedN   int
	retErr    error
	parks     int
	ctxErr    error  // what the producer's context reports once it has ended (Canceled, or DeadlineExceeded)
	accStep   int    // script step in which the acceptance was observed
	notBefore int    // script step before which the acceptance cannot have happened: the step in which the offer was called
	pred      string // decision predicted from the quiescent model state when the offer started
}

func (p *prod) ctxErrOr() error {
	if p.ctxErr == nil {
		return context.Canceled
	}
	return p.ctxErr
}

// endsByDeadline is a context that ends like an expired deadline: once the parent is done, Err() is DeadlineExceeded.
type endsByDeadline struct{ context.Context }

func (d endsByDeadline) Err() error {
	if d.Context.Err() != nil {
		return context.DeadlineExceeded
	}
	return nil
}

type event struct {
	kind string // park-space | park-result | ret | entry
	p    *prod
	err  error
	e    *entry
}

type sim struct {
	c           *driver.Ctx
	cfg         qcfg
	r           *rig
	ev          chan event
	prods       []*prod
	byID        map[string]*prod
	size        int64
	queue       []*prod
	inflight    map[*entry]*prod
	order       []*entry // in-flight entries in hand-off order
	waiters     map[*prod]bool
	expWake     int
	expRet      map[*prod]bool
	drain       bool
	trace       []string
	unsettled   int
	failed      bool
	stats       map[string]int
	gaugeBefore int64
	step        int
	soleWaiter  *prod
	unsolicited int // acceptances of blocked producers the driver did not predict (this step)
	flushing    bool
	deferred    []func() // persistent queue: decision verdicts held back until the step is known to have been quiescent
}

func (s *sim) tracef(f string, a ...any) {
	if len(s.trace) < 400 {
		s.trace = append(s.trace, fmt.Sprintf(f, a...))
	}
}

func (s *sim) witness() map[string]any {
	return map[string]any{"config": s.cfg, "trace": s.trace}
}

func (s *sim) violation(sub, what string, sig ...string) {
	if sub == "decision" && s.cfg.Persistent && s.cfg.Block && !s.flushing {
		// judged against the size reported just before the offer: only valid if nothing else moved
		s.deferred = append(s.deferred, func() { s.violation(sub, what, sig...) })
		return
	}
	s.failed = true
	sig = append(sig, "queue", map[bool]string{true: "persistent", false: "memory"}[s.cfg.Persistent])
	s.c.Violation(sub, what+" ["+s.cfg.String()+"]", s.witness(), sig...)
}

// fits: would p's request fit beside everything else that is accepted and unfinished?
func (s *sim) fits(p *prod) bool {
	other := s.size
	if p.accepted {
		other -= p.size
	}
	return other+p.size <= s.cfg.Capacity
}

// predicted decision for a freshly started offer: "zero" | "toolarge" | "accept" | "block" | "refuse"
func (s *sim) predict(p *prod) string {
	if s.cfg.Persistent {
		// the persistent queue's reported size legitimately differs from the sum of unfinished requests
		// (it drops to 0 when the last queued request is dequeued): judge against the reported size
		if s.gaugeBefore+p.size <= s.cfg.Capacity {
			return "accept"
		}
		if s.cfg.Block {
			return "block"
		}
		return "refuse"
	}
	switch {
	case p.size == 0:
		return "zero"
	case p.size > s.cfg.Capacity:
		return "toolarge"
	case s.fits(p):
		return "accept"
	case s.cfg.Block:
		return "block"
	default:
		return "refuse"
	}
}

func (s *sim) accept(p *prod) {
	if p.accepted {
		return
	}
	if p.state == "space" && s.expWake == 0 {
		s.unsolicited++ // a blocked producer got in at a moment the driver did not predict
	}
	p.accepted = true
	p.accStep = s.step
	s.size += p.size
	if p.handedN == 0 && (p.size > 0 || s.cfg.Persistent) {
		s.queue = append(s.queue, p)
	}
}

func (s *sim) free() int { return s.cfg.Consumers - len(s.inflight) }

func (s *sim) pendingDecisions() int {
	n := 0
	for _, p := range s.prods {
		if p.state == "started" {
			n++
		}
	}
	return n
}

func (s *sim) wantEntries() int {
	f := s.free()
	if len(s.queue) < f {
		f = len(s.queue)
	}
	if f < 0 {
		f = 0
	}
	return f
}

func (s *sim) handle(ev event) {
	switch ev.kind {
	case "entry":
		e := ev.e
		p := s.byID[e.id]
		switch {
		case p == nil:
			s.violation("invented", fmt.Sprintf("hand-off of a request that was never offered (id %q, %d items)", e.id, e.items), "what", "unknown-id")
			e.gate <- nil
			return
		case p.refused:
			s.violation("refused-handed", "a request whose enqueue was refused was handed to a consumer: "+p.id, "what", "refused")
		case p.size == 0 && !s.cfg.Persistent && p.accepted:
			s.violation("zero-handed", "a zero-sized request was handed to a consumer: "+p.id, "what", "zero")
		}
		p.handedN++
		if p.handedN > 1 {
			s.violation("duplicate", "request handed to a consumer twice: "+p.id, "what", "twice")
		}
		idx := -1
		for i, q := range s.queue {
			if q == p {
				idx = i
				break
			}
		}
		if idx < 0 {
			if !p.accepted && p.state != "space" && p.state != "started" {
				s.violation("not-accepted-handed", "a request that was not accepted was handed to a consumer: "+p.id, "what", "not-accepted")
			}
			// the hand-off overtook the producer's own return / park event: account for the acceptance now
			s.accept(p)
		} else {
			// acceptance order is only known between requests whose acceptance was observed in different
			// steps (two producers woken in one step report in scheduler order, not in acceptance order)
			// and an observation can lag: a blocked producer woken in an earlier step may report only when a later
			// step (e.g. its cancellation) makes it return. Sound rule: the earlier request's acceptance was observed
			// in a step before the later one can have been accepted at all.
			if idx != 0 && s.cfg.Consumers == 1 && !s.drain && s.queue[0].accStep < p.accStep && s.queue[0].accStep < p.notBefore {
				s.violation("fifo", fmt.Sprintf("single consumer received %s before the earlier accepted %s", p.id, s.queue[0].id), "what", "inversion")
			}
			s.queue = append(s.queue[:idx], s.queue[idx+1:]...)
		}
		s.inflight[e] = p
		s.order = append(s.order, e)
		s.tracef("handoff(%s)", p.id)
		if s.cfg.Persistent && len(s.queue) == 0 && len(s.waiters) > 0 {
			// the persistent queue resets its size and signals a waiting producer when a dequeue empties it
			s.expWake = 1
		}
		if s.drain {
			s.complete(e, nil)
		}
	case "park-space":
		p := ev.p
		p.parks++
		switch p.state {
		case "started":
			if d := p.pred; d != "block" && !s.drain {
				s.violation("decision", fmt.Sprintf("offer of size %d blocked although the model says %q (size=%d cap=%d)", p.size, d, s.size, s.cfg.Capacity), "what", "blocked-"+d)
			}
			p.state = "space"
			s.waiters[p] = true
			s.tracef("blocked(%s)", p.id)
		case "space":
			if !s.cfg.Persistent && s.expWake > 0 && !s.drain && s.fits(p) {
				s.violation("decision", fmt.Sprintf("a woken producer went back to waiting although its request fits (size=%d req=%d cap=%d)", s.size, p.size, s.cfg.Capacity), "what", "reblocked-fits")
			}
			if s.expWake > 0 {
				s.expWake--
			}
			s.tracef("reblocked(%s)", p.id)
		}
	case "park-result":
		p := ev.p
		p.parks++
		switch p.state {
		case "started":
			if d := p.pred; d != "accept" && !s.drain {
				s.violation("decision", fmt.Sprintf("offer of size %d accepted although the model says %q (size=%d cap=%d)", p.size, d, s.size, s.cfg.Capacity), "what", "accepted-"+d)
			}
			s.accept(p)
			p.state = "result"
			s.tracef("accepted-waiting-result(%s)", p.id)
		case "space":
			if !s.cfg.Persistent && s.expWake > 0 && !s.drain && !s.fits(p) {
				s.violation("decision", fmt.Sprintf("a blocked producer was accepted although its request does not fit (size=%d req=%d cap=%d)", s.size, p.size, s.cfg.Capacity), "what", "accepted-nofit")
			}
			if s.expWake > 0 {
				s.expWake--
			}
			delete(s.waiters, p)
			s.accept(p)
			p.state = "result"
			s.tracef("woken-accepted-waiting-result(%s)", p.id)
		}
	case "ret":
		p := ev.p
		p.retErr = ev.err
		delete(s.expRet, p)
		switch p.state {
		case "started":
			d := p.pred
			ok := false
			switch d {
			case "zero":
				ok = ev.err == nil
			case "toolarge":
				ok = ev.err != nil && !isFull(ev.err)
				p.refused = true
			case "accept":
				ok = ev.err == nil && !s.cfg.WFR
				if ev.err == nil {
					s.accept(p)
				} else {
					p.refused = true
				}
			case "refuse":
				ok = isFull(ev.err)
				if ev.err != nil {
					p.refused = true
				} else {
					s.accept(p)
				}
			case "block":
				ok = false
				if ev.err == nil {
					s.accept(p)
				} else {
					p.refused = true
				}
			}
			if !ok && !s.drain {
				s.violation("decision", fmt.Sprintf("offer returned %v where the model says %q (reported/model size=%d req=%d cap=%d)", ev.err, d, s.refSize(), p.size, s.cfg.Capacity), "what", "ret-"+d)
			}
			s.tracef("offer(%s size=%d)=%v", p.id, p.size, errStr(ev.err))
		case "space":
			delete(s.waiters, p)
			if ev.err == nil {
				if !s.cfg.Persistent && s.expWake > 0 && !s.drain && !s.fits(p) {
					s.violation("decision", fmt.Sprintf("a blocked producer was accepted although its request does not fit (size=%d req=%d cap=%d)", s.size, p.size, s.cfg.Capacity), "what", "accepted-nofit")
				}
				if s.expWake > 0 {
					s.expWake--
				}
				s.accept(p)
				s.tracef("released(%s)", p.id)
			} else {
				p.refused = !p.accepted
				if !(p.cancelled && errors.Is(ev.err, p.ctxErrOr())) {
					s.violation("blocked-return", fmt.Sprintf("a blocked producer returned %v (its context ended=%v with %v)", ev.err, p.cancelled, p.ctxErrOr()), "what", "unexpected-error")
				}
				s.tracef("blocked-returned(%s)=%v", p.id, errStr(ev.err))
			}
		case "result":
			switch {
			case p.completed && sameOutcome(ev.err, p.outcome):
			case p.cancelled && errors.Is(ev.err, p.ctxErrOr()):
			case s.drain && !p.completed && ev.err == nil: // drain: every export returns nil; the hand-off event may still be queued behind this one
			default:
				s.violation("own-outcome", fmt.Sprintf("wait-for-result producer of %s received %v; its own request finished=%v with %v, cancelled=%v", p.id, ev.err, p.completed, errStr(p.outcome), p.cancelled), "what", "wrong-outcome")
			}
			s.tracef("result(%s)=%v", p.id, errStr(ev.err))
		}
		p.state = "returned"
	}
}

func sameOutcome(got, want error) bool {
	if want == nil {
		return got == nil
	}
	return got != nil && errors.Is(got, want)
}

func errStr(err error) string {
	if err == nil {
		return "nil"
	}
	return err.Error()
}

func (s *sim) refSize() int64 {
	if s.cfg.Persistent {
		return s.gaugeBefore
	}
	return s.size
}

func (s *sim) complete(e *entry, outcome error) {
	p := s.inflight[e]
	delete(s.inflight, e)
	for i, o := range s.order {
		if o == e {
			s.order = append(s.order[:i], s.order[i+1:]...)
			break
		}
	}
	p.completed, p.outcome = true, outcome
	s.size -= p.size
	if s.size < 0 && s.cfg.Persistent {
		s.size = 0
	}
	if p.state == "result" {
		s.expRet[p] = true
	}
	if len(s.waiters) > 0 {
		s.expWake = 1
	}
	s.soleWaiter = nil
	if len(s.waiters) == 1 && !s.drain {
		for w := range s.waiters {
			s.soleWaiter = w
		}
	}
	e.gate <- outcome
}

// soleWaiterCheck — the statement's "a blocked producer is released once earlier requests finish and
// free enough space", in the one situation where it is unambiguous: exactly one producer was blocked when
// a request finished, and after that completion its request fits. (With several blocked producers a
// completion wakes only one of them, so a fitting one may legitimately keep waiting.)
func (s *sim) soleWaiterCheck() {
	w := s.soleWaiter
	s.soleWaiter = nil
	if w == nil || w.state != "space" || w.cancelled || s.failed {
		return
	}
	fits := s.fits(w)
	if s.cfg.Persistent {
		g, ok := s.r.size()
		fits = ok && g+w.size <= s.cfg.Capacity
	}
	if !fits {
		return
	}
	// its wake-up may merely be late: wait for any event of that producer under a generous fixed bound
	t := time.NewTimer(15 * time.Second)
	defer t.Stop()
	for w.state == "space" {
		select {
		case ev := <-s.ev:
			s.handle(ev)
			if ev.p == w {
				return
			}
		case e := <-s.r.entered:
			s.handle(event{kind: "entry", e: e})
		case <-t.C:
			fr := driver.BlockedRepoFrames(goroutineDump())
			s.violation("not-released", fmt.Sprintf("the only blocked producer (%s, size %d) was not woken by a completion after which its request fits (size=%d cap=%d); blocked frames: %s", w.id, w.size, s.size, s.cfg.Capacity, strings.Join(fr, "; ")), "what", "sole-waiter-fits")
			return
		}
	}
}

// settle consumes the events the model expects after a step (bounded wait = scheduling only).
func (s *sim) settle() {
	for s.pendingDecisions() > 0 || s.expWake > 0 || len(s.expRet) > 0 || s.wantEntries() > 0 {
		select {
		case ev := <-s.ev:
			s.handle(ev)
		case e := <-s.r.entered:
			s.handle(event{kind: "entry", e: e})
		case <-time.After(settleWait()):
			s.unsettled++
			settleExpired()
			s.tracef("unsettled(decisions=%d wake=%d ret=%d entries=%d)", s.pendingDecisions(), s.expWake, len(s.expRet), s.wantEntries())
			s.expWake = 0
			s.lostWakeupCheck()
			s.idleConsumerCheck()
			return
		}
	}
	s.pump()
}

// idleConsumerCheck — "every accepted request is handed to a consumer": an accepted request must not sit
// in the queue while a consumer is idle. Called when an expected hand-off did not arrive within the settle
// wait; the verdict waits for the hand-off under a generous fixed bound and reports the blocked frames.
func (s *sim) idleConsumerCheck() {
	if s.wantEntries() == 0 || s.pendingDecisions() > 0 || s.failed || s.drain {
		return
	}
	t := time.NewTimer(15 * time.Second)
	defer t.Stop()
	for s.wantEntries() > 0 {
		select {
		case ev := <-s.ev:
			s.handle(ev)
		case e := <-s.r.entered:
			s.handle(event{kind: "entry", e: e})
		case <-t.C:
			var ids []string
			for _, q := range s.queue {
				ids = append(ids, q.id)
			}
			fr := driver.BlockedRepoFrames(goroutineDump())
			s.violation("never-handed", fmt.Sprintf("accepted requests %v stay in the queue although %d of %d consumers are idle; blocked frames: %s", ids, s.free(), s.cfg.Consumers, strings.Join(fr, "; ")), "what", "idle-consumer")
			return
		}
	}
}

// pump handles every event that is available right now.
func (s *sim) pump() {
	for {
		select {
		case ev := <-s.ev:
			s.handle(ev)
		case e := <-s.r.entered:
			s.handle(event{kind: "entry", e: e})
		default:
			return
		}
	}
}

// lostWakeupCheck: the statement's explicit guarantee — a producer is never left blocked while the
// queue is empty. Called when an expected event did not arrive within the (generous, initial) settle
// wait; decided on the goroutine dump, not on the wait itself.
func (s *sim) lostWakeupCheck() {
	if len(s.waiters) == 0 || s.size != 0 || len(s.inflight) != 0 || len(s.queue) != 0 {
		return
	}
	if g, ok := s.r.size(); !ok || g != 0 {
		return
	}
	d := goroutineDump()
	fr := driver.BlockedRepoFrames(d)
	s.violation("left-blocked", fmt.Sprintf("%d producer(s) still blocked although the queue is empty (reported size 0, nothing in flight); blocked frames: %s", len(s.waiters), strings.Join(fr, "; ")), "what", "queue-empty")
}

// endStep emits the decision verdicts that were held back, unless a blocked producer was accepted at a
// moment the driver had not predicted (then the size read before the offer was not a quiescent one).
func (s *sim) endStep() {
	if s.unsolicited == 0 {
		s.flushing = true
		for _, f := range s.deferred {
			f()
		}
		s.flushing = false
	} else if len(s.deferred) > 0 {
		s.c.Inconclusive("persistent decision judged in a non-quiescent step")
	}
	s.deferred, s.unsolicited = nil, 0
}

func (s *sim) checkGauges(step string) {
	s.endStep()
	if cp, ok := s.r.capacity(); !ok || cp != s.cfg.Capacity {
		s.violation("capacity-gauge", fmt.Sprintf("capacity gauge reports %d (ok=%v), configured %d", cp, ok, s.cfg.Capacity), "what", "capacity")
	}
	g, ok := s.r.size()
	if !ok {
		s.violation("size-gauge", "queue size gauge not readable", "what", "missing")
		return
	}
	if !s.cfg.Persistent {
		// the size of a finished request is released right after the export function returned, at an
		// instant the driver cannot see: poll (bounded) for the model value
		// (generous fixed bound, independent of the adaptive settle wait: on the unchanged tree the value
		// arrives within microseconds; a loaded machine must not turn the poll into a verdict)
		dl := time.Now().Add(15 * time.Second)
		for g != s.size && time.Now().Before(dl) {
			s.pump() // an event that was late for the step's settle wait must still update the model
			time.Sleep(20 * time.Microsecond)
			g, _ = s.r.size()
		}
		if g != s.size {
			s.violation("size", fmt.Sprintf("after %s the reported size is %d, the summed size of accepted-but-unfinished requests is %d", step, g, s.size), "what", "sum-mismatch")
		}
	}
	if g < 0 {
		s.violation("size", fmt.Sprintf("reported size %d is negative", g), "what", "negative")
	}
	if g > s.cfg.Capacity {
		s.violation("size", fmt.Sprintf("reported size %d exceeds the capacity %d", g, s.cfg.Capacity), "what", "over-capacity")
	}
	s.c.Distinct("states", s.cfg.Persistent, s.cfg.Capacity, g, len(s.inflight), len(s.queue), len(s.waiters))
}

func (s *sim) offer(p *prod) {
	s.prods = append(s.prods, p)
	if !p.bare {
		s.byID[p.id] = p
	}
	p.state = "started"
	p.notBefore = s.step
	if s.cfg.Persistent {
		s.gaugeBefore, _ = s.r.size()
	}
	p.pred = s.predict(p)
	ctx, cancel := context.WithCancel(context.Background())
	p.cancel = cancel
	p.ctxErr = context.Canceled
	if len(s.prods)%2 == 1 {
		// this producer's context ends the way a deadline does: Err() is context.DeadlineExceeded
		ctx, p.ctxErr = endsByDeadline{ctx}, context.DeadlineExceeded
	}
	hc := hookCtx{Context: ctx, onDone: func(space bool) {
		k := "park-result"
		if space {
			k = "park-space"
		}
		s.ev <- event{kind: k, p: p}
	}}
	ld := mkReq(p.id, p.items, p.pad, p.bare)
	go func() {
		err := s.r.exp.ConsumeLogs(hc, ld)
		s.ev <- event{kind: "ret", p: p, err: err}
	}()
}

// offerBurst issues several offers that all fit together back to back, without letting the queue settle
// in between: from one goroutine when Consume returns at once, from one goroutine each with wait_for_result.
func (s *sim) offerBurst(ps []*prod) {
	type call struct {
		p  *prod
		hc hookCtx
	}
	var calls []call
	for _, p := range ps {
		p := p
		s.prods = append(s.prods, p)
		if !p.bare {
			s.byID[p.id] = p
		}
		p.state = "started"
		p.notBefore = s.step
		p.pred = "accept"
		ctx, cancel := context.WithCancel(context.Background())
		p.cancel = cancel
		calls = append(calls, call{p, hookCtx{Context: ctx, onDone: func(space bool) {
			k := "park-result"
			if space {
				k = "park-space"
			}
			s.ev <- event{kind: k, p: p}
		}}})
	}
	if s.cfg.WFR {
		for _, cl := range calls {
			cl := cl
			ld := mkReq(cl.p.id, cl.p.items, cl.p.pad, cl.p.bare)
			go func() {
				err := s.r.exp.ConsumeLogs(cl.hc, ld)
				s.ev <- event{kind: "ret", p: cl.p, err: err}
			}()
		}
		return
	}
	go func() {
		for _, cl := range calls {
			err := s.r.exp.ConsumeLogs(cl.hc, mkReq(cl.p.id, cl.p.items, cl.p.pad, cl.p.bare))
			s.ev <- event{kind: "ret", p: cl.p, err: err}
		}
	}()
}

func randCfg(rng *rand.Rand) qcfg {
	cfg := qcfg{Consumers: 1 + rng.Intn(3)}
	if rng.Intn(5) == 0 {
		cfg.Consumers = 1
	}
	cfg.Persistent = rng.Intn(3) == 0
	cfg.Block = rng.Intn(2) == 0
	if cfg.Persistent {
		cfg.Sizer = "requests"
		cfg.Capacity = int64(1 + rng.Intn(6))
		cfg.StartCtxEnds = rng.Intn(2) == 0
		return cfg
	}
	cfg.WFR = rng.Intn(3) == 0
	switch rng.Intn(3) {
	case 0:
		cfg.Sizer = "requests"
		cfg.Capacity = int64(1 + rng.Intn(6))
	case 1:
		cfg.Sizer = "items"
		cfg.Capacity = int64(1 + rng.Intn(12))
	default:
		cfg.Sizer = "bytes"
		cfg.Capacity = int64(60 + rng.Intn(400))
	}
	cfg.StartCtxEnds = rng.Intn(4) == 0
	return cfg
}

func (s *sim) newProd(rng *rand.Rand) *prod {
	p := &prod{n: len(s.prods), id: fmt.Sprintf("r%d", len(s.prods))}
	switch s.cfg.Sizer {
	case "requests":
		p.items = rng.Intn(3)
	case "items":
		switch x := rng.Intn(10); {
		case x == 0:
			p.items = 0
		case x == 1:
			p.items = int(s.cfg.Capacity) + 1 + rng.Intn(3)
		case x == 2:
			p.items = int(s.cfg.Capacity)
		default:
			p.items = 1 + rng.Intn(int(s.cfg.Capacity))
			if rng.Intn(2) == 0 {
				p.items = 1 + rng.Intn((int(s.cfg.Capacity)+1)/2)
			}
		}
	case "bytes":
		switch x := rng.Intn(10); {
		case x == 0:
			p.bare = true
		case x == 1:
			p.items, p.pad = 1, int(s.cfg.Capacity)+rng.Intn(50)
		default:
			p.items = 1 + rng.Intn(2)
			p.pad = rng.Intn(int(s.cfg.Capacity)/2 + 1)
		}
	}
	p.size = sizeOf(s.cfg.Sizer, mkReq(p.id, p.items, p.pad, p.bare))
	if s.cfg.Sizer == "bytes" && rng.Intn(8) == 0 && !p.bare {
		// exact fit of the remaining space, when it can be constructed
		rest := s.cfg.Capacity - s.size
		base := sizeOf("bytes", mkReq(p.id, 1, 1, false))
		if rest > base+2 && rest < 5000 {
			for pad := int(rest - base); pad < int(rest-base)+4 && pad > 0; pad++ {
				if sizeOf("bytes", mkReq(p.id, 1, pad, false)) == rest {
					p.items, p.pad, p.size = 1, pad, rest
					break
				}
			}
		}
	}
	return p
}

func runL1(c *driver.Ctx, rng *rand.Rand, caseNo int64) {
	cfg := randCfg(rng)
	r, err := newRig(cfg)
	if err != nil {
		c.Inconclusive("rig: " + err.Error())
		return
	}
	s := &sim{c: c, cfg: cfg, r: r, ev: make(chan event, 4096), byID: map[string]*prod{}, inflight: map[*entry]*prod{}, waiters: map[*prod]bool{}, expRet: map[*prod]bool{}, stats: map[string]int{}}
	steps := 8 + rng.Intn(c.N(22, 40))
	nontrivial := false
	for i := 0; i < steps && !s.failed; i++ {
		s.step = i + 1
		x := rng.Intn(100)
		var parked []*prod
		for _, p := range s.prods {
			if p.state == "space" || (p.state == "result" && !p.completed) {
				parked = append(parked, p)
			}
		}
		switch {
		case x < 12 && len(parked) > 0:
			p := parked[rng.Intn(len(parked))]
			p.cancelled = true
			s.expRet[p] = true
			s.tracef("cancel(%s in %s)", p.id, p.state)
			p.cancel()
			nontrivial = true
			s.stats["cancel"]++
			s.settle()
			s.checkGauges("cancel")
		case x < 55 && len(s.order) > 0:
			e := s.order[rng.Intn(len(s.order))]
			var out error
			if rng.Intn(3) == 0 {
				out = fmt.Errorf("outcome-of-%s", e.id)
			}
			s.tracef("complete(%s,%v)", e.id, errStr(out))
			s.complete(e, out)
			s.stats["complete"]++
			s.settle()
			s.soleWaiterCheck()
			s.checkGauges("complete")
		case x >= 88 && len(parked) == 0:
			// burst: 2-4 requests that fit together, offered back to back
			var ps []*prod
			if s.cfg.Persistent {
				s.gaugeBefore, _ = s.r.size()
			}
			room := s.cfg.Capacity - s.refSize()
			for k := 2 + rng.Intn(3); k > 0; k-- {
				p := s.newProd(rng)
				p.n += len(ps)
				p.id = fmt.Sprintf("r%d", len(s.prods)+len(ps))
				p.size = sizeOf(s.cfg.Sizer, mkReq(p.id, p.items, p.pad, p.bare))
				if p.size <= 0 || p.size > room {
					continue
				}
				room -= p.size
				ps = append(ps, p)
			}
			if len(ps) < 2 {
				continue
			}
			var ids []string
			for _, p := range ps {
				ids = append(ids, p.id)
			}
			s.tracef("burst(%s)", strings.Join(ids, ","))
			nontrivial = true
			s.stats["burst"]++
			s.offerBurst(ps)
			s.settle()
			s.checkGauges("burst")
		default:
			if len(parked) >= 6 {
				continue
			}
			p := s.newProd(rng)
			if s.cfg.Persistent {
				s.gaugeBefore, _ = s.r.size()
			}
			d := s.predict(p)
			if d != "accept" || len(s.inflight) >= 2 {
				nontrivial = true
			}
			s.stats["offer-"+d]++
			s.offer(p)
			s.settle()
			s.checkGauges("offer")
		}
		c.Observe("l1_steps", 1)
	}
	// drain: everything in flight and queued completes successfully; every producer must return
	s.tracef("drain")
	s.drain = true
	r.auto.Store(true)
	for _, e := range append([]*entry{}, s.order...) {
		s.complete(e, nil)
	}
	pendingProds := func() int {
		n := 0
		for _, p := range s.prods {
			if p.state != "returned" {
				n++
			}
		}
		return n
	}
	drainLimit := 30 * time.Second
	if s.failed {
		drainLimit = 2 * time.Second // the script already produced a verdict: do not spend the watchdog on it
	}
	limit := time.NewTimer(drainLimit)
	stuck := false
	for pendingProds() > 0 && !stuck {
		select {
		case ev := <-s.ev:
			s.handle(ev)
		case e := <-s.r.entered:
			s.handle(event{kind: "entry", e: e})
		case <-limit.C:
			stuck = true
		}
	}
	limit.Stop()
	if stuck && s.failed {
		abandonedRigs.Add(1)
		c.Observe("abandoned_rigs", 1)
		return
	}
	if stuck {
		abandonedRigs.Add(1)
		d := goroutineDump()
		fr := driver.BlockedRepoFrames(d)
		var left []string
		for _, p := range s.prods {
			if p.state != "returned" {
				left = append(left, fmt.Sprintf("%s(%s,cancelled=%v)", p.id, p.state, p.cancelled))
			}
		}
		s.violation("never-returned", fmt.Sprintf("while draining (every export succeeds) %d producer(s) never returned: %v; blocked frames: %s", len(left), left, strings.Join(fr, "; ")), "what", stuckClass(fr))
		c.Observe("abandoned_rigs", 1)
		return // the rig is deadlocked: abandon it
	}
	// wait until every accepted request was handed off and finished: reported size back to 0
	dl := time.Now().Add(10 * time.Second)
	for {
		for more := true; more; {
			select {
			case ev := <-s.ev:
				s.handle(ev)
			case e := <-s.r.entered:
				s.handle(event{kind: "entry", e: e})
			default:
				more = false
			}
		}
		missing := 0
		for _, p := range s.prods {
			if p.accepted && p.handedN == 0 && (p.size > 0 || s.cfg.Persistent) {
				missing++
			}
		}
		g, _ := r.size()
		if missing == 0 && g == 0 {
			break
		}
		if time.Now().After(dl) {
			if missing > 0 {
				var ids []string
				for _, p := range s.prods {
					if p.accepted && p.handedN == 0 && (p.size > 0 || s.cfg.Persistent) {
						ids = append(ids, p.id)
					}
				}
				s.violation("never-handed", fmt.Sprintf("accepted requests %v were never handed to a consumer although consumers are idle; blocked frames: %s", ids, strings.Join(driver.BlockedRepoFrames(goroutineDump()), "; ")), "what", "lost")
			} else {
				s.violation("size", fmt.Sprintf("every accepted request has finished but the reported size stays %d", g), "what", "nonzero-at-rest")
			}
			break
		}
		time.Sleep(50 * time.Microsecond)
	}
	for _, p := range s.prods {
		if p.accepted && p.handedN > 1 {
			s.violation("duplicate", "request handed to a consumer twice: "+p.id, "what", "twice")
		}
	}
	if !r.close(30 * time.Second) {
		s.violation("shutdown-stuck", "Shutdown of the drained exporter did not return; blocked frames: "+strings.Join(driver.BlockedRepoFrames(goroutineDump()), "; "), "what", "shutdown")
		return
	}
	c.Observe("unsettled_steps", int64(s.unsettled))
	for k, v := range s.stats {
		c.Observe("l1_"+k, int64(v))
	}
	if nontrivial {
		c.Nontrivial("L1", cfg.String(), strings.Join(s.trace, " "))
	}
	if caseNo < 2 {
		c.Sample(map[string]any{"level": "L1", "config": cfg.String(), "trace": s.trace})
	}
}

func stuckClass(frames []string) string {
	j := strings.Join(frames, ";")
	switch {
	case strings.Contains(j, "cond).Signal") && strings.Contains(j, "chan send"):
		return "signal-blocked-holding-lock"
	case strings.Contains(j, "cond).Wait"):
		return "waiter-never-woken"
	default:
		return "other"
	}
}
