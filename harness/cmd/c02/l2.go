package main

import (
	"context"
	"errors"
	"fmt"
	"math/rand"
	"runtime"
	"sort"
	"strings"
	"sync"
	"sync/atomic"
	"time"

	"github.com/anishathalye/porcupine"

	"go.opentelemetry.io/collector/verifharness/lib/driver"
)

// L2 — concurrent producers, consumers, cancellers and a size reader; offline checkers over the
// recorded history (unique ids, one logical clock).

type offerRec struct {
	Prod    int    `json:"p"`
	ID      string `json:"id"`
	Size    int64  `json:"size"`
	Call    int64  `json:"call"`
	Ret     int64  `json:"ret"`
	Err     string `json:"err"`
	err     error
	outcome error
}

type handRec struct {
	ID   string `json:"id"`
	T    int64  `json:"t"`
	Done int64  `json:"done"`
}

type sizeRec struct {
	Call int64 `json:"call"`
	Ret  int64 `json:"ret"`
	N    int64 `json:"n"`
}

type pin struct {
	kind string
	size int64
	cap  int64
}
type pout struct {
	accepted bool
	n        int64
}

func porcModel(capacity int64) porcupine.Model {
	return porcupine.Model{
		Init: func() interface{} { return int64(0) },
		Step: func(state, input, output interface{}) (bool, interface{}) {
			s := state.(int64)
			i := input.(pin)
			o := output.(pout)
			switch i.kind {
			case "offer":
				if i.size == 0 {
					return o.accepted, s
				}
				if i.size > capacity {
					return !o.accepted, s
				}
				if o.accepted {
					return s+i.size <= capacity, s + i.size
				}
				return s+i.size > capacity, s
			case "done":
				return true, s - i.size
			default:
				return o.n == s, s
			}
		},
		DescribeOperation: func(input, output interface{}) string { return fmt.Sprint(input, output) },
	}
}

var abandonedRigs atomic.Int64

func runL2(c *driver.Ctx, rng *rand.Rand, caseNo int64) {
	cfg := randCfg(rng)
	if !cfg.Persistent && rng.Intn(2) == 0 {
		// half of the memory-queue histories are the porcupine-checkable kind
		cfg.Block, cfg.WFR = false, false
	}
	if cfg.Sizer == "bytes" {
		cfg.Capacity = int64(80 + rng.Intn(200))
	}
	r, err := newRig(cfg)
	if err != nil {
		c.Inconclusive("rig: " + err.Error())
		return
	}
	r.auto.Store(true)
	r.yield.Store(int64(rng.Intn(4)))
	nProd := 2 + rng.Intn(4)
	perProd := 3 + rng.Intn(5)
	var hmu sync.Mutex
	var offers []*offerRec
	var sizes []sizeRec
	var progress atomic.Int64

	// outcome per request id (unique errors), decided up front
	outcomes := map[string]error{}
	type plan struct {
		id     string
		items  int
		pad    int
		bare   bool
		size   int64
		mode   int // 0 background ctx, 1 cancel from a canceller after n yields, 2 cancel inside the wait window, 3 yield inside the wait window
		yields int
	}
	plans := make([][]plan, nProd)
	for p := 0; p < nProd; p++ {
		for k := 0; k < perProd; k++ {
			pl := plan{id: fmt.Sprintf("p%d.%d", p, k)}
			switch cfg.Sizer {
			case "requests":
				pl.items = rng.Intn(3)
			case "items":
				pl.items = rng.Intn(int(cfg.Capacity) + 2)
			case "bytes":
				if rng.Intn(12) == 0 {
					pl.bare = true
				} else {
					pl.items = 1 + rng.Intn(2)
					pl.pad = rng.Intn(int(cfg.Capacity))
				}
			}
			pl.size = sizeOf(cfg.Sizer, mkReq(pl.id, pl.items, pl.pad, pl.bare))
			if cfg.Block || cfg.WFR {
				pl.mode = rng.Intn(4)
			}
			pl.yields = rng.Intn(30)
			if rng.Intn(3) == 0 {
				outcomes[pl.id] = fmt.Errorf("outcome-of-%s", pl.id)
			}
			plans[p] = append(plans[p], pl)
		}
	}
	// the export function (auto mode) has no access to outcomes: wrap by gate-less lookup via handed list
	// -> outcomes are only observable with wait_for_result; the rig returns nil in auto mode, so for WFR
	// configurations use gated mode with an immediate per-id release.
	if cfg.WFR {
		r.auto.Store(false)
	}
	stopRel := make(chan struct{})
	var relWG sync.WaitGroup
	var hands []*handRec
	relWG.Add(1)
	go func() {
		defer relWG.Done()
		for {
			select {
			case e := <-r.entered:
				h := &handRec{ID: e.id, T: e.t}
				if !r.auto.Load() {
					for i := rng.Intn(3); i > 0; i-- {
						runtime.Gosched()
					}
					h.Done = now()
					e.gate <- outcomes[e.id]
				} else {
					h.Done = e.doneT
				}
				hmu.Lock()
				hands = append(hands, h)
				hmu.Unlock()
				progress.Add(1)
			case <-stopRel:
				return
			}
		}
	}()

	var waitersMu sync.Mutex
	waitCancels := map[string]context.CancelFunc{}
	var wg sync.WaitGroup
	for p := 0; p < nProd; p++ {
		wg.Add(1)
		go func(p int) {
			defer wg.Done()
			for _, pl := range plans[p] {
				rec := &offerRec{Prod: p, ID: pl.id, Size: pl.size, outcome: outcomes[pl.id]}
				base, cancel := context.WithCancel(context.Background())
				var ctx context.Context = base
				switch pl.mode {
				case 1:
					go func(n int) {
						for i := 0; i < n; i++ {
							runtime.Gosched()
						}
						cancel()
					}(pl.yields)
				case 2, 3:
					mode, id := pl.mode, pl.id
					ctx = hookCtx{Context: base, onDone: func(space bool) {
						if !space {
							return
						}
						waitersMu.Lock()
						waitCancels[id] = cancel
						var others []context.CancelFunc
						if mode == 2 {
							for oid, oc := range waitCancels {
								if oid != id {
									others = append(others, oc)
									break
								}
							}
						}
						waitersMu.Unlock()
						for i := 0; i < pl.yields%7; i++ {
							runtime.Gosched()
						}
						if mode == 2 {
							// cancellation lands in the window between releasing the queue lock and the
							// select, when a completion's signal may be ready as well; a second waiter is
							// cancelled at the same instant
							cancel()
							for _, oc := range others {
								oc()
							}
						}
					}}
				}
				ld := mkReq(pl.id, pl.items, pl.pad, pl.bare)
				rec.Call = now()
				err := r.exp.ConsumeLogs(ctx, ld)
				rec.Ret = now()
				rec.err = err
				rec.Err = errStr(err)
				cancel()
				waitersMu.Lock()
				delete(waitCancels, pl.id)
				waitersMu.Unlock()
				hmu.Lock()
				offers = append(offers, rec)
				hmu.Unlock()
				progress.Add(1)
				for i := pl.yields % 5; i > 0; i-- {
					runtime.Gosched()
				}
			}
		}(p)
	}
	stopSize := make(chan struct{})
	var sizeWG sync.WaitGroup
	sizeWG.Add(1)
	go func() {
		defer sizeWG.Done()
		for {
			select {
			case <-stopSize:
				return
			default:
			}
			cl := now()
			n, ok := r.size()
			rt := now()
			if ok {
				hmu.Lock()
				if len(sizes) < 40 {
					sizes = append(sizes, sizeRec{cl, rt, n})
				}
				hmu.Unlock()
			}
			for i := 0; i < 20; i++ {
				runtime.Gosched()
			}
		}
	}()

	// lock hammers: goroutines that do nothing but read the size (each read takes the queue's lock). The
	// contention makes goroutines inside the queue lose the CPU exactly where they take the lock, which widens
	// windows between "something was published" and "the lock was taken" that no callback of the harness can
	// reach (seeded change C02-1: result delivered before the size is released).
	hammers := 0
	if cfg.WFR || caseNo%3 == 0 {
		hammers = 2 + int(caseNo%3)
	}
	for h := 0; h < hammers; h++ {
		sizeWG.Add(1)
		go func() {
			defer sizeWG.Done()
			for {
				select {
				case <-stopSize:
					return
				default:
				}
				if n, ok := r.size(); ok && (n < 0 || n > cfg.Capacity) {
					hmu.Lock()
					if len(sizes) < 60 {
						sizes = append(sizes, sizeRec{0, 0, n})
					}
					hmu.Unlock()
				}
			}
		}()
	}

	witness := func() map[string]any {
		hmu.Lock()
		defer hmu.Unlock()
		o := append([]*offerRec{}, offers...)
		sort.Slice(o, func(i, j int) bool { return o[i].Call < o[j].Call })
		h := append([]*handRec{}, hands...)
		if len(o) > 60 {
			o = o[:60]
		}
		if len(h) > 60 {
			h = h[:60]
		}
		return map[string]any{"config": cfg, "producers": nProd, "offers": o, "handoffs": h, "sizes": sizes}
	}
	vio := func(sub, what string, sig ...string) {
		sig = append(sig, "queue", map[bool]string{true: "persistent", false: "memory"}[cfg.Persistent])
		c.Violation(sub, what+" ["+cfg.String()+"]", witness(), sig...)
	}

	// bounded progress: consumers complete everything, so every producer must return
	st := c.Guard(30*time.Second, progress.Load, wg.Wait)
	close(stopSize)
	if st == nil {
		sizeWG.Wait()
	}
	if st != nil {
		vio("never-returned", fmt.Sprintf("producers never returned although every export completes; blocked frames: %s", strings.Join(st.RepoFrames, "; ")), "what", stuckClass(st.RepoFrames), "level", "L2")
		abandonedRigs.Add(1)
		c.Observe("abandoned_rigs", 1)
		close(stopRel)
		return
	}
	// quiesce: reported size back to 0 and every accepted request handed off
	accepted := map[string]*offerRec{}
	maybe := map[string]bool{}
	never := map[string]*offerRec{}
	for _, o := range offers {
		switch {
		case o.err == nil && (o.Size > 0 || cfg.Persistent):
			accepted[o.ID] = o
		case o.err == nil:
			never[o.ID] = o // zero-sized: acknowledged, never handed off
		case cfg.WFR && (errors.Is(o.err, context.Canceled) || (o.outcome != nil && errors.Is(o.err, o.outcome))):
			if o.outcome != nil && errors.Is(o.err, o.outcome) {
				accepted[o.ID] = o
			} else {
				maybe[o.ID] = true // cancelled while waiting for space or for the result: unknown
			}
		default:
			never[o.ID] = o
		}
	}
	dl := time.Now().Add(20 * time.Second)
	for {
		hmu.Lock()
		got := map[string]int{}
		for _, h := range hands {
			got[h.ID]++
		}
		hmu.Unlock()
		missing := 0
		for id := range accepted {
			if got[id] == 0 {
				missing++
			}
		}
		g, _ := r.size()
		if missing == 0 && g == 0 {
			break
		}
		if time.Now().After(dl) {
			if missing > 0 {
				vio("never-handed", fmt.Sprintf("%d accepted request(s) were never handed to a consumer; blocked frames: %s", missing, strings.Join(driver.BlockedRepoFrames(goroutineDump()), "; ")), "what", "lost", "level", "L2")
			} else {
				vio("size", fmt.Sprintf("every accepted request has finished but the reported size stays %d", g), "what", "nonzero-at-rest", "level", "L2")
			}
			break
		}
		time.Sleep(50 * time.Microsecond)
	}
	end := now()
	gEnd, _ := r.size()
	if !r.close(30 * time.Second) {
		vio("shutdown-stuck", "Shutdown did not return; blocked frames: "+strings.Join(driver.BlockedRepoFrames(goroutineDump()), "; "), "what", "shutdown", "level", "L2")
		abandonedRigs.Add(1)
		close(stopRel)
		return
	}
	close(stopRel)
	relWG.Wait()

	// ---- offline checkers ----
	got := map[string][]*handRec{}
	for _, h := range hands {
		got[h.ID] = append(got[h.ID], h)
	}
	for id, hs := range got {
		if len(hs) > 1 {
			vio("duplicate", "request handed to a consumer twice: "+id, "what", "twice", "level", "L2")
		}
		if o, bad := never[id]; bad {
			vio("refused-handed", fmt.Sprintf("request %s whose enqueue returned %q (size %d) was handed to a consumer", id, o.Err, o.Size), "what", "refused", "level", "L2")
		}
		if accepted[id] == nil && never[id] == nil && !maybe[id] {
			vio("invented", "hand-off of an unknown request "+id, "what", "unknown-id", "level", "L2")
		}
	}
	for _, o := range offers {
		if cfg.WFR && o.err != nil && !errors.Is(o.err, context.Canceled) && !isFull(o.err) && o.Size <= cfg.Capacity {
			if o.outcome == nil || !errors.Is(o.err, o.outcome) {
				vio("own-outcome", fmt.Sprintf("wait-for-result producer of %s received %q, its own request's outcome is %v", o.ID, o.Err, errStr(o.outcome)), "what", "wrong-outcome", "level", "L2")
			}
		}
		if cfg.WFR && o.err == nil && o.outcome != nil && o.Size > 0 {
			vio("own-outcome", fmt.Sprintf("wait-for-result producer of %s received nil, its own request failed with %v", o.ID, o.outcome), "what", "error-lost", "level", "L2")
		}
	}
	if cfg.Consumers == 1 {
		// real-time FIFO: offers that did not overlap must be handed off in their order
		var acc []*offerRec
		for id, o := range accepted {
			if len(got[id]) == 1 {
				acc = append(acc, o)
			}
		}
		sort.Slice(acc, func(i, j int) bool { return acc[i].Ret < acc[j].Ret })
		for i := 0; i < len(acc); i++ {
			for j := i + 1; j < len(acc); j++ {
				a, b := acc[i], acc[j]
				if a.Ret < b.Call && !cfg.WFR && got[a.ID][0].T > got[b.ID][0].T {
					vio("fifo", fmt.Sprintf("single consumer: %s was accepted (returned at %d) before %s was offered (called at %d) but handed off later (%d > %d)", a.ID, a.Ret, b.ID, b.Call, got[a.ID][0].T, got[b.ID][0].T), "what", "inversion", "level", "L2")
				}
			}
		}
	}
	for _, sr := range sizes {
		if sr.N < 0 || sr.N > cfg.Capacity {
			vio("size", fmt.Sprintf("sampled size %d outside [0, %d]", sr.N, cfg.Capacity), "what", "out-of-bounds", "level", "L2")
		}
	}
	// porcupine: non-blocking memory queue, every completion an operation that stays open from the
	// export function's return until the quiescent end of the history
	if !cfg.Persistent && !cfg.Block && !cfg.WFR {
		var ops []porcupine.Operation
		for _, o := range offers {
			ops = append(ops, porcupine.Operation{ClientId: o.Prod, Input: pin{kind: "offer", size: o.Size}, Call: o.Call, Output: pout{accepted: o.err == nil}, Return: o.Ret})
		}
		cid := nProd
		for _, sr := range sizes {
			if sr.Call == 0 {
				continue // out-of-bounds sample of a hammer goroutine (no stamps): judged by the bounds check only
			}
			ops = append(ops, porcupine.Operation{ClientId: cid, Input: pin{kind: "size"}, Call: sr.Call, Output: pout{n: sr.N}, Return: sr.Ret})
		}
		cid++
		sizeByID := map[string]int64{}
		for _, o := range offers {
			sizeByID[o.ID] = o.Size
		}
		for _, h := range hands {
			ops = append(ops, porcupine.Operation{ClientId: cid, Input: pin{kind: "done", size: sizeByID[h.ID]}, Call: h.Done, Output: pout{}, Return: end})
			cid++
		}
		ops = append(ops, porcupine.Operation{ClientId: cid, Input: pin{kind: "size"}, Call: end + 1, Output: pout{n: gEnd}, Return: end + 2})
		res, _ := porcupine.CheckOperationsVerbose(porcModel(cfg.Capacity), ops, 60*time.Second)
		switch res {
		case porcupine.Ok:
			c.Observe("porcupine_ok", 1)
		case porcupine.Illegal:
			c.Observe("porcupine_illegal", 1)
			vio("linearizability", fmt.Sprintf("history of %d offer/done/size operations is not linearizable w.r.t. the sequential accounting model (capacity %d)", len(ops), cfg.Capacity), "what", "porcupine-illegal", "level", "L2")
		default:
			c.Observe("porcupine_unknown", 1)
			c.Inconclusive("porcupine timeout")
		}
		c.Observe("porcupine_ops", int64(len(ops)))
	}
	// interleaving signature: order of (kind, actor) events with payload ids erased
	type evt struct {
		t int64
		s string
	}
	var evs []evt
	overlap := false
	for _, o := range offers {
		evs = append(evs, evt{o.Call, fmt.Sprintf("c%d", o.Prod)}, evt{o.Ret, fmt.Sprintf("r%d%v", o.Prod, o.err == nil)})
	}
	for _, h := range hands {
		evs = append(evs, evt{h.T, "h"}, evt{h.Done, "d"})
	}
	sort.Slice(evs, func(i, j int) bool { return evs[i].t < evs[j].t })
	var sb strings.Builder
	open := 0
	for _, e := range evs {
		sb.WriteString(e.s)
		if e.s[0] == 'c' {
			open++
			if open > 1 {
				overlap = true
			}
		} else if e.s[0] == 'r' {
			open--
		}
	}
	c.Distinct("interleavings", cfg.String(), sb.String())
	c.Observe("l2_operations", int64(len(offers)+len(hands)+len(sizes)))
	c.Observe("l2_cancelled_offers", int64(func() int {
		n := 0
		for _, o := range offers {
			if errors.Is(o.err, context.Canceled) {
				n++
			}
		}
		return n
	}()))
	if overlap {
		c.Nontrivial("L2", cfg.String(), sb.String())
	}
	if caseNo < 1 {
		c.Sample(map[string]any{"level": "L2", "history": witness()})
	}
}
