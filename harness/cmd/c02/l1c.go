package main

import (
	"context"
	"errors"
	"fmt"
	"math/rand"
	"sort"
	"strconv"
	"strings"
	"sync/atomic"
	"time"

	"go.opentelemetry.io/collector/verifharness/lib/driver"
	"go.opentelemetry.io/collector/verifharness/lib/qstore"
)

// Recovered elements that cannot be dispatched (persistent queue). A first incarnation stores k requests
// (the first one handed to its consumer and never finished) and "dies"; the durable image is then damaged
// the way a torn write or a foreign writer damages it (garbage, truncated or emptied payloads of a chosen
// subset of the stored elements), optionally a transient storage error is injected into the second
// incarnation, and the second incarnation is started with block_on_overflow and a capacity small enough
// that new producers block behind the recovered backlog. Elements that cannot be dispatched free their
// space without ever reaching a consumer, so no completion signals on their behalf: the queue itself has to
// release the producers. Oracles (all from the statement): every intact recovered request and every
// accepted new request is handed over exactly once, refused ones never; intact recovered requests keep
// their order with one consumer; no producer stays blocked once nothing is in flight and the reported size
// leaves room for it; the reported size is zero at rest.
func runRecovered(c *driver.Ctx, rng *rand.Rand, caseNo int64) {
	const bound = 20 * time.Second
	k := 2 + rng.Intn(5)
	// ---- first incarnation ----
	cfgA := qcfg{Persistent: true, Sizer: "requests", Capacity: 64, Consumers: 1}
	ra, err := newRig(cfgA)
	if err != nil {
		c.Inconclusive("rig: " + err.Error())
		return
	}
	for i := 0; i < k; i++ {
		if err := ra.exp.ConsumeLogs(context.Background(), mkReq(fmt.Sprintf("R%d", i), 1+rng.Intn(3), rng.Intn(40), false)); err != nil {
			c.Inconclusive("first incarnation refused a request: " + err.Error())
			ra.close(bound)
			return
		}
	}
	select {
	case <-ra.entered: // R0 is in flight (recorded as dispatched in the image)
	case <-time.After(bound):
		c.Inconclusive("first incarnation never handed its first request")
		abandonedRigs.Add(1)
		return
	}
	image := ra.store.Image()
	ra.close(bound)

	// ---- damage ----
	var itemKeys []int
	for key := range image {
		if n, err := strconv.Atoi(key); err == nil {
			itemKeys = append(itemKeys, n)
		}
	}
	sort.Ints(itemKeys)
	if len(itemKeys) != k {
		c.Inconclusive(fmt.Sprintf("image of the first incarnation holds %d element keys, want %d", len(itemKeys), k))
		return
	}
	damaged := map[int]string{}
	mode := rng.Intn(4)
	tailWithFirst := rng.Intn(2) == 0
	for _, n := range itemKeys {
		hit := false
		switch mode {
		case 0: // the last stored element and the one in flight at the death (which recovery moves behind it)
			hit = n == itemKeys[k-1] || n == itemKeys[0]
		case 1: // a tail, with or without the one in flight at the death
			hit = n >= itemKeys[k-1-rng.Intn(k-1)] || (n == itemKeys[0] && tailWithFirst)
		case 2: // everything but the one in flight at the death
			hit = n != itemKeys[0]
		default:
			hit = rng.Intn(2) == 0
		}
		if !hit {
			continue
		}
		key := strconv.Itoa(n)
		switch rng.Intn(3) {
		case 0:
			image[key] = []byte{0xff, 0xff, 0xff, 0xff, 0xff, 0xff, 0xff, 0xff, 0xff, 0xff, 0xff, 0x01, 0x02}
			damaged[n] = "garbage"
		case 1:
			v := image[key]
			image[key] = append([]byte(nil), v[:len(v)/2]...)
			damaged[n] = "truncated"
		default:
			// a payload whose outer length prefix promises more than there is
			image[key] = []byte{0x0a, 0x7f, 0x0a, 0x03}
			damaged[n] = "short"
		}
	}
	if mode == 3 && len(damaged) == 0 {
		n := itemKeys[k-1]
		image[strconv.Itoa(n)] = []byte{0xff, 0xff, 0xff, 0xff, 0xff, 0xff, 0xff, 0xff, 0xff, 0xff, 0xff}
		damaged[n] = "garbage"
	}
	intact := []string{}
	for _, n := range itemKeys {
		if _, d := damaged[n]; !d {
			intact = append(intact, fmt.Sprintf("R%d", n-itemKeys[0]))
		}
	}

	// ---- second incarnation ----
	st := qstore.New(image, -1)
	fault := 0
	if rng.Intn(3) == 0 {
		// one transient storage error somewhere in the first calls of the second incarnation
		fault = 1 + rng.Intn(4+2*k)
		st.FailAt(fault, errors.New("injected transient storage error"))
	}
	cfg := qcfg{Persistent: true, Sizer: "requests", Capacity: int64(1 + rng.Intn(k+1)), Consumers: 1 + rng.Intn(2), Block: true}
	cfg.StartCtxEnds = rng.Intn(3) == 0
	if rng.Intn(3) == 0 {
		cfg.Capacity = 1 // producers stay blocked until the whole backlog is gone
	}
	nProd := 1 + rng.Intn(3)
	desc := fmt.Sprintf("%s recovered=%d damaged=%v fault_at_call=%d producers=%d", cfg.String(), k, damaged, fault, nProd)
	trace := []string{}
	fail := func(sub, what string, sig ...string) {
		sig = append(sig, "queue", "persistent", "level", "L1-recovered")
		c.Violation(sub, what+" [recovered backlog with undispatchable elements, "+desc+"]", map[string]any{"config": cfg, "recovered": k, "damaged": fmt.Sprint(damaged), "fault_at_call": fault, "producers": nProd, "trace": trace}, sig...)
	}
	// the start (recovery) runs under a watchdog: nothing consumes yet, so a recovery that waits for queue
	// space can never finish
	type started struct {
		r   *rig
		err error
	}
	sch := make(chan started, 1)
	go func() { r, err := newRigOn(cfg, st); sch <- started{r, err} }()
	var r *rig
	select {
	case x := <-sch:
		r, err = x.r, x.err
	case <-time.After(bound):
		fr := driver.BlockedRepoFrames(goroutineDump())
		fail("start-stuck", "the start of a persistent queue on the stored backlog of its predecessor never returned: no recovered request is ever handed over and no producer can ever be served; blocked frames: "+strings.Join(fr, "; "), "what", stuckClass(fr))
		abandonedRigs.Add(1)
		c.Observe("abandoned_rigs", 1)
		return
	}
	if err != nil {
		if fault > 0 {
			c.Observe("recovered_start_failed_under_fault", 1)
			return
		}
		c.Inconclusive("second incarnation: " + err.Error())
		return
	}
	type pstate struct {
		id     string
		parked atomic.Int64
		done   chan struct{}
		err    error
	}
	ps := make([]*pstate, nProd)
	progress := make(chan struct{}, 1024)
	for i := range ps {
		p := &pstate{id: fmt.Sprintf("P%d", i), done: make(chan struct{})}
		ps[i] = p
		go func() {
			p.err = r.exp.ConsumeLogs(hookCtx{Context: context.Background(), onDone: func(space bool) {
				if space {
					p.parked.Add(1)
					select {
					case progress <- struct{}{}:
					default:
					}
				}
			}}, mkReq(p.id, 1, 0, false))
			close(p.done)
			select {
			case progress <- struct{}{}:
			default:
			}
		}()
	}
	handed := map[string]int{}
	var order []string
	returned := func() int {
		n := 0
		for _, p := range ps {
			select {
			case <-p.done:
				n++
			default:
			}
		}
		return n
	}
	missing := func() []string {
		var m []string
		if fault == 0 {
			for _, id := range intact {
				if handed[id] == 0 {
					m = append(m, id)
				}
			}
		}
		// (under an injected storage error an accepted request may legitimately be dropped when its dispatch
		// transaction is the call that fails: storage faults are outside the statement's quantifier, so only
		// liveness, the size at rest, never-for-refused and no-duplicates are judged there)
		for _, p := range ps {
			select {
			case <-p.done:
				if fault == 0 && p.err == nil && handed[p.id] == 0 {
					m = append(m, p.id)
				}
			default:
			}
		}
		return m
	}
	// drive: complete whatever is handed over until every producer has returned, everything that has to be
	// handed over was, and the queue is at rest
	quietRounds := 0
	var held []*entry
	met := false
	const tick = 30 * time.Millisecond
	for {
		select {
		case e := <-r.entered:
			handed[e.id]++
			order = append(order, e.id)
			trace = append(trace, "handoff("+e.id+")")
			held = append(held, e)
			quietRounds = 0
		case <-progress:
			quietRounds = 0
		case <-time.After(tick):
			quietRounds++
		}
		// hand-offs are finished only once every producer has met the backlog (parked at least once, or
		// returned), so that the drain of the backlog happens in front of blocked producers
		if !met {
			met = true
			for _, p := range ps {
				select {
				case <-p.done:
				default:
					if p.parked.Load() == 0 {
						met = false
					}
				}
			}
			if !met && quietRounds > 100 {
				met = true // a producer neither parked nor returned for 3 s: carry on, the bounded-progress verdict below decides
			}
		}
		if met && len(held) > 0 {
			for _, e := range held {
				e.gate <- nil
				trace = append(trace, "complete("+e.id+")")
			}
			held = nil
			quietRounds = 0
		}
		if returned() == nProd && len(missing()) == 0 && len(held) == 0 && quietRounds >= 3 {
			if g, ok := r.size(); ok && g == 0 {
				break
			}
		}
		if quietRounds > int(bound/tick) {
			// nothing moved for the whole bound, and every hand-off was completed at once: nothing is in flight
			g, ok := r.size()
			fr := driver.BlockedRepoFrames(goroutineDump())
			blocked := []string{}
			for _, p := range ps {
				select {
				case <-p.done:
				default:
					blocked = append(blocked, p.id)
				}
			}
			switch {
			case !ok:
				fail("left-blocked", "the queue's size gauge does not answer and nothing moves; blocked frames: "+strings.Join(fr, "; "), "what", stuckClass(fr))
			case len(blocked) > 0 && g+1 <= cfg.Capacity:
				fail("left-blocked", fmt.Sprintf("producers %v stay blocked although nothing is in flight and the reported size is %d of %d; blocked frames: %s", blocked, g, cfg.Capacity, strings.Join(fr, "; ")), "what", "queue-empty")
			case len(blocked) > 0:
				fail("size", fmt.Sprintf("nothing is in flight or handed over any more, yet the reported size stays %d of %d and keeps producers %v blocked", g, cfg.Capacity, blocked), "what", "nonzero-at-rest")
			case g != 0:
				fail("size", fmt.Sprintf("every request has finished but the reported size is %d", g), "what", "nonzero-at-rest")
			default:
				fail("exactly-once", fmt.Sprintf("requests %v were accepted (or recovered intact) but never handed to the idle consumers", missing()), "what", "never-handed")
			}
			abandonedRigs.Add(1)
			c.Observe("abandoned_rigs", 1)
			return
		}
	}
	// verdicts over the history
	accepted := 0
	for _, p := range ps {
		switch {
		case p.err == nil:
			accepted++
			if handed[p.id] > 1 {
				fail("exactly-once", fmt.Sprintf("accepted request %s was handed over %d times", p.id, handed[p.id]), "what", "accepted")
			}
		default:
			if fault == 0 {
				fail("blocked-return", fmt.Sprintf("producer %s returned %v without its context ending and without a storage fault", p.id, p.err), "what", "unexpected-error")
			}
			if handed[p.id] != 0 {
				fail("never-for-refused", fmt.Sprintf("request %s was refused (%v) but handed over %d times", p.id, p.err, handed[p.id]), "what", "refused")
			}
		}
		if p.parked.Load() > 0 {
			c.Observe("recovered_blocked_producers", 1)
		}
	}
	for _, id := range intact {
		if handed[id] > 1 {
			fail("exactly-once", fmt.Sprintf("recovered request %s was handed over %d times", id, handed[id]), "what", "recovered-twice")
		}
	}
	if cfg.Consumers == 1 && fault == 0 {
		// intact elements that were still queued at the death keep their order
		last := -1
		for _, id := range order {
			if !strings.HasPrefix(id, "R") || id == "R0" {
				continue
			}
			n, _ := strconv.Atoi(id[1:])
			if n < last {
				fail("fifo", "recovered requests were handed over out of order: "+strings.Join(order, " "), "what", "recovered-order")
				break
			}
			last = n
		}
	}
	nDam := len(damaged)
	c.Observe("recovered_undispatchable_elements", int64(nDam))
	c.Distinct("recovered_shapes", fmt.Sprintf("mode=%d last=%v fault=%v cap<=backlog=%v consumers=%d", mode, damaged[itemKeys[k-1]] != "", fault > 0, cfg.Capacity <= int64(k), cfg.Consumers))
	blockedAny := false
	for _, p := range ps {
		if p.parked.Load() > 0 {
			blockedAny = true
		}
	}
	if blockedAny {
		c.Nontrivial("L1-recovered", desc, strings.Join(order, " "))
	}
	if caseNo == 0 {
		c.Sample(map[string]any{"level": "L1-recovered", "config": desc, "trace": trace, "accepted_new": accepted})
	}
	if !r.close(bound) {
		fail("shutdown-stuck", "Shutdown did not return; blocked frames: "+strings.Join(driver.BlockedRepoFrames(goroutineDump()), "; "), "what", "shutdown")
	}
}
