// C18 — memory limiter refuses exactly while usage is at/above the soft limit.
//
// L1 drives internal/memorylimiter directly: ReadMemStatsFn / GetMemoryFn are scripted, CheckInterval is one
// hour so that only the harness calls CheckMemLimits(). Every reading sequence over {below soft, = soft,
// between, = hard, above hard} up to a fixed length is enumerated, times the effect a forced GC has on the
// second reading, times the interval regime; a reference decision function predicts MustRefuse(), whether a
// GC is forced (and for which severity) and how many measurements are taken. GC decisions are observed from
// the limiter's own log lines, from the number of ReadMemStatsFn calls per check and from the runtime's
// forced-GC cycle counter.
//
// L2 drives memorylimiterprocessor.NewFactory() (logs, traces, metrics, profiles; several processors created
// from one config and therefore sharing one limiter) and memorylimiterextension: the level is set by the
// harness, progress is measured in completed measurements (never in time), liveness of the checker is judged
// against a witness ticker of the same period. The race variant runs start/consume/shutdown of the sharing
// processors concurrently.
//
// ReadMemStatsFn is a package-level variable that the limiter captures when it is constructed: everything in
// this file that assigns it runs sequentially inside one child process.
package main

import (
	"context"
	"errors"
	"fmt"
	"math"
	"math/rand"
	"runtime"
	"runtime/metrics"
	"strings"
	"sync"
	"sync/atomic"
	"time"

	"go.uber.org/zap"
	"go.uber.org/zap/zapcore"

	"go.opentelemetry.io/collector/component"
	"go.opentelemetry.io/collector/component/componenttest"
	"go.opentelemetry.io/collector/consumer"
	"go.opentelemetry.io/collector/consumer/consumererror"
	"go.opentelemetry.io/collector/consumer/xconsumer"
	"go.opentelemetry.io/collector/extension/extensiontest"
	"go.opentelemetry.io/collector/extension/memorylimiterextension"
	"go.opentelemetry.io/collector/internal/memorylimiter"
	"go.opentelemetry.io/collector/pdata/plog"
	"go.opentelemetry.io/collector/pdata/pmetric"
	"go.opentelemetry.io/collector/pdata/pprofile"
	"go.opentelemetry.io/collector/pdata/ptrace"
	"go.opentelemetry.io/collector/processor"
	"go.opentelemetry.io/collector/processor/memorylimiterprocessor"
	"go.opentelemetry.io/collector/processor/xprocessor"
	"go.opentelemetry.io/collector/verifharness/lib/driver"
)

const mib = 1 << 20

// ---------------------------------------------------------------------------------------------------
// capturing zap core

type logEv struct {
	Lvl string `json:"lvl"`
	Msg string `json:"msg"`
}

type capCore struct {
	mu      sync.Mutex
	evs     []logEv
	onWrite func(msg string)
}

func (c *capCore) Enabled(zapcore.Level) bool        { return true }
func (c *capCore) With([]zapcore.Field) zapcore.Core { return c }
func (c *capCore) Sync() error                       { return nil }
func (c *capCore) Check(e zapcore.Entry, ce *zapcore.CheckedEntry) *zapcore.CheckedEntry {
	return ce.AddCore(e, c)
}

func (c *capCore) Write(e zapcore.Entry, _ []zapcore.Field) error {
	if c.onWrite != nil {
		c.onWrite(e.Message)
	}
	c.mu.Lock()
	if len(c.evs) < 64 {
		c.evs = append(c.evs, logEv{e.Level.String(), e.Message})
	}
	c.mu.Unlock()
	return nil
}

func (c *capCore) take() []logEv {
	c.mu.Lock()
	defer c.mu.Unlock()
	out := c.evs
	c.evs = nil
	return out
}

const (
	msgForceHard = "Memory usage is above hard limit. Forcing a GC."
	msgForceSoft = "Memory usage is above soft limit. Forcing a GC."
	msgAfterGC   = "Memory usage after GC."
)

// ---------------------------------------------------------------------------------------------------
// configurations and the reference model

type limCfg struct {
	Name     string `json:"name"`
	MiB      uint32 `json:"limit_mib"`
	SpikeMiB uint32 `json:"spike_limit_mib"`
	Pct      uint32 `json:"limit_percentage"`
	SpikePct uint32 `json:"spike_limit_percentage"`
	Total    uint64 `json:"total_memory"`
}

// limits is the reference: limit and spike in bytes as the documentation defines them (MiB settings take
// precedence over percentages; an unspecified spike is 20 % of the limit). ok=false when the configuration
// would make the reference depend on integer rounding (such configurations are not used).
func (l limCfg) limits() (soft, hard uint64, ok bool) {
	var limit, spike uint64
	ok = true
	if l.MiB != 0 {
		limit = uint64(l.MiB) * mib
		spike = uint64(l.SpikeMiB) * mib
	} else {
		if (uint64(l.Pct)*l.Total)%100 != 0 || (uint64(l.SpikePct)*l.Total)%100 != 0 {
			ok = false
		}
		limit = uint64(l.Pct) * l.Total / 100
		spike = uint64(l.SpikePct) * l.Total / 100
	}
	if spike == 0 {
		if limit%5 != 0 {
			ok = false
		}
		spike = limit / 5
	}
	if spike >= limit || limit-spike < 2 || spike < 2 {
		ok = false
	}
	return limit - spike, limit, ok
}

func (l limCfg) config(check, softIv, hardIv time.Duration) *memorylimiter.Config {
	return &memorylimiter.Config{CheckInterval: check, MinGCIntervalWhenSoftLimited: softIv, MinGCIntervalWhenHardLimited: hardIv,
		MemoryLimitMiB: l.MiB, MemorySpikeLimitMiB: l.SpikeMiB, MemoryLimitPercentage: l.Pct, MemorySpikePercentage: l.SpikePct}
}

var cfgs = []limCfg{
	{Name: "mib-100/20", MiB: 100, SpikeMiB: 20},
	{Name: "mib-100/default-spike", MiB: 100},
	{Name: "mib-4095/4094", MiB: 4095, SpikeMiB: 4094},
	{Name: "mib-2/1", MiB: 2, SpikeMiB: 1},
	{Name: "mib-5/default-spike", MiB: 5},
	{Name: "mib-max/1", MiB: math.MaxUint32, SpikeMiB: 1},
	{Name: "pct-50/10-of-1000MiB", Pct: 50, SpikePct: 10, Total: 1000 * mib},
	{Name: "pct-100/99-of-100MiB", Pct: 100, SpikePct: 99, Total: 100 * mib},
	{Name: "pct-75/default-spike-of-2000MiB", Pct: 75, Total: 2000 * mib},
	{Name: "pct-1/default-spike-of-16TB", Pct: 1, Total: 16_000_000_000_000},
	{Name: "mib-100/20-wins-over-pct-50/10", MiB: 100, SpikeMiB: 20, Pct: 50, SpikePct: 10, Total: 1000 * mib},
}

const (
	clBelow = iota
	clEqSoft
	clBetween
	clEqHard
	clAbove
	nClasses
)

var clNames = []string{"below-soft", "eq-soft", "between", "eq-hard", "above-hard"}

func pickLevel(rng *rand.Rand, cl int, soft, hard uint64) uint64 {
	switch cl {
	case clBelow:
		return []uint64{0, soft / 2, soft - 1}[rng.Intn(3)]
	case clEqSoft:
		return soft
	case clBetween:
		return []uint64{soft + 1, soft + (hard-soft)/2, hard - 1}[rng.Intn(3)]
	case clEqHard:
		return hard
	default:
		return []uint64{hard + 1, 2 * hard, math.MaxUint64}[rng.Intn(3)]
	}
}

const (
	effNone = iota
	effBelowSoft
	effEqSoft
	effBelowHardOnly
	nEffects
)

var effNames = []string{"gc-none", "gc-to-below-soft", "gc-to-eq-soft", "gc-to-below-hard-only"}

func postLevel(rng *rand.Rand, eff int, lv, soft, hard uint64) uint64 {
	switch eff {
	case effBelowSoft:
		return []uint64{0, soft - 1}[rng.Intn(2)]
	case effEqSoft:
		return soft
	case effBelowHardOnly:
		if lv >= hard {
			return []uint64{hard - 1, soft + 1}[rng.Intn(2)]
		}
	}
	return lv
}

type regime struct {
	Name             string
	SoftIv, HardIv   time.Duration
	DueSoft, DueHard bool
}

// only regimes accepted by Config.Validate (soft interval >= hard interval)
var regimes = []regime{
	{"gc-interval-0/0", 0, 0, true, true},
	{"gc-interval-1h/1h", time.Hour, time.Hour, false, false},
	{"gc-interval-1h/0", time.Hour, 0, false, true},
}

// refStep is the reference decision function of one check.
func refStep(soft, hard, lv, post uint64, dueSoft, dueHard bool) (refuse, gc bool, sev string) {
	if lv < soft {
		return false, false, ""
	}
	sev, due := "soft", dueSoft
	if lv >= hard {
		sev, due = "hard", dueHard
	}
	if due {
		return post >= soft, true, sev
	}
	return true, false, sev
}

// ---------------------------------------------------------------------------------------------------
// L1

var forcedGCSample = []metrics.Sample{{Name: "/gc/cycles/forced:gc-cycles"}}

func forcedGCs() uint64 {
	metrics.Read(forcedGCSample)
	if forcedGCSample[0].Value.Kind() == metrics.KindUint64 {
		return forcedGCSample[0].Value.Uint64()
	}
	return 0
}

type l1state struct {
	script [2]uint64
	pos    int
	reads  int
	total  uint64
}

type stepRec struct {
	Class  string `json:"class"`
	Level  uint64 `json:"level"`
	Post   uint64 `json:"post_gc_level"`
	Effect string `json:"gc_effect"`
}

type l1witness struct {
	Layer   string    `json:"layer"`
	Cfg     limCfg    `json:"config"`
	Soft    uint64    `json:"soft_limit_bytes"`
	Hard    uint64    `json:"hard_limit_bytes"`
	Regime  string    `json:"regime"`
	Steps   []stepRec `json:"steps"`
	FailAt  int       `json:"failing_step"`
	Got     string    `json:"got"`
	Want    string    `json:"want"`
	LogTail []logEv   `json:"limiter_log_of_step"`
}

func install(st *l1state) {
	memorylimiter.ReadMemStatsFn = func(ms *runtime.MemStats) {
		st.reads++
		i := st.pos
		if i > 1 {
			i = 1
		}
		ms.Alloc = st.script[i]
		st.pos++
	}
	memorylimiter.GetMemoryFn = func() (uint64, error) { return st.total, nil }
}

// l1Run executes one sequence; effs has either one element (same effect for every step) or one per step.
func l1Run(c *driver.Ctx, st *l1state, rng *rand.Rand, lc limCfg, rg regime, classes []int, effs []int) {
	soft, hard, ok := lc.limits()
	if !ok {
		panic("harness: configuration " + lc.Name + " has no exact reference")
	}
	cfg := lc.config(time.Hour, rg.SoftIv, rg.HardIv)
	if err := cfg.Validate(); err != nil {
		panic("harness: configuration " + lc.Name + " rejected by validation: " + err.Error())
	}
	st.total = lc.Total
	core := &capCore{}
	var ml *memorylimiter.MemoryLimiter
	var err error
	if pv, stack := driver.Catch(func() { ml, err = memorylimiter.NewMemoryLimiter(cfg, zap.New(core)) }); pv != nil {
		c.Violation("panic", fmt.Sprintf("NewMemoryLimiter panicked: %v", pv), map[string]any{"config": lc, "stack": stack}, "site", driver.PanicSite(stack))
		return
	}
	if err != nil {
		c.Violation("L1-create", "a configuration accepted by Validate is refused by NewMemoryLimiter: "+err.Error(), map[string]any{"config": lc}, "config", lc.Name)
		return
	}
	c.Eval()
	prev := false
	crossed := false
	var steps []stepRec
	var clSeq strings.Builder
	for i, cl := range classes {
		eff := effs[0]
		if len(effs) > 1 {
			eff = effs[i]
		}
		lv := pickLevel(rng, cl, soft, hard)
		post := postLevel(rng, eff, lv, soft, hard)
		steps = append(steps, stepRec{clNames[cl], lv, post, effNames[eff]})
		clSeq.WriteByte(byte('0' + cl))
		wantRefuse, wantGC, sev := refStep(soft, hard, lv, post, rg.DueSoft, rg.DueHard)
		st.script = [2]uint64{lv, post}
		st.pos, st.reads = 0, 0
		core.take()
		g0 := forcedGCs()
		if pv, stack := driver.Catch(func() { ml.CheckMemLimits() }); pv != nil {
			c.Violation("panic", fmt.Sprintf("CheckMemLimits panicked: %v", pv), map[string]any{"config": lc, "steps": steps, "stack": stack}, "site", driver.PanicSite(stack))
			return
		}
		gcCycles := forcedGCs() - g0
		evs := core.take()
		var forceSoft, forceHard, afterGC int
		for _, e := range evs {
			switch e.Msg {
			case msgForceSoft:
				forceSoft++
			case msgForceHard:
				forceHard++
			case msgAfterGC:
				afterGC++
			}
		}
		gotRefuse := ml.MustRefuse()
		wantReads := 1
		if wantGC {
			wantReads = 2
		}
		c.Observe("l1_checks", 1)
		if wantGC {
			c.Observe("l1_forced_gcs_expected", 1)
		}
		c.Observe("l1_forced_gc_cycles_seen", int64(gcCycles))
		c.Distinct("states", clNames[cl], wantGC, effNames[eff], prev, wantRefuse, rg.Name)
		due := "not-due"
		if wantGC {
			due = "due:" + effNames[eff]
		}
		fail := func(field, got, want string) {
			c.Violation("L1-decision", fmt.Sprintf("%s after a %s reading (%s, GC %s, previously refusing=%v): got %s, reference says %s", field, clNames[cl], rg.Name, due, prev, got, want),
				l1witness{"L1", lc, soft, hard, rg.Name, steps, i, got, want, evs},
				"field", field, "level", clNames[cl], "gc", due, "prev_refusing", fmt.Sprint(prev))
		}
		if gotRefuse != wantRefuse {
			fail("MustRefuse", fmt.Sprint(gotRefuse), fmt.Sprint(wantRefuse))
		}
		if st.reads != wantReads {
			fail("measurements", fmt.Sprint(st.reads), fmt.Sprint(wantReads))
		}
		wantSoft, wantHard := 0, 0
		if wantGC && sev == "soft" {
			wantSoft = 1
		}
		if wantGC && sev == "hard" {
			wantHard = 1
		}
		if forceSoft != wantSoft || forceHard != wantHard || afterGC != wantSoft+wantHard {
			fail("forced-gc-log", fmt.Sprintf("soft=%d hard=%d after=%d", forceSoft, forceHard, afterGC), fmt.Sprintf("soft=%d hard=%d after=%d", wantSoft, wantHard, wantSoft+wantHard))
		}
		// The runtime's forced-cycle counter is a one-sided witness: a runtime.GC() call that finds an automatic
		// cycle already under way is served by that cycle and is not counted as forced, so "fewer than expected"
		// proves nothing; a forced cycle when no GC was due does.
		wantCycles := uint64(0)
		if wantGC {
			wantCycles = 1
		}
		if gcCycles > wantCycles {
			fail("forced-gc-cycles", fmt.Sprint(gcCycles), fmt.Sprint(wantCycles))
		} else if gcCycles < wantCycles {
			c.Observe("l1_forced_gc_served_by_automatic_cycle", 1)
		}
		if wantRefuse != prev {
			crossed = true
		}
		prev = wantRefuse
	}
	if crossed && len(classes) == 4 {
		c.Sample(map[string]any{"layer": "L1", "config": lc, "soft_limit_bytes": soft, "hard_limit_bytes": hard, "regime": rg.Name, "steps": steps})
	}
	if crossed {
		effKey := "per-step"
		if len(effs) == 1 {
			effKey = effNames[effs[0]]
		}
		c.Nontrivial("L1", clSeq.String(), rg.Name, effKey)
		c.Distinct("l1_sequences_crossing_soft", clSeq.String(), rg.Name)
	}
}

func pow(b, e int) int64 {
	r := int64(1)
	for i := 0; i < e; i++ {
		r *= int64(b)
	}
	return r
}

func runL1(c *driver.Ctx, base *int64) {
	st := &l1state{}
	install(st)
	maxLen := c.N(5, 7)
	// exhaustive part: global index g enumerates (length, class sequence, effect, regime)
	g := *base
	for ln := 1; ln <= maxLen; ln++ {
		nseq := pow(nClasses, ln)
		for s := int64(0); s < nseq; s++ {
			for eff := 0; eff < nEffects; eff++ {
				if ln >= 7 && eff/2 != int(s%2) {
					continue // the longest sequences run under two of the four GC effects, alternating by sequence
				}
				for r := range regimes {
					idx := g
					g++
					if !c.Mine(idx) {
						continue
					}
					classes := make([]int, ln)
					x := s
					for k := ln - 1; k >= 0; k-- {
						classes[k] = int(x % nClasses)
						x /= nClasses
					}
					rng := c.CaseRand(idx)
					lc := cfgs[int((idx/int64(c.NShards)+c.Seed+int64(r))%int64(len(cfgs)))]
					l1Run(c, st, rng, lc, regimes[r], classes, []int{eff})
				}
			}
		}
	}
	// random longer sequences with a different GC effect at every step
	nrand := int64(c.N(5000, 40000))
	for k := int64(0); k < nrand; k++ {
		idx := g
		g++
		if !c.Mine(idx) {
			continue
		}
		rng := c.CaseRand(idx)
		ln := maxLen + 1 + rng.Intn(12)
		classes := make([]int, ln)
		effs := make([]int, ln)
		for i := range classes {
			classes[i] = rng.Intn(nClasses)
			effs[i] = rng.Intn(nEffects)
		}
		l1Run(c, st, rng, cfgs[rng.Intn(len(cfgs))], regimes[rng.Intn(len(regimes))], classes, effs)
		c.Observe("l1_random_long_sequences", 1)
	}
	*base = g
}

// limitsWide computes the limits the runtime actually uses (limit_mib takes precedence when it is set, then
// spike_limit_mib is its spike; otherwise the percentage pair of the total; an unspecified spike is 20 % of the
// limit) in signed arithmetic, so that a spike above the limit shows as a soft limit <= 0 instead of wrapping.
func (l limCfg) limitsWide() (soft, hard int64, exact bool) {
	exact = true
	var limit, spike int64
	if l.MiB != 0 {
		limit, spike = int64(l.MiB)*mib, int64(l.SpikeMiB)*mib
	} else {
		if (uint64(l.Pct)*l.Total)%100 != 0 || (uint64(l.SpikePct)*l.Total)%100 != 0 {
			exact = false
		}
		limit, spike = int64(uint64(l.Pct)*l.Total/100), int64(uint64(l.SpikePct)*l.Total/100)
	}
	if spike == 0 {
		if limit%5 != 0 {
			exact = false
		}
		spike = limit / 5
	}
	return limit - spike, limit, exact
}

var (
	mixMiB      = []uint32{0, 5, 10, 100, 4095}
	mixSpikeMiB = []uint32{0, 1, 5, 20, 200, 5000}
	mixPct      = []uint32{0, 1, 50, 75, 100, 120}
	mixSpikePct = []uint32{0, 10, 50, 99, 100}
	mixTotal    = []uint64{1000 * mib, 500 * mib, 64000 * mib}
	// directed: one pair is contradictory (spike above its limit), the other pair is sane
	mixDirected = []limCfg{
		{MiB: 10, SpikeMiB: 20, Pct: 50, SpikePct: 10, Total: 1000 * mib},
		{MiB: 100, SpikeMiB: 20, Pct: 10, SpikePct: 50, Total: 1000 * mib},
		{MiB: 5, SpikeMiB: 5, Pct: 75, SpikePct: 0, Total: 500 * mib},
		{MiB: 100, SpikeMiB: 0, Pct: 50, SpikePct: 10, Total: 1000 * mib},
		{MiB: 0, SpikeMiB: 200, Pct: 50, SpikePct: 10, Total: 1000 * mib},
		{MiB: 4095, SpikeMiB: 5000, Pct: 100, SpikePct: 99, Total: 64000 * mib},
	}
)

// runL1Mixed: configurations that set the fixed pair, the percentage pair, or both, including contradictory
// ones. What Config.Validate rejects is skipped (counted); what it accepts must behave as the reference
// decision function says for the limits the runtime actually uses.
func runL1Mixed(c *driver.Ctx, base *int64) {
	st := &l1state{}
	install(st)
	n := int64(c.N(2400, 40000))
	for k := int64(0); k < n; k++ {
		idx := *base + k
		if !c.Mine(idx) {
			continue
		}
		rng := c.CaseRand(idx)
		var lc limCfg
		if int(k) < 4*len(mixDirected) {
			lc = mixDirected[int(k)%len(mixDirected)]
		} else {
			lc = limCfg{MiB: mixMiB[rng.Intn(len(mixMiB))], SpikeMiB: mixSpikeMiB[rng.Intn(len(mixSpikeMiB))], Pct: mixPct[rng.Intn(len(mixPct))],
				SpikePct: mixSpikePct[rng.Intn(len(mixSpikePct))], Total: mixTotal[rng.Intn(len(mixTotal))]}
			if rng.Intn(10) < 7 { // mostly both pairs
				if lc.MiB == 0 {
					lc.MiB = mixMiB[1+rng.Intn(len(mixMiB)-1)]
				}
				if lc.Pct == 0 {
					lc.Pct = mixPct[1+rng.Intn(len(mixPct)-1)]
				}
			}
		}
		lc.Name = fmt.Sprintf("mixed mib %d/%d pct %d/%d", lc.MiB, lc.SpikeMiB, lc.Pct, lc.SpikePct)
		both := "one-pair"
		if lc.MiB != 0 && lc.Pct != 0 {
			both = "both-pairs"
		}
		rg := regimes[rng.Intn(len(regimes))]
		cfg := lc.config(time.Hour, rg.SoftIv, rg.HardIv)
		if err := cfg.Validate(); err != nil {
			c.Observe("l1_mixed_configs_rejected_by_validate:"+both, 1)
			continue
		}
		c.Observe("l1_mixed_configs_accepted:"+both, 1)
		soft, hard, exact := lc.limitsWide()
		if !exact {
			c.Observe("l1_mixed_configs_skipped_reference_depends_on_rounding", 1)
			continue
		}
		if soft >= 2 && hard-soft >= 2 {
			ln := 4 + rng.Intn(5)
			classes, effs := make([]int, ln), make([]int, ln)
			for i := range classes {
				classes[i], effs[i] = rng.Intn(nClasses), rng.Intn(nEffects)
			}
			l1Run(c, st, rng, lc, rg, classes, effs)
			c.Nontrivial("L1-mixed", lc.Name, lc.Total, rg.Name)
			continue
		}
		// The accepted configuration has spike >= limit: limit - spike is not positive, every reading is at or
		// above it, so the limiter must refuse whatever it measures.
		st.total = lc.Total
		core := &capCore{}
		var ml *memorylimiter.MemoryLimiter
		var err error
		if pv, stack := driver.Catch(func() {
			ml, err = memorylimiter.NewMemoryLimiter(lc.config(time.Hour, time.Hour, time.Hour), zap.New(core))
		}); pv != nil {
			c.Violation("panic", fmt.Sprintf("NewMemoryLimiter panicked: %v", pv), map[string]any{"config": lc, "stack": stack}, "site", driver.PanicSite(stack))
			continue
		}
		if err != nil {
			c.Violation("L1-create", "a configuration accepted by Validate is refused by NewMemoryLimiter: "+err.Error(), map[string]any{"config": lc}, "config", "mixed")
			continue
		}
		c.Eval()
		for _, lv := range []uint64{0, 1, uint64(hard) / 2, uint64(hard), uint64(hard) + 1, math.MaxUint64} {
			st.script = [2]uint64{lv, lv}
			st.pos, st.reads = 0, 0
			ml.CheckMemLimits()
			c.Observe("l1_checks", 1)
			if !ml.MustRefuse() {
				c.Violation("L1-decision", fmt.Sprintf("Validate accepted a configuration whose spike is not below its limit (limit - spike = %d bytes): every reading is at or above limit - spike, yet the limiter does not refuse at reading %d", soft, lv),
					map[string]any{"layer": "L1-mixed", "config": lc, "limit_bytes": hard, "limit_minus_spike_bytes": soft, "reading": lv},
					"field", "MustRefuse", "level", "any-reading-with-non-positive-soft-limit", "gc", "not-due", "prev_refusing", "-")
				break
			}
		}
		c.Nontrivial("L1-mixed-nonpositive-soft", lc.Name)
	}
	*base += n
}

// l1Timed: a few cases with real minimum-GC intervals. Every decision is bracketed by harness timestamps;
// a decision is only judged when the bracket lies clearly on one side of the interval.
func runL1Timed(c *driver.Ctx, base *int64) {
	st := &l1state{}
	install(st)
	n := int64(c.N(8, 64))
	const iv = 60 * time.Millisecond
	for k := int64(0); k < n; k++ {
		idx := *base + k
		if !c.Mine(idx) {
			continue
		}
		rng := c.CaseRand(idx)
		lc := cfgs[rng.Intn(len(cfgs))]
		soft, hard, _ := lc.limits()
		hardIv := []time.Duration{0, iv}[rng.Intn(2)]
		st.total = lc.Total
		core := &capCore{}
		t0 := time.Now()
		ml, err := memorylimiter.NewMemoryLimiter(lc.config(time.Hour, iv, hardIv), zap.New(core))
		t1 := time.Now()
		if err != nil {
			c.Violation("L1-create", "NewMemoryLimiter failed: "+err.Error(), map[string]any{"config": lc}, "config", lc.Name)
			continue
		}
		c.Eval()
		// lastGC lies in [gcLo, gcHi]
		gcLo, gcHi := t0, t1
		type plan struct {
			sleep time.Duration
			cl    int
		}
		var trace []string
		for i, p := range []plan{{0, clBetween}, {150 * time.Millisecond, clBetween}, {0, clBetween}, {0, clAbove}, {150 * time.Millisecond, clAbove}, {0, clEqHard}} {
			if p.sleep > 0 {
				time.Sleep(p.sleep)
			}
			lv := pickLevel(rng, p.cl, soft, hard)
			interval := iv
			if lv >= hard {
				interval = hardIv
			}
			st.script = [2]uint64{lv, lv}
			st.pos, st.reads = 0, 0
			core.take()
			b := time.Now()
			ml.CheckMemLimits()
			a := time.Now()
			elapsedLo, elapsedHi := b.Sub(gcHi), a.Sub(gcLo)
			forced := st.reads == 2
			trace = append(trace, fmt.Sprintf("step %d %s interval=%v elapsed in [%v,%v] forced=%v", i, clNames[p.cl], interval, elapsedLo, elapsedHi, forced))
			switch {
			case elapsedLo > interval && elapsedLo > 0:
				c.Observe("l1_timed_decisions_judged", 1)
				if !forced {
					c.Violation("L1-gc-interval", "no GC was forced although the minimum interval for this severity had clearly elapsed", map[string]any{"config": lc, "trace": trace}, "expected", "forced", "level", clNames[p.cl])
				}
			case elapsedHi < interval:
				c.Observe("l1_timed_decisions_judged", 1)
				if forced {
					c.Violation("L1-gc-interval", "a GC was forced although the minimum interval for this severity had clearly not elapsed", map[string]any{"config": lc, "trace": trace}, "expected", "not-forced", "level", clNames[p.cl])
				}
			default:
				c.Inconclusive("gc-interval-bracket-straddles-threshold")
			}
			if forced {
				gcLo, gcHi = b, a
			}
			if ml.MustRefuse() != (lv >= soft) {
				c.Violation("L1-decision", "MustRefuse differs from the reference in a timed case", map[string]any{"config": lc, "trace": trace}, "field", "MustRefuse", "level", clNames[p.cl], "gc", "timed", "prev_refusing", "-")
			}
		}
		c.Nontrivial("L1-timed", lc.Name, hardIv)
	}
	*base += n
}

// ---------------------------------------------------------------------------------------------------
// L2

var evSeq atomic.Int64

// meter is the scripted ReadMemStatsFn of one limiter.
type meter struct {
	tag      int
	mu       sync.Mutex
	level    uint64
	post     uint64
	postNext bool
	reads    int64
	lastSeq  int64
}

func (m *meter) read(ms *runtime.MemStats) {
	seq := evSeq.Add(1)
	m.mu.Lock()
	m.reads++
	m.lastSeq = seq
	v := m.level
	if m.postNext {
		v = m.post
		m.postNext = false
	}
	m.mu.Unlock()
	ms.Alloc = v
}

func (m *meter) set(level, post uint64) {
	m.mu.Lock()
	m.level, m.post = level, post
	m.mu.Unlock()
}

func (m *meter) count() int64 { m.mu.Lock(); defer m.mu.Unlock(); return m.reads }
func (m *meter) last() int64  { m.mu.Lock(); defer m.mu.Unlock(); return m.lastSeq }
func (m *meter) gcLogged(msg string) {
	if msg == msgForceHard || msg == msgForceSoft {
		m.mu.Lock()
		m.postNext = true
		m.mu.Unlock()
	}
}

// witness ticker: same period as the limiter's check interval; liveness of the checker is judged relative to
// it, never against absolute time.
type witness struct {
	ticks atomic.Int64
	stop  chan struct{}
}

func newWitness(period time.Duration) *witness {
	w := &witness{stop: make(chan struct{})}
	go func() {
		t := time.NewTicker(period)
		defer t.Stop()
		for {
			select {
			case <-t.C:
				w.ticks.Add(1)
			case <-w.stop:
				return
			}
		}
	}()
	return w
}

const deadAfterWitnessTicks = 400

const (
	alive = iota
	dead
	undecided
)

// checkerBusy inspects a goroutine dump: a limiter goroutine that is inside CheckMemLimits (a forced GC can take
// very long on a loaded machine) or that is runnable but was not scheduled is alive, however long it takes.
func checkerBusy() bool {
	buf := make([]byte, 1<<21)
	n := runtime.Stack(buf, true)
	var seen []string
	busy := false
	for _, g := range strings.Split(string(buf[:n]), "\n\n") {
		if !strings.Contains(g, "memorylimiter.(*MemoryLimiter)") {
			continue
		}
		head := g
		if i := strings.Index(g, "\n"); i >= 0 {
			head = g[:i]
		}
		if strings.Contains(g, ".CheckMemLimits") || strings.Contains(head, "[runnable") || strings.Contains(head, "[running") {
			busy = true
		}
		if len(g) > 3000 {
			g = g[:3000]
		}
		seen = append(seen, g)
	}
	lastDump.Store(&seen)
	return busy
}

// lastDump keeps the limiter goroutines of the most recent dump for the witness of a liveness violation.
var lastDump atomic.Pointer[[]string]

func livenessWit(w any) any {
	return map[string]any{"case": w, "limiter_goroutines_at_verdict": limiterGoroutines()}
}

func limiterGoroutines() []string {
	if p := lastDump.Load(); p != nil && len(*p) > 0 {
		return *p
	}
	return []string{"no goroutine with a memorylimiter frame exists"}
}

// waitReads waits until the meter saw n further measurements. The verdict "dead" needs three consecutive
// windows in each of which the witness ticker of the same period fired deadAfterWitnessTicks times while the
// checker did not start one measurement and no limiter goroutine was inside a check or waiting for a processor. A checker that is found busy
// ten times in a row without finishing a check leaves the question undecided.
func waitReads(m *meter, w *witness, n int64) int {
	target := m.count() + n
	lastCount := m.count()
	lastTick := w.ticks.Load()
	busy, idle := 0, 0
	for {
		cur := m.count()
		if cur >= target {
			return alive
		}
		if cur != lastCount {
			lastCount = cur
			lastTick = w.ticks.Load()
			busy, idle = 0, 0
		} else if w.ticks.Load()-lastTick >= deadAfterWitnessTicks {
			if checkerBusy() {
				busy++
				idle = 0
				if busy >= 10 {
					return undecided
				}
			} else {
				// confirmed over three consecutive windows, each with its own goroutine dump
				idle++
				if idle >= 3 {
					return dead
				}
			}
			lastTick = w.ticks.Load()
		}
		time.Sleep(150 * time.Microsecond)
	}
}

type sink struct {
	mu     sync.Mutex
	calls  int
	last   []byte
	result error
}

func (s *sink) got(b []byte) error {
	s.mu.Lock()
	defer s.mu.Unlock()
	s.calls++
	s.last = b
	return s.result
}

type proc struct {
	Signal  string
	comp    component.Component
	consume func(ctx context.Context, id string) (want []byte, err error)
	sk      *sink
	// shape of the next payload (a proc is used by one goroutine at a time); reset to shapeItems by checkConsume
	shape int
	// soft limit of the generation this processor was created in (l2Generations)
	softOfGen uint64
}

// payload shapes: besides payloads with items, payloads that carry no item at all. While the limiter is not
// refusing they are forwarded unmodified like any other payload (the sink must see the call and its result
// comes back); while refusing they get the non-permanent error.
const (
	shapeItems = iota
	shapeEmpty
	shapeResourceOnly
	shapeScopeOnly
	shapeNoPoints // metrics: a metric without data points; profiles: a profile without samples; else as scope-only
	nShapes
)

var shapeNames = []string{"items", "empty", "resource-only", "scope-only", "container-without-points"}

// drawShape: about 40 % of the payloads carry no items.
func drawShape(rng *rand.Rand) int {
	if rng.Intn(5) < 3 {
		return shapeItems
	}
	return 1 + rng.Intn(nShapes-1)
}

var signals = []string{"logs", "traces", "metrics", "profiles"}

func mkProc(fac xprocessor.Factory, signal string, lg *zap.Logger, cfg component.Config) (*proc, error) {
	return mkProcID(fac, component.NewID(fac.Type()), signal, lg, cfg)
}

func mkProcID(fac xprocessor.Factory, cid component.ID, signal string, lg *zap.Logger, cfg component.Config) (*proc, error) {
	set := processor.Settings{ID: cid, TelemetrySettings: componenttest.NewNopTelemetrySettings(), BuildInfo: component.NewDefaultBuildInfo()}
	set.Logger = lg
	sk := &sink{}
	p := &proc{Signal: signal, sk: sk}
	ctx := context.Background()
	switch signal {
	case "logs":
		next, _ := consumer.NewLogs(func(_ context.Context, ld plog.Logs) error {
			b, _ := (&plog.ProtoMarshaler{}).MarshalLogs(ld)
			return sk.got(b)
		})
		pr, err := fac.CreateLogs(ctx, set, cfg, next)
		if err != nil {
			return nil, err
		}
		p.comp = pr
		p.consume = func(ctx context.Context, id string) ([]byte, error) {
			ld := plog.NewLogs()
			if p.shape != shapeEmpty {
				rl := ld.ResourceLogs().AppendEmpty()
				rl.Resource().Attributes().PutStr("id", id)
				if p.shape != shapeResourceOnly {
					sl := rl.ScopeLogs().AppendEmpty()
					sl.Scope().SetName("scope." + id)
					if p.shape == shapeItems {
						sl.LogRecords().AppendEmpty().Body().SetStr(id + ".0")
						sl.LogRecords().AppendEmpty().Body().SetStr(id + ".1")
					}
				}
			}
			want, _ := (&plog.ProtoMarshaler{}).MarshalLogs(ld)
			return want, pr.ConsumeLogs(ctx, ld)
		}
	case "traces":
		next, _ := consumer.NewTraces(func(_ context.Context, td ptrace.Traces) error {
			b, _ := (&ptrace.ProtoMarshaler{}).MarshalTraces(td)
			return sk.got(b)
		})
		pr, err := fac.CreateTraces(ctx, set, cfg, next)
		if err != nil {
			return nil, err
		}
		p.comp = pr
		p.consume = func(ctx context.Context, id string) ([]byte, error) {
			td := ptrace.NewTraces()
			if p.shape != shapeEmpty {
				rs := td.ResourceSpans().AppendEmpty()
				rs.Resource().Attributes().PutStr("id", id)
				if p.shape != shapeResourceOnly {
					ss := rs.ScopeSpans().AppendEmpty()
					ss.Scope().SetName("scope." + id)
					if p.shape == shapeItems {
						ss.Spans().AppendEmpty().SetName(id + ".0")
						ss.Spans().AppendEmpty().SetName(id + ".1")
					}
				}
			}
			want, _ := (&ptrace.ProtoMarshaler{}).MarshalTraces(td)
			return want, pr.ConsumeTraces(ctx, td)
		}
	case "metrics":
		next, _ := consumer.NewMetrics(func(_ context.Context, md pmetric.Metrics) error {
			b, _ := (&pmetric.ProtoMarshaler{}).MarshalMetrics(md)
			return sk.got(b)
		})
		pr, err := fac.CreateMetrics(ctx, set, cfg, next)
		if err != nil {
			return nil, err
		}
		p.comp = pr
		p.consume = func(ctx context.Context, id string) ([]byte, error) {
			md := pmetric.NewMetrics()
			if p.shape != shapeEmpty {
				rm := md.ResourceMetrics().AppendEmpty()
				rm.Resource().Attributes().PutStr("id", id)
				if p.shape != shapeResourceOnly {
					sm := rm.ScopeMetrics().AppendEmpty()
					sm.Scope().SetName("scope." + id)
					if p.shape == shapeItems || p.shape == shapeNoPoints {
						m := sm.Metrics().AppendEmpty()
						m.SetName(id + ".0")
						g := m.SetEmptyGauge()
						if p.shape == shapeItems {
							g.DataPoints().AppendEmpty().SetIntValue(7)
						}
					}
				}
			}
			want, _ := (&pmetric.ProtoMarshaler{}).MarshalMetrics(md)
			return want, pr.ConsumeMetrics(ctx, md)
		}
	default:
		next, _ := xconsumer.NewProfiles(func(_ context.Context, pd pprofile.Profiles) error {
			b, _ := (&pprofile.ProtoMarshaler{}).MarshalProfiles(pd)
			return sk.got(b)
		})
		pr, err := fac.CreateProfiles(ctx, set, cfg, next)
		if err != nil {
			return nil, err
		}
		p.comp = pr
		p.consume = func(ctx context.Context, id string) ([]byte, error) {
			pd := pprofile.NewProfiles()
			if p.shape != shapeEmpty {
				rp := pd.ResourceProfiles().AppendEmpty()
				rp.Resource().Attributes().PutStr("id", id)
				if p.shape != shapeResourceOnly {
					sp := rp.ScopeProfiles().AppendEmpty()
					sp.Scope().SetName("scope." + id)
					if p.shape == shapeItems || p.shape == shapeNoPoints {
						pf := sp.Profiles().AppendEmpty()
						pf.SetOriginalPayloadFormat(id + ".0")
						if p.shape == shapeItems {
							pf.Sample().AppendEmpty()
						}
					}
				}
			}
			want, _ := (&pprofile.ProtoMarshaler{}).MarshalProfiles(pd)
			return want, pr.ConsumeProfiles(ctx, pd)
		}
	}
	return p, nil
}

var errSinkTransient = errors.New("sink: transient failure")
var errSinkPermanent = consumererror.NewPermanent(errors.New("sink: permanent failure"))

func sinkResult(k int) (error, string) {
	switch k {
	case 1:
		return errSinkTransient, "transient"
	case 2:
		return errSinkPermanent, "permanent"
	}
	return nil, "nil"
}

// checkConsume performs one consume call and judges it. refusing: 1 yes, 0 no, -1 unknown (concurrent
// phase: only the consistency of the call is judged).
func checkConsume(c *driver.Ctx, p *proc, id string, refusing int, sinkKind int, wit func() any, when ...string) {
	res, resName := sinkResult(sinkKind)
	// when names the lifecycle event of another sharer that immediately preceded this call (no check awaited)
	viol := func(sub, what string, sig ...string) {
		if len(when) > 0 {
			what = "immediately after " + when[0] + ": " + what
			sig = append(sig, "when", when[0])
		}
		c.Violation(sub, what, wit(), sig...)
	}
	if len(when) > 0 {
		c.Observe("l2_consume_immediately_after_sharer_"+when[0], 1)
	}
	shape := p.shape
	defer func() { p.shape = shapeItems }()
	if shape != shapeItems {
		c.Observe("l2_consume_payloads_without_items", 1)
		c.Distinct("itemless_payloads", p.Signal, shapeNames[shape], refusing, sinkKind)
		inner := viol
		viol = func(sub, what string, sig ...string) {
			inner(sub, "payload without items ("+shapeNames[shape]+"): "+what, append(sig, "shape", shapeNames[shape])...)
		}
	}
	p.sk.mu.Lock()
	p.sk.result = res
	before := p.sk.calls
	p.sk.mu.Unlock()
	var want []byte
	var err error
	if pv, stack := driver.Catch(func() { want, err = p.consume(context.Background(), id) }); pv != nil {
		c.Violation("panic", fmt.Sprintf("Consume panicked: %v", pv), map[string]any{"case": wit(), "stack": stack}, "site", driver.PanicSite(stack))
		return
	}
	p.sk.mu.Lock()
	calls := p.sk.calls - before
	last := p.sk.last
	p.sk.mu.Unlock()
	c.Observe("l2_consume_calls", 1)
	forwarded := calls > 0
	if refusing == 1 || (refusing == -1 && !forwarded) {
		c.Observe("l2_consume_refused", 1)
		switch {
		case forwarded:
			viol("L2-refuse", "payload forwarded downstream while the limiter is refusing", "signal", p.Signal, "problem", "forwarded-while-refusing")
		case err == nil:
			viol("L2-refuse", "consume returned nil and forwarded nothing (data silently dropped)", "signal", p.Signal, "problem", "nil-error-without-forwarding")
		case consumererror.IsPermanent(err):
			viol("L2-refuse", "refusal is reported as a permanent error: "+err.Error(), "signal", p.Signal, "problem", "permanent-error")
		}
		return
	}
	c.Observe("l2_consume_forwarded", 1)
	switch {
	case !forwarded:
		viol("L2-forward", fmt.Sprintf("not refusing, yet nothing was forwarded (returned %v)", err), "signal", p.Signal, "problem", "not-forwarded")
	case calls != 1:
		viol("L2-forward", fmt.Sprintf("payload forwarded %d times", calls), "signal", p.Signal, "problem", "forwarded-more-than-once")
	case string(last) != string(want):
		viol("L2-forward", "forwarded payload differs from the payload given to the processor", "signal", p.Signal, "problem", "payload-modified")
	case (res == nil) != (err == nil) || (res != nil && !errors.Is(err, res)) || consumererror.IsPermanent(err) != consumererror.IsPermanent(res):
		viol("L2-forward", fmt.Sprintf("downstream returned %v, the processor returned %v", res, err), "signal", p.Signal, "problem", "downstream-result-not-returned", "downstream", resName)
	}
}

type l2op struct {
	Kind   string `json:"op"` // start | stop | level | consume | mustrefuse
	P      int    `json:"proc"`
	Class  string `json:"class,omitempty"`
	Effect string `json:"gc_effect,omitempty"`
	Sink   string `json:"sink,omitempty"`
	Shape  string `json:"payload_shape,omitempty"`
	Ctx    string `json:"start_context,omitempty"`
	Expect string `json:"expect,omitempty"`
}

const l2Period = time.Millisecond

var l2cfg = limCfg{Name: "mib-100/20", MiB: 100, SpikeMiB: 20}

// afterStop registers a stopped limiter for the end-of-shard "never measured again" check.
type stopped struct {
	m      *meter
	retSeq int64
	wit    any
}

type l2env struct {
	c        *driver.Ctx
	w        *witness
	done     []stopped
	ctxEnded atomic.Bool // a Start context of the current case has been cancelled / has expired
}

func (e *l2env) checkNoLateReads(final bool) {
	for i := range e.done {
		s := &e.done[i]
		if s.m == nil {
			continue
		}
		if s.m.last() > s.retSeq {
			e.c.Violation("L2-stop", "the checker measured memory again after the last Shutdown had returned", s.wit, "pattern", "read-after-last-shutdown")
			s.m = nil
		}
	}
	if final {
		e.done = nil
	}
}

// l2Sequential: one scripted interleaving of start / stop / level change / consume over processors created
// from one configuration.
func (e *l2env) l2Sequential(idx int64, rng *rand.Rand, allowGap bool) {
	c := e.c
	e.ctxEnded.Store(false)
	soft, hard, _ := l2cfg.limits()
	rg := regimes[rng.Intn(len(regimes))]
	np := 2 + rng.Intn(3)
	cfg := l2cfg.config(l2Period, rg.SoftIv, rg.HardIv)
	fac := memorylimiterprocessor.NewFactory()
	meters := make([]*meter, np)
	procs := make([]*proc, np)
	var sigs []string
	var ops []l2op
	wit := func() any {
		return map[string]any{"layer": "L2-sequential", "processors": sigs, "regime": rg.Name, "ops": append([]l2op(nil), ops...), "allow_gap": allowGap}
	}
	first := int(idx) % len(signals)
	for i := 0; i < np; i++ {
		m := &meter{tag: i, level: 0}
		meters[i] = m
		core := &capCore{onWrite: meters[0].gcLogged}
		// each creation sees its own measuring function: with one shared limiter only the first is ever used
		memorylimiter.ReadMemStatsFn = m.read
		sig := signals[(first+i)%len(signals)]
		if i > 0 && rng.Intn(3) == 0 {
			sig = signals[rng.Intn(len(signals))]
		}
		p, err := mkProc(fac, sig, zap.New(core), cfg)
		if err != nil {
			c.Violation("L2-create", "creating a memory_limiter processor failed: "+err.Error(), wit(), "signal", sig)
			return
		}
		procs[i] = p
		sigs = append(sigs, sig)
	}
	c.Eval()
	m := meters[0]
	state := make([]int, np) // 0 not started, 1 active, 2 stopped
	active, notStarted := 0, np
	refusing := false
	everRefused, everResumed := false, false
	hadGap := false
	lastStopRet := int64(0)
	nops := 10 + rng.Intn(14)
	isAlive := func(pattern string) bool {
		switch waitReads(m, e.w, 3) {
		case alive:
			c.Observe("l2_liveness_checks", 1)
			return true
		case undecided:
			c.Inconclusive("checker-busy-for-4000-witness-ticks")
			return false
		}
		c.Violation("L2-liveness", "the shared checker stopped measuring although a started processor is still using the limiter (witness ticker of the same period fired 3 x 400 times meanwhile)", livenessWit(wit()), "pattern", e.pat(pattern))
		return false
	}
	// immediate: a Start / Shutdown of one sharer has just returned; without waiting for any check, every
	// started sharer must still behave as the last scripted reading implies (a tick that re-measures the same
	// level in between cannot change that).
	immediate := func(ev string, step int) {
		r := 0
		if refusing {
			r = 1
		}
		for i, p := range procs {
			if state[i] != 1 {
				continue
			}
			sk := rng.Intn(3)
			_, skName := sinkResult(sk)
			p.shape = drawShape(rng)
			ops = append(ops, l2op{Kind: "consume", P: i, Sink: skName, Shape: shapeNames[p.shape], Expect: fmt.Sprintf("refusing=%v (immediately after the %s, no check awaited)", refusing, ev)})
			checkConsume(c, p, fmt.Sprintf("i%d.%d.%d", idx, step, i), r, sk, wit, ev)
		}
	}
	abort := func() {
		m.set(0, 0)
		for i, p := range procs {
			if state[i] == 1 {
				_ = safeStop(e.c, p.comp)
			}
		}
	}
	for step := 0; ; step++ {
		var kinds []string
		if notStarted > 0 {
			kinds = append(kinds, "start", "start")
		}
		if active > 0 {
			kinds = append(kinds, "level", "level", "consume", "consume", "consume")
			if active >= 2 || (notStarted == 0 && step >= nops) || (allowGap && notStarted > 0 && rng.Intn(3) == 0) {
				kinds = append(kinds, "stop")
			}
		}
		if step >= nops && notStarted == 0 {
			kinds = []string{"stop"}
			if active == 0 {
				break
			}
		}
		if len(kinds) == 0 {
			break
		}
		k := kinds[rng.Intn(len(kinds))]
		pick := func(want int) int {
			var cand []int
			for i, s := range state {
				if s == want {
					cand = append(cand, i)
				}
			}
			return cand[rng.Intn(len(cand))]
		}
		switch k {
		case "start":
			i := pick(0)
			cm := rng.Intn(nCtxModes)
			ops = append(ops, l2op{Kind: "start", P: i, Ctx: ctxModeNames[cm]})
			if err := e.start(procs[i].comp, cm); err != nil {
				c.Violation("L2-lifecycle", "Start returned an error: "+err.Error(), wit(), "op", "start")
			}
			state[i] = 1
			pattern := "users-remain"
			if active == 0 && lastStopRet != 0 {
				pattern = "restart-after-zero-users"
				hadGap = true
			}
			active++
			notStarted--
			immediate("start", step)
			if !isAlive(pattern) {
				abort()
				return
			}
		case "stop":
			i := pick(1)
			ops = append(ops, l2op{Kind: "stop", P: i})
			err := safeStop(e.c, procs[i].comp)
			ret := evSeq.Add(1)
			if err != nil {
				c.Violation("L2-lifecycle", "Shutdown of a started processor returned an error: "+err.Error(), wit(), "op", "shutdown")
			}
			state[i] = 2
			active--
			if active == 0 {
				lastStopRet = ret
				// nobody uses the limiter: it must not measure any more
				r0 := m.count()
				t0 := e.w.ticks.Load()
				for e.w.ticks.Load()-t0 < 8 {
					time.Sleep(200 * time.Microsecond)
				}
				if m.last() > ret {
					c.Violation("L2-stop", fmt.Sprintf("the checker measured memory %d more times after the last Shutdown had returned", m.count()-r0), wit(), "pattern", "read-after-last-shutdown")
				} else {
					c.Observe("l2_stop_checks", 1)
				}
			} else {
				immediate("shutdown", step)
				if !isAlive("users-remain") {
					abort()
					return
				}
			}
		case "level":
			cl := rng.Intn(nClasses)
			eff := rng.Intn(nEffects)
			lv := pickLevel(rng, cl, soft, hard)
			post := postLevel(rng, eff, lv, soft, hard)
			m.set(lv, post)
			want, _, _ := refStep(soft, hard, lv, post, rg.DueSoft, rg.DueHard)
			ops = append(ops, l2op{Kind: "level", Class: clNames[cl], Effect: effNames[eff], Expect: fmt.Sprintf("refusing=%v", want)})
			if !isAlive("users-remain") {
				abort()
				return
			}
			if want != refusing {
				if want {
					everRefused = true
				} else {
					everResumed = true
				}
			}
			refusing = want
		case "consume":
			i := pick(1)
			sk := rng.Intn(3)
			_, skName := sinkResult(sk)
			ops = append(ops, l2op{Kind: "consume", P: i, Sink: skName, Expect: fmt.Sprintf("refusing=%v", refusing)})
			r := 0
			if refusing {
				r = 1
			}
			procs[i].shape = drawShape(rng)
			ops[len(ops)-1].Shape = shapeNames[procs[i].shape]
			checkConsume(c, procs[i], fmt.Sprintf("c%d.%d", idx, step), r, sk, wit)
		}
	}
	for i := 1; i < np; i++ {
		if meters[i].count() > 0 {
			c.Observe("l2_second_limiter_for_shared_config", 1)
		}
	}
	m.set(0, 0)
	e.done = append(e.done, stopped{m, lastStopRet, wit()})
	c.Observe("l2_sequential_cases", 1)
	if everRefused {
		c.Nontrivial("L2-seq", sigs, rg.Name, everResumed, hadGap, len(ops))
	}
	var sb strings.Builder
	for _, o := range ops {
		sb.WriteString(o.Kind[:2])
	}
	c.Distinct("interleavings", sb.String(), np)
}

// l2Restart is the directed reproducer of finding C18-a: the only user of a limiter shuts down, then another
// processor created from the same configuration starts. The statement wants the shared checker to run while
// there is a user; the limiter's ticker was stopped by the first Shutdown and is never re-armed.
func (e *l2env) l2Restart(idx int64) {
	c := e.c
	e.ctxEnded.Store(false)
	soft, hard, _ := l2cfg.limits()
	_ = soft
	rg := regimes[1]
	cfg := l2cfg.config(l2Period, rg.SoftIv, rg.HardIv)
	fac := memorylimiterprocessor.NewFactory()
	m := &meter{}
	core := &capCore{onWrite: m.gcLogged}
	memorylimiter.ReadMemStatsFn = m.read
	var ops []l2op
	wit := func() any {
		return map[string]any{"layer": "L2-directed-restart", "processors": []string{"logs", "traces"}, "regime": rg.Name, "ops": append([]l2op(nil), ops...)}
	}
	p0, err0 := mkProc(fac, "logs", zap.New(core), cfg)
	p1, err1 := mkProc(fac, "traces", zap.New(core), cfg)
	if err0 != nil || err1 != nil {
		c.Violation("L2-create", "creating a memory_limiter processor failed", wit(), "signal", "logs/traces")
		return
	}
	c.Eval()
	ops = append(ops, l2op{Kind: "start", P: 0})
	_ = e.start(p0.comp, ctxBackground)
	if waitReads(m, e.w, 3) != alive {
		c.Violation("L2-liveness", "the checker never measured after the first Start", livenessWit(wit()), "pattern", e.pat("users-remain"))
		_ = safeStop(e.c, p0.comp)
		return
	}
	ops = append(ops, l2op{Kind: "stop", P: 0})
	_ = safeStop(e.c, p0.comp)
	lv := hard + 1
	m.set(lv, lv)
	ops = append(ops, l2op{Kind: "level", Class: clNames[clAbove], Effect: effNames[effNone], Expect: "refusing=true"}, l2op{Kind: "start", P: 1})
	_ = e.start(p1.comp, ctxBackground)
	if r := waitReads(m, e.w, 3); r == alive {
		c.Observe("l2_liveness_checks", 1)
		ops = append(ops, l2op{Kind: "consume", P: 1, Sink: "nil", Expect: "refusing=true"})
		checkConsume(c, p1, fmt.Sprintf("rs%d", idx), 1, 0, wit)
	} else if r == undecided {
		c.Inconclusive("checker-busy-for-4000-witness-ticks")
	} else {
		// show the consequence in the witness: usage is above the hard limit and data is still accepted
		p1.sk.mu.Lock()
		p1.sk.result = nil
		p1.sk.mu.Unlock()
		_, cerr := p1.consume(context.Background(), fmt.Sprintf("rs%d", idx))
		ops = append(ops, l2op{Kind: "consume", P: 1, Sink: "nil", Expect: fmt.Sprintf("refusing=true; observed: returned %v, forwarded %d", cerr, p1.sk.calls)})
		c.Violation("L2-liveness", "the shared checker stopped measuring although a started processor is still using the limiter (witness ticker of the same period fired 3 x 400 times meanwhile)", livenessWit(wit()), "pattern", "restart-after-zero-users")
	}
	err := safeStop(e.c, p1.comp)
	ret := evSeq.Add(1)
	if err != nil {
		c.Violation("L2-lifecycle", "Shutdown of a started processor returned an error: "+err.Error(), wit(), "op", "shutdown")
	}
	e.done = append(e.done, stopped{m, ret, wit()})
	c.Nontrivial("L2-directed-restart")
}

// How the context handed to Start ends: the component contract says it only governs the Start call itself, so
// a processor (and the shared checker its Start may have launched) keeps running after that context is
// cancelled or its deadline has passed.
const (
	ctxBackground = iota
	ctxCancelledAfterStart
	ctxDeadlinePassesAfterStart
	nCtxModes
)

var ctxModeNames = []string{"background", "cancelled-after-start", "deadline-passes-after-start"}

// start calls Start with a context of the given kind and ends that context once Start has returned. A panic
// inside the lifecycle call becomes a violation instead of a dead child.
func (e *l2env) start(comp component.Component, mode int) error {
	c := e.c
	ctx, cancel := context.Background(), context.CancelFunc(func() {})
	switch mode {
	case ctxCancelledAfterStart:
		ctx, cancel = context.WithCancel(ctx)
	case ctxDeadlinePassesAfterStart:
		ctx, cancel = context.WithTimeout(ctx, 500*time.Microsecond)
	}
	var err error
	if pv, stack := driver.Catch(func() { err = comp.Start(ctx, componenttest.NewNopHost()) }); pv != nil {
		c.Violation("panic", fmt.Sprintf("Start panicked: %v", pv), map[string]any{"stack": stack}, "site", driver.PanicSite(stack))
		err = nil
	}
	if mode == ctxDeadlinePassesAfterStart {
		<-ctx.Done()
	}
	cancel()
	if mode != ctxBackground {
		e.ctxEnded.Store(true)
		c.Observe("l2_starts_whose_context_ended_afterwards:"+ctxModeNames[mode], 1)
	}
	return err
}

// pat qualifies a liveness pattern when a Start context of the current case has ended.
func (e *l2env) pat(p string) string {
	if e.ctxEnded.Load() {
		return p + "+start-context-ended"
	}
	return p
}

var stopCalls atomic.Int64

// safeStop shuts a component down; every third call hands Shutdown a context that has already ended (a service
// shutting down under an expired deadline): what the limiter has to do at Shutdown does not depend on it.
func safeStop(c *driver.Ctx, comp component.Component) error {
	var err error
	ctx := context.Background()
	switch stopCalls.Add(1) % 6 {
	case 2:
		cctx, cancel := context.WithCancel(ctx)
		cancel()
		ctx = cctx
		c.Observe("l2_shutdowns_with_an_ended_context:cancelled", 1)
	case 5:
		dctx, cancel := context.WithDeadline(ctx, time.Unix(1, 0))
		defer cancel()
		ctx = dctx
		c.Observe("l2_shutdowns_with_an_ended_context:deadline-passed", 1)
	}
	if pv, stack := driver.Catch(func() { err = comp.Shutdown(ctx) }); pv != nil {
		c.Violation("panic", fmt.Sprintf("Shutdown panicked: %v", pv), map[string]any{"stack": stack}, "site", driver.PanicSite(stack))
		return nil
	}
	return err
}

type mustRefuser interface{ MustRefuse() bool }

// l2Extension: the extension's MustRefuse follows the reference; its checker stops with Shutdown.
func (e *l2env) l2Extension(idx int64, rng *rand.Rand) {
	c := e.c
	e.ctxEnded.Store(false)
	soft, hard, _ := l2cfg.limits()
	rg := regimes[rng.Intn(len(regimes))]
	m := &meter{}
	core := &capCore{onWrite: m.gcLogged}
	memorylimiter.ReadMemStatsFn = m.read
	fac := memorylimiterextension.NewFactory()
	set := extensiontest.NewNopSettings(fac.Type())
	set.Logger = zap.New(core)
	var ops []l2op
	wit := func() any {
		return map[string]any{"layer": "L2-extension", "regime": rg.Name, "ops": append([]l2op(nil), ops...)}
	}
	ext, err := fac.Create(context.Background(), set, l2cfg.config(l2Period, rg.SoftIv, rg.HardIv))
	if err != nil {
		c.Violation("L2-create", "creating the memory_limiter extension failed: "+err.Error(), wit(), "signal", "extension")
		return
	}
	mr, ok := ext.(mustRefuser)
	if !ok {
		c.Inconclusive("extension-has-no-MustRefuse")
		return
	}
	c.Eval()
	if err := e.start(ext, int(idx)%nCtxModes); err != nil {
		c.Violation("L2-lifecycle", "Start returned an error: "+err.Error(), wit(), "op", "start")
		return
	}
	crossed := false
	prev := false
	for step := 0; step < 6+rng.Intn(6); step++ {
		cl := rng.Intn(nClasses)
		eff := rng.Intn(nEffects)
		lv := pickLevel(rng, cl, soft, hard)
		post := postLevel(rng, eff, lv, soft, hard)
		m.set(lv, post)
		want, _, _ := refStep(soft, hard, lv, post, rg.DueSoft, rg.DueHard)
		ops = append(ops, l2op{Kind: "level", Class: clNames[cl], Effect: effNames[eff], Expect: fmt.Sprintf("refusing=%v", want)})
		if r := waitReads(m, e.w, 3); r != alive {
			if r == dead {
				c.Violation("L2-liveness", "the extension's checker stopped measuring while the extension is started", livenessWit(wit()), "pattern", e.pat("extension"))
			} else {
				c.Inconclusive("checker-busy-for-4000-witness-ticks")
			}
			m.set(0, 0)
			_ = safeStop(e.c, ext)
			return
		}
		c.Observe("l2_extension_checks", 1)
		if got := mr.MustRefuse(); got != want {
			c.Violation("L2-extension", fmt.Sprintf("extension MustRefuse()=%v, reference says %v at level class %s", got, want, clNames[cl]), wit(), "level", clNames[cl], "gc", effNames[eff])
		}
		if want != prev {
			crossed = true
		}
		prev = want
	}
	err = safeStop(e.c, ext)
	ret := evSeq.Add(1)
	if err != nil {
		c.Violation("L2-lifecycle", "Shutdown of a started extension returned an error: "+err.Error(), wit(), "op", "shutdown")
	}
	e.done = append(e.done, stopped{m, ret, wit()})
	if crossed {
		c.Nontrivial("L2-ext", rg.Name, len(ops), idx%7)
	}
}

// l2Concurrent: processors sharing one limiter are started, used and shut down from concurrent goroutines
// while the level changes; an anchor processor is started first and stopped last, so the checker must be
// alive whenever the harness looks. Mainly meaningful in the race variant.
func (e *l2env) l2Concurrent(idx int64, rng *rand.Rand) {
	c := e.c
	e.ctxEnded.Store(false)
	soft, hard, _ := l2cfg.limits()
	rg := regimes[1+rng.Intn(2)] // keep forced GCs rare here: 1h/1h or 1h/0
	np := 3 + rng.Intn(3)
	cfg := l2cfg.config(l2Period, rg.SoftIv, rg.HardIv)
	fac := memorylimiterprocessor.NewFactory()
	m := &meter{}
	core := &capCore{onWrite: m.gcLogged}
	memorylimiter.ReadMemStatsFn = m.read
	procs := make([]*proc, np)
	var sigs []string
	for i := range procs {
		sig := signals[(int(idx)+i)%len(signals)]
		p, err := mkProc(fac, sig, zap.New(core), cfg)
		if err != nil {
			c.Violation("L2-create", "creating a memory_limiter processor failed: "+err.Error(), nil, "signal", sig)
			return
		}
		procs[i] = p
		sigs = append(sigs, sig)
	}
	c.Eval()
	seeds := make([]int64, np)
	for i := range seeds {
		seeds[i] = rng.Int63()
	}
	wit := func() any {
		return map[string]any{"layer": "L2-concurrent", "processors": sigs, "regime": rg.Name, "case": idx}
	}
	if err := e.start(procs[0].comp, int(idx)%nCtxModes); err != nil {
		c.Violation("L2-lifecycle", "Start returned an error: "+err.Error(), wit(), "op", "start")
		return
	}
	var wg sync.WaitGroup
	var order sync.Mutex
	var orderSig strings.Builder
	mark := func(s string) { order.Lock(); orderSig.WriteString(s); order.Unlock() }
	stopLevels := make(chan struct{})
	var lwg sync.WaitGroup
	lwg.Add(1)
	go func() {
		defer lwg.Done()
		r := rand.New(rand.NewSource(seeds[0]))
		for {
			select {
			case <-stopLevels:
				return
			default:
			}
			cl := r.Intn(nClasses)
			lv := pickLevel(r, cl, soft, hard)
			m.set(lv, postLevel(r, r.Intn(nEffects), lv, soft, hard))
			time.Sleep(time.Duration(100+r.Intn(900)) * time.Microsecond)
		}
	}()
	for i := 1; i < np; i++ {
		wg.Add(1)
		go func(i int) {
			defer wg.Done()
			r := rand.New(rand.NewSource(seeds[i]))
			p := procs[i]
			if r.Intn(2) == 0 {
				runtime.Gosched()
			}
			if err := e.start(p.comp, r.Intn(nCtxModes)); err != nil {
				c.Violation("L2-lifecycle", "Start returned an error: "+err.Error(), wit(), "op", "start")
			}
			mark(fmt.Sprintf("S%d", i))
			for k := 0; k < 2+r.Intn(4); k++ {
				checkConsume(c, p, fmt.Sprintf("cc%d.%d.%d", idx, i, k), -1, r.Intn(3), wit)
				if r.Intn(2) == 0 {
					time.Sleep(time.Duration(r.Intn(400)) * time.Microsecond)
				}
			}
			if err := safeStop(e.c, p.comp); err != nil {
				c.Violation("L2-lifecycle", "Shutdown of a started processor returned an error: "+err.Error(), wit(), "op", "shutdown")
			}
			mark(fmt.Sprintf("X%d", i))
		}(i)
	}
	// the anchor keeps consuming meanwhile
	for k := 0; k < 4; k++ {
		checkConsume(c, procs[0], fmt.Sprintf("ca%d.%d", idx, k), -1, rng.Intn(3), wit)
	}
	wg.Wait()
	close(stopLevels)
	lwg.Wait()
	// all non-anchor users are gone, the anchor remains: the checker must still be measuring
	lv := pickLevel(rng, clAbove, soft, hard)
	m.set(lv, lv)
	if r := waitReads(m, e.w, 3); r != alive {
		if r == dead {
			c.Violation("L2-liveness", "the shared checker stopped measuring although a started processor is still using the limiter (witness ticker of the same period fired 3 x 400 times meanwhile)", livenessWit(wit()), "pattern", e.pat("users-remain"))
		} else {
			c.Inconclusive("checker-busy-for-4000-witness-ticks")
		}
		m.set(0, 0)
		_ = safeStop(e.c, procs[0].comp)
		return
	}
	c.Observe("l2_liveness_checks", 1)
	// above the hard limit with no GC effect: refusing in every regime
	checkConsume(c, procs[0], fmt.Sprintf("cz%d", idx), 1, 0, wit)
	lv = pickLevel(rng, clBelow, soft, hard)
	m.set(lv, lv)
	if waitReads(m, e.w, 3) == alive {
		checkConsume(c, procs[0], fmt.Sprintf("cy%d", idx), 0, rng.Intn(3), wit)
	}
	err := safeStop(e.c, procs[0].comp)
	ret := evSeq.Add(1)
	if err != nil {
		c.Violation("L2-lifecycle", "Shutdown of a started processor returned an error: "+err.Error(), wit(), "op", "shutdown")
	}
	e.done = append(e.done, stopped{m, ret, wit()})
	c.Observe("l2_concurrent_cases", 1)
	c.Nontrivial("L2-conc", orderSig.String(), rg.Name)
	c.Distinct("interleavings", "conc", orderSig.String())
}

// pickMode draws a level class and GC effect whose steady-state reference decision is the wanted mode.
func pickMode(rng *rand.Rand, rg regime, soft, hard uint64, refuse bool) (cl, eff int, lv, post uint64) {
	for {
		cl, eff = rng.Intn(nClasses), rng.Intn(nEffects)
		lv = pickLevel(rng, cl, soft, hard)
		post = postLevel(rng, eff, lv, soft, hard)
		if want, _, _ := refStep(soft, hard, lv, post, rg.DueSoft, rg.DueHard); want == refuse {
			return
		}
	}
}

// l2ShareSwitch: 3-4 processors of mixed signals share one limiter whose mode is fixed by the last scripted
// reading (refusing, or its twin not refusing). One sharer is started late and the sharers are shut down one
// by one; immediately after each of these lifecycle calls returned - no check is awaited - every remaining
// sharer must behave exactly as that reading implies: the Start or Shutdown of one user must not change what
// the others do.
func (e *l2env) l2ShareSwitch(idx int64, rng *rand.Rand, refuse bool) {
	c := e.c
	e.ctxEnded.Store(false)
	soft, hard, _ := l2cfg.limits()
	rg := regimes[rng.Intn(len(regimes))]
	np := 3 + rng.Intn(2)
	cfg := l2cfg.config(l2Period, rg.SoftIv, rg.HardIv)
	fac := memorylimiterprocessor.NewFactory()
	m := &meter{}
	core := &capCore{onWrite: m.gcLogged}
	memorylimiter.ReadMemStatsFn = m.read
	procs := make([]*proc, np)
	var sigs []string
	var ops []l2op
	wit := func() any {
		return map[string]any{"layer": "L2-share-switch", "processors": sigs, "regime": rg.Name, "mode_refusing": refuse, "ops": append([]l2op(nil), ops...)}
	}
	first := rng.Intn(len(signals))
	for i := range procs {
		sig := signals[(first+i)%len(signals)]
		p, err := mkProc(fac, sig, zap.New(core), cfg)
		if err != nil {
			c.Violation("L2-create", "creating a memory_limiter processor failed: "+err.Error(), wit(), "signal", sig)
			return
		}
		procs[i] = p
		sigs = append(sigs, sig)
	}
	c.Eval()
	started := make([]bool, np)
	stopAll := func() {
		m.set(0, 0)
		for i, p := range procs {
			if started[i] {
				_ = safeStop(c, p.comp)
				started[i] = false
			}
		}
	}
	for i := 0; i < np-1; i++ {
		cm := (int(idx) + i) % nCtxModes
		ops = append(ops, l2op{Kind: "start", P: i, Ctx: ctxModeNames[cm]})
		if err := e.start(procs[i].comp, cm); err != nil {
			c.Violation("L2-lifecycle", "Start returned an error: "+err.Error(), wit(), "op", "start")
		}
		started[i] = true
	}
	cl, eff, lv, post := pickMode(rng, rg, soft, hard, refuse)
	m.set(lv, post)
	ops = append(ops, l2op{Kind: "level", Class: clNames[cl], Effect: effNames[eff], Expect: fmt.Sprintf("refusing=%v", refuse)})
	if r := waitReads(m, e.w, 3); r != alive {
		if r == dead {
			c.Violation("L2-liveness", "the shared checker stopped measuring although a started processor is still using the limiter (witness ticker of the same period fired 3 x 400 times meanwhile)", livenessWit(wit()), "pattern", e.pat("users-remain"))
		} else {
			c.Inconclusive("checker-busy-for-4000-witness-ticks")
		}
		stopAll()
		return
	}
	mode := 0
	if refuse {
		mode = 1
	}
	all := func(ev string, round int) {
		for i, p := range procs {
			if !started[i] {
				continue
			}
			sk := rng.Intn(3)
			_, skName := sinkResult(sk)
			p.shape = drawShape(rng)
			ops = append(ops, l2op{Kind: "consume", P: i, Sink: skName, Shape: shapeNames[p.shape], Expect: fmt.Sprintf("refusing=%v (immediately after the %s, no check awaited)", refuse, ev)})
			checkConsume(c, p, fmt.Sprintf("s%d.%d.%d", idx, round, i), mode, sk, wit, ev)
		}
	}
	// settled mode, before any lifecycle event
	for i, p := range procs {
		if !started[i] {
			continue
		}
		for shape := 0; shape < nShapes; shape++ {
			sk := (shape + i + int(idx)) % 3
			_, skName := sinkResult(sk)
			p.shape = shape
			ops = append(ops, l2op{Kind: "consume", P: i, Sink: skName, Shape: shapeNames[shape], Expect: fmt.Sprintf("refusing=%v", refuse)})
			checkConsume(c, p, fmt.Sprintf("s%d.b.%d.%d", idx, i, shape), mode, sk, wit)
		}
	}
	// a further sharer starts
	lateCm := rng.Intn(nCtxModes)
	ops = append(ops, l2op{Kind: "start", P: np - 1, Ctx: ctxModeNames[lateCm]})
	if err := e.start(procs[np-1].comp, lateCm); err != nil {
		c.Violation("L2-lifecycle", "Start returned an error: "+err.Error(), wit(), "op", "start")
	}
	started[np-1] = true
	all("start", 0)
	// sharers leave one by one, in random order, until one is left
	order := rng.Perm(np)
	for round, i := range order[:np-1] {
		ops = append(ops, l2op{Kind: "stop", P: i})
		if err := safeStop(c, procs[i].comp); err != nil {
			c.Violation("L2-lifecycle", "Shutdown of a started processor returned an error: "+err.Error(), wit(), "op", "shutdown")
		}
		started[i] = false
		all("shutdown", round+1)
		if rng.Intn(2) == 0 {
			// sometimes let a few checks pass between two departures
			if waitReads(m, e.w, 2) != alive {
				break
			}
		}
	}
	m.set(0, 0)
	lastI := order[np-1]
	err := safeStop(c, procs[lastI].comp)
	started[lastI] = false
	ret := evSeq.Add(1)
	if err != nil {
		c.Violation("L2-lifecycle", "Shutdown of a started processor returned an error: "+err.Error(), wit(), "op", "shutdown")
	}
	stopAll()
	e.done = append(e.done, stopped{m, ret, wit()})
	c.Observe("l2_share_switch_cases", 1)
	c.Nontrivial("L2-share-switch", sigs, rg.Name, refuse, clNames[cl], effNames[eff], fmt.Sprint(order))
	c.Distinct("interleavings", "share-switch", np, fmt.Sprint(order), refuse)
}

// l2ShareSwitchConcurrent: the mode is fixed by the last scripted reading while 2-4 further sharers start and
// shut down from concurrent goroutines; an anchor sharer consumes all the time and must see exactly that mode
// in every call. Mainly meaningful in the race variant.
func (e *l2env) l2ShareSwitchConcurrent(idx int64, rng *rand.Rand, refuse bool) {
	c := e.c
	e.ctxEnded.Store(false)
	soft, hard, _ := l2cfg.limits()
	rg := regimes[1+rng.Intn(2)]
	np := 3 + rng.Intn(3)
	cfg := l2cfg.config(l2Period, rg.SoftIv, rg.HardIv)
	fac := memorylimiterprocessor.NewFactory()
	m := &meter{}
	core := &capCore{onWrite: m.gcLogged}
	memorylimiter.ReadMemStatsFn = m.read
	procs := make([]*proc, np)
	var sigs []string
	for i := range procs {
		sig := signals[(int(idx)+i)%len(signals)]
		p, err := mkProc(fac, sig, zap.New(core), cfg)
		if err != nil {
			c.Violation("L2-create", "creating a memory_limiter processor failed: "+err.Error(), nil, "signal", sig)
			return
		}
		procs[i] = p
		sigs = append(sigs, sig)
	}
	c.Eval()
	cl, eff, lv, post := pickMode(rng, rg, soft, hard, refuse)
	wit := func() any {
		return map[string]any{"layer": "L2-share-switch-concurrent", "processors": sigs, "regime": rg.Name, "mode_refusing": refuse, "level": clNames[cl], "gc_effect": effNames[eff], "case": idx}
	}
	if err := e.start(procs[0].comp, int(idx)%nCtxModes); err != nil {
		c.Violation("L2-lifecycle", "Start returned an error: "+err.Error(), wit(), "op", "start")
		return
	}
	m.set(lv, post)
	if waitReads(m, e.w, 3) != alive {
		c.Inconclusive("share-switch-concurrent-level-not-settled")
		m.set(0, 0)
		_ = safeStop(c, procs[0].comp)
		return
	}
	mode := 0
	if refuse {
		mode = 1
	}
	seeds := make([]int64, np)
	for i := range seeds {
		seeds[i] = rng.Int63()
	}
	var wg sync.WaitGroup
	var running atomic.Int32
	for i := 1; i < np; i++ {
		wg.Add(1)
		running.Add(1)
		go func(i int) {
			defer wg.Done()
			defer running.Add(-1)
			r := rand.New(rand.NewSource(seeds[i]))
			time.Sleep(time.Duration(r.Intn(300)) * time.Microsecond)
			if err := e.start(procs[i].comp, r.Intn(nCtxModes)); err != nil {
				c.Violation("L2-lifecycle", "Start returned an error: "+err.Error(), wit(), "op", "start")
			}
			checkConsume(c, procs[i], fmt.Sprintf("x%d.%d", idx, i), mode, r.Intn(3), wit, "concurrent-start-shutdown")
			time.Sleep(time.Duration(r.Intn(500)) * time.Microsecond)
			if err := safeStop(c, procs[i].comp); err != nil {
				c.Violation("L2-lifecycle", "Shutdown of a started processor returned an error: "+err.Error(), wit(), "op", "shutdown")
			}
		}(i)
	}
	for k := 0; running.Load() > 0 || k < 8; k++ {
		procs[0].shape = k % nShapes
		checkConsume(c, procs[0], fmt.Sprintf("xa%d.%d", idx, k), mode, k%3, wit, "concurrent-start-shutdown")
		if k%4 == 3 {
			runtime.Gosched()
		}
		if k > 20000 {
			break
		}
	}
	wg.Wait()
	checkConsume(c, procs[0], fmt.Sprintf("xz%d", idx), mode, 0, wit, "concurrent-start-shutdown")
	m.set(0, 0)
	err := safeStop(c, procs[0].comp)
	ret := evSeq.Add(1)
	if err != nil {
		c.Violation("L2-lifecycle", "Shutdown of a started processor returned an error: "+err.Error(), wit(), "op", "shutdown")
	}
	e.done = append(e.done, stopped{m, ret, wit()})
	c.Observe("l2_share_switch_concurrent_cases", 1)
	c.Nontrivial("L2-share-switch-conc", sigs, rg.Name, refuse, clNames[cl], effNames[eff])
}

// l2Generations: one factory instance serves several generations of processors (what a configuration
// reload does: factories live as long as the process, the pipelines are rebuilt). Every generation has its
// own limits; a generation may reuse the component id of an earlier one, and two ids with different limits
// may be live at the same time. Every processor must refuse according to the limits IT was created with.
var genCfgs = []limCfg{
	{Name: "mib-100/20", MiB: 100, SpikeMiB: 20},
	{Name: "mib-200/40", MiB: 200, SpikeMiB: 40},
	{Name: "mib-50/10", MiB: 50, SpikeMiB: 10},
	{Name: "mib-400/100", MiB: 400, SpikeMiB: 100},
	{Name: "mib-100/50", MiB: 100, SpikeMiB: 50},
}

func (e *l2env) l2Generations(idx int64, rng *rand.Rand) {
	c := e.c
	e.ctxEnded.Store(false)
	rg := regimes[1]
	fac := memorylimiterprocessor.NewFactory()
	ngen := 2 + rng.Intn(2)
	sameID := rng.Intn(4) != 0
	// Generations never overlap in time: all limiters read the one process-wide memory reading hook, so the
	// harness could not tell which limiter has already seen a new level.
	const overlap = false
	var ops []map[string]any
	wit := func() any {
		return map[string]any{"layer": "L2-generations", "one_factory": true, "same_component_id": sameID, "generations_overlap": overlap, "ops": append([]map[string]any(nil), ops...)}
	}
	type live struct {
		procs []*proc
		m     *meter
	}
	var prev *live
	stop := func(l *live) {
		if l == nil {
			return
		}
		for _, p := range l.procs {
			_ = safeStop(c, p.comp)
		}
		e.done = append(e.done, stopped{l.m, evSeq.Add(1), wit()})
	}
	order := rng.Perm(len(genCfgs))
	c.Eval()
	for g := 0; g < ngen; g++ {
		lc := genCfgs[order[g]]
		soft, hard, _ := lc.limits()
		cid := component.NewID(fac.Type())
		if !sameID {
			cid = component.NewIDWithName(fac.Type(), fmt.Sprintf("g%d", g))
		}
		if !overlap {
			stop(prev)
			prev = nil
		}
		m := &meter{}
		if overlap && prev != nil {
			m = prev.m // one process, one memory reading: both generations see the same usage
		}
		core := &capCore{onWrite: m.gcLogged}
		memorylimiter.ReadMemStatsFn = m.read
		cfg := lc.config(l2Period, rg.SoftIv, rg.HardIv)
		cur := &live{m: m}
		first := rng.Intn(len(signals))
		for i := 0; i < 1+rng.Intn(2); i++ {
			sig := signals[(first+i)%len(signals)]
			p, err := mkProcID(fac, cid, sig, zap.New(core), cfg)
			if err != nil {
				c.Violation("L2-create", "creating a memory_limiter processor failed: "+err.Error(), wit(), "signal", sig)
				stop(prev)
				return
			}
			cur.procs = append(cur.procs, p)
		}
		ops = append(ops, map[string]any{"generation": g, "id": cid.String(), "config": lc.Name, "processors": len(cur.procs), "op": "create+start"})
		for _, p := range cur.procs {
			if err := e.start(p.comp, ctxBackground); err != nil {
				c.Violation("L2-lifecycle", "Start returned an error: "+err.Error(), wit(), "op", "start")
			}
		}
		// usage levels that tell this generation's limits from any other configuration's: just below and exactly at its soft limit, at its hard limit
		for _, lv := range []uint64{soft - 1, soft, hard, soft - 1} {
			m.set(lv, lv)
			if r := waitReads(m, e.w, 3); r != alive {
				if r == dead {
					c.Violation("L2-liveness", "the checker of a newly created generation never measured (witness ticker of the same period fired 3 x 400 times meanwhile)", livenessWit(wit()), "pattern", "generation-"+map[bool]string{true: "same-id", false: "new-id"}[sameID])
				} else {
					c.Inconclusive("checker-busy-for-4000-witness-ticks")
				}
				stop(cur)
				stop(prev)
				return
			}
			want := 0
			if lv >= soft {
				want = 1
			}
			ops = append(ops, map[string]any{"generation": g, "op": "level+consume", "usage": lv, "soft": soft, "hard": hard, "expect_refusing": want == 1})
			for pi, p := range cur.procs {
				checkConsume(c, p, fmt.Sprintf("gen%d.%d.%d", idx, g, pi), want, 0, wit)
			}
			c.Observe("l2_generation_consumes", int64(len(cur.procs)))
			if overlap && prev != nil {
				// the older generation keeps ITS limits
				psoft := prev.procs[0].softOfGen
				pw := 0
				if lv >= psoft {
					pw = 1
				}
				for pi, p := range prev.procs {
					checkConsume(c, p, fmt.Sprintf("gen%d.%d.old%d", idx, g, pi), pw, 0, wit)
				}
				c.Observe("l2_generation_consumes_on_the_older_live_generation", int64(len(prev.procs)))
			}
		}
		for _, p := range cur.procs {
			p.softOfGen = soft
		}
		if overlap {
			stop(prev)
		}
		prev = cur
		c.Observe("l2_generations", 1)
	}
	stop(prev)
	c.Nontrivial("L2-generations", sameID, overlap, ngen, order[0], order[1])
}

func runL2(c *driver.Ctx, base *int64) {
	e := &l2env{c: c, w: newWitness(l2Period)}
	defer close(e.w.stop)
	race := c.Variant == "race"
	nSeq, nExt, nConc := int64(c.N(10, 260)), int64(c.N(3, 40)), int64(c.N(3, 60))
	if race {
		nSeq, nExt, nConc = int64(c.N(4, 60)), int64(c.N(1, 10)), int64(c.N(14, 300))
	}
	// the first L2 case of shard 0 is the directed "all users gone, then a new user starts" interleaving
	idx := *base
	if c.Shard == 0 && c.Want(idx) {
		e.l2Restart(idx)
	}
	idx++
	for k := int64(0); k < nSeq; k++ {
		if c.Want(idx + k) {
			rng := c.CaseRand(idx + k)
			e.l2Sequential(idx+k, rng, k%32 == 5)
		}
		if k%8 == 7 {
			e.checkNoLateReads(false)
		}
	}
	idx += nSeq
	for k := int64(0); k < nExt; k++ {
		if c.Want(idx + k) {
			e.l2Extension(idx+k, c.CaseRand(idx+k))
		}
	}
	idx += nExt
	for k := int64(0); k < nConc; k++ {
		if c.Want(idx + k) {
			e.l2Concurrent(idx+k, c.CaseRand(idx+k))
		}
	}
	idx += nConc
	// mode must survive the Start / Shutdown of another sharer: directed twin cases (refusing / not refusing)
	nShare, nShareConc := int64(c.N(6, 120)), int64(c.N(2, 40))
	if race {
		nShare, nShareConc = int64(c.N(4, 60)), int64(c.N(6, 160))
	}
	for k := int64(0); k < nShare; k++ {
		if c.Want(idx + k) {
			e.l2ShareSwitch(idx+k, c.CaseRand(idx+k), k%2 == 0)
		}
	}
	idx += nShare
	for k := int64(0); k < nShareConc; k++ {
		if c.Want(idx + k) {
			e.l2ShareSwitchConcurrent(idx+k, c.CaseRand(idx+k), k%2 == 0)
		}
	}
	idx += nShareConc
	nGen := int64(c.N(8, 160))
	for k := int64(0); k < nGen; k++ {
		if c.Want(idx + k) {
			e.l2Generations(idx+k, c.CaseRand(idx+k))
		}
		if k%8 == 7 {
			e.checkNoLateReads(false)
		}
	}
	idx += nGen
	e.checkNoLateReads(false)
	// give stopped checkers a last chance to show a late measurement
	t0 := e.w.ticks.Load()
	for e.w.ticks.Load()-t0 < 20 {
		time.Sleep(200 * time.Microsecond)
	}
	e.checkNoLateReads(true)
	*base = idx
}

func run(c *driver.Ctx) {
	for _, lc := range cfgs {
		if _, _, ok := lc.limits(); !ok {
			panic("harness: configuration without exact reference: " + lc.Name)
		}
	}
	var base int64
	if c.Variant != "race" {
		// L1 is sequential and forces hundreds of thousands of real GC cycles: with a single P a cycle needs no cross-thread handshakes and stays cheap on a loaded machine
		prev := runtime.GOMAXPROCS(1)
		runL1(c, &base)
		runL1Timed(c, &base)
		runL1Mixed(c, &base)
		runtime.GOMAXPROCS(prev)
	} else {
		base = 1 << 40
	}
	runL2(c, &base)
}

func main() {
	driver.Main(driver.Spec{
		ID:    "C18",
		Level: "exploration",
		Rule: "L1: a case is one (sequence of reading classes {below soft, = soft, between, = hard, above hard}, effect of a forced GC on the re-measurement {none, to below soft, to exactly soft, to below hard only}, minimum-GC-interval regime {0/0, 1h/1h, 1h/0}, limit configuration in MiB or percent); all class sequences up to length 5 (quick) / 7 (thorough; length 7 under two of the four GC effects, alternating) are enumerated, plus random sequences of up to 12 further readings with a different GC effect per step; " +
			"non-trivial = the reference refuse state changes at least once (the sequence crosses the soft limit); distinct = distinct (class sequence, regime, effect). " +
			"L2: a case is one interleaving of start / shutdown / level change / consume over 2-4 processors (logs, traces, metrics, profiles) created from one configuration (after every Start / Shutdown of one sharer all started sharers are consumed through immediately, before any further check), a directed share-switch case (mode fixed refusing or not refusing, one sharer starts late, sharers leave one by one, sequentially or concurrently with a consuming anchor), the extension, or a concurrent start/consume/shutdown run; non-trivial = the limiter went into refusing mode at least once",
		Assumptions: []string{
			"mixed configurations (fixed pair and percentage pair both set, incl. contradictory pairs) are drawn as well: what Config.Validate rejects is skipped and counted, what it accepts is judged against the limits the runtime uses (limit_mib and its spike take precedence when limit_mib is set), computed in signed arithmetic",
			"limit configurations are those accepted by Config.Validate whose byte limits are exact integers (percentages of totals divisible by 100, default spike of limits divisible by 5), so the reference does not depend on rounding",
			"minimum GC interval regimes 0 (always due) and 1 h (never due) are decided without a clock; the few real-interval cases judge a decision only when harness timestamps bracket it clearly on one side",
			"L2 payloads: about 40 % carry no items (empty, resource-only, scope-only, metric without data points / profile without samples) and the directed share-switch cases send every shape through every sharer; the sink counts calls, its scripted result (nil, transient, permanent) must come back also for them",
			"two thirds of all Start calls get a context that is cancelled, or whose deadline passes, right after Start returned (the context governs the Start call only); liveness and mode oracles are unchanged for them",
			"L2 never consumes through a processor that is not started or already shut down; checker liveness is judged relative to a witness ticker of the same period (3 x 400 witness ticks without one measurement and without a limiter goroutine inside a check = stopped)",
			"interleavings in which every user shut down and a further processor of the same configuration starts afterwards are generated (the directed reproducer of C18-a and 1 in 32 sequential cases); a collector never produces them (all components start before any stops)",
		},
		TrustedBase: []string{"zap (log lines of the limiter are read through a capturing core)", "runtime/metrics forced-GC cycle counter", "Go race detector (race variant)"},
		Shards:      func(string) int { return 16 },
		Variants:    func(string) []string { return []string{"plain", "race"} },
		MinNontrivial: func(tier string) int {
			if tier == "thorough" {
				return 300000
			}
			return 20000
		},
		ShardTimeout: func(tier string) time.Duration {
			if tier == "thorough" {
				return 40 * time.Minute
			}
			return 8 * time.Minute
		},
		Run:        run,
		MaxSamples: 2,
	})
}
