package main

import (
	"fmt"
	"math/rand"
	"reflect"
	"sort"
	"strconv"
	"strings"

	"go.opentelemetry.io/collector/confmap/xconfmap"
	"go.opentelemetry.io/collector/otelcol"
	"go.opentelemetry.io/collector/verifharness/lib/confgen"
	"go.opentelemetry.io/collector/verifharness/lib/driver"
)

type validator interface{ Validate() error }

type foundErr struct {
	msg   string
	path  string // path in xconfmap notation
	gotyp string
}

// walkValidate is the independent walker: it visits every value reachable from v (pointers,
// interfaces, exported fields, slices, arrays, map keys and values, addressable or not) and calls
// every Validate() it can find, with value and with pointer receiver.
func walkValidate(v reflect.Value, path []string, out *[]foundErr, panics *int, depth int) {
	if depth > 40 || !v.IsValid() {
		return
	}
	switch v.Kind() {
	case reflect.Ptr, reflect.Interface:
		if v.IsNil() {
			return
		}
		walkValidate(v.Elem(), path, out, panics, depth+1)
		return
	}
	call := func(x reflect.Value) {
		if !x.IsValid() || !x.CanInterface() {
			return
		}
		val, ok := x.Interface().(validator)
		if !ok {
			return
		}
		var err error
		if pv, _ := driver.Catch(func() { err = val.Validate() }); pv != nil {
			*panics++
			return
		}
		if err != nil {
			*out = append(*out, foundErr{msg: err.Error(), path: strings.Join(path, "::"), gotyp: v.Type().String()})
		}
	}
	if v.Type().Implements(reflect.TypeOf((*validator)(nil)).Elem()) {
		call(v)
	} else if reflect.PointerTo(v.Type()).Implements(reflect.TypeOf((*validator)(nil)).Elem()) {
		if v.CanAddr() {
			call(v.Addr())
		} else {
			p := reflect.New(v.Type())
			p.Elem().Set(v)
			call(p)
		}
	}
	switch v.Kind() {
	case reflect.Struct:
		t := v.Type()
		for i := 0; i < v.NumField(); i++ {
			f := t.Field(i)
			if !f.IsExported() {
				continue
			}
			// the path element documented for validation errors: the mapstructure name, else the lower-cased field name
			name := ""
			if tag, ok := f.Tag.Lookup("mapstructure"); ok {
				name = strings.Split(tag, ",")[0]
			}
			if name == "" {
				name = strings.ToLower(f.Name)
			}
			walkValidate(v.Field(i), append(append([]string(nil), path...), name), out, panics, depth+1)
		}
	case reflect.Slice, reflect.Array:
		for i := 0; i < v.Len(); i++ {
			walkValidate(v.Index(i), append(append([]string(nil), path...), strconv.Itoa(i)), out, panics, depth+1)
		}
	case reflect.Map:
		it := v.MapRange()
		for it.Next() {
			key := ""
			if s, ok := it.Key().Interface().(string); ok {
				key = s
			} else if s, ok := it.Key().Interface().(fmt.Stringer); ok {
				key = s.String()
			} else {
				key = fmt.Sprintf("%v", it.Key().Interface())
			}
			p := append(append([]string(nil), path...), key)
			walkValidate(it.Key(), p, out, panics, depth+1)
			walkValidate(it.Value(), p, out, panics, depth+1)
		}
	}
}

// perturb sets random fields to hostile values and returns the number of changes.
func perturb(rng *rand.Rand, v reflect.Value, depth int, rate int) int {
	n := 0
	if depth > 40 || !v.IsValid() {
		return 0
	}
	hit := func() bool { return rng.Intn(rate) == 0 }
	switch v.Kind() {
	case reflect.Ptr:
		if v.IsNil() {
			if v.CanSet() && v.Type().Elem().Kind() == reflect.Struct && rng.Intn(rate*2) == 0 {
				v.Set(reflect.New(v.Type().Elem())) // an optional section that is present but empty
				n++
			}
			return n
		}
		n += perturb(rng, v.Elem(), depth+1, rate)
	case reflect.Interface:
		if !v.IsNil() {
			n += perturb(rng, v.Elem(), depth+1, rate)
		}
	case reflect.Struct:
		for i := 0; i < v.NumField(); i++ {
			if v.Type().Field(i).IsExported() {
				n += perturb(rng, v.Field(i), depth+1, rate)
			}
		}
	case reflect.Map:
		for _, k := range v.MapKeys() {
			e := v.MapIndex(k)
			if e.Kind() == reflect.Ptr || e.Kind() == reflect.Interface {
				n += perturb(rng, e, depth+1, rate)
			}
		}
	case reflect.Slice:
		for i := 0; i < v.Len(); i++ {
			n += perturb(rng, v.Index(i), depth+1, rate)
		}
		if v.CanSet() && v.Type().Elem().Kind() == reflect.Struct && !confgen.IsScalarStruct(v.Type().Elem()) && rng.Intn(rate*2) == 0 {
			v.Set(reflect.Append(v, reflect.Zero(v.Type().Elem())))
			n++
		}
	case reflect.Int, reflect.Int8, reflect.Int16, reflect.Int32, reflect.Int64:
		if v.CanSet() && hit() {
			x := []int64{-1, 0, -1000000000, 1 << 40, 7}[rng.Intn(5)]
			if v.OverflowInt(x) {
				x = -1
			}
			v.SetInt(x)
			n++
		}
	case reflect.Uint, reflect.Uint8, reflect.Uint16, reflect.Uint32, reflect.Uint64:
		if v.CanSet() && hit() {
			x := []uint64{0, 101, 4000000000, 1}[rng.Intn(4)]
			if v.OverflowUint(x) {
				x = 0
			}
			v.SetUint(x)
			n++
		}
	case reflect.Float32, reflect.Float64:
		if v.CanSet() && hit() {
			v.SetFloat([]float64{-1, 2, 0, 1e9}[rng.Intn(4)])
			n++
		}
	case reflect.String:
		if v.CanSet() && rng.Intn(rate+2) == 0 {
			v.SetString([]string{"", "bogus", "localhost:0", "1.7", "::", "http://"}[rng.Intn(6)])
			n++
		}
	case reflect.Bool:
		if v.CanSet() && rng.Intn(rate*2) == 0 {
			v.SetBool(!v.Bool())
			n++
		}
	}
	return n
}

const richBase = `
receivers:
  nop:
  otlp:
    protocols:
      grpc: {endpoint: "localhost:4317", keepalive: {server_parameters: {time: 1s}, enforcement_policy: {min_time: 1s}}, tls: {cert_file: /c.pem, key_file: /k.pem}}
      http: {endpoint: "localhost:4318", cors: {allowed_origins: ["*"]}, auth: {authenticator: ext1}}
processors:
  batch: {}
  batch/2: {timeout: 1s, send_batch_size: 10, send_batch_max_size: 20, metadata_keys: [a, b]}
  memory_limiter: {check_interval: 1s, limit_mib: 100, spike_limit_mib: 10}
exporters:
  nop:
  otlp: {endpoint: "localhost:1", tls: {insecure: true}, sending_queue: {queue_size: 10, sizer: items, batch: {flush_timeout: 1s, min_size: 1, max_size: 5}}, retry_on_failure: {enabled: true}, keepalive: {time: 1s}}
  otlp/2: {endpoint: "localhost:2", sending_queue: {enabled: true, storage: ext1}, batcher: {enabled: true, flush_timeout: 1s, min_size: 1, max_size: 5}}
  otlphttp: {endpoint: "http://localhost:1", sending_queue: {queue_size: 3}, compression: zstd, compression_params: {level: 3}, cookies: {enabled: true}}
  debug: {verbosity: detailed}
connectors:
  forward:
extensions:
  cfgwatch:
  zpages: {endpoint: "localhost:55679"}
  memory_limiter: {check_interval: 1s, limit_percentage: 50, spike_limit_percentage: 10}
service:
  extensions: [cfgwatch]
  telemetry: {metrics: {level: none}, logs: {level: info, sampling: {enabled: true, tick: 1s, initial: 1, thereafter: 2}}}
  pipelines:
    logs: {receivers: [nop, otlp], processors: [memory_limiter, batch], exporters: [nop, otlp, otlp/2, otlphttp, debug, forward]}
    logs/2: {receivers: [forward], processors: [batch/2], exporters: [nop]}
`

func runValidate(c *driver.Ctx, i int64, rng *rand.Rand) {
	c.Eval()
	text := richBase
	src := "rich-base"
	if rng.Intn(3) == 0 {
		fc := genFaithCase(c, rng)
		if len(fc.written) > 0 {
			text, src = fc.text, "generated:"+fc.comp.name()
		}
	}
	var cfg *otelcol.Config
	var err error
	if pv, stack := driver.Catch(func() { cfg, err = load(text) }); pv != nil {
		c.Violation("panic", fmt.Sprintf("loading a configuration panicked: %v", pv), map[string]any{"yaml": text, "stack": clip(stack, 3000)}, "site", driver.PanicSite(stack), "stage", "load")
		return
	}
	if err != nil {
		if src == "rich-base" {
			panic("harness self-test: the rich base configuration does not load: " + err.Error())
		}
		c.Observe("validate_cases_not_loaded", 1)
		return
	}
	rate := 2 + rng.Intn(8)
	changed := 0
	if i%7 != 0 { // every 7th case validates the unperturbed configuration
		changed = perturb(rng, reflect.ValueOf(cfg), 0, rate)
	}
	var mine []foundErr
	panics := 0
	walkValidate(reflect.ValueOf(cfg), nil, &mine, &panics, 0)
	var verr error
	if pv, stack := driver.Catch(func() { verr = xconfmap.Validate(cfg) }); pv != nil {
		if panics > 0 {
			c.Observe("validate_cases_skipped(a Validate method panics on the hostile state)", 1)
			return
		}
		c.Violation("panic", fmt.Sprintf("xconfmap.Validate panicked although no Validate method does: %v", pv), map[string]any{"yaml": text, "stack": clip(stack, 3000)}, "site", driver.PanicSite(stack), "stage", "validate")
		return
	}
	vs := ""
	if verr != nil {
		vs = verr.Error()
	}
	c.Observe("validate_cases", 1)
	c.Observe("fields_perturbed", int64(changed))
	c.Observe("validate_errors_found_by_walker", int64(len(mine)))
	if len(mine) > 0 {
		sigs := make([]string, 0, len(mine))
		for _, e := range mine {
			sigs = append(sigs, e.path+"|"+e.msg)
			c.Distinct("validate_error_sites", e.path, e.gotyp)
		}
		sort.Strings(sigs)
		c.Nontrivial("validate", src, strings.Join(sigs, "\n"))
	}
	// a Validate() that returns the first of several problems found while ranging over a map is not
	// deterministic: such a configuration cannot be judged by comparing two separate calls
	for k := 0; k < 3; k++ {
		var again []foundErr
		p2 := 0
		walkValidate(reflect.ValueOf(cfg), nil, &again, &p2, 0)
		if !sameErrs(mine, again) {
			c.Observe("validate_cases_skipped(a Validate method is not deterministic on this state)", 1)
			return
		}
	}
	for _, e := range mine {
		want := e.msg
		if e.path != "" {
			want = e.path + ": " + e.msg
		}
		switch {
		case strings.Contains(vs, want):
			c.Observe("validate_errors_reported_with_path", 1)
		case strings.Contains(vs, e.msg):
			c.Violation("validate", fmt.Sprintf("Validate() error of %s at %s is reported by xconfmap.Validate, but not under the path of that value: %q", e.gotyp, e.path, clip(e.msg, 200)),
				map[string]any{"yaml": text, "source": src, "type": e.gotyp, "path": e.path, "error": e.msg, "xconfmap": clip(vs, 3000)}, "kind", "wrong-path", "type", e.gotyp)
		default:
			c.Violation("validate", fmt.Sprintf("Validate() of %s at %s fails with %q, but xconfmap.Validate does not report it", e.gotyp, e.path, clip(e.msg, 200)),
				map[string]any{"yaml": text, "source": src, "type": e.gotyp, "path": e.path, "error": e.msg, "xconfmap": clip(vs, 3000), "perturbed_fields": changed}, "kind", "not-reported", "type", e.gotyp)
		}
	}
	if len(mine) == 0 && verr != nil {
		c.Violation("validate", fmt.Sprintf("xconfmap.Validate reports %q, but no Validate() reachable from the configuration fails", clip(vs, 200)),
			map[string]any{"yaml": text, "source": src, "xconfmap": clip(vs, 3000)}, "kind", "phantom-error", "type", "-")
	}
}

func sameErrs(a, b []foundErr) bool {
	key := func(l []foundErr) string {
		s := make([]string, len(l))
		for i, e := range l {
			s[i] = e.path + "|" + e.msg
		}
		sort.Strings(s)
		return strings.Join(s, "\n")
	}
	return key(a) == key(b)
}
