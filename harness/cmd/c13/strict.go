package main

import (
	"fmt"
	"math/rand"
	"reflect"
	"strings"

	"go.opentelemetry.io/collector/component"
	"go.opentelemetry.io/collector/confmap/xconfmap"
	"go.opentelemetry.io/collector/otelcol"
	"go.opentelemetry.io/collector/verifharness/lib/confgen"
	"go.opentelemetry.io/collector/verifharness/lib/driver"
)

// ---------------------------------------------------------------------------------------------
// unknown key at every depth

type strictNode struct {
	comp *comp
	kind string   // node | list-elem | pipeline | toplevel | section
	path []string // node path inside the component
}

func (n *strictNode) name() string {
	switch n.kind {
	case "toplevel":
		return "<top level>"
	case "section":
		return n.path[0]
	case "pipeline":
		return "service::pipelines::logs"
	}
	p := n.comp.name()
	if len(n.path) > 0 {
		p += "::" + strings.Join(n.path, "::")
	}
	if n.kind == "list-elem" {
		p += "::0"
	}
	return p
}

func allStrictNodes() []*strictNode {
	var out []*strictNode
	for _, c := range comps {
		for _, n := range c.schema.Nodes {
			out = append(out, &strictNode{comp: c, kind: "node", path: n.Path})
		}
		for i := range c.schema.Leaves {
			l := &c.schema.Leaves[i]
			if l.Type.Kind() == reflect.Slice && l.Type.Elem().Kind() == reflect.Struct && !confgen.IsScalarStruct(l.Type.Elem()) && !strings.Contains(l.Type.Elem().PkgPath(), "otelconf") {
				out = append(out, &strictNode{comp: c, kind: "list-elem", path: l.Path})
			}
		}
	}
	out = append(out, &strictNode{kind: "toplevel"}, &strictNode{kind: "pipeline"})
	for _, s := range []string{"receivers", "exporters", "processors", "connectors", "extensions"} {
		out = append(out, &strictNode{kind: "section", path: []string{s}})
	}
	return out
}

func loadAndValidate(text string) (cfg *otelcol.Config, loadErr, valErr error, pv any, stack string) {
	pv, stack = driver.Catch(func() {
		cfg, loadErr = load(text)
		if loadErr == nil {
			valErr = xconfmap.Validate(cfg)
		}
	})
	return
}

func runUnknownKey(c *driver.Ctx, n *strictNode, rng *rand.Rand) {
	c.Eval()
	bogus := tok(rng, "bogus_key_")
	vals := []any{int64(1), "x", map[string]any{"a": int64(1)}, []any{int64(1)}, nil, true}
	vi := rng.Intn(len(vals))
	val := vals[vi]
	valKind := []string{"int", "string", "map", "list", "null", "bool"}[vi]
	build := func(with bool) string {
		var root map[string]any
		switch n.kind {
		case "toplevel":
			root = baseRoot()
			if with {
				root[bogus] = val
			}
		case "section":
			// an entry whose type no factory knows
			root = baseRoot()
			if with {
				m, _ := root[n.path[0]].(map[string]any)
				if m == nil {
					m = map[string]any{}
					root[n.path[0]] = m
				}
				m[bogus] = map[string]any{}
			}
		case "pipeline":
			root = baseRoot()
			if with {
				p, _ := confgen.GetPath(root, []string{"service", "pipelines", "logs"})
				p.(map[string]any)[bogus] = val
			}
		case "list-elem":
			sec := map[string]any{}
			lt := n.comp.schema.Leaves[0].Type
			for i := range n.comp.schema.Leaves {
				if n.comp.schema.Leaves[i].Key() == strings.Join(n.path, "::") {
					lt = n.comp.schema.Leaves[i].Type
				}
			}
			g, ok := genFor(rng, n.comp, lt.Elem(), n.path[len(n.path)-1], 1)
			el := map[string]any{}
			if ok {
				el, _ = g.yaml.(map[string]any)
			}
			if with {
				el[bogus] = val
			}
			confgen.SetPath(sec, n.path, []any{el})
			root = assemble(n.comp, n.comp.typ, sec)
		default:
			sec := map[string]any{}
			if len(n.path) > 0 {
				confgen.SetPath(sec, n.path, map[string]any{})
			}
			if with {
				confgen.SetPath(sec, append(append([]string(nil), n.path...), bogus), val)
			}
			root = assemble(n.comp, n.comp.typ, sec)
		}
		return confgen.YAML(root, confgen.YAMLOpts{PlainStrings: true})
	}
	control, variant := build(false), build(true)
	wit := map[string]any{"node": n.name(), "unknown_key": bogus, "value_kind": valKind, "yaml": variant}
	_, lerr, _, pv, stack := loadAndValidate(control)
	if pv != nil {
		c.Violation("panic", fmt.Sprintf("loading the control configuration for node %s panicked: %v", n.name(), pv), map[string]any{"yaml": control, "stack": clip(stack, 3000)}, "site", driver.PanicSite(stack), "stage", "load")
		return
	}
	if lerr != nil {
		c.Inconclusive("strictness control configuration does not load")
		c.Note("control for node %s does not load: %s", n.name(), clip(lerr.Error(), 200))
		return
	}
	_, lerr, _, pv, stack = loadAndValidate(variant)
	c.Observe("unknown_key_variants", 1)
	c.Nontrivial("strict", "unknown-key", n.name())
	c.Distinct("unknown_key_nodes", n.name())
	switch {
	case pv != nil:
		c.Violation("panic", fmt.Sprintf("loading a configuration with an unknown key at %s panicked: %v", n.name(), pv), wit, "site", driver.PanicSite(stack), "stage", "load")
	case lerr == nil:
		c.Violation("strict", fmt.Sprintf("unknown key %q (%s value) at %s was silently accepted", bogus, valKind, n.name()), wit, "variant", "unknown-key", "where", n.name(), "kind", "accepted")
	case !strings.Contains(lerr.Error(), bogus):
		wit["error"] = lerr.Error()
		c.Violation("strict", fmt.Sprintf("unknown key %q at %s is rejected, but the error does not name it: %s", bogus, n.name(), clip(lerr.Error(), 300)), wit, "variant", "unknown-key", "where", n.name(), "kind", "not-named")
	default:
		c.Observe("unknown_key_rejected_and_named", 1)
	}
}

// ---------------------------------------------------------------------------------------------
// reference / pipeline-shape / ambiguity variants on random valid topologies

type topo struct {
	root      map[string]any
	pipelines []string // pipeline ids
}

func subset(rng *rand.Rand, l []string, min int) []any {
	idx := rng.Perm(len(l))
	n := min
	if len(l) > min {
		n += rng.Intn(len(l) - min + 1)
	}
	out := make([]any, 0, n)
	for _, i := range idx[:n] {
		out = append(out, l[i])
	}
	return out
}

func genTopo(rng *rand.Rand) *topo {
	recv := []string{"nop", "nop/a", "nop/r2"}
	proc := []string{"batch", "batch/b", "memory_limiter"}
	exps := []string{"nop", "debug", "nop/b"}
	root := map[string]any{
		"receivers":  map[string]any{"nop": nil, "nop/a": nil, "nop/r2": nil},
		"processors": map[string]any{"batch": nil, "batch/b": map[string]any{"timeout": "1s"}, "memory_limiter": map[string]any{"check_interval": "1s", "limit_mib": int64(100)}},
		"exporters":  map[string]any{"nop": nil, "debug": nil, "nop/b": nil},
		"connectors": map[string]any{"forward": nil},
		"extensions": map[string]any{"cfgwatch": nil, "zpages": nil},
		"service": map[string]any{
			"extensions": []any{"cfgwatch", "zpages"}[:1+rng.Intn(2)],
			"telemetry":  map[string]any{"metrics": map[string]any{"level": "none"}},
		},
	}
	t := &topo{root: root}
	pls := map[string]any{}
	sig := []string{"logs", "traces", "metrics"}[rng.Intn(3)]
	p1 := sig
	if rng.Intn(2) == 0 {
		p1 = sig + "/" + tok(rng, "p")
	}
	ex := subset(rng, exps, 1)
	useConn := rng.Intn(2) == 0
	if useConn {
		ex = append(ex, "forward")
	}
	pls[p1] = map[string]any{"receivers": subset(rng, recv, 1), "processors": subset(rng, proc, 0), "exporters": ex}
	t.pipelines = append(t.pipelines, p1)
	if useConn {
		p2 := sig + "/" + tok(rng, "q")
		pls[p2] = map[string]any{"receivers": []any{"forward"}, "processors": subset(rng, proc, 0), "exporters": subset(rng, exps, 1)}
		t.pipelines = append(t.pipelines, p2)
	}
	if rng.Intn(3) == 0 {
		other := []string{"logs", "traces", "metrics"}[rng.Intn(3)] + "/" + tok(rng, "o")
		pls[other] = map[string]any{"receivers": subset(rng, recv, 1), "exporters": subset(rng, exps, 1)}
		t.pipelines = append(t.pipelines, other)
	}
	root["service"].(map[string]any)["pipelines"] = pls
	return t
}

// checkPipelinesFaithful: the service::pipelines and service::extensions keys (maps and lists of
// identifiers, for which the value generator has no entry) hold exactly what the topology wrote.
func checkPipelinesFaithful(c *driver.Ctx, t *topo, cfg *otelcol.Config, text string) {
	ids := func(l any) string {
		var out []string
		switch x := l.(type) {
		case []any:
			for _, e := range x {
				out = append(out, fmt.Sprint(e))
			}
		}
		return strings.Join(out, ",")
	}
	got := map[string]map[string]string{}
	for pid, p := range cfg.Service.Pipelines {
		m := map[string]string{}
		for k, l := range map[string][]component.ID{"receivers": p.Receivers, "processors": p.Processors, "exporters": p.Exporters} {
			var s []string
			for _, id := range l {
				s = append(s, id.String())
			}
			m[k] = strings.Join(s, ",")
		}
		got[pid.String()] = m
	}
	pls := t.root["service"].(map[string]any)["pipelines"].(map[string]any)
	c.Observe("pipelines_read_back", int64(len(pls)))
	bad := len(got) != len(pls)
	for pid, pv := range pls {
		pm := pv.(map[string]any)
		for _, k := range []string{"receivers", "processors", "exporters"} {
			if got[pid] == nil || got[pid][k] != ids(pm[k]) {
				bad = true
			}
		}
	}
	var exts []string
	for _, id := range cfg.Service.Extensions {
		exts = append(exts, id.String())
	}
	if strings.Join(exts, ",") != ids(t.root["service"].(map[string]any)["extensions"]) {
		bad = true
	}
	if bad {
		c.Violation("faithful", "service::pipelines / service::extensions of the loaded configuration differ from what was written", map[string]any{"yaml": text, "loaded_pipelines": got, "loaded_extensions": exts},
			"comp", "service", "key", "pipelines", "kind", "written-value-changed", "alias_written", "-")
	}
}

// cross-section references: an id that IS defined — in another section, and validly used there
var crossPairs = [][2]string{{"receivers", "processors"}, {"receivers", "exporters"}, {"processors", "receivers"}, {"processors", "exporters"}, {"exporters", "receivers"}, {"exporters", "processors"},
	{"receivers", "extensions"}, {"processors", "extensions"}, {"exporters", "extensions"}, {"extensions", "receivers"}, {"extensions", "processors"}, {"extensions", "exporters"}}

// ids that exist in exactly one section of the generated topologies
var onlyIn = map[string][]string{"receivers": {"nop/a", "nop/r2"}, "processors": {"batch", "batch/b", "memory_limiter"}, "exporters": {"debug", "nop/b"}, "extensions": {"zpages"}}

var strictVariants = []string{"cross-section-reference", "cross-section-reference", "cross-section-reference", "dangling-receiver", "dangling-processor", "dangling-exporter", "dangling-extension", "duplicate-processor", "no-receivers", "no-exporters", "ambiguous-connector-receiver", "ambiguous-connector-exporter"}

func runStrictVariant(c *driver.Ctx, i int64, rng *rand.Rand) {
	c.Eval()
	t := genTopo(rng)
	control := confgen.YAML(t.root, confgen.YAMLOpts{PlainStrings: true})
	ccfg, lerr, verr, pv, stack := loadAndValidate(control)
	if pv != nil {
		c.Violation("panic", fmt.Sprintf("loading a valid topology panicked: %v", pv), map[string]any{"yaml": control, "stack": clip(stack, 3000)}, "site", driver.PanicSite(stack), "stage", "load")
		return
	}
	if lerr != nil || verr != nil {
		c.Inconclusive("strictness control topology is not valid")
		c.Note("control topology invalid: %v %v", lerr, verr)
		return
	}
	checkPipelinesFaithful(c, t, ccfg, control)
	variant := strictVariants[(int(i)+rng.Intn(len(strictVariants)))%len(strictVariants)]
	pid := t.pipelines[rng.Intn(len(t.pipelines))]
	pl := t.root["service"].(map[string]any)["pipelines"].(map[string]any)[pid].(map[string]any)
	insert := func(key, id string) {
		l, _ := pl[key].([]any)
		pos := rng.Intn(len(l) + 1)
		nl := append(append(append([]any{}, l[:pos]...), id), l[pos:]...)
		if len(l) > 0 && rng.Intn(3) == 0 {
			nl = append([]any{}, l...)
			nl[rng.Intn(len(l))] = id // replace instead of insert
		}
		pl[key] = nl
	}
	offender := ""
	where := "-"
	midText := ""
	alsoOK := []string{}
	switch variant {
	case "dangling-receiver":
		offender = "nop/" + tok(rng, "missing")
		insert("receivers", offender)
	case "dangling-processor":
		offender = "batch/" + tok(rng, "missing")
		insert("processors", offender)
	case "dangling-exporter":
		offender = []string{"nop/", "debug/", "forward/"}[rng.Intn(3)] + tok(rng, "missing")
		insert("exporters", offender)
	case "dangling-extension":
		offender = "zpages/" + tok(rng, "missing")
		s := t.root["service"].(map[string]any)
		s["extensions"] = append(append([]any{}, s["extensions"].([]any)...), offender)
	case "duplicate-processor":
		l, _ := pl["processors"].([]any)
		if len(l) == 0 {
			l = []any{"batch"}
		}
		dup := l[rng.Intn(len(l))].(string)
		pos := rng.Intn(len(l) + 1)
		pl["processors"] = append(append(append([]any{}, l[:pos]...), dup), l[pos:]...)
		offender = dup
	case "no-receivers":
		if rng.Intn(2) == 0 {
			pl["receivers"] = []any{}
		} else {
			delete(pl, "receivers")
		}
		offender = pid
	case "no-exporters":
		if rng.Intn(2) == 0 {
			pl["exporters"] = []any{}
		} else {
			delete(pl, "exporters")
		}
		offender = pid
	case "ambiguous-connector-receiver":
		offender = "nop/a"
		t.root["connectors"].(map[string]any)[offender] = nil
	case "ambiguous-connector-exporter":
		offender = "nop/b"
		t.root["connectors"].(map[string]any)[offender] = nil
	case "cross-section-reference":
		pair := crossPairs[(int(i)/len(strictVariants)+rng.Intn(len(crossPairs)))%len(crossPairs)]
		from, as := pair[0], pair[1]
		ids := onlyIn[from]
		offender = ids[rng.Intn(len(ids))]
		svc := t.root["service"].(map[string]any)
		pls := svc["pipelines"].(map[string]any)
		has := func(l any, id string) bool {
			ll, _ := l.([]any)
			for _, e := range ll {
				if e == id {
					return true
				}
			}
			return false
		}
		// the valid use of the id in its own section
		usedIn := t.pipelines[rng.Intn(len(t.pipelines))]
		if from == "extensions" {
			if !has(svc["extensions"], offender) {
				svc["extensions"] = append(append([]any{}, svc["extensions"].([]any)...), offender)
			}
		} else {
			up := pls[usedIn].(map[string]any)
			if !has(up[from], offender) {
				l, _ := up[from].([]any)
				up[from] = append(append([]any{}, l...), offender)
			}
		}
		midText = confgen.YAML(t.root, confgen.YAMLOpts{PlainStrings: true})
		place := "same-pipeline"
		if as == "extensions" {
			place = "service-extensions"
			svc["extensions"] = append(append([]any{}, svc["extensions"].([]any)...), offender)
		} else {
			target := usedIn
			if from == "extensions" || rng.Intn(2) == 0 {
				place = "other-pipeline"
				target = "logs/" + tok(rng, "x")
				for _, p := range t.pipelines {
					if p != usedIn && rng.Intn(2) == 0 {
						target = p
					}
				}
				if _, ok := pls[target]; !ok {
					pls[target] = map[string]any{"receivers": []any{"nop"}, "exporters": []any{"nop"}}
				}
			}
			if from == "extensions" {
				place = "pipeline"
			}
			tp := pls[target].(map[string]any)
			l, _ := tp[as].([]any)
			pos := rng.Intn(len(l) + 1)
			tp[as] = append(append(append([]any{}, l[:pos]...), offender), l[pos:]...)
			pid = target
		}
		where = from + "-as-" + as + "/" + place
	}
	if midText != "" {
		// with the valid use only, the configuration must still be accepted
		if _, le, ve, pv2, _ := loadAndValidate(midText); pv2 != nil || le != nil || ve != nil {
			c.Inconclusive("cross-section control (valid use only) is not accepted")
			c.Note("cross-section control invalid: %v %v", le, ve)
			return
		}
	}
	_ = alsoOK
	text := confgen.YAML(t.root, confgen.YAMLOpts{PlainStrings: true})
	wit := map[string]any{"variant": variant, "offender": offender, "pipeline": pid, "yaml": text}
	_, lerr, verr, pv, stack = loadAndValidate(text)
	c.Observe("strict_variants:"+variant, 1)
	if where != "-" {
		c.Distinct("cross_section_pairs", where)
		wit["where"] = where
	}
	if c.Shard == 3 && variant == "duplicate-processor" {
		c.Sample(map[string]any{"kind": "strictness", "variant": variant, "offender": offender, "pipeline": pid, "yaml": text, "load_error": fmt.Sprint(lerr), "validate_error": fmt.Sprint(verr)})
	}
	c.Nontrivial("strict", variant, pid, offender, control)
	if pv != nil {
		c.Violation("panic", fmt.Sprintf("loading a %s variant panicked: %v", variant, pv), wit, "site", driver.PanicSite(stack), "stage", "load")
		return
	}
	err := lerr
	if err == nil {
		err = verr
	}
	switch {
	case err == nil:
		c.Violation("strict", fmt.Sprintf("%s (%s in pipeline %s) was accepted by load and validation", variant, offender, pid), wit, "variant", variant, "where", where, "kind", "accepted")
	case !strings.Contains(err.Error(), offender):
		wit["error"] = err.Error()
		c.Violation("strict", fmt.Sprintf("%s is rejected, but the error does not name %q: %s", variant, offender, clip(err.Error(), 300)), wit, "variant", variant, "where", where, "kind", "not-named")
	default:
		c.Observe("strict_variants_rejected_and_named", 1)
	}
}
