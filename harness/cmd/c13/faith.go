package main

import (
	"fmt"
	"math/rand"
	"reflect"
	"sort"
	"strings"

	"go.opentelemetry.io/collector/confmap"
	"go.opentelemetry.io/collector/confmap/xconfmap"
	"go.opentelemetry.io/collector/otelcol"
	"go.opentelemetry.io/collector/verifharness/lib/confgen"
	"go.opentelemetry.io/collector/verifharness/lib/driver"
)

type writtenKey struct {
	leaf *confgen.Leaf
	val  genVal
}

type faithCase struct {
	comp     *comp
	id       string
	spelling string // how the identifier is written in the document ("" = canonically)
	written  []writtenKey
	text     string
	note     string
}

// documented deprecated aliases: writing the alias sets its (unwritten) target
var aliasTarget = map[string]string{"blocking": "block_on_overflow"}

// sections that install their defaults only when the user mentions them (the factory default is the
// "section absent" state): exporterhelper's deprecated batcher section of the OTLP exporter. Their
// unwritten keys are judged against the section-present control, not against the factory default.
var lazySections = map[string]bool{"exporters::otlp::batcher": true}

func scalarLeaf(t reflect.Type) bool {
	switch t.Kind() {
	case reflect.Bool, reflect.Int, reflect.Int8, reflect.Int16, reflect.Int32, reflect.Int64, reflect.Uint, reflect.Uint8, reflect.Uint16, reflect.Uint32, reflect.Uint64, reflect.Float32, reflect.Float64, reflect.String:
		return true
	case reflect.Struct:
		return confgen.IsScalarStruct(t)
	}
	return false
}

func compsWithLeaves() []*comp {
	var out []*comp
	for _, c := range comps {
		if len(c.schema.Leaves) > 0 {
			out = append(out, c)
		}
	}
	return out
}

func genFaithCase(c *driver.Ctx, rng *rand.Rand) *faithCase {
	cl := compsWithLeaves()
	cp := cl[rng.Intn(len(cl))]
	fc := &faithCase{comp: cp, id: cp.typ}
	if cp.section != "service" && rng.Intn(3) == 0 {
		fc.id = cp.typ + "/" + tok(rng, "n")
	}
	if cp.section != "service" && rng.Intn(6) == 0 {
		// the identifier written with white space the parser of identifiers ignores ("otlp / backup", " otlp "): it
		// is the same component, and what was written for it is its configuration
		fc.spelling = []string{"spaces-around-slash", "outer-spaces"}[rng.Intn(2)]
	}
	chosen := map[int]bool{}
	for k := rng.Intn(4); k > 0; k-- {
		chosen[rng.Intn(len(cp.schema.Leaves))] = true
	}
	// several keys of one section: siblings
	var multi []int
	for i, n := range cp.schema.Nodes {
		if len(n.Leaves) >= 2 {
			multi = append(multi, i)
		}
	}
	if len(multi) > 0 && (len(chosen) == 0 || rng.Intn(4) > 0) {
		n := cp.schema.Nodes[multi[rng.Intn(len(multi))]]
		for k := 2 + rng.Intn(4); k > 0; k-- {
			chosen[n.Leaves[rng.Intn(len(n.Leaves))]] = true
		}
	}
	idx := make([]int, 0, len(chosen))
	for i := range chosen {
		idx = append(idx, i)
	}
	sort.Ints(idx)
	for _, i := range idx {
		l := &cp.schema.Leaves[i]
		if l.Untagged {
			uncovered(c, cp, l, "field without a mapstructure name")
			continue
		}
		g, ok := genFor(rng, cp, l.Type, l.Path[len(l.Path)-1], 0)
		if !ok {
			uncovered(c, cp, l, l.Type.String())
			continue
		}
		fc.written = append(fc.written, writtenKey{leaf: l, val: g})
	}
	if cp.section == "service" {
		// what the harness writes around the case (internal metrics off, quiet logs) are written keys too
		have := map[string]bool{}
		for _, w := range fc.written {
			have[w.leaf.Key()] = true
		}
		for key, txt := range map[string]string{"telemetry::metrics::level": "none", "telemetry::logs::level": "error"} {
			if !have[key] {
				l := findLeaf(cp, key)
				p := reflect.New(l.Type)
				if err := p.Interface().(interface{ UnmarshalText([]byte) error }).UnmarshalText([]byte(txt)); err != nil {
					panic(err)
				}
				fc.written = append(fc.written, writtenKey{leaf: l, val: genVal{yaml: txt, want: p.Elem()}})
			}
		}
	}
	fc.build(rng.Intn(2) == 0)
	return fc
}

var uncoveredSeen = map[string]bool{}

func uncovered(c *driver.Ctx, cp *comp, l *confgen.Leaf, why string) {
	c.Distinct("uncovered_keys", cp.name(), l.Key())
	k := cp.name() + "::" + l.Key()
	if !uncoveredSeen[k] {
		uncoveredSeen[k] = true
		if c.Shard == 0 {
			c.Note("no generator for key %s (%s): not judged", k, why)
		}
	}
}

func (fc *faithCase) build(plain bool) {
	sec := map[string]any{}
	for _, w := range fc.written {
		confgen.SetPath(sec, w.leaf.Path, w.val.yaml)
	}
	fc.text = confgen.YAML(assemble(fc.comp, fc.spelled(), sec), confgen.YAMLOpts{PlainStrings: plain})
}

// spelled returns the identifier as it is written in the document.
func (fc *faithCase) spelled() string {
	switch fc.spelling {
	case "spaces-around-slash":
		if strings.Contains(fc.id, "/") {
			return strings.Replace(fc.id, "/", " / ", 1)
		}
		return fc.id + " "
	case "outer-spaces":
		return " " + fc.id + "  "
	}
	return fc.id
}

func (fc *faithCase) keys() []string {
	ks := make([]string, len(fc.written))
	for i, w := range fc.written {
		ks[i] = w.leaf.Key()
	}
	return ks
}

func (fc *faithCase) witness(extra map[string]any) map[string]any {
	o := map[string]any{"component": fc.comp.name(), "id": fc.id, "id_as_written": fc.spelled(), "written_keys": fc.keys(), "yaml": fc.text}
	if fc.note != "" {
		o["note"] = fc.note
	}
	for k, v := range extra {
		o[k] = v
	}
	return o
}

func show(v reflect.Value, isNil bool) string {
	if isNil || !v.IsValid() {
		return "<nil>"
	}
	if tm, ok := textMarshalerOf(v); ok && v.Type() != tOpaque {
		if b, err := tm.MarshalText(); err == nil {
			return fmt.Sprintf("%s(%s)", v.Type(), b)
		}
	}
	if v.Type() == tOpaque {
		return fmt.Sprintf("opaque(%s)", v.String())
	}
	return fmt.Sprintf("%s(%v)", v.Type(), v.Interface())
}

func sameValue(a, b reflect.Value) bool {
	if !a.IsValid() || !b.IsValid() {
		return a.IsValid() == b.IsValid()
	}
	return reflect.DeepEqual(a.Interface(), b.Interface())
}

// aliasWritten tells whether a documented deprecated alias of key l was written in the same section.
func (fc *faithCase) aliasWritten(l *confgen.Leaf) string {
	for _, w := range fc.written {
		if w.leaf != l && w.leaf.Section == l.Section && aliasTarget[w.leaf.Path[len(w.leaf.Path)-1]] == l.Path[len(l.Path)-1] {
			return "yes"
		}
	}
	return "no"
}

// siblingsOf lists the written keys that share the parent section of l.
func (fc *faithCase) siblingsOf(l *confgen.Leaf) string {
	var s []string
	for _, w := range fc.written {
		if w.leaf != l && w.leaf.Section == l.Section {
			s = append(s, w.leaf.Path[len(w.leaf.Path)-1])
		}
	}
	sort.Strings(s)
	return strings.Join(s, ",")
}

func runFaith(c *driver.Ctx, i int64, rng *rand.Rand) {
	var fc *faithCase
	if c.Shard == 0 && i < int64(len(directedFaith)) {
		fc = directedFaith[i](rng)
	} else {
		fc = genFaithCase(c, rng)
	}
	if len(fc.written) == 0 {
		c.Observe("faith_cases_without_generated_key", 1)
		return
	}
	checkFaith(c, i, fc, rng.Intn(3) == 0 || fc.note != "")
}

func checkFaith(c *driver.Ctx, i int64, fc *faithCase, withCollector bool) {
	c.Eval()
	c.Observe("faith_loads", 1)
	c.Observe("faith_keys_written", int64(len(fc.written)))
	var cfg *otelcol.Config
	var err error
	if pv, stack := driver.Catch(func() { cfg, err = load(fc.text) }); pv != nil {
		c.Violation("panic", fmt.Sprintf("loading a generated configuration of %s panicked: %v", fc.comp.name(), pv), fc.witness(map[string]any{"stack": clip(stack, 3000)}),
			"site", driver.PanicSite(stack), "stage", "load")
		return
	}
	if err != nil {
		c.Observe("faith_load_rejected", 1)
		c.Distinct("load_error_classes", fc.comp.name(), errClass(err))
		c.Note("load rejected (%s): %s", fc.comp.name(), clip(err.Error(), 260))
		return
	}
	c.Nontrivial("faith", fc.comp.name(), strings.Join(fc.keys(), "|"))
	if i == 7 {
		c.Sample(map[string]any{"kind": "faithfulness", "component": fc.comp.name(), "written_keys": fc.keys(), "yaml": fc.text})
	}
	c.Distinct("components_loaded", fc.comp.name())
	for _, w := range fc.written {
		c.Distinct("keys_checked", fc.comp.name(), w.leaf.Key())
	}
	ld, ok := loadedOf(cfg, fc.comp, fc.id)
	if !ok {
		c.Violation("faithful", fmt.Sprintf("component %s %q is missing from the loaded configuration", fc.comp.name(), fc.id), fc.witness(nil), "comp", fc.comp.name(), "key", "-", "kind", "component-missing", "alias_written", "-")
		return
	}
	lv := reflect.ValueOf(ld)
	def := reflect.ValueOf(fc.comp.def())
	writtenSet := map[string]bool{}
	for _, w := range fc.written {
		writtenSet[w.leaf.Key()] = true
	}
	// (1)+(2) every written key holds the written value
	for _, w := range fc.written {
		got, isNil, ok := confgen.Lookup(lv, w.leaf.Path)
		c.Observe("written_keys_read_back", 1)
		switch {
		case !ok || isNil:
			c.Violation("faithful", fmt.Sprintf("%s: written key %s is not present in the typed configuration (wrote %s)", fc.comp.name(), w.leaf.Key(), show(w.val.want, false)),
				fc.witness(map[string]any{"key": w.leaf.Key()}), "comp", fc.comp.name(), "key", w.leaf.Key(), "kind", "written-key-absent", "alias_written", fc.aliasWritten(w.leaf))
		case !sameValue(got, w.val.want):
			c.Violation("faithful", fmt.Sprintf("%s: key %s was written as %s but the typed configuration holds %s (also written in the same section: %s)", fc.comp.name(), w.leaf.Key(), show(w.val.want, false), show(got, false), fc.siblingsOf(w.leaf)),
				fc.witness(map[string]any{"key": w.leaf.Key(), "written": show(w.val.want, false), "loaded": show(got, false)}),
				"comp", fc.comp.name(), "key", w.leaf.Key(), "kind", "written-value-changed", "alias_written", fc.aliasWritten(w.leaf))
		default:
			c.Observe("written_keys_faithful", 1)
		}
	}
	// (2b) the same values supplied through ${env:...} references give the same typed configuration
	if i%2 == 0 || fc.note != "" {
		checkIndirect(c, i, fc, ld)
	}
	// (3) unwritten scalar siblings of a written section: (A) are not changed by writing the keys — compared
	// with a control load in which the same sections are present but empty — and (B) keep the factory default.
	var ctl reflect.Value
	{
		sec := map[string]any{}
		for _, w := range fc.written {
			if p := fc.comp.schema.Nodes[w.leaf.Section].Path; len(p) > 0 {
				if _, ok := confgen.GetPath(sec, p); !ok {
					confgen.SetPath(sec, p, map[string]any{})
				}
			}
		}
		text := confgen.YAML(assemble(fc.comp, fc.spelled(), sec), confgen.YAMLOpts{PlainStrings: true})
		var ccfg *otelcol.Config
		var cerr error
		if pv, _ := driver.Catch(func() { ccfg, cerr = load(text) }); pv == nil && cerr == nil {
			if cl, ok := loadedOf(ccfg, fc.comp, fc.id); ok {
				ctl = reflect.ValueOf(cl)
			}
		}
		if !ctl.IsValid() {
			c.Observe("sibling_control_load_failed", 1)
		}
	}
	seenSec := map[int]bool{}
	for _, w := range fc.written {
		if seenSec[w.leaf.Section] {
			continue
		}
		seenSec[w.leaf.Section] = true
		node := fc.comp.schema.Nodes[w.leaf.Section]
		for _, li := range node.Leaves {
			l := &fc.comp.schema.Leaves[li]
			if writtenSet[l.Key()] || !scalarLeaf(l.Type) {
				continue
			}
			aliased := false
			for alias, target := range aliasTarget {
				if l.Path[len(l.Path)-1] == target && writtenSet[strings.Join(append(append([]string(nil), node.Path...), alias), "::")] {
					aliased = true
				}
			}
			if aliased {
				c.Observe("sibling_not_judged(target of a written deprecated alias)", 1)
				continue
			}
			gv, gNil, gok := confgen.Lookup(lv, l.Path)
			if ctl.IsValid() {
				cv, cNil, cok := confgen.Lookup(ctl, l.Path)
				c.Observe("sibling_noninterference_checked", 1)
				if cok != gok || gNil != cNil || (gok && !gNil && !sameValue(gv, cv)) {
					c.Violation("faithful", fmt.Sprintf("%s: unwritten key %s is %s when its section is present but empty, and %s after writing %v", fc.comp.name(), l.Key(), show(cv, cNil || !cok), show(gv, gNil || !gok), fc.keys()),
						fc.witness(map[string]any{"key": l.Key(), "control": show(cv, cNil || !cok), "loaded": show(gv, gNil || !gok)}),
						"comp", fc.comp.name(), "key", l.Key(), "kind", "sibling-changed", "alias_written", "-")
				}
			}
			if lazySections[fc.comp.name()+"::"+node.Key()] {
				c.Observe("sibling_defaults_not_judged(section installs its defaults only when mentioned)", 1)
				continue
			}
			dv, dNil, dok := confgen.Lookup(def, l.Path)
			if !dok {
				c.Observe("sibling_defaults_not_judged(section absent by default)", 1)
				continue
			}
			c.Observe("sibling_defaults_checked", 1)
			if !gok || gNil != dNil || (!gNil && !sameValue(gv, dv)) {
				c.Violation("faithful", fmt.Sprintf("%s: unwritten key %s changed from its factory default %s to %s after writing %v", fc.comp.name(), l.Key(), show(dv, dNil), show(gv, gNil || !gok), fc.keys()),
					fc.witness(map[string]any{"key": l.Key(), "default": show(dv, dNil), "loaded": show(gv, gNil || !gok)}),
					"comp", fc.comp.name(), "key", l.Key(), "kind", "default-changed", "alias_written", "-")
			}
		}
	}
	// (4) the effective configuration, as the collector marshals it for extensions
	eff := confmap.New()
	var merr error
	if pv, stack := driver.Catch(func() { merr = eff.Marshal(cfg) }); pv != nil {
		c.Violation("panic", fmt.Sprintf("marshalling the loaded configuration of %s panicked: %v", fc.comp.name(), pv), fc.witness(map[string]any{"stack": clip(stack, 3000)}), "site", driver.PanicSite(stack), "stage", "marshal")
		return
	}
	if merr != nil {
		c.Violation("effective", fmt.Sprintf("%s: the loaded configuration cannot be marshalled: %v", fc.comp.name(), merr), fc.witness(nil), "comp", fc.comp.name(), "key", "-", "kind", "marshal-error", "source", "marshal")
		return
	}
	em := eff.ToStringMap()
	checkEffective(c, fc, em, "marshal")
	// (5) what a ConfigWatcher extension receives from a running collector
	if !withCollector {
		return
	}
	if fc.comp.section == "service" {
		touchesTelemetry := false
		for _, w := range fc.written {
			if w.leaf.Path[0] == "telemetry" && !(w.leaf.Key() == "telemetry::metrics::level" && fmt.Sprint(w.val.yaml) == "none") && !(w.leaf.Key() == "telemetry::logs::level" && fmt.Sprint(w.val.yaml) == "error") {
				touchesTelemetry = true
			}
		}
		if touchesTelemetry {
			c.Observe("collector_runs_skipped(service telemetry written)", 1)
			return
		}
	}
	if verr := xconfmap.Validate(cfg); verr != nil {
		c.Observe("collector_runs_skipped(generated values do not validate)", 1)
		c.Distinct("validation_error_classes", fc.comp.name(), errClass(verr))
		return
	}
	res := runCollector(c, fc.text)
	c.Observe("collector_runs", 1)
	switch {
	case res.stuck != nil:
		c.Inconclusive("collector run did not return")
		return
	case res.eff == nil:
		if res.runErr != nil {
			c.Observe("collector_start_failed", 1)
			c.Distinct("collector_error_classes", fc.comp.name(), errClass(res.runErr))
			c.Note("collector start failed (%s): %s", fc.comp.name(), clip(res.runErr.Error(), 260))
			return
		}
		c.Violation("effective", fmt.Sprintf("%s: the collector reached Running but the ConfigWatcher extension was never notified", fc.comp.name()), fc.witness(nil), "comp", fc.comp.name(), "key", "-", "kind", "not-notified", "source", "collector")
		return
	}
	c.Observe("collector_configs_received", 1)
	for _, o := range res.others {
		c.Observe("collector_configs_received_by_writing_watchers", 1)
		if a, b := confgen.Canon(o), confgen.Canon(em); a != b {
			c.Violation("effective", fmt.Sprintf("%s: the configuration handed to one ConfigWatcher shows what another watcher wrote into its own copy (or otherwise differs from confmap.Marshal of the loaded configuration)", fc.comp.name()),
				fc.witness(map[string]any{"watcher": clip(a, 3000), "marshal": clip(b, 3000)}), "comp", fc.comp.name(), "key", "-", "kind", "watchers-share", "source", "collector")
			break
		}
	}
	if a, b := confgen.Canon(res.eff), confgen.Canon(em); a != b {
		c.Violation("effective", fmt.Sprintf("%s: the configuration handed to the ConfigWatcher differs from confmap.Marshal of the loaded configuration", fc.comp.name()),
			fc.witness(map[string]any{"watcher": clip(a, 3000), "marshal": clip(b, 3000)}), "comp", fc.comp.name(), "key", "-", "kind", "watcher-differs", "source", "collector")
	}
	checkEffective(c, fc, res.eff, "collector")
}

func isZero(v reflect.Value) bool {
	if !v.IsValid() {
		return true
	}
	switch v.Kind() {
	case reflect.Slice, reflect.Map:
		return v.Len() == 0
	}
	return v.IsZero()
}

func checkEffective(c *driver.Ctx, fc *faithCase, em map[string]any, source string) {
	var sub any
	var ok bool
	if fc.comp.section == "service" {
		sub, ok = em["service"]
	} else {
		sub, ok = confgen.GetPath(em, []string{fc.comp.section, fc.id})
	}
	sm, _ := sub.(map[string]any)
	if !ok || (sm == nil && sub != nil) {
		c.Violation("effective", fmt.Sprintf("%s %q is missing from the effective configuration", fc.comp.name(), fc.id), fc.witness(nil), "comp", fc.comp.name(), "key", "-", "kind", "component-missing", "source", source)
		return
	}
	dump := confgen.Canon(em)
	for _, w := range fc.written {
		c.Observe("effective_keys_checked:"+source, 1)
		for _, s := range w.val.secrets {
			if strings.Contains(dump, s) {
				c.Violation("effective", fmt.Sprintf("%s: the opaque value written to %s is visible in the effective configuration", fc.comp.name(), w.leaf.Key()),
					fc.witness(map[string]any{"key": w.leaf.Key(), "secret": s}), "comp", fc.comp.name(), "key", w.leaf.Key(), "kind", "secret-visible", "source", source)
			}
		}
		got, present := confgen.GetPath(sm, w.leaf.Path)
		main, alt := effForm(w.val.want)
		if !present {
			if isZero(w.val.want) {
				// a zero value may be dropped (omitempty) — unless it is an empty list or map written over a NON-empty
				// default: then the written key is what switches the default off, and a configuration that does not
				// show it loads the default again
				// — unless it is a list written as `[]`: an empty list is not "no list" (compression_algorithms: []
				// switches every algorithm off, an absent key means the built-in set), the loader keeps it as a non-nil
				// empty slice and the effective configuration has to show it
				if w.val.want.Kind() == reflect.Slice && !w.val.want.IsNil() {
					c.Violation("effective", fmt.Sprintf("%s: key %s was written as an empty list and is absent from the effective configuration", fc.comp.name(), w.leaf.Key()),
						fc.witness(map[string]any{"key": w.leaf.Key()}), "comp", fc.comp.name(), "key", w.leaf.Key(), "kind", "effective-absent-empty-list", "source", source)
				}
				continue
			}
			c.Violation("effective", fmt.Sprintf("%s: written key %s (= %s) is absent from the effective configuration", fc.comp.name(), w.leaf.Key(), show(w.val.want, false)),
				fc.witness(map[string]any{"key": w.leaf.Key()}), "comp", fc.comp.name(), "key", w.leaf.Key(), "kind", "effective-absent", "source", source)
			continue
		}
		g := confgen.Canon(got)
		if g == confgen.Canon(main) || (alt != nil && g == confgen.Canon(alt)) {
			c.Observe("effective_keys_agreed:"+source, 1)
			continue
		}
		c.Violation("effective", fmt.Sprintf("%s: key %s was written as %s but the effective configuration shows %s (expected %s)", fc.comp.name(), w.leaf.Key(), show(w.val.want, false), clip(g, 200), clip(confgen.Canon(main), 200)),
			fc.witness(map[string]any{"key": w.leaf.Key(), "effective": g, "expected": confgen.Canon(main)}), "comp", fc.comp.name(), "key", w.leaf.Key(), "kind", "effective-mismatch", "source", source, "alias_written", fc.aliasWritten(w.leaf))
	}
}

// ---------------------------------------------------------------------------------------------
// directed cases (shard 0, first indices)

func findComp(name string) *comp {
	for _, c := range comps {
		if c.name() == name {
			return c
		}
	}
	panic("no component " + name)
}

func findLeaf(c *comp, key string) *confgen.Leaf {
	for i := range c.schema.Leaves {
		if c.schema.Leaves[i].Key() == key {
			return &c.schema.Leaves[i]
		}
	}
	panic("no key " + key + " in " + c.name())
}

func directedBools(compName string, note string, kv ...any) func(*rand.Rand) *faithCase {
	return func(*rand.Rand) *faithCase {
		cp := findComp(compName)
		fc := &faithCase{comp: cp, id: cp.typ, note: note}
		for i := 0; i+1 < len(kv); i += 2 {
			l := findLeaf(cp, kv[i].(string))
			v := reflect.ValueOf(kv[i+1]).Convert(l.Type)
			fc.written = append(fc.written, writtenKey{leaf: l, val: genVal{yaml: kv[i+1], want: v}})
		}
		fc.build(false)
		return fc
	}
}

func directedText(compName, note, key, text string) func(*rand.Rand) *faithCase {
	return func(rng *rand.Rand) *faithCase {
		cp := findComp(compName)
		l := findLeaf(cp, key)
		g, ok := genFor(rng, cp, l.Type, l.Path[len(l.Path)-1], 0)
		for n := 0; ok && fmt.Sprint(g.yaml) != text && n < 200; n++ {
			g, ok = genFor(rng, cp, l.Type, l.Path[len(l.Path)-1], 0)
		}
		fc := &faithCase{comp: cp, id: cp.typ, note: note}
		fc.written = []writtenKey{{leaf: l, val: g}, {leaf: findLeaf(cp, "endpoint"), val: genVal{yaml: "localhost:4317", want: reflect.ValueOf("localhost:4317")}}}
		fc.build(false)
		return fc
	}
}

var directedFaith = []func(*rand.Rand) *faithCase{
	// C13-a: the deprecated alias overrides a sibling that was also written
	directedBools("exporters::otlp", "C13-a blocking:true with block_on_overflow:false", "sending_queue::blocking", true, "sending_queue::block_on_overflow", false),
	directedBools("exporters::otlphttp", "C13-a blocking:false with block_on_overflow:true", "sending_queue::blocking", false, "sending_queue::block_on_overflow", true),
	// consistent pair: must load
	directedBools("exporters::otlp", "consistent alias pair", "sending_queue::blocking", true, "sending_queue::block_on_overflow", true),
	// C13-b: the sizer is not visible in the effective configuration
	directedText("exporters::otlp", "C13-b sizer in the effective configuration", "sending_queue::sizer", "items"),
	directedText("exporters::otlp", "C13-b batcher sizer in the effective configuration", "batcher::sizer", "bytes"),
}
