package main

import (
	"encoding"
	"fmt"
	"math/rand"
	"reflect"
	"strings"
	"time"

	"go.opentelemetry.io/collector/component"
	"go.opentelemetry.io/collector/config/configopaque"
	"go.opentelemetry.io/collector/verifharness/lib/confgen"
)

// A generated value: the YAML node that is written and the Go value of the field's type it denotes.
// The text is produced *from* the Go value (Duration.String, MarshalText/the type's own text form,
// decimal numbers), so the expected typed value is known by construction, never guessed.
var scalarLooking = []string{"123", "0123", "-7", "1.50", "1e3", "0x1F", "0o17", "true", "False", "null", "~", "yes", "off", "2024-01-02", "12:30:45",
	"a: b", "[x, y]", "{k: v}", "- item", "#nocomment", "x #tail", "'quoted'", "\"dq\"", ".inf", ".NaN", "1_000", "+1", "0b11", "!!str x", "&a x", "*a", "|", ">", "%TAG"}

type genVal struct {
	yaml    any
	want    reflect.Value // value of the leaf type
	secrets []string      // opaque strings inside the value
}

var (
	tDuration = reflect.TypeOf(time.Duration(0))
	tOpaque   = reflect.TypeOf(configopaque.String(""))
	tID       = reflect.TypeOf(component.ID{})
	textUnm   = reflect.TypeOf((*encoding.TextUnmarshaler)(nil)).Elem()
	textMar   = reflect.TypeOf((*encoding.TextMarshaler)(nil)).Elem()
)

// texts of enum-like text-unmarshaler types (invalid texts are load errors, not findings)
var enumTexts = map[string][]string{
	"confignet.TransportType":       {"tcp", "tcp4", "tcp6", "udp", "udp4", "udp6", "ip", "ip4", "ip6", "unix", "unixgram", "unixpacket"},
	"configcompression.Type":        {"gzip", "zlib", "deflate", "snappy", "zstd", "lz4", "none"},
	"request.SizerType":             {"requests", "items", "bytes"},
	"configtelemetry.Level":         {"none", "basic", "normal", "detailed"},
	"zapcore.Level":                 {"debug", "info", "warn", "error", "dpanic", "panic", "fatal"},
	"otlphttpexporter.EncodingType": {"proto", "json"},
}

// valid forms of string settings that have a syntax (by key name)
func namedString(rng *rand.Rand, comp *comp, key string) (string, bool) {
	n := rng.Intn(10000)
	switch {
	case key == "endpoint" && comp.typ == "otlphttp":
		return fmt.Sprintf("http://host%d.example:4318", n), true
	case key == "endpoint" || key == "address":
		return fmt.Sprintf("localhost:%d", 10000+n), true
	case key == "traces_endpoint" || key == "metrics_endpoint" || key == "logs_endpoint":
		return fmt.Sprintf("https://h%d.example/v1/x", n), true
	case strings.HasSuffix(key, "_url_path"):
		return fmt.Sprintf("/custom/%d", n), true
	case key == "proxy_url":
		return fmt.Sprintf("http://proxy%d.example:3128", n), true
	case key == "min_version" || key == "max_version":
		return []string{"1.0", "1.1", "1.2", "1.3"}[rng.Intn(4)], true
	case strings.HasSuffix(key, "_file"):
		return fmt.Sprintf("/etc/certs/f%d.pem", n), true
	case key == "balancer_name":
		return []string{"round_robin", "pick_first"}[rng.Intn(2)], true
	case key == "encoding":
		return []string{"json", "console"}[rng.Intn(2)], true
	}
	return "", false
}

func namedList(rng *rand.Rand, key string) ([]string, bool) {
	pickN := func(l []string) []string {
		n := 1 + rng.Intn(len(l))
		rng.Shuffle(len(l), func(i, j int) { l[i], l[j] = l[j], l[i] })
		return append([]string(nil), l[:n]...)
	}
	switch key {
	case "cipher_suites":
		return pickN([]string{"TLS_ECDHE_ECDSA_WITH_AES_128_GCM_SHA256", "TLS_ECDHE_RSA_WITH_AES_128_GCM_SHA256", "TLS_ECDHE_RSA_WITH_AES_256_GCM_SHA384"}), true
	case "curve_preferences":
		return pickN([]string{"X25519", "P256", "P384", "P521"}), true
	case "compression_algorithms":
		return pickN([]string{"gzip", "zstd", "snappy", "zlib", "deflate", ""}), true
	case "allowed_origins":
		return pickN([]string{"https://a.example", "https://*.b.example", "*"}), true
	case "output_paths", "error_output_paths":
		return pickN([]string{"stderr", "stdout"}), true
	case "propagators":
		return pickN([]string{"tracecontext", "b3"}), true
	case "metadata_keys":
		return pickN([]string{"tenant", "x-scope", "k3"}), true
	}
	return nil, false
}

func tok(rng *rand.Rand, p string) string { return fmt.Sprintf("%s%d", p, rng.Intn(100000)) }

// genFor produces a value for a type; key is the last element of the key path (for named forms).
func genFor(rng *rand.Rand, c *comp, t reflect.Type, key string, depth int) (genVal, bool) {
	if depth > 4 {
		return genVal{}, false
	}
	if strings.Contains(t.PkgPath(), "otelconf") {
		return genVal{}, false // SDK declarative configuration lists: no generator
	}
	switch t {
	case tDuration:
		var d time.Duration
		switch rng.Intn(4) {
		case 0:
			d = time.Duration(1+rng.Intn(5000)) * time.Millisecond
		case 1:
			d = time.Duration(1+rng.Intn(300)) * time.Second
		case 2:
			d = time.Duration(1+rng.Intn(90)) * time.Minute
		default:
			d = time.Duration(1+rng.Intn(1000))*time.Microsecond + time.Duration(rng.Intn(3))*time.Hour
		}
		return genVal{yaml: d.String(), want: reflect.ValueOf(d)}, true
	case tOpaque:
		s := tok(rng, "s3cr3t-")
		return genVal{yaml: s, want: reflect.ValueOf(configopaque.String(s)), secrets: []string{s}}, true
	case tID:
		id := component.MustNewIDWithName(fmt.Sprintf("ext%d", rng.Intn(9)), fmt.Sprintf("n%d", rng.Intn(99)))
		if rng.Intn(3) == 0 {
			id = component.MustNewID(fmt.Sprintf("ext%d", rng.Intn(9)))
		}
		return genVal{yaml: id.String(), want: reflect.ValueOf(id)}, true
	}
	if texts, ok := enumTexts[t.String()]; ok {
		txt := texts[rng.Intn(len(texts))]
		p := reflect.New(t)
		if err := p.Interface().(encoding.TextUnmarshaler).UnmarshalText([]byte(txt)); err != nil {
			panic(fmt.Sprintf("harness table: %s rejects %q: %v", t, txt, err))
		}
		return genVal{yaml: txt, want: p.Elem()}, true
	}
	if reflect.PointerTo(t).Implements(textUnm) || t.Implements(textUnm) {
		return genVal{}, false // a text type the table does not know
	}
	switch t.Kind() {
	case reflect.Bool:
		b := rng.Intn(2) == 0
		return genVal{yaml: b, want: reflect.ValueOf(b).Convert(t)}, true
	case reflect.Int, reflect.Int8, reflect.Int16, reflect.Int32, reflect.Int64:
		n := int64(1 + rng.Intn(1000))
		if strings.Contains(key, "percentage") {
			n = int64(1 + rng.Intn(99))
		}
		if t.String() == "configcompression.Level" {
			n = int64(1 + rng.Intn(9))
		}
		return genVal{yaml: n, want: reflect.ValueOf(n).Convert(t)}, true
	case reflect.Uint, reflect.Uint8, reflect.Uint16, reflect.Uint32, reflect.Uint64:
		n := uint64(1 + rng.Intn(1000))
		if strings.Contains(key, "percentage") {
			n = uint64(1 + rng.Intn(99))
		}
		return genVal{yaml: int64(n), want: reflect.ValueOf(n).Convert(t)}, true
	case reflect.Float32, reflect.Float64:
		f := float64(1+rng.Intn(63)) / 8
		if key == "randomization_factor" {
			f = float64(1+rng.Intn(7)) / 8
		}
		return genVal{yaml: f, want: reflect.ValueOf(f).Convert(t)}, true
	case reflect.String:
		s, named := namedString(rng, c, key)
		if !named {
			s = tok(rng, "v")
			if rng.Intn(5) == 0 {
				// texts that YAML would read as something else when unquoted (the writer quotes them; through a
				// ${env:...} reference a string setting must still receive exactly this text)
				s = scalarLooking[rng.Intn(len(scalarLooking))]
			}
		}
		return genVal{yaml: s, want: reflect.ValueOf(s).Convert(t)}, true
	case reflect.Slice:
		if t.Elem().Kind() == reflect.String && t.Elem() != tOpaque {
			l, named := namedList(rng, key)
			if !named {
				l = []string{tok(rng, "e"), tok(rng, "f")}[:1+rng.Intn(2)]
			}
			if rng.Intn(8) == 0 {
				l = []string{} // a list written as `[]` is a written key like any other (it switches the default list off)
			}
			y := make([]any, len(l))
			w := reflect.MakeSlice(t, len(l), len(l))
			for i, s := range l {
				y[i] = s
				w.Index(i).Set(reflect.ValueOf(s).Convert(t.Elem()))
			}
			return genVal{yaml: y, want: w}, true
		}
		// slices of other supported types (structs written completely)
		n := 1 + rng.Intn(2)
		y := make([]any, n)
		w := reflect.MakeSlice(t, n, n)
		var sec []string
		for i := 0; i < n; i++ {
			g, ok := genFor(rng, c, t.Elem(), key, depth+1)
			if !ok {
				return genVal{}, false
			}
			y[i] = g.yaml
			w.Index(i).Set(g.want)
			sec = append(sec, g.secrets...)
		}
		return genVal{yaml: y, want: w, secrets: sec}, true
	case reflect.Map:
		if t.Key().Kind() != reflect.String {
			return genVal{}, false
		}
		n := 1 + rng.Intn(2)
		y := map[string]any{}
		w := reflect.MakeMap(t)
		var sec []string
		for i := 0; i < n; i++ {
			k := tok(rng, "k")
			et := t.Elem()
			switch {
			case et.Kind() == reflect.Interface:
				vals := []any{tok(rng, "w"), int64(rng.Intn(100)), rng.Intn(2) == 0}
				v := vals[rng.Intn(len(vals))]
				y[k] = v
				vv := v
				if n, ok := v.(int64); ok {
					vv = int(n) // yaml.v3 hands an int to an untyped target
				}
				w.SetMapIndex(reflect.ValueOf(k).Convert(t.Key()), reflect.ValueOf(&vv).Elem())
			case et.Kind() == reflect.Ptr && et.Elem().Kind() == reflect.String:
				s := tok(rng, "w")
				y[k] = s
				p := reflect.New(et.Elem())
				p.Elem().SetString(s)
				w.SetMapIndex(reflect.ValueOf(k).Convert(t.Key()), p)
			default:
				g, ok := genFor(rng, c, et, k, depth+1)
				if !ok {
					return genVal{}, false
				}
				y[k] = g.yaml
				w.SetMapIndex(reflect.ValueOf(k).Convert(t.Key()), g.want)
				sec = append(sec, g.secrets...)
			}
		}
		return genVal{yaml: y, want: w, secrets: sec}, true
	case reflect.Struct:
		// a struct value inside a list: write every field the generator knows
		sch := confgen.Walk(t)
		y := map[string]any{}
		w := reflect.New(t).Elem()
		var sec []string
		for i := range sch.Leaves {
			l := &sch.Leaves[i]
			if l.Untagged {
				return genVal{}, false
			}
			g, ok := genFor(rng, c, l.Type, l.Path[len(l.Path)-1], depth+1)
			if !ok {
				return genVal{}, false
			}
			confgen.SetPath(y, l.Path, g.yaml)
			if !setLeaf(w, l.Path, g.want) {
				return genVal{}, false
			}
			sec = append(sec, g.secrets...)
		}
		return genVal{yaml: y, want: w, secrets: sec}, len(sch.Leaves) > 0
	}
	return genVal{}, false
}

// setLeaf stores val at a key path of a fresh struct value (allocating pointers on the way).
func setLeaf(v reflect.Value, path []string, val reflect.Value) bool {
	for v.Kind() == reflect.Ptr {
		if v.IsNil() {
			v.Set(reflect.New(v.Type().Elem()))
		}
		v = v.Elem()
	}
	if len(path) == 0 {
		if val.Type().AssignableTo(v.Type()) {
			v.Set(val)
			return true
		}
		return false
	}
	if v.Kind() != reflect.Struct {
		return false
	}
	t := v.Type()
	for i := 0; i < t.NumField(); i++ {
		f := t.Field(i)
		if !f.IsExported() {
			continue
		}
		name, squash, skip, _ := confgen.TagOf(f)
		if skip {
			continue
		}
		if squash {
			if setLeaf(v.Field(i), path, val) {
				return true
			}
			continue
		}
		if name == path[0] {
			return setLeaf(v.Field(i), path[1:], val)
		}
	}
	return false
}

// effForm converts an expected Go value into the form it must have in the effective configuration
// (what an extension sees): durations and text types as text, opaque values redacted, containers as
// generic lists and maps. alt is an accepted alternative (durations as integer nanoseconds).
func effForm(v reflect.Value) (main any, alt any) {
	if !v.IsValid() {
		return nil, nil
	}
	for v.Kind() == reflect.Ptr || v.Kind() == reflect.Interface {
		if v.IsNil() {
			return nil, nil
		}
		v = v.Elem()
	}
	t := v.Type()
	switch {
	case t == tDuration:
		d := time.Duration(v.Int())
		return d.String(), int64(d)
	case t == tOpaque:
		return "[REDACTED]", nil
	}
	if tm, ok := textMarshalerOf(v); ok {
		if b, err := tm.MarshalText(); err == nil {
			return string(b), nil
		}
	}
	switch v.Kind() {
	case reflect.Bool:
		return v.Bool(), nil
	case reflect.Int, reflect.Int8, reflect.Int16, reflect.Int32, reflect.Int64:
		return v.Int(), nil
	case reflect.Uint, reflect.Uint8, reflect.Uint16, reflect.Uint32, reflect.Uint64:
		return v.Uint(), nil
	case reflect.Float32, reflect.Float64:
		return v.Float(), nil
	case reflect.String:
		return v.String(), nil
	case reflect.Slice, reflect.Array:
		o := make([]any, v.Len())
		for i := range o {
			o[i], _ = effForm(v.Index(i))
		}
		return o, nil
	case reflect.Map:
		o := map[string]any{}
		for _, k := range v.MapKeys() {
			o[fmt.Sprint(k.Interface())], _ = effForm(v.MapIndex(k))
		}
		return o, nil
	case reflect.Struct:
		o := map[string]any{}
		sch := confgen.Walk(t)
		for i := range sch.Leaves {
			l := &sch.Leaves[i]
			if f, isNil, ok := confgen.Lookup(v, l.Path); ok && !isNil {
				e, _ := effForm(f)
				confgen.SetPath(o, l.Path, e)
			}
		}
		return o, nil
	}
	return fmt.Sprint(v.Interface()), nil
}

func textMarshalerOf(v reflect.Value) (encoding.TextMarshaler, bool) {
	if v.Type() == tID || v.Kind() == reflect.Struct || v.Type().Implements(textMar) || reflect.PointerTo(v.Type()).Implements(textMar) {
		if v.CanInterface() {
			if tm, ok := v.Interface().(encoding.TextMarshaler); ok {
				return tm, true
			}
		}
		p := reflect.New(v.Type())
		p.Elem().Set(v)
		if tm, ok := p.Interface().(encoding.TextMarshaler); ok {
			return tm, true
		}
	}
	return nil, false
}
