package main

// Indirect loads: the same configuration with written scalar values supplied through ${env:NAME} references
// instead of literals. A user who moves a value into the environment expects the same typed configuration:
// whole-value references are typed like the literal and a string setting receives the original text.
// Differential oracle: typed(component, literal load) == typed(component, load through references).

import (
	"context"
	"fmt"
	"os"
	"reflect"
	"strings"

	"go.opentelemetry.io/collector/confmap"
	"go.opentelemetry.io/collector/confmap/provider/envprovider"
	"go.opentelemetry.io/collector/confmap/provider/yamlprovider"
	"go.opentelemetry.io/collector/otelcol"
	"go.opentelemetry.io/collector/verifharness/lib/confgen"
	"go.opentelemetry.io/collector/verifharness/lib/driver"
	"gopkg.in/yaml.v3"
)

type envBinding struct{ name, value string }

type indirector struct {
	prefix  string
	env     []envBinding
	skipped int
}

func yamlParse(text string) (any, bool) {
	var v any
	if err := yaml.Unmarshal([]byte(text), &v); err != nil {
		return nil, false
	}
	return v, true
}

func sameScalar(a, b any) bool {
	switch x := a.(type) {
	case int:
		a = int64(x)
	case uint32:
		a = int64(x)
	case uint64:
		a = int64(x)
	}
	switch y := b.(type) {
	case int:
		b = int64(y)
	case uint64:
		b = int64(y)
	}
	return reflect.TypeOf(a) == reflect.TypeOf(b) && reflect.DeepEqual(a, b)
}

// rewrite replaces scalars of v by references where the reference is guaranteed (by the documented rules)
// to mean the same as the literal: a string whose target is of string kind (original text is used), or any
// scalar whose environment text parses back to the very same typed scalar.
func (in *indirector) rewrite(t reflect.Type, v any) any {
	// a *string target is not treated as a "string field": the expansion rules give the original text to
	// targets of string kind only (a numeric-looking ${env:X} fails for map[string]*string like an unquoted literal)
	viaPtr := false
	for t != nil && t.Kind() == reflect.Ptr {
		t = t.Elem()
		viaPtr = true
	}
	switch x := v.(type) {
	case map[string]any:
		out := make(map[string]any, len(x))
		for k, e := range x {
			var et reflect.Type
			if t != nil && t.Kind() == reflect.Map {
				et = t.Elem()
			}
			out[k] = in.rewrite(et, e)
		}
		return out
	case []any:
		out := make([]any, len(x))
		for i, e := range x {
			var et reflect.Type
			if t != nil && (t.Kind() == reflect.Slice || t.Kind() == reflect.Array) {
				et = t.Elem()
			}
			out[i] = in.rewrite(et, e)
		}
		return out
	case string:
		if strings.ContainsAny(x, "$\x00") {
			in.skipped++
			return v
		}
		stringTarget := t != nil && t.Kind() == reflect.String && !viaPtr
		if !stringTarget {
			if p, ok := yamlParse(x); !ok || !sameScalar(p, x) {
				in.skipped++
				return v
			}
		}
		return in.bind(x)
	case confgen.Plain:
		// written without quotes: the document text is the value's text
		text := string(x)
		if strings.ContainsAny(text, "$\x00") {
			in.skipped++
			return v
		}
		p, ok := yamlParse(text)
		if !ok {
			in.skipped++
			return v
		}
		if ps, isStr := p.(string); isStr && ps == text {
			return in.bind(text)
		}
		if _, isStr := p.(string); isStr || p == nil {
			in.skipped++
			return v
		}
		switch p.(type) {
		case map[string]any, []any:
			in.skipped++
			return v
		}
		return in.bind(text)
	case bool, int, int64, uint32, uint64, float64:
		text, ok := confgen.ScalarText(x)
		if !ok {
			in.skipped++
			return v
		}
		if p, ok := yamlParse(text); !ok || !sameScalar(p, x) {
			in.skipped++
			return v
		}
		return in.bind(text)
	}
	in.skipped++
	return v
}

func (in *indirector) bind(text string) any {
	name := fmt.Sprintf("%s_%d", in.prefix, len(in.env))
	in.env = append(in.env, envBinding{name, text})
	return confgen.Plain("${env:" + name + "}")
}

func loadIndirect(text string) (*otelcol.Config, error) {
	cp, err := otelcol.NewConfigProvider(otelcol.ConfigProviderSettings{ResolverSettings: confmap.ResolverSettings{
		URIs: []string{"yaml:" + text}, ProviderFactories: []confmap.ProviderFactory{yamlprovider.NewFactory(), envprovider.NewFactory()}}})
	if err != nil {
		return nil, err
	}
	defer cp.Shutdown(context.Background())
	return cp.Get(context.Background(), theFactories)
}

// checkIndirect compares the typed configuration of the literal load (ld) with a load in which the written
// scalars come from the environment.
func checkIndirect(c *driver.Ctx, i int64, fc *faithCase, ld any) {
	in := &indirector{prefix: fmt.Sprintf("C13V_%d_%d", c.Shard, i)}
	sec := map[string]any{}
	for _, w := range fc.written {
		confgen.SetPath(sec, w.leaf.Path, in.rewrite(w.leaf.Type, w.val.yaml))
	}
	if len(in.env) == 0 {
		c.Observe("indirect_cases_without_replaceable_scalar", 1)
		return
	}
	text := confgen.YAML(assemble(fc.comp, fc.id, sec), confgen.YAMLOpts{PlainStrings: true})
	for _, b := range in.env {
		os.Setenv(b.name, b.value)
	}
	defer func() {
		for _, b := range in.env {
			os.Unsetenv(b.name)
		}
	}()
	c.Eval()
	c.Observe("indirect_loads", 1)
	c.Observe("indirect_scalars_through_env", int64(len(in.env)))
	c.Observe("indirect_scalars_left_literal", int64(in.skipped))
	envDump := map[string]string{}
	for _, b := range in.env {
		envDump[b.name] = b.value
		if p, ok := yamlParse(b.value); ok {
			if _, isStr := p.(string); !isStr {
				// the environment text does not read as a string: typed by the reference, text kept for string settings
				c.Observe("indirect_env_texts_not_reading_as_string", 1)
				c.Distinct("indirect_env_text_shapes", fmt.Sprintf("%T", p))
			}
		}
	}
	wit := func(extra map[string]any) map[string]any {
		o := fc.witness(map[string]any{"indirect_yaml": text, "env": envDump})
		for k, v := range extra {
			o[k] = v
		}
		return o
	}
	var cfg *otelcol.Config
	var err error
	if pv, stack := driver.Catch(func() { cfg, err = loadIndirect(text) }); pv != nil {
		c.Violation("panic", fmt.Sprintf("loading %s with values supplied through ${env:...} panicked: %v", fc.comp.name(), pv), wit(map[string]any{"stack": clip(stack, 3000)}),
			"site", driver.PanicSite(stack), "stage", "indirect-load")
		return
	}
	if err != nil {
		c.Violation("indirect", fmt.Sprintf("%s: the configuration loads with literal values but is rejected when the same values come from ${env:...}: %s", fc.comp.name(), clip(err.Error(), 400)),
			wit(map[string]any{"error": err.Error()}), "comp", fc.comp.name(), "kind", "indirect-load-rejected", "class", errClass(err))
		return
	}
	il, ok := loadedOf(cfg, fc.comp, fc.id)
	if !ok {
		c.Violation("indirect", fmt.Sprintf("%s %q is missing from the configuration loaded through references", fc.comp.name(), fc.id), wit(nil), "comp", fc.comp.name(), "kind", "component-missing", "class", "-")
		return
	}
	c.Nontrivial("indirect", fc.comp.name(), strings.Join(fc.keys(), "|"))
	lv, iv := reflect.ValueOf(ld), reflect.ValueOf(il)
	for _, w := range fc.written {
		a, aNil, aok := confgen.Lookup(lv, w.leaf.Path)
		b, bNil, bok := confgen.Lookup(iv, w.leaf.Path)
		c.Observe("indirect_keys_compared", 1)
		if aok != bok || aNil != bNil || (aok && !aNil && !sameValue(a, b)) {
			c.Violation("indirect", fmt.Sprintf("%s: key %s holds %s when written literally and %s when the same value comes from ${env:...}", fc.comp.name(), w.leaf.Key(), show(a, aNil || !aok), show(b, bNil || !bok)),
				wit(map[string]any{"key": w.leaf.Key(), "literal": show(a, aNil || !aok), "indirect": show(b, bNil || !bok)}), "comp", fc.comp.name(), "kind", "indirect-value-differs", "class", w.leaf.Type.Kind().String())
			return
		}
	}
	c.Observe("indirect_loads_agreed", 1)
}
