package main

// Empty sections. `otlp:` (null) and `otlp: {}` are sections with nothing written in them. What the loader makes of
// them is defined by the component itself: its defaults with its own Unmarshal applied to an empty configuration (the
// OTLP receiver switches off every protocol that was not written — an empty section is therefore rejected). The
// loader must not take a short cut around the component: typed result and acceptance equal the reference
// "CreateDefaultConfig(); Unmarshal(empty)".

import (
	"fmt"

	"go.opentelemetry.io/collector/component"
	"go.opentelemetry.io/collector/confmap"
	"go.opentelemetry.io/collector/confmap/xconfmap"
	"go.opentelemetry.io/collector/verifharness/lib/confgen"
	"go.opentelemetry.io/collector/verifharness/lib/driver"
)

const emptySecBase = int64(1_600_000_000)

func runEmptySections(c *driver.Ctx) {
	k := int64(0)
	for _, cp := range comps {
		if cp.section == "service" {
			continue
		}
		for _, form := range []string{"null", "empty-map"} {
			for _, id := range []string{cp.typ, cp.typ + "/e1"} {
				i := emptySecBase + k
				k++
				if int(k)%c.NShards != c.Shard || !c.Want(i) {
					continue
				}
				emptySectionCase(c, cp, id, form)
			}
		}
	}
}

func emptySectionCase(c *driver.Ctx, cp *comp, id, form string) {
	c.Eval()
	var sec map[string]any
	if form == "empty-map" {
		sec = map[string]any{}
	}
	root := baseRoot()
	m, _ := root[cp.section].(map[string]any)
	if m == nil {
		m = map[string]any{}
		root[cp.section] = m
	}
	if sec == nil {
		m[id] = nil
	} else {
		m[id] = confgen.Plain("{}")
	}
	text := confgen.YAML(root, confgen.YAMLOpts{})
	wit := map[string]any{"component": cp.name(), "id": id, "form": form, "yaml": text}
	// reference: the component's defaults with its own Unmarshal applied to an empty configuration
	ref := cp.def()
	var refErr error
	if cc, ok := ref.(component.Config); ok {
		refErr = confmap.New().Unmarshal(&cc)
		ref = cc
	}
	cfg, err := load(text)
	c.Observe("empty_section_documents", 1)
	c.Nontrivial("empty-section", cp.name(), id, form)
	sig := []string{"comp", cp.name(), "key", "-", "source", "empty-section"}
	switch {
	case refErr != nil && err == nil:
		c.Violation("faithful", fmt.Sprintf("%s %q with an empty section (%s) was accepted although the component's own Unmarshal refuses an empty configuration: %v", cp.name(), id, form, refErr), wit, append(sig, "kind", "empty-section-accepted")...)
	case refErr == nil && err != nil:
		c.Violation("faithful", fmt.Sprintf("%s %q with an empty section (%s) was rejected (%v) although the component's own Unmarshal accepts an empty configuration", cp.name(), id, form, err), wit, append(sig, "kind", "empty-section-rejected")...)
	case err != nil:
		c.Observe("empty_section_rejections_agreed", 1)
	default:
		ld, ok := loadedOf(cfg, cp, id)
		if !ok {
			c.Violation("faithful", fmt.Sprintf("component %s %q is missing from the loaded configuration", cp.name(), id), wit, append(sig, "kind", "component-missing")...)
			return
		}
		// (typed values are compared through their validation verdict and their printed form)
		va, vb := xconfmap.Validate(ld), xconfmap.Validate(ref)
		if a, b := fmt.Sprintf("%+v|%v", deref(ld), va != nil), fmt.Sprintf("%+v|%v", deref(ref), vb != nil); a != b {
			wit["loaded"], wit["reference"] = clip(a, 1500), clip(b, 1500)
			c.Violation("faithful", fmt.Sprintf("%s %q with an empty section (%s) loads differently from the component's own defaults + Unmarshal(empty)", cp.name(), id, form), wit, append(sig, "kind", "empty-section-differs")...)
			return
		}
		c.Observe("empty_section_loads_agreed", 1)
	}
}

func deref(v any) any { return v }
