package main

// Reload sequences: one otelcol.Collector runs, configuration A is loaded, the provider signals a
// change and B is loaded (then A again, or C). The ConfigWatcher extension of the harness records every
// NotifyConfig. Oracle: the k-th effective configuration equals, key for key, what a FRESH collector
// reports when it loads the k-th configuration alone — the effective configuration contains exactly
// the keys the user wrote, whatever was loaded before.

import (
	"context"
	"fmt"
	"math/rand"
	"sort"
	"strings"
	"time"

	"go.uber.org/zap"
	"go.uber.org/zap/zapcore"

	"go.opentelemetry.io/collector/component"
	"go.opentelemetry.io/collector/confmap"
	"go.opentelemetry.io/collector/otelcol"
	"go.opentelemetry.io/collector/verifharness/lib/confgen"
	"go.opentelemetry.io/collector/verifharness/lib/driver"
)

// reloadProvider serves the current configuration text and keeps the watcher function of the latest retrieval.
type reloadProvider struct {
	text      string
	watcher   confmap.WatcherFunc
	retrieved int
}

func (p *reloadProvider) Retrieve(_ context.Context, _ string, w confmap.WatcherFunc) (*confmap.Retrieved, error) {
	p.watcher = w
	p.retrieved++
	return confmap.NewRetrievedFromYAML([]byte(p.text))
}
func (*reloadProvider) Scheme() string                 { return "vcfg" }
func (*reloadProvider) Shutdown(context.Context) error { return nil }

// genReloadConfig builds a valid configuration with removable parts: extra components that no pipeline
// uses, a second pipeline, map entries, optional settings.
func genReloadConfig(rng *rand.Rand) map[string]any {
	n := func() int { return rng.Intn(1000) }
	dur := func() string { return (time.Duration(1+rng.Intn(900)) * time.Millisecond * 10).String() }
	hdr := func() map[string]any {
		m := map[string]any{}
		for k := 1 + rng.Intn(3); k > 0; k-- {
			m[fmt.Sprintf("x-h%d", rng.Intn(6))] = tok(rng, "s3cr3t-")
		}
		return m
	}
	otlp := map[string]any{"endpoint": fmt.Sprintf("localhost:%d", 10000+n()), "tls": map[string]any{"insecure": true}, "headers": hdr(), "timeout": dur(),
		"compression": []string{"gzip", "zstd", "snappy", "none"}[rng.Intn(4)], "retry_on_failure": map[string]any{"max_interval": dur()},
		"sending_queue": map[string]any{"queue_size": int64(10 + n()), "sizer": []string{"items", "requests"}[rng.Intn(2)]}, "balancer_name": "round_robin", "authority": tok(rng, "auth")}
	otlphttp := map[string]any{"endpoint": fmt.Sprintf("http://h%d.example:4318", n()), "headers": hdr(), "traces_endpoint": fmt.Sprintf("https://t%d.example/v1/traces", n()),
		"encoding": []string{"proto", "json"}[rng.Intn(2)], "proxy_url": "http://proxy.example:3128", "cookies": map[string]any{"enabled": true}}
	return map[string]any{
		"receivers":  map[string]any{"nop": nil, "nop/r2": nil, "otlp/unused": map[string]any{"protocols": map[string]any{"grpc": map[string]any{"endpoint": "localhost:4317", "max_recv_msg_size_mib": int64(1 + rng.Intn(64))}, "http": map[string]any{"endpoint": "localhost:4318", "traces_url_path": fmt.Sprintf("/t/%d", n()), "cors": map[string]any{"allowed_origins": []any{"https://a.example"}, "max_age": int64(n())}}}}},
		"processors": map[string]any{"batch/p": map[string]any{"timeout": dur(), "send_batch_size": int64(1 + n()), "metadata_keys": []any{"tenant", "x-scope"}[:1+rng.Intn(2)]}, "memory_limiter/unused": map[string]any{"check_interval": "1s", "limit_mib": int64(100 + n())}},
		"exporters":  map[string]any{"nop": nil, "debug/d": map[string]any{"verbosity": []string{"detailed", "normal"}[rng.Intn(2)], "sampling_initial": int64(1 + rng.Intn(9))}, "otlp/e": otlp, "otlphttp/h": otlphttp},
		"connectors": map[string]any{"forward/unused": nil},
		"extensions": map[string]any{"cfgwatch": nil, "zpages/unused": map[string]any{"endpoint": fmt.Sprintf("localhost:%d", 20000+n()), "expvar": map[string]any{"enabled": true}}},
		"service": map[string]any{
			"extensions": []any{"cfgwatch"},
			"telemetry": map[string]any{"metrics": map[string]any{"level": "none"}, "logs": map[string]any{"level": "error", "initial_fields": map[string]any{"site": tok(rng, "s"), "rack": int64(n())}, "disable_caller": true},
				"resource": map[string]any{"service.instance.id": tok(rng, "i"), "deployment": tok(rng, "d")}},
			"pipelines": map[string]any{
				"logs":      map[string]any{"receivers": []any{"nop"}, "processors": []any{"batch/p"}, "exporters": []any{"nop", "debug/d"}},
				"traces/t2": map[string]any{"receivers": []any{"nop/r2"}, "exporters": []any{"nop"}},
			},
		},
	}
}

func deepCopy(v any) any {
	switch x := v.(type) {
	case map[string]any:
		o := make(map[string]any, len(x))
		for k, e := range x {
			o[k] = deepCopy(e)
		}
		return o
	case []any:
		o := make([]any, len(x))
		for i, e := range x {
			o[i] = deepCopy(e)
		}
		return o
	}
	return v
}

func delPath(m map[string]any, path ...string) bool {
	for _, k := range path[:len(path)-1] {
		n, ok := m[k].(map[string]any)
		if !ok {
			return false
		}
		m = n
	}
	if _, ok := m[path[len(path)-1]]; !ok {
		return false
	}
	delete(m, path[len(path)-1])
	return true
}

func anyKey(rng *rand.Rand, m map[string]any) string {
	ks := make([]string, 0, len(m))
	for k := range m {
		ks = append(ks, k)
	}
	sort.Strings(ks)
	if len(ks) == 0 {
		return ""
	}
	return ks[rng.Intn(len(ks))]
}

// mutateReload derives the next configuration: removals (at least one) plus unrelated new keys.
func mutateReload(rng *rand.Rand, a map[string]any) (map[string]any, []string) {
	b := deepCopy(a).(map[string]any)
	var did []string
	removals := []func() string{
		func() string { // a component that no pipeline uses
			c := [][2]string{{"exporters", "otlp/e"}, {"exporters", "otlphttp/h"}, {"extensions", "zpages/unused"}, {"receivers", "otlp/unused"}, {"processors", "memory_limiter/unused"}, {"connectors", "forward/unused"}}[rng.Intn(6)]
			if delPath(b, c[0], c[1]) {
				return "component " + c[0] + "::" + c[1]
			}
			return ""
		},
		func() string { // a pipeline, with the receiver only it used
			if delPath(b, "service", "pipelines", "traces/t2") {
				delPath(b, "receivers", "nop/r2")
				return "pipeline traces/t2 and receiver nop/r2"
			}
			return ""
		},
		func() string { // a map entry
			for _, p := range [][]string{{"exporters", "otlp/e", "headers"}, {"exporters", "otlphttp/h", "headers"}, {"service", "telemetry", "resource"}, {"service", "telemetry", "logs", "initial_fields"}}[rng.Intn(4):] {
				if v, ok := confgen.GetPath(b, p); ok {
					if mm, ok := v.(map[string]any); ok && len(mm) > 0 {
						k := anyKey(rng, mm)
						delete(mm, k)
						return "map entry " + strings.Join(p, "::") + "::" + k
					}
				}
			}
			return ""
		},
		func() string { // a setting (several of them are omitted from the effective configuration when unset)
			c := [][]string{{"exporters", "debug/d", "verbosity"}, {"exporters", "otlphttp/h", "traces_endpoint"}, {"exporters", "otlphttp/h", "proxy_url"}, {"exporters", "otlphttp/h", "cookies"}, {"exporters", "otlp/e", "compression"},
				{"exporters", "otlp/e", "authority"}, {"exporters", "otlp/e", "balancer_name"}, {"exporters", "otlp/e", "retry_on_failure"}, {"receivers", "otlp/unused", "protocols", "http"}, {"receivers", "otlp/unused", "protocols", "http", "cors"},
				{"receivers", "otlp/unused", "protocols", "http", "traces_url_path"}, {"processors", "batch/p", "metadata_keys"}, {"extensions", "zpages/unused", "expvar"}, {"service", "telemetry", "logs", "disable_caller"},
				{"service", "telemetry", "resource"}, {"service", "telemetry", "logs", "initial_fields"}}[rng.Intn(16)]
			if delPath(b, c...) {
				return "setting " + strings.Join(c, "::")
			}
			return ""
		},
	}
	for _, i := range rng.Perm(len(removals))[:1+rng.Intn(len(removals))] {
		if d := removals[i](); d != "" {
			did = append(did, "removed "+d)
		}
	}
	if len(did) == 0 {
		if d := removals[1](); d != "" {
			did = append(did, "removed "+d)
		}
	}
	// unrelated new keys
	if rng.Intn(2) == 0 {
		id := "debug/" + tok(rng, "new")
		b["exporters"].(map[string]any)[id] = map[string]any{"sampling_thereafter": int64(1 + rng.Intn(9))}
		did = append(did, "added exporters::"+id)
	}
	if rng.Intn(2) == 0 {
		if v, ok := confgen.GetPath(b, []string{"processors", "batch/p"}); ok {
			v.(map[string]any)["send_batch_max_size"] = int64(2000 + rng.Intn(1000))
			did = append(did, "added setting processors::batch/p::send_batch_max_size")
		}
	}
	if rng.Intn(3) == 0 {
		if v, ok := confgen.GetPath(b, []string{"service", "telemetry", "logs"}); ok {
			v.(map[string]any)["development"] = true
			did = append(did, "added setting service::telemetry::logs::development")
		}
	}
	return b, did
}

// collectorSession runs one collector over a sequence of configurations and returns what the watcher
// received at every load.
type sessionResult struct {
	effs   []map[string]any
	runErr error
	stuck  *driver.Stuck
	loads  int
}

func collectorSession(c *driver.Ctx, texts []string) *sessionResult {
	res := &sessionResult{}
	notifiedMu.Lock()
	notifiedAll = nil
	notifiedMu.Unlock()
	prov := &reloadProvider{text: texts[0]}
	res.stuck = c.Guard(120*time.Second, func() int64 { return notifyCount.Load() }, func() {
		col, err := otelcol.NewCollector(otelcol.CollectorSettings{
			Factories: factories, BuildInfo: component.NewDefaultBuildInfo(), SkipSettingGRPCLogger: true, DisableGracefulShutdown: true,
			LoggingOptions: []zap.Option{zap.WrapCore(func(zapcore.Core) zapcore.Core { return zapcore.NewNopCore() })},
			ConfigProviderSettings: otelcol.ConfigProviderSettings{ResolverSettings: confmap.ResolverSettings{
				URIs: []string{"vcfg:current"}, ProviderFactories: []confmap.ProviderFactory{confmap.NewProviderFactory(func(confmap.ProviderSettings) confmap.Provider { return prov })}}},
		})
		if err != nil {
			res.runErr = err
			return
		}
		done := make(chan error, 1)
		go func() { done <- col.Run(context.Background()) }()
		count := func() int { notifiedMu.Lock(); defer notifiedMu.Unlock(); return len(notifiedAll) }
		// waitLoaded: the k-th configuration has been handed to the watcher and the collector is Running again
		waitLoaded := func(k int) bool {
			for {
				select {
				case err := <-done:
					res.runErr = err
					if err == nil {
						res.runErr = fmt.Errorf("collector stopped by itself")
					}
					return false
				default:
				}
				if count() >= k && col.GetState() == otelcol.StateRunning {
					return true
				}
				time.Sleep(100 * time.Microsecond)
			}
		}
		for k := range texts {
			if k > 0 {
				prov.text = texts[k]
				prov.watcher(&confmap.ChangeEvent{}) // the provider signals the change: the collector reloads
			}
			if !waitLoaded(k + 1) {
				break
			}
			res.loads = k + 1
		}
		if res.runErr == nil {
			col.Shutdown()
			res.runErr = <-done
		}
	})
	notifiedMu.Lock()
	res.effs = append([]map[string]any(nil), notifiedAll...)
	notifiedMu.Unlock()
	return res
}

func runReload(c *driver.Ctx, i int64, rng *rand.Rand) {
	c.Eval()
	a := genReloadConfig(rng)
	b, didB := mutateReload(rng, a)
	seq := []map[string]any{a, b}
	shape := "A,B"
	changes := [][]string{nil, didB}
	switch rng.Intn(3) {
	case 1:
		seq, shape, changes = append(seq, a), "A,B,A", append(changes, []string{"back to A"})
	case 2:
		cc, didC := mutateReload(rng, b)
		if rng.Intn(2) == 0 {
			cc, didC = mutateReload(rng, a)
			didC = append([]string{"derived from A:"}, didC...)
		}
		seq, shape, changes = append(seq, cc), "A,B,C", append(changes, didC)
	}
	texts := make([]string, len(seq))
	for k, m := range seq {
		texts[k] = confgen.YAML(m, confgen.YAMLOpts{PlainStrings: rng.Intn(2) == 0})
	}
	wit := map[string]any{"sequence": shape, "changes": changes, "configurations": texts}
	// controls: a fresh collector for every configuration alone
	fresh := make([]map[string]any, len(seq))
	for k := range seq {
		if k == 2 && shape == "A,B,A" {
			fresh[k] = fresh[0]
			continue
		}
		r := collectorSession(c, texts[k:k+1])
		c.Observe("reload_fresh_collector_runs", 1)
		if r.stuck != nil {
			c.Inconclusive("collector run did not return")
			return
		}
		if len(r.effs) != 1 {
			c.Inconclusive("reload control configuration is not accepted by a fresh collector")
			c.Note("reload control not accepted: %v", r.runErr)
			return
		}
		fresh[k] = r.effs[0]
	}
	res := collectorSession(c, texts)
	c.Observe("reload_sessions", 1)
	c.Observe("reload_sessions:"+shape, 1)
	if res.stuck != nil {
		c.Inconclusive("collector run did not return")
		return
	}
	c.Nontrivial("reload", shape, strings.Join(texts, "\n---\n"))
	if res.loads != len(seq) || len(res.effs) != len(seq) {
		wit["error"] = fmt.Sprint(res.runErr)
		wit["loads"], wit["notifications"] = res.loads, len(res.effs)
		c.Violation("effective-reload", fmt.Sprintf("reload sequence %s: %d of %d configurations were loaded and %d effective configurations reached the ConfigWatcher although a fresh collector accepts each of them (run error: %v)", shape, res.loads, len(seq), len(res.effs), res.runErr),
			wit, "kind", "reload-failed", "load", "-", "section", "-", "want", "-", "got", "-")
		return
	}
	for k := range seq {
		c.Observe("reload_effective_configs_compared", 1)
		want, got := confgen.Canon(fresh[k]), confgen.Canon(res.effs[k])
		if want == got {
			c.Observe("reload_effective_configs_equal_to_fresh_collector", 1)
			continue
		}
		p, wk, gk := firstDiffMap(fresh[k], res.effs[k], "")
		stale := ""
		if wk == "absent" {
			for e := 0; e < k; e++ {
				if v, ok := confgen.GetPath(fresh[e], strings.Split(strings.TrimPrefix(p, "::"), "::")); ok {
					stale = fmt.Sprintf(" (the key is part of configuration %d, loaded earlier: %s)", e+1, clip(confgen.Canon(v), 80))
					break
				}
			}
		}
		section := strings.SplitN(strings.TrimPrefix(p, "::"), "::", 2)[0]
		load := "first"
		if k > 0 {
			load = "after-reload"
		}
		w := map[string]any{"load": k + 1, "first_difference": p, "fresh_collector": clip(want, 4000), "reloaded_collector": clip(got, 4000)}
		for kk, v := range wit {
			w[kk] = v
		}
		c.Violation("effective-reload", fmt.Sprintf("reload sequence %s, load %d (%s): the effective configuration handed to the ConfigWatcher differs from what a fresh collector reports for the same configuration at %s: fresh %s, reloaded %s%s",
			shape, k+1, strings.Join(changes[k], "; "), p, wk, gk, stale), w, "kind", "differs-from-fresh-load", "load", load, "section", section, "want", wk, "got", gk)
		break
	}
	if c.Shard == 6 {
		c.Sample(map[string]any{"kind": "reload", "sequence": shape, "changes": changes, "configurations": texts})
	}
}

// firstDiffMap walks two effective configurations and returns the first differing path with the kinds on both sides.
func firstDiffMap(want, got any, path string) (string, string, string) {
	wm, wok := want.(map[string]any)
	gm, gok := got.(map[string]any)
	if wok && gok {
		keys := map[string]bool{}
		for k := range wm {
			keys[k] = true
		}
		for k := range gm {
			keys[k] = true
		}
		ks := make([]string, 0, len(keys))
		for k := range keys {
			ks = append(ks, k)
		}
		sort.Strings(ks)
		for _, k := range ks {
			wv, wh := wm[k]
			gv, gh := gm[k]
			switch {
			case !wh:
				return path + "::" + k, "absent", confgen.KindName(gv)
			case !gh:
				return path + "::" + k, confgen.KindName(wv), "absent"
			case confgen.Canon(wv) != confgen.Canon(gv):
				return firstDiffMap(wv, gv, path+"::"+k)
			}
		}
	}
	return path, confgen.KindName(want), confgen.KindName(got)
}
