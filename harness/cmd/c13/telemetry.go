package main

// The service's own telemetry section (service::telemetry::{traces,logs}::processors, metrics::readers) is a list of
// small structs the schema walker does not descend into. This family writes them by hand: every processor / reader
// kind with every exporter kind and every subset of the exporter's settings, plus the same documents with one unknown
// key inserted at each depth. Loading must never panic; a document with an unknown key must be rejected with an error.

import (
	"context"
	"fmt"
	"math/rand"
	"reflect"
	"strings"

	"go.opentelemetry.io/collector/confmap"
	"go.opentelemetry.io/collector/confmap/provider/yamlprovider"
	"go.opentelemetry.io/collector/service"
	"go.opentelemetry.io/collector/service/telemetry"
	"go.opentelemetry.io/collector/verifharness/lib/confgen"
	"go.opentelemetry.io/collector/verifharness/lib/driver"
)

const telemetryBase = int64(1_500_000_000)

type telDoc struct {
	Section string         `json:"section"` // traces | logs | metrics
	Kind    string         `json:"kind"`    // batch | simple | periodic | pull
	Kinds   []string       `json:"kinds_of_all_entries"`
	Exp     string         `json:"exporter"`
	Fields  map[string]any `json:"exporter_settings"`
	Unknown string         `json:"unknown_key_at,omitempty"` // "", entry, processor, exporter-map, exporter
	YAML    string         `json:"yaml"`
}

func genTelDoc(rng *rand.Rand) *telDoc {
	d := &telDoc{Section: []string{"traces", "logs", "metrics"}[rng.Intn(3)], Fields: map[string]any{}}
	if d.Section == "metrics" {
		d.Kind = []string{"periodic", "periodic", "pull"}[rng.Intn(3)]
	} else {
		d.Kind = []string{"batch", "simple"}[rng.Intn(2)]
	}
	d.Exp = []string{"otlp", "otlp", "otlp", "console"}[rng.Intn(4)]
	if d.Kind == "pull" {
		d.Exp = "prometheus"
	}
	all := map[string][]any{}
	switch d.Exp {
	case "otlp":
		all = map[string][]any{
			"protocol": {"grpc", "http/protobuf"}, "endpoint": {"localhost:4317", "http://localhost:4318", "https://example.invalid:4318/v1/x", ""},
			"insecure": {true, false}, "timeout": {5000, 0}, "compression": {"gzip", "none"}, "headers": {map[string]any{"k": "v"}, map[string]any{}},
		}
	case "prometheus":
		all = map[string][]any{"host": {"localhost", "127.0.0.1"}, "port": {18888, 0}, "without_units": {true}, "without_type_suffix": {false}, "without_scope_info": {true}}
	}
	for k, vs := range all {
		if rng.Intn(2) == 0 {
			d.Fields[k] = vs[rng.Intn(len(vs))]
		}
	}
	if rng.Intn(3) == 0 {
		d.Unknown = []string{"entry", "processor", "exporter-map", "exporter"}[rng.Intn(4)]
	}
	if d.Exp == "console" && d.Unknown == "exporter" {
		d.Unknown = "processor" // the console exporter is a free-form map: it has no unknown keys
	}
	exp := map[string]any{}
	for k, v := range d.Fields {
		exp[k] = v
	}
	var expAny any = exp
	if d.Exp == "console" {
		expAny = map[string]any{}
	}
	if d.Unknown == "exporter" {
		if m, ok := expAny.(map[string]any); ok {
			m["no_such_setting_c13"] = 1
		}
	}
	expMap := map[string]any{d.Exp: expAny}
	if d.Unknown == "exporter-map" {
		expMap["no_such_exporter_c13"] = map[string]any{"x": 1}
	}
	proc := map[string]any{"exporter": expMap}
	if d.Unknown == "processor" {
		proc["no_such_setting_c13"] = 1
	}
	entry := map[string]any{d.Kind: proc}
	if d.Unknown == "entry" {
		entry["no_such_kind_c13"] = map[string]any{}
	}
	list := "processors"
	if d.Section == "metrics" {
		list = "readers"
	}
	entries := []any{entry}
	d.Kinds = []string{d.Kind}
	// more entries than the default list has (metrics::readers has one pull reader by default): every entry is exactly
	// what was written for it
	for n := rng.Intn(3); n > 0 && d.Unknown == ""; n-- {
		k := d.Kind
		if d.Section == "metrics" {
			k = "periodic"
		} else if rng.Intn(2) == 0 {
			k = map[string]string{"batch": "simple", "simple": "batch"}[d.Kind]
		}
		entries = append(entries, map[string]any{k: map[string]any{"exporter": map[string]any{"console": map[string]any{}}}})
		d.Kinds = append(d.Kinds, k)
	}
	root := map[string]any{"telemetry": map[string]any{d.Section: map[string]any{list: entries}}}
	d.YAML = confgen.YAML(root, confgen.YAMLOpts{})
	return d
}

func loadServiceSection(y string) (*service.Config, error) {
	r, err := confmap.NewResolver(confmap.ResolverSettings{URIs: []string{"yaml:" + y}, ProviderFactories: []confmap.ProviderFactory{yamlprovider.NewFactory()}})
	if err != nil {
		return nil, err
	}
	c, err := r.Resolve(context.Background())
	if err != nil {
		return nil, err
	}
	cfg := service.Config{Telemetry: *telemetry.NewFactory().CreateDefaultConfig().(*telemetry.Config)}
	return &cfg, c.Unmarshal(&cfg)
}

// entryKinds reads, by reflection, which alternative (Batch / Simple / Periodic / Pull) each element of the loaded
// processors / readers list holds.
func entryKinds(cfg *service.Config, section string) ([]string, bool) {
	v := reflect.ValueOf(cfg.Telemetry)
	sec := v.FieldByName(map[string]string{"traces": "Traces", "logs": "Logs", "metrics": "Metrics"}[section])
	if !sec.IsValid() {
		return nil, false
	}
	for sec.Kind() == reflect.Ptr {
		if sec.IsNil() {
			return nil, false
		}
		sec = sec.Elem()
	}
	var list reflect.Value
	var find func(v reflect.Value, name string) reflect.Value
	find = func(v reflect.Value, name string) reflect.Value {
		if v.Kind() != reflect.Struct {
			return reflect.Value{}
		}
		if f := v.FieldByName(name); f.IsValid() {
			return f
		}
		for i := 0; i < v.NumField(); i++ {
			if v.Type().Field(i).Anonymous {
				if f := find(v.Field(i), name); f.IsValid() {
					return f
				}
			}
		}
		return reflect.Value{}
	}
	list = find(sec, map[string]string{"traces": "Processors", "logs": "Processors", "metrics": "Readers"}[section])
	if !list.IsValid() || list.Kind() != reflect.Slice {
		return nil, false
	}
	var out []string
	for i := 0; i < list.Len(); i++ {
		e := list.Index(i)
		var set []string
		for _, alt := range []string{"Batch", "Simple", "Periodic", "Pull"} {
			if f := e.FieldByName(alt); f.IsValid() && f.Kind() == reflect.Ptr && !f.IsNil() {
				set = append(set, strings.ToLower(alt))
			}
		}
		out = append(out, strings.Join(set, "+"))
	}
	return out, true
}

func runTelemetry(c *driver.Ctx, i int64, rng *rand.Rand) {
	d := genTelDoc(rng)
	c.Eval()
	var err error
	var cfg *service.Config
	pv, stack := driver.Catch(func() { cfg, err = loadServiceSection(d.YAML) })
	c.Observe("telemetry_section_documents", 1)
	c.Nontrivial("telemetry", d.Section, d.Kind, d.Exp, fmt.Sprint(len(d.Fields)), d.Unknown, fmt.Sprint(d.Fields["endpoint"] != nil))
	sig := []string{"section", "service::telemetry", "kind", d.Kind, "exporter", d.Exp}
	switch {
	case pv != nil:
		site := driver.PanicSite(stack)
		if site == "" {
			site = thirdPartySite(stack)
		}
		c.Violation("panic", fmt.Sprintf("loading service::telemetry::%s (%s with a %s exporter, settings written: %v, unknown key: %q) panics instead of returning the configuration or an error: %v", d.Section, d.Kind, d.Exp, keysOf(d.Fields), d.Unknown, pv),
			map[string]any{"document": d, "stack": clip(stack, 3000)}, append(sig, "site", site, "unknown", fmt.Sprint(d.Unknown != ""), "endpoint_written", fmt.Sprint(d.Fields["endpoint"] != nil), "panic", clip(fmt.Sprint(pv), 48))...)
	case d.Unknown != "" && err == nil:
		c.Violation("strict", fmt.Sprintf("service::telemetry::%s: a key no field accepts (at %s level of a %s entry) was accepted", d.Section, d.Unknown, d.Kind),
			map[string]any{"document": d}, append(sig, "kind2", "unknown-accepted", "depth", d.Unknown)...)
	case d.Unknown != "":
		c.Observe("telemetry_unknown_keys_rejected", 1)
		if !strings.Contains(err.Error(), "no_such_") {
			c.Observe("telemetry_unknown_key_errors_not_naming_the_key", 1)
		}
	case err != nil:
		c.Observe("telemetry_documents_rejected:"+errClass(err), 1)
	default:
		c.Observe("telemetry_documents_loaded", 1)
		if got, ok := entryKinds(cfg, d.Section); ok {
			c.Observe("telemetry_entry_lists_compared", 1)
			if strings.Join(got, ",") != strings.Join(d.Kinds, ",") {
				c.Violation("faith", fmt.Sprintf("service::telemetry::%s: the list was written with entries %v, the loaded configuration holds %v (an entry with two alternatives carries a leftover of the default list)", d.Section, d.Kinds, got),
					map[string]any{"document": d, "loaded_entry_kinds": got}, append(sig, "kind2", "list-entries-differ", "written", fmt.Sprint(len(d.Kinds)))...)
			}
		} else {
			c.Observe("telemetry_entry_lists_not_readable", 1)
		}
	}
}

func keysOf(m map[string]any) []string {
	var out []string
	for k := range m {
		out = append(out, k)
	}
	return out
}

// thirdPartySite names the first non-runtime frame of a panic that is not in repository code.
func thirdPartySite(stack string) string {
	for _, l := range strings.Split(stack, "\n") {
		if strings.HasPrefix(l, "github.com/") || strings.HasPrefix(l, "go.opentelemetry.io/contrib") {
			if i := strings.Index(l, "("); i > 0 {
				return l[:i]
			}
			return l
		}
	}
	return "unknown"
}
