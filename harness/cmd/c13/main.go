// C13 — configuration loading is faithful and strict.
//
// Monitors (all on the real otelcol.ConfigProvider / otelcol.Collector with the built-in factories):
//
//	faithful   generated YAML writing random key subsets (key universe and types obtained by reflection
//	           from the factories' default configs) is loaded; every written key must hold the written
//	           value, unwritten scalar siblings of a written section keep the factory default;
//	effective  the configuration marshalled for extensions (confmap.Marshal, and what a ConfigWatcher
//	           extension really receives from a running otelcol.Collector) shows the written values,
//	           opaque ones redacted;
//	strict     unknown key at every struct node of every component and of the service section, dangling
//	           and duplicated references, empty pipelines, ambiguous ids: must be rejected, naming the offender;
//	validate   an independent reflective walker calls every Validate() reachable from a (reflectively
//	           perturbed) loaded configuration; every error must appear in xconfmap.Validate's result.
package main

import (
	"context"
	"fmt"
	"math/rand"
	"reflect"
	"sort"
	"strings"
	"sync"
	"sync/atomic"
	"time"

	"go.uber.org/zap"
	"go.uber.org/zap/zapcore"

	"go.opentelemetry.io/collector/component"
	"go.opentelemetry.io/collector/confmap"
	"go.opentelemetry.io/collector/confmap/provider/yamlprovider"
	"go.opentelemetry.io/collector/confmap/xconfmap"
	"go.opentelemetry.io/collector/connector"
	"go.opentelemetry.io/collector/connector/connectortest"
	"go.opentelemetry.io/collector/connector/forwardconnector"
	"go.opentelemetry.io/collector/exporter"
	"go.opentelemetry.io/collector/exporter/debugexporter"
	"go.opentelemetry.io/collector/exporter/nopexporter"
	"go.opentelemetry.io/collector/exporter/otlpexporter"
	"go.opentelemetry.io/collector/exporter/otlphttpexporter"
	"go.opentelemetry.io/collector/extension"
	"go.opentelemetry.io/collector/extension/memorylimiterextension"
	"go.opentelemetry.io/collector/extension/zpagesextension"
	"go.opentelemetry.io/collector/otelcol"
	"go.opentelemetry.io/collector/processor"
	"go.opentelemetry.io/collector/processor/batchprocessor"
	"go.opentelemetry.io/collector/processor/memorylimiterprocessor"
	"go.opentelemetry.io/collector/receiver"
	"go.opentelemetry.io/collector/receiver/otlpreceiver"
	"go.opentelemetry.io/collector/receiver/receivertest"
	"go.opentelemetry.io/collector/service"
	"go.opentelemetry.io/collector/service/telemetry"
	"go.opentelemetry.io/collector/verifharness/lib/confgen"
	"go.opentelemetry.io/collector/verifharness/lib/driver"
)

// ---------------------------------------------------------------------------------------------
// the ConfigWatcher extension of the harness

type watcherExt struct{}

var lastNotified atomic.Pointer[map[string]any]
var notifyCount atomic.Int64

func (watcherExt) Start(context.Context, component.Host) error { return nil }
func (watcherExt) Shutdown(context.Context) error              { return nil }
func (watcherExt) NotifyConfig(_ context.Context, conf *confmap.Conf) error {
	m := conf.ToStringMap()
	lastNotified.Store(&m)
	notifiedMu.Lock()
	notifiedAll = append(notifiedAll, m)
	notifiedMu.Unlock()
	notifyCount.Add(1)
	return nil
}

// every effective configuration handed to the watcher during the current collector run
var (
	notifiedMu  sync.Mutex
	notifiedAll []map[string]any
)

type watcherCfg struct{}

// mutatorExt is a second kind of ConfigWatcher: it looks at the configuration it was handed and then writes into it
// (extensions do that: they merge their own view, redact, or marshal into the Conf). What one watcher does with its
// copy must not reach another watcher.
type mutatorExt struct{}

var (
	mutSeenMu sync.Mutex
	mutSeen   []map[string]any
)

func (mutatorExt) Start(context.Context, component.Host) error { return nil }
func (mutatorExt) Shutdown(context.Context) error              { return nil }
func (mutatorExt) NotifyConfig(_ context.Context, conf *confmap.Conf) error {
	m := conf.ToStringMap()
	mutSeenMu.Lock()
	mutSeen = append(mutSeen, m)
	mutSeenMu.Unlock()
	_ = conf.Merge(confmap.NewFromStringMap(map[string]any{
		"exporters": map[string]any{"WRITTEN_BY_ANOTHER_WATCHER": map[string]any{"x": 1}},
		"service":   map[string]any{"extensions": []any{"WRITTEN_BY_ANOTHER_WATCHER"}, "pipelines": nil},
	}))
	return nil
}

var mutType = component.MustNewType("cfgmut")

var watchType = component.MustNewType("cfgwatch")

func factories() (otelcol.Factories, error) {
	var f otelcol.Factories
	var err error
	if f.Receivers, err = otelcol.MakeFactoryMap[receiver.Factory](otlpreceiver.NewFactory(), receivertest.NewNopFactory()); err != nil {
		return f, err
	}
	if f.Processors, err = otelcol.MakeFactoryMap[processor.Factory](batchprocessor.NewFactory(), memorylimiterprocessor.NewFactory()); err != nil {
		return f, err
	}
	if f.Exporters, err = otelcol.MakeFactoryMap[exporter.Factory](otlpexporter.NewFactory(), otlphttpexporter.NewFactory(), debugexporter.NewFactory(), nopexporter.NewFactory()); err != nil {
		return f, err
	}
	if f.Connectors, err = otelcol.MakeFactoryMap[connector.Factory](forwardconnector.NewFactory(), connectortest.NewNopFactory()); err != nil {
		return f, err
	}
	wf := extension.NewFactory(watchType, func() component.Config { return &watcherCfg{} },
		func(context.Context, extension.Settings, component.Config) (extension.Extension, error) {
			return watcherExt{}, nil
		}, component.StabilityLevelStable)
	mf := extension.NewFactory(mutType, func() component.Config { return &watcherCfg{} },
		func(context.Context, extension.Settings, component.Config) (extension.Extension, error) {
			return mutatorExt{}, nil
		}, component.StabilityLevelStable)
	f.Extensions, err = otelcol.MakeFactoryMap[extension.Factory](zpagesextension.NewFactory(), memorylimiterextension.NewFactory(), wf, mf)
	return f, err
}

var theFactories otelcol.Factories

// ---------------------------------------------------------------------------------------------
// the components under test and their key universes

type comp struct {
	section string // receivers | exporters | processors | connectors | extensions | service
	typ     string
	def     func() any
	schema  *confgen.Schema
}

func (c *comp) name() string {
	if c.section == "service" {
		return "service"
	}
	return c.section + "::" + c.typ
}

var comps []*comp

func initComps() {
	add := func(section, typ string, def func() any) {
		c := &comp{section: section, typ: typ, def: def}
		c.schema = confgen.Walk(reflect.TypeOf(def()))
		comps = append(comps, c)
	}
	for t, f := range theFactories.Receivers {
		if t.String() != "nop" {
			f := f
			add("receivers", t.String(), func() any { return f.CreateDefaultConfig() })
		}
	}
	for t, f := range theFactories.Exporters {
		f := f
		add("exporters", t.String(), func() any { return f.CreateDefaultConfig() })
	}
	for t, f := range theFactories.Processors {
		f := f
		add("processors", t.String(), func() any { return f.CreateDefaultConfig() })
	}
	for t, f := range theFactories.Connectors {
		if t.String() != "nop" {
			f := f
			add("connectors", t.String(), func() any { return f.CreateDefaultConfig() })
		}
	}
	for t, f := range theFactories.Extensions {
		if t != watchType {
			f := f
			add("extensions", t.String(), func() any { return f.CreateDefaultConfig() })
		}
	}
	add("service", "service", func() any {
		return &service.Config{Telemetry: *telemetry.NewFactory().CreateDefaultConfig().(*telemetry.Config)}
	})
	sort.Slice(comps, func(i, j int) bool { return comps[i].name() < comps[j].name() })
}

// baseRoot is the configuration around the component under test: a nop logs pipeline and the watcher
// extension; internal metrics are off so that concurrently running collectors do not fight for a port.
func baseRoot() map[string]any {
	return map[string]any{
		"receivers":  map[string]any{"nop": nil},
		"exporters":  map[string]any{"nop": nil},
		"extensions": map[string]any{"cfgwatch": nil, "cfgmut/a": nil, "cfgmut/b": nil},
		"service": map[string]any{
			"extensions": []any{"cfgmut/a", "cfgwatch", "cfgmut/b"},
			"telemetry":  map[string]any{"metrics": map[string]any{"level": "none"}, "logs": map[string]any{"level": "error"}},
			"pipelines":  map[string]any{"logs": map[string]any{"receivers": []any{"nop"}, "exporters": []any{"nop"}}},
		},
	}
}

func deepMerge(dst, src map[string]any) {
	for k, v := range src {
		if sm, ok := v.(map[string]any); ok {
			if dm, ok := dst[k].(map[string]any); ok {
				deepMerge(dm, sm)
				continue
			}
		}
		dst[k] = v
	}
}

// assemble places the written section of a component into the base configuration.
func assemble(c *comp, id string, sec map[string]any) map[string]any {
	root := baseRoot()
	if c.section == "service" {
		delete(root["service"].(map[string]any), "telemetry") // service cases write their telemetry keys themselves
		deepMerge(root["service"].(map[string]any), sec)
		return root
	}
	m, _ := root[c.section].(map[string]any)
	if m == nil {
		m = map[string]any{}
		root[c.section] = m
	}
	if len(sec) == 0 {
		m[id] = nil
	} else {
		m[id] = sec
	}
	return root
}

func load(text string) (*otelcol.Config, error) {
	cp, err := otelcol.NewConfigProvider(otelcol.ConfigProviderSettings{ResolverSettings: confmap.ResolverSettings{
		URIs: []string{"yaml:" + text}, ProviderFactories: []confmap.ProviderFactory{yamlprovider.NewFactory()}}})
	if err != nil {
		return nil, err
	}
	defer cp.Shutdown(context.Background())
	return cp.Get(context.Background(), theFactories)
}

func loadedOf(cfg *otelcol.Config, c *comp, id string) (any, bool) {
	if c.section == "service" {
		return &cfg.Service, true
	}
	var cid component.ID
	if err := cid.UnmarshalText([]byte(id)); err != nil {
		return nil, false
	}
	var m map[component.ID]component.Config
	switch c.section {
	case "receivers":
		m = cfg.Receivers
	case "exporters":
		m = cfg.Exporters
	case "processors":
		m = cfg.Processors
	case "connectors":
		m = cfg.Connectors
	case "extensions":
		m = cfg.Extensions
	}
	v, ok := m[cid]
	return v, ok
}

func errClass(err error) string {
	s := err.Error()
	if i := strings.LastIndex(s, ": "); i >= 0 && len(s)-i < 120 {
		s = s[i+2:]
	}
	s = strings.Map(func(r rune) rune {
		if r >= '0' && r <= '9' {
			return '#'
		}
		return r
	}, s)
	if len(s) > 90 {
		s = s[:90]
	}
	return s
}

func clip(s string, n int) string {
	if len(s) > n {
		return s[:n] + "…"
	}
	return s
}

// ---------------------------------------------------------------------------------------------
// running a real collector to obtain the effective configuration handed to a ConfigWatcher

type colResult struct {
	others  []map[string]any // what the other (writing) watchers were handed during this run
	eff     map[string]any
	runErr  error
	stuck   *driver.Stuck
	started bool
}

func runCollector(c *driver.Ctx, text string) *colResult {
	res := &colResult{}
	lastNotified.Store(nil)
	mutSeenMu.Lock()
	mutSeen = nil
	mutSeenMu.Unlock()
	defer func() {
		mutSeenMu.Lock()
		res.others = mutSeen
		mutSeen = nil
		mutSeenMu.Unlock()
	}()
	res.stuck = c.Guard(90*time.Second, func() int64 { return notifyCount.Load() }, func() {
		col, err := otelcol.NewCollector(otelcol.CollectorSettings{
			Factories: factories, BuildInfo: component.NewDefaultBuildInfo(), SkipSettingGRPCLogger: true, DisableGracefulShutdown: true,
			LoggingOptions: []zap.Option{zap.WrapCore(func(zapcore.Core) zapcore.Core { return zapcore.NewNopCore() })},
			ConfigProviderSettings: otelcol.ConfigProviderSettings{ResolverSettings: confmap.ResolverSettings{
				URIs: []string{"yaml:" + text}, ProviderFactories: []confmap.ProviderFactory{yamlprovider.NewFactory()}}},
		})
		if err != nil {
			res.runErr = err
			return
		}
		done := make(chan error, 1)
		go func() { done <- col.Run(context.Background()) }()
		for {
			select {
			case err := <-done:
				res.runErr = err
				if p := lastNotified.Load(); p != nil {
					res.eff = *p
				}
				return
			default:
			}
			if col.GetState() == otelcol.StateRunning {
				break
			}
			time.Sleep(100 * time.Microsecond)
		}
		res.started = true
		if p := lastNotified.Load(); p != nil {
			res.eff = *p
		}
		col.Shutdown()
		res.runErr = <-done
	})
	return res
}

// ---------------------------------------------------------------------------------------------

func run(c *driver.Ctx) {
	var err error
	if theFactories, err = factories(); err != nil {
		panic(err)
	}
	initComps()
	nFaith := int64(c.N(500, 12000))
	nStrict := int64(c.N(100, 3000))
	nValid := int64(c.N(100, 3000))
	// case index space: [0,nFaith) faithfulness, then strictness (exhaustive node list first), then validation
	strictNodes := allStrictNodes()
	for i := int64(0); i < nFaith; i++ {
		if !c.Want(i) {
			continue
		}
		runFaith(c, i, c.CaseRand(i))
	}
	off := nFaith
	for g := int64(0); g < int64(len(strictNodes)); g++ {
		i := off + g
		if int(g%int64(c.NShards)) != c.Shard || !c.Want(i) {
			continue
		}
		runUnknownKey(c, strictNodes[g], c.CaseRand(i))
	}
	off += int64(len(strictNodes))
	for k := int64(0); k < nStrict; k++ {
		i := off + k
		if !c.Want(i) {
			continue
		}
		runStrictVariant(c, i, c.CaseRand(i))
	}
	off += nStrict
	nReload := int64(c.N(40, 1200))
	for k := int64(0); k < nReload; k++ {
		i := off + nValid + k
		if !c.Want(i) {
			continue
		}
		runReload(c, i, c.CaseRand(i))
	}
	for k := int64(0); k < nValid; k++ {
		i := off + k
		if !c.Want(i) {
			continue
		}
		runValidate(c, i, c.CaseRand(i))
	}
	runEmptySections(c)
	nTel := int64(c.N(150, 4000))
	for k := int64(0); k < nTel; k++ {
		i := telemetryBase + k
		if !c.Want(i) {
			continue
		}
		runTelemetry(c, i, c.CaseRand(i))
	}
}

func main() {
	driver.Main(driver.Spec{
		ID:    "C13",
		Level: "exploration",
		Rule: "faithfulness: a case is (component, set of written keys with generated values); the key universe and the field types come from reflection over the factories' default configs (otlp receiver; otlp, otlphttp, debug, nop exporters; " +
			"batch, memory_limiter processors; forward connector; zpages, memory_limiter extensions; service section); distinct = (component, written key set). strictness: (variant kind, insertion path / mutated reference); the unknown-key variant is enumerated for every struct node of every component; dangling references use ids defined nowhere and ids defined (and validly used) in another section, all ordered section pairs, same and other pipeline, service::extensions. " +
			"reload: (sequence A->B, A->B->A or A->B->C of valid configurations loaded by ONE running otelcol.Collector through a provider that signals the change; B is A with a component, a pipeline, map entries and settings removed plus new keys); every effective configuration handed to the ConfigWatcher must equal, key for key, what a fresh collector reports for that configuration alone. validation: (perturbed loaded configuration); non-trivial when the independent walker obtained >= 1 Validate() error. Every case that reached the loader is non-trivial",
		Assumptions: []string{
			"values are produced from Go values of the field's type (Duration.String, the text form of enum-like text-unmarshaler types from a table, URL paths with a leading '/', endpoints, TLS versions); keys whose type the generator cannot produce are counted as uncovered, never guessed",
			"a load error of a generated configuration is not a finding (counted per error class); sections the user did not mention are not judged; a deprecated alias (sending_queue::blocking) may set its unwritten target",
			"in the effective configuration durations may appear as text or as integer nanoseconds, a key whose written value is the zero value may be omitted",
			"strictness: the error of the rejected configuration must contain the offending key or id",
		},
		TrustedBase:   []string{"gopkg.in/yaml.v3 via the real yaml provider", "reflection over struct tags (mapstructure names, squash) as documented by confmap"},
		Shards:        func(string) int { return 16 },
		MinNontrivial: func(tier string) int { return 1500 },
		ShardTimeout:  func(string) time.Duration { return 120 * time.Minute },
		Run:           run,
		MaxSamples:    2,
	})
}

var _ = rand.Int
var _ = fmt.Sprint
var _ = xconfmap.Validate
