// C07 — pdata copy / move / remove / read-only operations have value semantics.
//
// Monitor: random programs of public pdata operations, executed on the real implementation and on a
// plain generic reference tree; after every step the snapshot of EVERY live root (everything observable
// through getters, discovered reflectively) must equal the model, so an effect on a value the step did
// not name shows up as an unexplained change. Panics other than the read-only panic are violations.
// Roots that were marked read-only stay in the pool: every later step that would mutate them must panic
// with the read-only message and change nothing; at the end every mutator of every reachable value of
// such a root is called (arguments synthesised from the signature) and must panic, every reader must
// keep working.
package main

import (
	"fmt"
	"hash/fnv"
	"math"
	"math/rand"
	"reflect"
	"sort"
	"strings"

	"go.opentelemetry.io/collector/pdata/pcommon"
	"go.opentelemetry.io/collector/verifharness/lib/driver"
	rp "go.opentelemetry.io/collector/verifharness/lib/reflectpd"
)

type root struct {
	name string
	v    reflect.Value
	ti   *rp.TypeInfo
	m    *rp.Node
	ro   bool
}

type pos struct {
	r    int
	path []string
	n    *rp.Node
	ti   *rp.TypeInfo
}

func (p *pos) String() string { return fmt.Sprintf("r%d/%s", p.r, strings.Join(p.path, "/")) }

type step struct {
	op    string // method name family, low cardinality ("CopyTo", "Set", "SetEmptyAlt", …)
	kind  string // shape of the receiver
	desc  string
	mut   []int // roots the step mutates
	impl  func()
	model func()
	post  func() string // extra result check after a successful impl call
	recv  *pos
	dst   *pos // binary operations
	haz   string
}

type state struct {
	c      *driver.Ctx
	reg    *rp.Registry
	rng    *rand.Rand
	fl     *rp.Filler
	roots  []*root
	trace  []string
	avoid  bool
	failed bool
	// program properties for the non-trivial rule
	pendingSeq   []func() *step
	nonFreshDest bool
	roPhase      bool
	steps        int
	// latent: per root, the aliasing preconditions (ptrslice-spare with stale slots, valslice-stale, map-stale) of
	// earlier copies into it that showed no divergence at the time. Two destination entries that were made to
	// alias one object stay invisible as long as they hold equal content (e.g. two empty elements); the
	// aliasing then surfaces at a later, innocent step. Such a divergence carries hazard "latent:<...>".
	latent map[int]map[string]bool
}

func kindOf(ti *rp.TypeInfo) string {
	switch ti.Kind {
	case rp.KStruct:
		if ti.IsRoot {
			return "root"
		}
		return "struct"
	case rp.KSlice:
		if ti.PtrSlice {
			return "ptrslice"
		}
		return "valslice"
	}
	return ti.Kind.String()
}

// ---------------------------------------------------------------------------------------------
// positions

func (st *state) positions() []pos {
	var out []pos
	for ri, r := range st.roots {
		r.m.Walk(nil, func(path []string, n *rp.Node) bool {
			if n.TI != nil && n.Kind != rp.KLeaf {
				out = append(out, pos{r: ri, path: append([]string(nil), path...), n: n, ti: n.TI})
			}
			return true
		})
	}
	return out
}

func (st *state) resolve(p *pos) reflect.Value {
	v, err := st.reg.Resolve(st.roots[p.r].v, p.path)
	if err != nil {
		panic(fmt.Sprintf("harness: cannot resolve %s: %v", p, err))
	}
	return v
}

func overlap(a, b *pos) bool {
	if a.r != b.r {
		return false
	}
	n := len(a.path)
	if len(b.path) < n {
		n = len(b.path)
	}
	for i := 0; i < n; i++ {
		if a.path[i] != b.path[i] {
			return false
		}
	}
	return true
}

// pickByType chooses a type uniformly among the types that have a candidate, then a candidate of it,
// so that rare types are exercised as often as attribute maps.
func (st *state) pickByType(cands []pos) *pos {
	if len(cands) == 0 {
		return nil
	}
	byT := map[*rp.TypeInfo][]int{}
	var ts []*rp.TypeInfo
	for i := range cands {
		if _, ok := byT[cands[i].ti]; !ok {
			ts = append(ts, cands[i].ti)
		}
		byT[cands[i].ti] = append(byT[cands[i].ti], i)
	}
	sort.Slice(ts, func(i, j int) bool { return ts[i].Name < ts[j].Name })
	l := byT[ts[st.rng.Intn(len(ts))]]
	return &cands[l[st.rng.Intn(len(l))]]
}

func filter(ps []pos, f func(*pos) bool) []pos {
	var out []pos
	for i := range ps {
		if f(&ps[i]) {
			out = append(out, ps[i])
		}
	}
	return out
}

// ---------------------------------------------------------------------------------------------
// execution and oracle

func panicClass(pv any) string {
	s := fmt.Sprint(pv)
	switch {
	case s == rp.ReadOnlyPanic:
		return "read-only"
	case strings.Contains(s, "nil pointer dereference"):
		return "nil-deref"
	case strings.Contains(s, "index out of range") || strings.Contains(s, "slice bounds out of range"):
		return "out-of-range"
	case strings.HasPrefix(s, "harness:"):
		return "harness"
	}
	return "other"
}

func (st *state) witness(extra map[string]any) map[string]any {
	w := map[string]any{"program": append([]string(nil), st.trace...), "mode": map[bool]string{true: "avoid-known-hazards", false: "free"}[st.avoid]}
	var pool []string
	for _, r := range st.roots {
		pool = append(pool, fmt.Sprintf("%s:%s ro=%v", r.name, r.ti.Name, r.ro))
	}
	w["pool"] = pool
	for k, v := range extra {
		w[k] = v
	}
	return w
}

// exec runs one step on the implementation and on the model; returns false when the program must stop.
func (st *state) exec(s *step, check bool) bool {
	st.steps++
	st.trace = append(st.trace, s.desc)
	expectRO := false
	for _, ri := range s.mut {
		if st.roots[ri].ro {
			expectRO = true
		}
	}
	pv, stack := rp.Catch(s.impl)
	st.c.Observe("steps", 1)
	st.c.Observe("op:"+s.op, 1)
	switch {
	case expectRO:
		st.c.Observe("ro_steps", 1)
		if pv == nil {
			fault, detail := "no-panic-unchanged", ""
			for _, r := range st.roots {
				if d := rp.Diff(r.m, st.reg.Snapshot(r.v)); d != nil {
					fault, detail = "no-panic-changed", fmt.Sprintf(" and changed %s%s from %s to %s", r.name, d.Path, d.Want, d.Got)
					break
				}
			}
			st.c.Violation("readonly", fmt.Sprintf("%s on read-only data did not panic%s", s.desc, detail), st.witness(nil),
				"op", s.op, "kind", s.kind, "fault", fault)
			st.failed = true
			return false
		} else if fmt.Sprint(pv) != rp.ReadOnlyPanic {
			st.c.Violation("readonly", fmt.Sprintf("%s on read-only data panicked with %q at %s instead of the read-only panic", s.desc, fmt.Sprint(pv), driver.PanicSite(stack)),
				st.witness(nil), "op", s.op, "kind", s.kind, "fault", "wrong-panic:"+panicClass(pv))
			st.failed = true
		}
		// model unchanged; the comparison below proves "without changing anything"
		check = true
	case pv != nil:
		if panicClass(pv) == "harness" {
			panic(pv)
		}
		st.c.Violation("panic", fmt.Sprintf("%s panicked: %v (at %s)", s.desc, pv, driver.PanicSite(stack)),
			st.witness(map[string]any{"stack": trim(stack, 1500)}), "op", s.op, "kind", s.kind, "panic", panicClass(pv), "hazard", orNone(s.haz))
		st.failed = true
		return false
	default:
		if s.post != nil {
			if msg := s.post(); msg != "" {
				st.c.Violation("result", fmt.Sprintf("%s: %s", s.desc, msg), st.witness(nil), "op", s.op, "kind", s.kind)
				st.failed = true
			}
		}
		s.model()
		st.trackLatent(s)
	}
	if check && !st.verify(s) {
		return false
	}
	return !st.failed
}

var aliasingHazards = []string{"ptrslice-spare", "valslice-stale", "map-stale"}

func (st *state) trackLatent(s *step) {
	if s.dst == nil {
		return
	}
	add := func(r int, h string) {
		if st.latent == nil {
			st.latent = map[int]map[string]bool{}
		}
		if st.latent[r] == nil {
			st.latent[r] = map[string]bool{}
		}
		st.latent[r][h] = true
	}
	switch s.op {
	case "CopyTo":
		for _, h := range aliasingHazards {
			if strings.Contains(s.haz, h) {
				add(s.dst.r, h)
			}
		}
	case "MoveTo", "MoveAndAppendTo": // moved elements take their (possibly aliased) objects along
		if s.recv != nil {
			for h := range st.latent[s.recv.r] {
				add(s.dst.r, h)
			}
		}
	}
}

// stepHazard is the hazard of the step itself or, when it has none, the latent hazards of the pool.
func (st *state) stepHazard(s *step) string {
	if s.haz != "" && s.haz != "none" {
		return s.haz
	}
	acc := map[string]bool{}
	for _, m := range st.latent {
		for h := range m {
			acc[h] = true
		}
	}
	if len(acc) == 0 {
		return "none"
	}
	return "latent:" + hazardString(acc)
}

func orNone(s string) string {
	if s == "" {
		return "none"
	}
	return s
}

func trim(s string, n int) string {
	if len(s) > n {
		return s[:n]
	}
	return s
}

func hasPrefix(path, prefix []string) bool {
	if len(path) < len(prefix) {
		return false
	}
	for i := range prefix {
		if path[i] != prefix[i] {
			return false
		}
	}
	return true
}

// verify compares every live root with the model.
func (st *state) verify(s *step) bool {
	where := map[string]bool{}
	var first *rp.Difference
	firstRoot := -1
	for ri, r := range st.roots {
		var got *rp.Node
		pv, stack := rp.Catch(func() { got = st.reg.Snapshot(r.v) })
		if pv != nil {
			st.c.Violation("panic", fmt.Sprintf("reading %s after %s panicked: %v (at %s)", r.name, s.desc, pv, driver.PanicSite(stack)),
				st.witness(map[string]any{"stack": trim(stack, 1500)}), "op", s.op, "kind", s.kind, "panic", "getter:"+panicClass(pv), "hazard", orNone(s.haz))
			st.failed = true
			return false
		}
		st.c.Observe("root_comparisons", 1)
		d := rp.Diff(r.m, got)
		if d == nil {
			continue
		}
		w := "other"
		switch {
		case s.dst != nil && ri == s.dst.r && hasPrefix(d.Steps, s.dst.path):
			w = "dst"
		case s.recv != nil && ri == s.recv.r && hasPrefix(d.Steps, s.recv.path):
			w = "recv"
			if s.dst != nil {
				w = "src"
			}
		}
		where[w] = true
		if first == nil || w == "dst" && firstRoot >= 0 {
			if first == nil || w == "dst" {
				first, firstRoot = d, ri
			}
		}
	}
	if first == nil {
		return true
	}
	ws := make([]string, 0, 3)
	for k := range where {
		ws = append(ws, k)
	}
	sort.Strings(ws)
	st.c.Violation("model", fmt.Sprintf("after %s: %s%s (%s of %s) is %s, the reference model says %s", s.desc, st.roots[firstRoot].name, first.Path, first.Class, first.Owner, first.Got, first.Want),
		st.witness(map[string]any{"root": st.roots[firstRoot].name, "path": first.Path, "want": first.Want, "got": first.Got, "owner": first.Owner, "field": first.Field}),
		"op", s.op, "kind", s.kind, "where", strings.Join(ws, "+"), "class", first.Class, "hazard", st.stepHazard(s))
	st.failed = true
	return false
}

// ---------------------------------------------------------------------------------------------
// step builders. Each returns nil when the operation is not applicable to the position.

func (st *state) call(v reflect.Value, ti *rp.TypeInfo, name string, args ...reflect.Value) []reflect.Value {
	return v.Method(ti.Methods[name]).Call(args)
}

func (st *state) mkSetScalar(p *pos) *step {
	var fs []*rp.Field
	for _, f := range p.ti.Fields {
		if f.Scalar != nil && f.Set >= 0 {
			fs = append(fs, f)
		}
	}
	if len(fs) == 0 {
		return nil
	}
	f := fs[st.rng.Intn(len(fs))]
	return st.mkSetField(p, f)
}

func (st *state) mkSetField(p *pos, f *rp.Field) *step {
	val := st.fl.Scalar(f.Scalar)
	v := st.resolve(p)
	n := p.n
	op := "Set"
	// the same field set twice in a row with values that compare equal (==) and differ in their bits: +0.0 then
	// -0.0 (or the reverse). A setter must store what it is given, not what it considers equal to what it holds.
	var first reflect.Value
	if val.Kind() == reflect.Float64 && st.rng.Intn(4) == 0 {
		z := []float64{0, math.Copysign(0, -1)}
		if st.rng.Intn(2) == 0 {
			z[0], z[1] = z[1], z[0]
		}
		first = reflect.ValueOf(z[0]).Convert(val.Type())
		val = reflect.ValueOf(z[1]).Convert(val.Type())
	}
	if f.OneOf {
		op = "SetScalarAlt"
	} else if f.Has >= 0 {
		op = "SetOptional"
	}
	return &step{op: op, kind: kindOf(p.ti), recv: p, mut: []int{p.r},
		desc: fmt.Sprintf("%s %s.Set%s(%s)", st.where(p), p.ti.Name, f.Name, short(rp.LeafOf(val))),
		impl: func() {
			if first.IsValid() {
				v.Method(f.Set).Call([]reflect.Value{first})
			}
			v.Method(f.Set).Call([]reflect.Value{val})
		},
		model: func() {
			if f.OneOf {
				st.clearAlts(n)
				n.SetField(n.TI.DiscField.Name, leafNode(f.Disc))
			}
			n.SetField(f.Name, leafNode(rp.LeafOf(val)))
			for _, g := range f.Aliases {
				n.SetField(g.Name, leafNode(rp.LeafOf(val)))
			}
			if f.Has >= 0 {
				n.SetField("Has"+f.Name, leafNode("true"))
			}
		}}
}

// clearAlts resets every alternative of the one-of of a struct node.
func (st *state) clearAlts(n *rp.Node) {
	for _, g := range n.TI.Fields {
		if !g.OneOf {
			continue
		}
		if g.SetEmpty >= 0 {
			n.DelField(g.Name)
		} else {
			n.SetField(g.Name, leafNode(rp.LeafOf(reflect.Zero(g.Scalar))))
		}
	}
}

func (st *state) mkRemoveOptional(p *pos) *step {
	var fs []*rp.Field
	for _, f := range p.ti.Fields {
		if f.Remove >= 0 {
			fs = append(fs, f)
		}
	}
	if len(fs) == 0 {
		return nil
	}
	f := fs[st.rng.Intn(len(fs))]
	v, n := st.resolve(p), p.n
	return &step{op: "RemoveOptional", kind: kindOf(p.ti), recv: p, mut: []int{p.r},
		desc: fmt.Sprintf("%s %s.Remove%s()", st.where(p), p.ti.Name, f.Name),
		impl: func() { v.Method(f.Remove).Call(nil) },
		model: func() {
			n.SetField(f.Name, leafNode(rp.LeafOf(reflect.Zero(f.Scalar))))
			n.SetField("Has"+f.Name, leafNode("false"))
		}}
}

func (st *state) mkSetEmptyAlt(p *pos) *step {
	var fs []*rp.Field
	for _, f := range p.ti.Fields {
		if f.OneOf && f.SetEmpty >= 0 {
			fs = append(fs, f)
		}
	}
	if len(fs) == 0 {
		return nil
	}
	f := fs[st.rng.Intn(len(fs))]
	v, n := st.resolve(p), p.n
	return &step{op: "SetEmptyAlt", kind: kindOf(p.ti), recv: p, mut: []int{p.r},
		desc: fmt.Sprintf("%s %s.SetEmpty%s()", st.where(p), p.ti.Name, f.Name),
		impl: func() { v.Method(f.SetEmpty).Call(nil) },
		model: func() {
			st.clearAlts(n)
			n.SetField(f.Name, st.reg.Empty(f.Child))
			n.SetField(n.TI.DiscField.Name, leafNode(f.Disc))
		}}
}

func (st *state) where(p *pos) string {
	return st.roots[p.r].name + "/" + strings.Join(p.path, "/")
}

func short(s string) string {
	if len(s) > 48 {
		return s[:48] + "…"
	}
	return s
}

// binary operations -----------------------------------------------------------------------------

func (st *state) destFor(src *pos, all []pos, needHazardFree bool) *pos {
	cands := filter(all, func(d *pos) bool {
		if d.ti != src.ti || overlap(src, d) {
			return false
		}
		if needHazardFree {
			acc := map[string]bool{}
			hazards(src.n, d.n, acc)
			if len(acc) > 0 {
				return false
			}
		}
		return true
	})
	if len(cands) == 0 {
		return nil
	}
	// prefer destinations of a different length class now and then: uniform choice is enough, the pool
	// holds empty, shorter, longer, filtered and pre-sized containers
	return &cands[st.rng.Intn(len(cands))]
}

func lens(s, d *rp.Node) string {
	if !isContainer(s) && s.Kind != rp.KSlice {
		return ""
	}
	return fmt.Sprintf(" [len %d -> len %d%s%s]", len(s.Kids), len(d.Kids), map[bool]string{true: " spare"}[d.Used], map[bool]string{true: " stale"}[d.Stale])
}

func (st *state) mkCopyTo(src, dst *pos) *step {
	sv, dv := st.resolve(src), st.resolve(dst)
	acc := map[string]bool{}
	hazards(src.n, dst.n, acc)
	sn, dn := src.n, dst.n
	if !st.isFreshNode(dn) {
		st.nonFreshDest = true
	}
	st.c.Observe("copy_dest:"+st.destClass(sn, dn), 1)
	return &step{op: "CopyTo", kind: kindOf(src.ti), recv: src, dst: dst, mut: []int{dst.r}, haz: hazardString(acc),
		desc:  fmt.Sprintf("%s.CopyTo(%s) %s%s", st.where(src), st.where(dst), src.ti.Name, lens(sn, dn)),
		impl:  func() { st.call(sv, src.ti, "CopyTo", dv) },
		model: func() { copyInto(sn.Clone(), dn) }}
}

// destClass names the state of a copy destination relative to its source (evidence only).
func (st *state) destClass(sn, dn *rp.Node) string {
	if st.isFreshNode(dn) {
		return "fresh"
	}
	if !isContainer(dn) {
		return "used-" + dn.Kind.String()
	}
	c := "equal-length"
	switch {
	case len(dn.Kids) == 0:
		c = "emptied"
	case len(dn.Kids) < len(sn.Kids):
		c = "shorter"
	case len(dn.Kids) > len(sn.Kids):
		c = "longer"
	}
	switch {
	case dn.Stale:
		c += "+filtered"
	case dn.Used:
		c += "+spare-capacity"
	default:
		c += "+exact"
	}
	return c
}

func (st *state) isFreshNode(n *rp.Node) bool {
	return n.TI != nil && rp.Equal(n, st.reg.Empty(n.TI)) && !anyDirty(n)
}

func (st *state) mkMoveTo(src, dst *pos) *step {
	sv, dv := st.resolve(src), st.resolve(dst)
	sn, dn := src.n, dst.n
	if !st.isFreshNode(dn) {
		st.nonFreshDest = true
	}
	return &step{op: "MoveTo", kind: kindOf(src.ti), recv: src, dst: dst, mut: []int{src.r, dst.r},
		desc: fmt.Sprintf("%s.MoveTo(%s) %s", st.where(src), st.where(dst), src.ti.Name),
		impl: func() { st.call(sv, src.ti, "MoveTo", dv) },
		model: func() {
			*dn = *sn
			*sn = *st.reg.Empty(src.ti)
		}}
}

func (st *state) mkMoveAndAppendTo(src, dst *pos) *step {
	sv, dv := st.resolve(src), st.resolve(dst)
	sn, dn := src.n, dst.n
	if len(dn.Kids) > 0 || dn.Used {
		st.nonFreshDest = true
	}
	return &step{op: "MoveAndAppendTo", kind: kindOf(src.ti), recv: src, dst: dst, mut: []int{src.r, dst.r},
		desc: fmt.Sprintf("%s.MoveAndAppendTo(%s) %s%s", st.where(src), st.where(dst), src.ti.Name, lens(sn, dn)),
		impl: func() { st.call(sv, src.ti, "MoveAndAppendTo", dv) },
		model: func() {
			dn.Kids = append(dn.Kids, sn.Kids...)
			dn.Used = dn.Used || sn.Used || len(sn.Kids) > 0
			dn.Stale = dn.Stale || sn.Stale
			sn.Kids, sn.Used, sn.Stale = nil, false, false
		}}
}

// slices ------------------------------------------------------------------------------------------

func (st *state) mkAppendEmpty(p *pos) *step {
	v, n := st.resolve(p), p.n
	return &step{op: "AppendEmpty", kind: kindOf(p.ti), recv: p, mut: []int{p.r},
		desc: fmt.Sprintf("%s.AppendEmpty() %s", st.where(p), p.ti.Name),
		impl: func() { st.call(v, p.ti, "AppendEmpty") },
		model: func() {
			n.Kids = append(n.Kids, st.reg.Empty(p.ti.Elem))
			n.Used = true
		}}
}

func (st *state) mkRemoveIf(p *pos) *step {
	v, n := st.resolve(p), p.n
	mask := st.rng.Intn(256)
	if len(n.Kids) > 0 && st.rng.Intn(3) > 0 { // make sure something is removed and something is kept most of the time
		mask |= 1 << uint(st.rng.Intn(min(len(n.Kids), 8)))
	}
	calls := 0
	ft := v.Method(p.ti.Methods["RemoveIf"]).Type().In(0)
	before := len(n.Kids)
	if before > 0 {
		st.nonFreshDest = true
	}
	return &step{op: "RemoveIf", kind: kindOf(p.ti), recv: p, mut: []int{p.r},
		desc: fmt.Sprintf("%s.RemoveIf(mask %08b) %s [len %d]", st.where(p), mask, p.ti.Name, before),
		impl: func() {
			pred := reflect.MakeFunc(ft, func([]reflect.Value) []reflect.Value {
				r := mask>>(uint(calls)%8)&1 == 1
				calls++
				return []reflect.Value{reflect.ValueOf(r)}
			})
			st.call(v, p.ti, "RemoveIf", pred)
		},
		post: func() string {
			if calls != before {
				return fmt.Sprintf("predicate called %d times for %d elements", calls, before)
			}
			return ""
		},
		model: func() {
			var keep []*rp.Node
			for i, k := range n.Kids {
				if mask>>(uint(i)%8)&1 == 0 {
					keep = append(keep, k)
				}
			}
			if len(keep) != len(n.Kids) {
				n.Used, n.Stale = true, true
			}
			n.Kids = keep
		}}
}

func (st *state) mkEnsureCapacity(p *pos) *step {
	v, n := st.resolve(p), p.n
	want := st.rng.Intn(len(n.Kids) + 5)
	return &step{op: "EnsureCapacity", kind: kindOf(p.ti), recv: p, mut: []int{p.r},
		desc: fmt.Sprintf("%s.EnsureCapacity(%d) %s [len %d]", st.where(p), want, p.ti.Name, len(n.Kids)),
		impl: func() { st.call(v, p.ti, "EnsureCapacity", reflect.ValueOf(want)) },
		model: func() {
			if want > len(n.Kids) {
				n.Used = true
			}
		}}
}

func (st *state) mkSort(p *pos) *step {
	v, n := st.resolve(p), p.n
	salt := st.rng.Uint64()
	rank := func(h uint64) uint64 {
		x := fnv.New64a()
		fmt.Fprintf(x, "%d/%d", h, salt)
		return x.Sum64()
	}
	ft := v.Method(p.ti.Methods["Sort"]).Type().In(0)
	return &step{op: "Sort", kind: kindOf(p.ti), recv: p, mut: []int{p.r},
		desc: fmt.Sprintf("%s.Sort(salt %d) %s [len %d]", st.where(p), salt%1000, p.ti.Name, len(n.Kids)),
		impl: func() {
			less := reflect.MakeFunc(ft, func(a []reflect.Value) []reflect.Value {
				return []reflect.Value{reflect.ValueOf(rank(st.reg.Snapshot(a[0]).Hash()) < rank(st.reg.Snapshot(a[1]).Hash()))}
			})
			st.call(v, p.ti, "Sort", less)
		},
		model: func() {
			sort.SliceStable(n.Kids, func(i, j int) bool { return rank(n.Kids[i].Hash()) < rank(n.Kids[j].Hash()) })
		}}
}

// primitive slices -----------------------------------------------------------------------------------

func (st *state) primVals(ti *rp.TypeInfo, k int) ([]reflect.Value, []*rp.Node) {
	vals := make([]reflect.Value, k)
	nodes := make([]*rp.Node, k)
	for i := range vals {
		vals[i] = st.fl.Scalar(ti.ElemT)
		nodes[i] = leafNode(rp.LeafOf(vals[i]))
	}
	return vals, nodes
}

func (st *state) mkPrimAppend(p *pos) *step {
	v, n := st.resolve(p), p.n
	vals, nodes := st.primVals(p.ti, 1+st.rng.Intn(3))
	return &step{op: "Append", kind: kindOf(p.ti), recv: p, mut: []int{p.r},
		desc:  fmt.Sprintf("%s.Append(%d values) %s", st.where(p), len(vals), p.ti.Name),
		impl:  func() { st.call(v, p.ti, "Append", vals...) },
		model: func() { n.Kids = append(n.Kids, nodes...); n.Used = true }}
}

func (st *state) mkPrimSetAt(p *pos) *step {
	if len(p.n.Kids) == 0 {
		return nil
	}
	v, n := st.resolve(p), p.n
	i := st.rng.Intn(len(n.Kids))
	vals, nodes := st.primVals(p.ti, 1)
	return &step{op: "SetAt", kind: kindOf(p.ti), recv: p, mut: []int{p.r},
		desc:  fmt.Sprintf("%s.SetAt(%d, %s) %s", st.where(p), i, short(nodes[0].Leaf), p.ti.Name),
		impl:  func() { st.call(v, p.ti, "SetAt", reflect.ValueOf(i), vals[0]) },
		model: func() { n.Kids[i] = nodes[0] },
		post: func() string {
			if got := rp.LeafOf(st.call(v, p.ti, "At", reflect.ValueOf(i))[0]); got != nodes[0].Leaf {
				return "At(i) after SetAt(i) returns " + got
			}
			return ""
		}}
}

func (st *state) mkPrimFromRaw(p *pos) *step {
	v, n := st.resolve(p), p.n
	vals, nodes := st.primVals(p.ti, st.rng.Intn(5))
	raw := reflect.MakeSlice(reflect.SliceOf(p.ti.ElemT), len(vals), len(vals))
	for i := range vals {
		raw.Index(i).Set(vals[i])
	}
	return &step{op: "FromRaw", kind: kindOf(p.ti), recv: p, mut: []int{p.r},
		desc: fmt.Sprintf("%s.FromRaw(%d values) %s", st.where(p), len(vals), p.ti.Name),
		impl: func() {
			st.call(v, p.ti, "FromRaw", raw)
			// value semantics towards the caller's slice: later edits of raw must not show
			for i := 0; i < raw.Len(); i++ {
				raw.Index(i).Set(reflect.Zero(p.ti.ElemT))
			}
		},
		model: func() { n.Kids = nodes; n.Used = true }}
}

// maps -----------------------------------------------------------------------------------------------

func (st *state) someKey(n *rp.Node, existing bool) string {
	if existing && len(n.Names) > 0 {
		return n.Names[st.rng.Intn(len(n.Names))]
	}
	return fmt.Sprintf("k%d", func() int64 { st.fl.Ctr++; return st.fl.Ctr }())
}

func (st *state) emptyValueOf(typ string) *rp.Node {
	vti := st.reg.InfoByName("pcommon.Value")
	n := &rp.Node{Kind: rp.KValue, TI: vti, Leaf: typ}
	switch typ {
	case "Map":
		n.Kids = []*rp.Node{st.reg.Empty(st.reg.InfoByName("pcommon.Map"))}
	case "Slice":
		n.Kids = []*rp.Node{st.reg.Empty(st.reg.InfoByName("pcommon.Slice"))}
	case "Bytes":
		n.Kids = []*rp.Node{st.reg.Empty(st.reg.InfoByName("pcommon.ByteSlice"))}
	}
	return n
}

// scalarValueNode draws a primitive value; with prefer = the type the target holds now, half of the draws
// keep that type ("overwrite an existing primitive with a value of the SAME type": an implementation
// that then edits its one-of wrapper in place is only visible when the wrapper is shared with a copy).
func (st *state) scalarValueNode(prefer string) (typ string, arg reflect.Value, n *rp.Node) {
	k := st.rng.Intn(4)
	if i, ok := map[string]int{"Str": 0, "Int": 1, "Double": 2, "Bool": 3}[prefer]; ok && st.rng.Intn(2) == 0 {
		k = i
		st.c.Observe("overwrite_primitive_same_type", 1)
	}
	switch k {
	case 0:
		arg = reflect.ValueOf(st.fl.String())
		typ = "Str"
	case 1:
		arg = st.fl.Scalar(reflect.TypeOf(int64(0)))
		typ = "Int"
	case 2:
		arg = st.fl.Scalar(reflect.TypeOf(float64(0)))
		typ = "Double"
	default:
		arg = reflect.ValueOf(st.rng.Intn(2) == 0)
		typ = "Bool"
	}
	n = &rp.Node{Kind: rp.KValue, TI: st.reg.InfoByName("pcommon.Value"), Leaf: typ, Kids: []*rp.Node{leafNode(rp.LeafOf(arg))}}
	return
}

func (st *state) mkMapPut(p *pos) *step {
	v, n := st.resolve(p), p.n
	key := st.someKey(n, st.rng.Intn(3) == 0)
	var name string
	var args []reflect.Value
	var val *rp.Node
	switch st.rng.Intn(8) {
	case 0:
		name, val = "PutEmpty", st.emptyValueOf("Empty")
	case 1:
		name, val = "PutEmptyMap", st.emptyValueOf("Map")
	case 2:
		name, val = "PutEmptySlice", st.emptyValueOf("Slice")
	case 3:
		name, val = "PutEmptyBytes", st.emptyValueOf("Bytes")
	default:
		prefer := ""
		if old := n.Field(key); old != nil {
			prefer = old.Leaf
		}
		typ, arg, nd := st.scalarValueNode(prefer)
		name, val, args = "Put"+typ, nd, []reflect.Value{arg}
	}
	args = append([]reflect.Value{reflect.ValueOf(key)}, args...)
	return &step{op: "Put", kind: "map", recv: p, mut: []int{p.r},
		desc: fmt.Sprintf("%s.%s(%q%s)", st.where(p), name, key, map[bool]string{true: ", " + short(val.Kids0Leaf())}[len(args) > 1]),
		impl: func() { st.call(v, p.ti, name, args...) },
		model: func() {
			if n.Field(key) == nil {
				n.Used = true
			}
			n.SetField(key, val)
		}}
}

func (st *state) mkMapRemove(p *pos) *step {
	v, n := st.resolve(p), p.n
	key := st.someKey(n, st.rng.Intn(5) > 0)
	present := n.Field(key) != nil
	var got bool
	if present {
		st.nonFreshDest = true
	}
	return &step{op: "Remove", kind: "map", recv: p, mut: []int{p.r},
		desc: fmt.Sprintf("%s.Remove(%q) [len %d]", st.where(p), key, len(n.Kids)),
		impl: func() { got = st.call(v, p.ti, "Remove", reflect.ValueOf(key))[0].Bool() },
		post: func() string {
			if got != present {
				return fmt.Sprintf("returned %v, key present: %v", got, present)
			}
			return ""
		},
		model: func() {
			if n.DelField(key) {
				n.Used, n.Stale = true, true
			}
		}}
}

func keyBit(k string, salt uint64) bool {
	h := fnv.New64a()
	fmt.Fprintf(h, "%s/%d", k, salt)
	return h.Sum64()%3 == 0
}

func (st *state) mkMapRemoveIf(p *pos) *step {
	v, n := st.resolve(p), p.n
	salt := st.rng.Uint64()
	calls := 0
	before := len(n.Kids)
	if before > 0 {
		st.nonFreshDest = true
	}
	return &step{op: "RemoveIf", kind: "map", recv: p, mut: []int{p.r},
		desc: fmt.Sprintf("%s.RemoveIf(keyhash %d) pcommon.Map [len %d]", st.where(p), salt%1000, before),
		impl: func() {
			v.Interface().(pcommon.Map).RemoveIf(func(k string, _ pcommon.Value) bool { calls++; return keyBit(k, salt) })
		},
		post: func() string {
			if calls != before {
				return fmt.Sprintf("predicate called %d times for %d entries", calls, before)
			}
			return ""
		},
		model: func() {
			for _, k := range append([]string(nil), n.Names...) {
				if keyBit(k, salt) {
					n.DelField(k)
					n.Used, n.Stale = true, true
				}
			}
		}}
}

func (st *state) mkMapClear(p *pos) *step {
	v, n := st.resolve(p), p.n
	return &step{op: "Clear", kind: "map", recv: p, mut: []int{p.r},
		desc:  fmt.Sprintf("%s.Clear() [len %d]", st.where(p), len(n.Kids)),
		impl:  func() { st.call(v, p.ti, "Clear") },
		model: func() { n.Names, n.Kids, n.Used, n.Stale = nil, nil, false, false }}
}

func (st *state) rawValue(depth int) any {
	k := st.rng.Intn(8)
	if depth >= 2 && k >= 6 {
		k = 0
	}
	switch k {
	case 0:
		return st.fl.String()
	case 1:
		return st.fl.Scalar(reflect.TypeOf(int64(0))).Int()
	case 2:
		return st.fl.Scalar(reflect.TypeOf(float64(0))).Float()
	case 3:
		return st.rng.Intn(2) == 0
	case 4:
		return []byte{byte(st.rng.Intn(256)), 2}
	case 5:
		return nil
	case 6:
		return st.rawMap(depth + 1)
	default:
		n := st.rng.Intn(3)
		s := make([]any, n)
		for i := range s {
			s[i] = st.rawValue(depth + 1)
		}
		return s
	}
}

func (st *state) rawMap(depth int) map[string]any {
	m := map[string]any{}
	for i := st.rng.Intn(4); i > 0; i-- {
		m[st.someKey(nil, false)] = st.rawValue(depth)
	}
	return m
}

func (st *state) mkFromRawMapValueSlice(p *pos) *step {
	v, n := st.resolve(p), p.n
	var raw any
	var mn *rp.Node
	switch p.ti.Kind {
	case rp.KMap:
		m := st.rawMap(0)
		raw, mn = m, rawMapToNode(st.reg, m)
	case rp.KValue:
		raw = st.rawValue(0)
		for raw == nil && st.avoid && st.roots[p.r].ro {
			raw = st.rawValue(0) // steering mode keeps clear of known finding C07-e (FromRaw(nil) on read-only data)
		}
		mn = rawToNode(st.reg, raw)
	default: // pcommon.Slice
		s := make([]any, st.rng.Intn(4))
		for i := range s {
			s[i] = st.rawValue(0)
		}
		raw, mn = s, rawSliceToNode(st.reg, s)
	}
	arg := reflect.ValueOf(raw)
	if raw == nil {
		arg = reflect.Zero(reflect.TypeOf((*any)(nil)).Elem())
	}
	var err error
	return &step{op: "FromRaw", kind: kindOf(p.ti), recv: p, mut: []int{p.r},
		desc: fmt.Sprintf("%s.FromRaw(%s) %s", st.where(p), short(fmt.Sprintf("%v", raw)), p.ti.Name),
		impl: func() {
			if e := st.call(v, p.ti, "FromRaw", arg)[0]; !e.IsNil() {
				err = e.Interface().(error)
			}
		},
		post: func() string {
			if err != nil {
				return "FromRaw of supported raw values failed: " + err.Error()
			}
			return ""
		},
		model: func() {
			used, stale := false, false
			*n = *mn
			n.Used, n.Stale = used, stale
		}}
}

// values ---------------------------------------------------------------------------------------------

func (st *state) mkValueSet(p *pos) *step {
	v, n := st.resolve(p), p.n
	var name string
	var args []reflect.Value
	var val *rp.Node
	switch st.rng.Intn(8) {
	case 0:
		name, val = "SetEmptyMap", st.emptyValueOf("Map")
	case 1:
		name, val = "SetEmptySlice", st.emptyValueOf("Slice")
	case 2:
		name, val = "SetEmptyBytes", st.emptyValueOf("Bytes")
	default:
		typ, arg, nd := st.scalarValueNode(n.Leaf)
		name, val, args = "Set"+typ, nd, []reflect.Value{arg}
	}
	return &step{op: "ValueSet", kind: "value", recv: p, mut: []int{p.r},
		desc:  fmt.Sprintf("%s.%s(%s) [was %s]", st.where(p), name, short(val.Kids0Leaf()), n.Leaf),
		impl:  func() { st.call(v, p.ti, name, args...) },
		model: func() { n.Leaf, n.Kids = val.Leaf, val.Kids }}
}

// mkOverwriteSameType overwrites a primitive pcommon.Value with another value of the type it already has.
func (st *state) mkOverwriteSameType(p *pos) *step {
	v, n := st.resolve(p), p.n
	var arg reflect.Value
	switch n.Leaf {
	case "Str":
		arg = reflect.ValueOf(st.fl.String())
	case "Int":
		arg = st.fl.Scalar(reflect.TypeOf(int64(0)))
	case "Double":
		arg = st.fl.Scalar(reflect.TypeOf(float64(0)))
	case "Bool":
		arg = reflect.ValueOf(n.Kids0Leaf() != "true") // the other boolean, so that the write is visible
	default:
		return nil
	}
	typ := n.Leaf
	val := leafNode(rp.LeafOf(arg))
	return &step{op: "OverwriteSameType", kind: "value", recv: p, mut: []int{p.r},
		desc:  fmt.Sprintf("%s.Set%s(%s) [was %s: same type, after a copy]", st.where(p), typ, short(val.Leaf), typ),
		impl:  func() { st.call(v, p.ti, "Set"+typ, arg) },
		model: func() { n.Kids = []*rp.Node{val} }}
}

// afterCopyOverwrites schedules, behind a CopyTo, overwrites of primitives of unchanged type inside the copy
// and inside the source (attributes, bodies, nested slice / map elements): neither side may follow the other.
func (st *state) afterCopyOverwrites(src, dst *pos) {
	if st.roots[dst.r].ro {
		return
	}
	pick := func(side *pos) func() *step {
		return func() *step {
			if st.roots[side.r].ro || st.roots[side.r].m.At(side.path) != side.n {
				return nil
			}
			prims := filter(st.subPositions(side), func(c *pos) bool {
				return c.ti.Kind == rp.KValue && (c.n.Leaf == "Str" || c.n.Leaf == "Int" || c.n.Leaf == "Double" || c.n.Leaf == "Bool")
			})
			if len(prims) == 0 {
				return nil
			}
			st.c.Observe("overwrite_same_type_after_copy", 1)
			c := prims[st.rng.Intn(len(prims))]
			return st.mkOverwriteSameType(&c)
		}
	}
	d, s := *dst, *src
	st.pendingSeq = []func() *step{pick(&d)}
	if st.rng.Intn(2) == 0 {
		st.pendingSeq = append(st.pendingSeq, pick(&s))
	}
	if st.rng.Intn(2) == 0 {
		st.pendingSeq = append(st.pendingSeq, pick(&d))
	}
}

func (st *state) mkRawSet(p *pos) *step {
	v, n := st.resolve(p), p.n
	s := fmt.Sprintf("ts%d=v", func() int64 { st.fl.Ctr++; return st.fl.Ctr }())
	return &step{op: "FromRaw", kind: "raw", recv: p, mut: []int{p.r},
		desc:  fmt.Sprintf("%s.FromRaw(%q) %s", st.where(p), s, p.ti.Name),
		impl:  func() { st.call(v, p.ti, "FromRaw", reflect.ValueOf(s)) },
		model: func() { n.Leaf = s }}
}

// roots ----------------------------------------------------------------------------------------------

func (st *state) mkMarkReadOnly(ri int) *step {
	r := st.roots[ri]
	return &step{op: "MarkReadOnly", kind: "root", recv: &pos{r: ri, n: r.m, ti: r.ti},
		desc: fmt.Sprintf("%s.MarkReadOnly()", r.name),
		impl: func() {
			r.v.MethodByName("MarkReadOnly").Call(nil)
			if !r.v.MethodByName("IsReadOnly").Call(nil)[0].Bool() {
				panic("harness-visible: IsReadOnly() false after MarkReadOnly()")
			}
		},
		model: func() { r.ro = true; st.roPhase = true }}
}
