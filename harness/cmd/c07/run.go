package main

import (
	"fmt"
	"os"
	"runtime/pprof"
	"strings"
	"time"

	"go.opentelemetry.io/collector/pdata/pcommon"
	"go.opentelemetry.io/collector/pdata/plog"
	"go.opentelemetry.io/collector/pdata/pmetric"
	"go.opentelemetry.io/collector/verifharness/lib/driver"
	rp "go.opentelemetry.io/collector/verifharness/lib/reflectpd"
)

func newState(c *driver.Ctx, reg *rp.Registry, i int64) *state {
	rng := c.CaseRand(i)
	return &state{c: c, reg: reg, rng: rng,
		fl: &rp.Filler{R: reg, Rng: rng, MaxLen: 3, MaxDepth: 2, PExtreme: 0.04, PSkip: 0.15, PEmptyAlt: 0.2}}
}

// directed reproducers of the known findings (DESIGN §4.4 C07-a/b/c); they run through the same oracle
// as the random programs, so their signatures are the ones the random programs produce.
type directed struct {
	name string
	run  func(st *state)
}

func (st *state) at(ri int, path ...string) *pos {
	n := st.roots[ri].m.At(path)
	if n == nil {
		panic("harness: directed reproducer: no node at " + strings.Join(path, "/"))
	}
	return &pos{r: ri, path: path, n: n, ti: n.TI}
}

func logsWith(n int, tag string) plog.Logs {
	l := plog.NewLogs()
	s := l.ResourceLogs().AppendEmpty().ScopeLogs().AppendEmpty().LogRecords()
	for i := 0; i < n; i++ {
		s.AppendEmpty().Body().SetStr(fmt.Sprintf("%s%d", tag, i))
	}
	return l
}

var lrPath = []string{"ResourceLogs", "#0", "ScopeLogs", "#0", "LogRecords"}

var directedCases = []directed{
	{"C07-a nil dereference: CopyTo into a pre-sized slice", func(st *state) {
		st.addRoot("L0", logsWith(1, "d"), false)
		st.addRoot("L1", logsWith(3, "s"), false)
		dst := st.at(0, lrPath...)
		if st.exec(&step{op: "EnsureCapacity", kind: "ptrslice", recv: dst, mut: []int{0}, desc: "L0 LogRecords.EnsureCapacity(4)",
			impl:  func() { st.resolve(dst).Interface().(plog.LogRecordSlice).EnsureCapacity(4) },
			model: func() { dst.n.Used = true }}, true) {
			st.exec(st.mkCopyTo(st.at(1, lrPath...), st.at(0, lrPath...)), true)
		}
	}},
	{"C07-a duplicated element: CopyTo into a previously filtered slice", func(st *state) {
		st.addRoot("L0", logsWith(3, "d"), false)
		st.addRoot("L1", logsWith(3, "s"), false)
		dst := st.at(0, lrPath...)
		i := 0
		if st.exec(&step{op: "RemoveIf", kind: "ptrslice", recv: dst, mut: []int{0}, desc: "L0 LogRecords.RemoveIf(index 1)",
			impl: func() {
				st.resolve(dst).Interface().(plog.LogRecordSlice).RemoveIf(func(plog.LogRecord) bool { i++; return i == 2 })
			},
			model: func() { dst.n.Kids = append(dst.n.Kids[:1:1], dst.n.Kids[2]); dst.n.Used, dst.n.Stale = true, true }}, true) {
			st.exec(st.mkCopyTo(st.at(1, lrPath...), st.at(0, lrPath...)), true)
		}
	}},
	{"C07-a latent: two entries aliased by a CopyTo into a filtered slice hold equal content; the aliasing surfaces at a later Set", func(st *state) {
		st.addRoot("L0", logsWith(3, "d"), false)
		src := logsWith(1, "s")
		sl := src.ResourceLogs().At(0).ScopeLogs().At(0).LogRecords()
		sl.AppendEmpty()
		sl.AppendEmpty() // elements 1 and 2 of the source are equal (both empty)
		st.addRoot("L1", src, false)
		dst := st.at(0, lrPath...)
		i := 0
		if !st.exec(&step{op: "RemoveIf", kind: "ptrslice", recv: dst, mut: []int{0}, desc: "L0 LogRecords.RemoveIf(index 1)",
			impl: func() {
				st.resolve(dst).Interface().(plog.LogRecordSlice).RemoveIf(func(plog.LogRecord) bool { i++; return i == 2 })
			},
			model: func() { dst.n.Kids = append(dst.n.Kids[:1:1], dst.n.Kids[2]); dst.n.Used, dst.n.Stale = true, true }}, true) {
			return
		}
		if !st.exec(st.mkCopyTo(st.at(1, lrPath...), st.at(0, lrPath...)), true) {
			return
		}
		e1 := st.at(0, append(append([]string(nil), lrPath...), "#1")...)
		st.exec(st.mkSetField(e1, e1.ti.FieldByName("SeverityText")), true)
	}},
	{"C07-b Map.Remove leaves a stale entry whose value wrapper CopyTo re-uses", func(st *state) {
		d := pcommon.NewMap()
		for _, k := range []string{"a", "b", "c"} {
			d.PutEmptyMap(k).PutStr("old", k)
		}
		s := pcommon.NewMap()
		for _, k := range []string{"x", "y", "z"} {
			s.PutEmptyMap(k).PutStr("new", k)
		}
		st.addRoot("c0:Map", d, false)
		st.addRoot("c1:Map", s, false)
		dst := st.at(0)
		if st.exec(&step{op: "Remove", kind: "map", recv: dst, mut: []int{0}, desc: `c0.Remove("a")`,
			impl:  func() { d.Remove("a") },
			model: func() { dst.n.DelField("a"); dst.n.Used, dst.n.Stale = true, true }}, true) {
			st.exec(st.mkCopyTo(st.at(1), st.at(0)), true)
		}
	}},
	{"C07-b value slice: RemoveIf leaves a stale value whose wrapper CopyTo re-uses", func(st *state) {
		d := pcommon.NewSlice()
		for _, k := range []string{"a", "b", "c"} {
			d.AppendEmpty().SetEmptyMap().PutStr("old", k)
		}
		s := pcommon.NewSlice()
		for _, k := range []string{"x", "y", "z"} {
			s.AppendEmpty().SetEmptyMap().PutStr("new", k)
		}
		st.addRoot("c0:Slice", d, false)
		st.addRoot("c1:Slice", s, false)
		dst := st.at(0)
		i := 0
		if st.exec(&step{op: "RemoveIf", kind: "valslice", recv: dst, mut: []int{0}, desc: `c0.RemoveIf(index 0)`,
			impl:  func() { d.RemoveIf(func(pcommon.Value) bool { i++; return i == 1 }) },
			model: func() { dst.n.Kids = dst.n.Kids[1:]; dst.n.Used, dst.n.Stale = true, true }}, true) {
			st.exec(st.mkCopyTo(st.at(1), st.at(0)), true)
		}
	}},
	{"C07-c CopyTo from a value whose one-of is empty keeps the destination's alternative", func(st *state) {
		m := pmetric.NewMetrics()
		ms := m.ResourceMetrics().AppendEmpty().ScopeMetrics().AppendEmpty().Metrics()
		g := ms.AppendEmpty()
		g.SetName("dest")
		g.SetEmptyGauge().DataPoints().AppendEmpty().SetIntValue(7)
		ms.AppendEmpty().SetName("empty-typed source")
		st.addRoot("M0", m, false)
		mp := []string{"ResourceMetrics", "#0", "ScopeMetrics", "#0", "Metrics"}
		st.exec(st.mkCopyTo(st.at(0, append(mp, "#1")...), st.at(0, append(mp, "#0")...)), true)
	}},
	{"C07-c scalar one-of: NumberDataPoint.CopyTo from an empty-valued point keeps the destination's value", func(st *state) {
		m := pmetric.NewMetrics()
		dps := m.ResourceMetrics().AppendEmpty().ScopeMetrics().AppendEmpty().Metrics().AppendEmpty().SetEmptyGauge().DataPoints()
		dps.AppendEmpty().SetIntValue(7)
		dps.AppendEmpty().SetTimestamp(5)
		st.addRoot("M0", m, false)
		dp := []string{"ResourceMetrics", "#0", "ScopeMetrics", "#0", "Metrics", "#0", "Gauge", "DataPoints"}
		st.exec(st.mkCopyTo(st.at(0, append(dp, "#1")...), st.at(0, append(dp, "#0")...)), true)
	}},
	{"C07-d CopyTo from a value whose optional field is absent keeps the destination's optional field", func(st *state) {
		m := pmetric.NewMetrics()
		dps := m.ResourceMetrics().AppendEmpty().ScopeMetrics().AppendEmpty().Metrics().AppendEmpty().SetEmptyHistogram().DataPoints()
		dps.AppendEmpty().SetSum(7.5)
		dps.AppendEmpty().SetCount(3)
		st.addRoot("M0", m, false)
		dp := []string{"ResourceMetrics", "#0", "ScopeMetrics", "#0", "Metrics", "#0", "Histogram", "DataPoints"}
		st.exec(st.mkCopyTo(st.at(0, append(dp, "#1")...), st.at(0, append(dp, "#0")...)), true)
	}},
	{"C07-e Value.FromRaw(nil) on read-only data does not panic and resets the value", func(st *state) {
		l := logsWith(1, "ro")
		st.addRoot("L0", l, false)
		if st.exec(st.mkMarkReadOnly(0), true) {
			p := st.at(0, append(append([]string(nil), lrPath...), "#0", "Body")...)
			st.exec(&step{op: "FromRaw", kind: "value", recv: p, mut: []int{0}, desc: "L0 LogRecords/#0/Body.FromRaw(nil) pcommon.Value",
				impl:  func() { _ = st.resolve(p).Interface().(pcommon.Value).FromRaw(nil) },
				model: func() { p.n.Leaf, p.n.Kids = "Empty", nil }}, true)
		}
	}},
}

const directedBase = 1000000 // case numbers of the directed reproducers (shard 0)

func run(c *driver.Ctx) {
	reg := rp.NewRegistry(rp.DataCtors())
	if os.Getenv("C07_DUMP") != "" {
		dumpRegistry(reg)
	}
	if pf := os.Getenv("C07_PROF"); pf != "" {
		f, _ := os.Create(pf)
		pprof.StartCPUProfile(f)
		defer pprof.StopCPUProfile()
	}
	if c.Shard == 0 {
		for _, u := range reg.Unmodelled {
			c.Note("method outside the modelled shapes (exercised by the read-only sweep only): %s", u)
		}
		c.Observe("types_discovered", int64(len(reg.Types)))
		nm := 0
		for _, ti := range reg.Types {
			nm += len(ti.Methods)
		}
		c.Observe("methods_discovered", int64(nm))
		for di, d := range directedCases {
			i := directedBase + int64(di)
			if !c.Want(i) {
				continue
			}
			st := newState(c, reg, i)
			st.trace = append(st.trace, "directed: "+d.name)
			pv, stack := driver.Catch(func() { d.run(st) })
			if pv != nil {
				c.Note("directed reproducer %q broke: %v %s", d.name, pv, trim(stack, 600))
				c.Inconclusive("directed-reproducer-broke")
			}
			c.Eval()
			c.Observe("directed_reproducers", 1)
			if !st.failed {
				c.Note("directed reproducer did not reproduce (repaired?): %s", d.name)
			}
		}
	}
	runWrappers(c)
	n := int64(c.N(320, 14000)) // programs per shard
	for i := int64(0); i < n; i++ {
		if !c.Want(i) {
			continue
		}
		st := newState(c, reg, i)
		// The known findings C07-a..e were repaired in /repo (fix: commits), so nothing needs steering around any
		// more: every program is unrestricted. C07_STEER=1 restores the 70 % hazard-avoiding mix that was used
		// while the defects were still in the tree.
		st.avoid = i%10 < 7 && os.Getenv("C07_STEER") != ""
		signal := int((i + int64(c.Shard)) % 4)
		st.newPool(signal)
		forceRO := i%6 == 5
		nSteps := 5 + st.rng.Intn(36)
		pv, stack := driver.Catch(func() {
			if forceRO {
				// a read-only phase somewhere in the middle: the steps after it run against read-only roots
				k := st.rng.Intn(nSteps)
				st.runProgram(k)
				if !st.failed {
					var cands []int
					for ri, r := range st.roots {
						if r.ti.IsRoot && !r.ro {
							cands = append(cands, ri)
						}
					}
					if len(cands) > 0 {
						st.exec(st.mkMarkReadOnly(cands[st.rng.Intn(len(cands))]), true)
					}
				}
				if !st.failed {
					st.runProgram(nSteps - k)
				}
			} else {
				st.runProgram(nSteps)
			}
			if !st.failed {
				for ri, r := range st.roots {
					if r.ro && !st.failed {
						st.roSweep(ri)
					}
				}
			}
			if !st.failed {
				st.codecCrossCheck()
			}
		})
		if pv != nil {
			// a bug of the harness itself: never a verdict
			c.Note("harness panic in program %d: %v %s", i, pv, trim(stack, 800))
			c.Inconclusive("harness-panic")
			continue
		}
		c.Eval()
		c.Observe("programs", 1)
		if st.failed {
			c.Observe("programs_stopped_by_violation:"+map[bool]string{true: "steering", false: "free"}[st.avoid], 1)
		}
		if st.nonFreshDest || st.roPhase {
			c.Nontrivial(strings.Join(st.trace, "\n"))
		}
		if st.roPhase {
			c.Observe("programs_with_readonly_phase", 1)
		}
		for _, r := range st.roots {
			c.Distinct("states", r.m.Hash())
		}
		if i < 2 && c.Shard == 0 {
			c.Sample(map[string]any{"program": st.trace, "mode": map[bool]string{true: "avoid-known-hazards", false: "free"}[st.avoid]})
		}
	}
}

func dumpRegistry(reg *rp.Registry) {
	for _, ti := range reg.Types {
		fmt.Printf("%s kind=%s root=%v ptr=%v\n", ti.Name, kindOf(ti), ti.IsRoot, ti.PtrSlice)
		for _, f := range ti.Fields {
			fmt.Printf("   %-28s set=%v child=%v oneof=%v disc=%q isdisc=%v has=%v derived=%v\n", f.Name, f.Set >= 0, f.Child, f.OneOf, f.Disc, f.IsDisc, f.Has >= 0 || f.IsHasFlag, f.Derived)
		}
	}
	fmt.Println("unmodelled:", reg.Unmodelled)
}

func main() {
	driver.Main(driver.Spec{
		ID:    "C07",
		Level: "exploration",
		Rule: "a case is one seed-determined program of 5-40 public pdata operations (append+populate, put*, remove, remove-if, clear, ensure-capacity, sort, copy-to / move-to / move-and-append-to between distinct same-typed positions of any live value, set-* incl. one-of and optional fields, from-raw, mark-read-only) " +
			"over a pool of 2-5 payloads of one signal, optionally one of another signal and 0-2 free-standing pcommon values; types, fields and methods are discovered by reflection; after every step every live root is compared with the reference tree. " +
			"Distinct = the exact operation sequence; non-trivial = it contains a copy/move/remove(-if) that hit a destination which was not fresh, or a read-only phase. 70% of the programs steer around the preconditions of the known findings so that they run to their end, 30% are unrestricted.",
		Assumptions: []string{
			"operands of binary operations are distinct, non-overlapping values (neither contains the other)",
			"pcommon.Map is compared as an unordered key/value set (its public API never creates duplicate keys); derived counters (LogRecordCount …) are called but not compared",
			"mutators are recognised by name (Set*|Put*|Append*|Remove*|Ensure*|Move*|Sort|FromRaw|Clear, CopyTo for its destination); a method classified as reader that changed or panicked on read-only data would be reported",
			"in the reflective programs values held across a mutation (wrappers obtained before an append) are not exercised: every step re-resolves its operands from the roots; handles held across a MoveAndAppendTo between two payloads are exercised by the separate family of wrappers.go (resource / scope / item level of the four signals), as are the OTLP ExportRequest wrappers over a read-only payload",
		},
		TrustedBase:   []string{"package reflect; the generic reference tree of cmd/c07/model.go; discriminator codes of one-of alternatives are read once from fresh values"},
		Shards:        func(string) int { return 16 },
		MinNontrivial: func(tier string) int { return map[string]int{"quick": 1500, "thorough": 100000}[tier] },
		ShardTimeout: func(tier string) time.Duration {
			return map[string]time.Duration{"quick": 30 * time.Minute, "thorough": 120 * time.Minute}[tier]
		},
		Run:        run,
		MaxSamples: 2,
	})
}
