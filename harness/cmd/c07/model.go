package main

import (
	"reflect"
	"sort"
	"strings"

	rp "go.opentelemetry.io/collector/verifharness/lib/reflectpd"
)

// The reference model is a plain tree (rp.Node): struct = named fields, slice = list, map = sorted
// key/value list, pcommon.Value = type + payload. The functions below are the "obvious" semantics of
// the public operations on that tree. Besides the content they maintain two bookkeeping flags per
// container that are never compared with the implementation and only serve to *name the precondition*
// of a divergence in the violation signature (so that known findings can be matched narrowly):
//   Used  (called "spare" below): the container may own a backing array whose capacity exceeds its length
//   Stale: elements were removed / the container was shrunk, i.e. old entries may sit behind its length

func leafNode(s string) *rp.Node { return &rp.Node{Kind: rp.KLeaf, Leaf: s} }

func isContainer(n *rp.Node) bool {
	return n.Kind == rp.KSlice || n.Kind == rp.KMap || n.Kind == rp.KPrim
}

// markFilled flags every non-empty container of a freshly filled tree as possibly having spare capacity
// (it was built with AppendEmpty / PutEmpty / Append).
func markFilled(n *rp.Node) {
	if n == nil {
		return
	}
	if isContainer(n) && len(n.Kids) > 0 {
		n.Used = true
	}
	for _, k := range n.Kids {
		markFilled(k)
	}
}

func setFlags(n *rp.Node, spare, stale bool) {
	if n == nil {
		return
	}
	if isContainer(n) {
		n.Used, n.Stale = spare, stale
	}
	for _, k := range n.Kids {
		setFlags(k, spare, stale)
	}
}

func cloneFresh(n *rp.Node) *rp.Node { c := n.Clone(); setFlags(c, false, false); return c }
func cloneDirty(n *rp.Node) *rp.Node { c := n.Clone(); setFlags(c, true, true); return c }

func anyDirty(n *rp.Node) bool {
	if n == nil {
		return false
	}
	if isContainer(n) && (n.Used || n.Stale) {
		return true
	}
	for _, k := range n.Kids {
		if anyDirty(k) {
			return true
		}
	}
	return false
}

// copyInto makes d equal to s (content: a deep copy) following the documented CopyTo semantics.
func copyInto(s, d *rp.Node) {
	switch s.Kind {
	case rp.KLeaf, rp.KRaw:
		d.Kind, d.Leaf = s.Kind, s.Leaf
	case rp.KStruct:
		kids := make([]*rp.Node, len(s.Kids))
		for i, name := range s.Names {
			sk := s.Kids[i]
			dk := d.Field(name)
			var f *rp.Field
			if s.TI != nil {
				f = s.TI.FieldByName(name)
			}
			if dk == nil || sk.Kind == rp.KLeaf || dk.Kind != sk.Kind || (f != nil && f.OneOf && f.SetEmpty >= 0) {
				kids[i] = cloneFresh(sk)
			} else {
				copyInto(sk, dk)
				kids[i] = dk
			}
		}
		d.Names = append([]string(nil), s.Names...)
		d.Kids = kids
	case rp.KSlice:
		ns, nd := len(s.Kids), len(d.Kids)
		mayReuse := ns <= nd || d.Used
		kids := make([]*rp.Node, ns)
		for i := range kids {
			switch {
			case mayReuse && i < nd:
				copyInto(s.Kids[i], d.Kids[i])
				kids[i] = d.Kids[i]
			case mayReuse && d.Stale:
				kids[i] = cloneDirty(s.Kids[i])
			default:
				kids[i] = cloneFresh(s.Kids[i])
			}
		}
		switch {
		case ns < nd:
			d.Used, d.Stale = true, true
		case ns > nd && !d.Used:
			d.Used, d.Stale = false, false
		}
		d.Kids = kids
	case rp.KMap:
		dirty := anyDirty(d)
		ns, nd := len(s.Kids), len(d.Kids)
		kids := make([]*rp.Node, ns)
		for i := range kids {
			if dirty {
				kids[i] = cloneDirty(s.Kids[i])
			} else {
				kids[i] = cloneFresh(s.Kids[i])
			}
		}
		switch {
		case ns < nd:
			d.Used, d.Stale = true, true
		case ns > nd && !d.Used:
			d.Used, d.Stale = false, false
		}
		d.Names = append([]string(nil), s.Names...)
		d.Kids = kids
	case rp.KValue:
		if s.Leaf == d.Leaf && (s.Leaf == "Map" || s.Leaf == "Slice") && len(s.Kids) == 1 && len(d.Kids) == 1 {
			copyInto(s.Kids[0], d.Kids[0])
			return
		}
		d.Leaf = s.Leaf
		d.Kids = nil
		for _, k := range s.Kids {
			d.Kids = append(d.Kids, cloneFresh(k))
		}
	case rp.KPrim:
		d.Kids = nil
		for _, k := range s.Kids {
			d.Kids = append(d.Kids, k.Clone())
		}
		d.Used = true
	}
}

// hazards walks source and destination in parallel the way CopyTo recurses and names the
// preconditions of the defect families known on the pinned tree (DESIGN §4.4 C07-a/b/c):
//
//	ptrslice-spare   slice of pointers: destination shorter than the source but possibly with spare capacity
//	valslice-stale   slice of values: destination shorter than the source and holding stale entries
//	map-stale        map: destination shorter than the source and holding stale entries (or nested ones)
//	oneof-empty-src  source one-of is empty, destination's is not
//	optional-absent  source optional field absent, destination's present
func hazards(s, d *rp.Node, acc map[string]bool) {
	if s == nil || d == nil || s.Kind != d.Kind {
		return
	}
	switch s.Kind {
	case rp.KStruct:
		ti := s.TI
		if ti != nil && ti.DiscField != nil {
			sd, dd := s.Field(ti.DiscField.Name), d.Field(ti.DiscField.Name)
			if sd != nil && dd != nil && sd.Leaf == ti.EmptyDisc && dd.Leaf != ti.EmptyDisc {
				acc["oneof-empty-src"] = true
			}
		}
		for i, name := range s.Names {
			var f *rp.Field
			if ti != nil {
				f = ti.FieldByName(name)
			}
			if f != nil && f.IsHasFlag {
				if dk := d.Field(name); dk != nil && s.Kids[i].Leaf == "false" && dk.Leaf == "true" {
					acc["optional-absent"] = true
				}
			}
			if f != nil && f.OneOf && f.SetEmpty >= 0 {
				continue // destination alternative is re-created empty
			}
			if s.Kids[i].Kind != rp.KLeaf {
				hazards(s.Kids[i], d.Field(name), acc)
			}
		}
	case rp.KSlice:
		ns, nd := len(s.Kids), len(d.Kids)
		ptr := s.TI != nil && s.TI.PtrSlice
		if ns > nd {
			switch {
			case ptr && d.Used:
				acc["ptrslice-spare"] = true
			case !ptr && d.Stale:
				acc["valslice-stale"] = true
			}
		}
		if ns <= nd || d.Used {
			for i := 0; i < ns && i < nd; i++ {
				hazards(s.Kids[i], d.Kids[i], acc)
			}
		}
	case rp.KMap:
		if len(s.Kids) > 0 && (len(s.Kids) > len(d.Kids) && d.Stale || nestedStale(d)) {
			acc["map-stale"] = true
		}
	case rp.KValue:
		if s.Leaf == d.Leaf && len(s.Kids) == 1 && len(d.Kids) == 1 {
			hazards(s.Kids[0], d.Kids[0], acc)
		}
	}
}

func nestedStale(n *rp.Node) bool {
	for _, k := range n.Kids {
		if isContainer(k) && k.Stale || nestedStale(k) {
			return true
		}
	}
	return false
}

func hazardString(acc map[string]bool) string {
	if len(acc) == 0 {
		return "none"
	}
	ks := make([]string, 0, len(acc))
	for k := range acc {
		ks = append(ks, k)
	}
	sort.Strings(ks)
	return strings.Join(ks, "+")
}

// rawToNode builds the model of a pcommon.Value from the raw Go value handed to FromRaw.
func rawToNode(reg *rp.Registry, raw any) *rp.Node {
	vti := reg.InfoByName("pcommon.Value")
	n := &rp.Node{Kind: rp.KValue, TI: vti}
	switch x := raw.(type) {
	case nil:
		n.Leaf = "Empty"
	case string:
		n.Leaf, n.Kids = "Str", []*rp.Node{leafNode("s:" + x)}
	case int64:
		n.Leaf, n.Kids = "Int", []*rp.Node{leafNode(rp.LeafOf(reflect.ValueOf(x)))}
	case float64:
		n.Leaf, n.Kids = "Double", []*rp.Node{leafNode(rp.LeafOf(reflect.ValueOf(x)))}
	case bool:
		n.Leaf, n.Kids = "Bool", []*rp.Node{leafNode(rp.LeafOf(reflect.ValueOf(x)))}
	case []byte:
		b := &rp.Node{Kind: rp.KPrim, TI: reg.InfoByName("pcommon.ByteSlice")}
		for _, c := range x {
			b.Kids = append(b.Kids, leafNode(rp.LeafOf(reflect.ValueOf(c))))
		}
		n.Leaf, n.Kids = "Bytes", []*rp.Node{b}
	case map[string]any:
		n.Leaf, n.Kids = "Map", []*rp.Node{rawMapToNode(reg, x)}
	case []any:
		n.Leaf, n.Kids = "Slice", []*rp.Node{rawSliceToNode(reg, x)}
	default:
		panic("rawToNode: unsupported raw type")
	}
	return n
}

func rawMapToNode(reg *rp.Registry, x map[string]any) *rp.Node {
	m := &rp.Node{Kind: rp.KMap, TI: reg.InfoByName("pcommon.Map")}
	for k, v := range x {
		m.SetField(k, rawToNode(reg, v))
	}
	return m
}

func rawSliceToNode(reg *rp.Registry, x []any) *rp.Node {
	s := &rp.Node{Kind: rp.KSlice, TI: reg.InfoByName("pcommon.Slice")}
	for _, v := range x {
		s.Kids = append(s.Kids, rawToNode(reg, v))
	}
	return s
}
