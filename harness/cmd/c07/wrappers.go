package main

// Two families outside the reflective programs.
//
// (A) OTLP request wrappers over a read-only payload. p<signal>otlp.NewExportRequestFrom<Signal>(x) is a second view
// of x's data (a receiver builds one around what it decoded, an exporter around what it is about to send). Its
// UnmarshalProto / UnmarshalJSON overwrite / merge into that data: on a read-only payload they are mutators like any
// other — they must panic and change nothing.
//
// (B) Handles taken before a move. An element handle obtained from a slice keeps working after the element was moved
// into another payload (MoveAndAppendTo moves pointers). When the destination payload is then marked read-only the
// element is reachable from a read-only payload: a mutator called through the old handle must panic, too.

import (
	"bytes"
	"fmt"
	"math/rand"

	"go.opentelemetry.io/collector/pdata/plog"
	"go.opentelemetry.io/collector/pdata/plog/plogotlp"
	"go.opentelemetry.io/collector/pdata/pmetric"
	"go.opentelemetry.io/collector/pdata/pmetric/pmetricotlp"
	"go.opentelemetry.io/collector/pdata/pprofile"
	"go.opentelemetry.io/collector/pdata/pprofile/pprofileotlp"
	"go.opentelemetry.io/collector/pdata/ptrace"
	"go.opentelemetry.io/collector/pdata/ptrace/ptraceotlp"
	"go.opentelemetry.io/collector/verifharness/lib/driver"
	"go.opentelemetry.io/collector/verifharness/lib/gen"
)

const wrapperBase = int64(3_000_000_000)

type wrapSig struct {
	name    string
	build   func(g *gen.G) any
	proto   func(p any) []byte
	json    func(p any) []byte
	ro      func(p any)
	reqOps  func(p any) map[string]func([]byte) error // UnmarshalProto / UnmarshalJSON of a request wrapper around p
	handles func(p, dst any) []staleOp                // takes handles into p, moves p's content into dst
}

type staleOp struct {
	level  string
	mutate func()
}

func must(b []byte, err error) []byte {
	if err != nil {
		panic(err)
	}
	return b
}

var wrapSigs = []wrapSig{
	{
		name:  "logs",
		build: func(g *gen.G) any { return g.Logs() },
		proto: func(p any) []byte { return must((&plog.ProtoMarshaler{}).MarshalLogs(p.(plog.Logs))) },
		json:  func(p any) []byte { return must((&plog.JSONMarshaler{}).MarshalLogs(p.(plog.Logs))) },
		ro:    func(p any) { p.(plog.Logs).MarkReadOnly() },
		reqOps: func(p any) map[string]func([]byte) error {
			r := plogotlp.NewExportRequestFromLogs(p.(plog.Logs))
			return map[string]func([]byte) error{"UnmarshalProto": r.UnmarshalProto, "UnmarshalJSON": r.UnmarshalJSON}
		},
		handles: func(p, dst any) []staleOp {
			a, b := p.(plog.Logs), dst.(plog.Logs)
			var ops []staleOp
			if a.ResourceLogs().Len() > 0 {
				rl := a.ResourceLogs().At(0)
				ops = append(ops, staleOp{"resource", func() { rl.Resource().Attributes().PutStr("stale", "x") }}, staleOp{"resource-schema", func() { rl.SetSchemaUrl("stale") }})
				if rl.ScopeLogs().Len() > 0 {
					sl := rl.ScopeLogs().At(0)
					ops = append(ops, staleOp{"scope", func() { sl.Scope().SetName("stale") }})
					if sl.LogRecords().Len() > 0 {
						lr := sl.LogRecords().At(0)
						ops = append(ops, staleOp{"item", func() { lr.Body().SetStr("stale") }}, staleOp{"item-remove", func() { sl.LogRecords().RemoveIf(func(plog.LogRecord) bool { return true }) }})
					}
				}
			}
			a.ResourceLogs().MoveAndAppendTo(b.ResourceLogs())
			return ops
		},
	},
	{
		name:  "traces",
		build: func(g *gen.G) any { return g.Traces() },
		proto: func(p any) []byte { return must((&ptrace.ProtoMarshaler{}).MarshalTraces(p.(ptrace.Traces))) },
		json:  func(p any) []byte { return must((&ptrace.JSONMarshaler{}).MarshalTraces(p.(ptrace.Traces))) },
		ro:    func(p any) { p.(ptrace.Traces).MarkReadOnly() },
		reqOps: func(p any) map[string]func([]byte) error {
			r := ptraceotlp.NewExportRequestFromTraces(p.(ptrace.Traces))
			return map[string]func([]byte) error{"UnmarshalProto": r.UnmarshalProto, "UnmarshalJSON": r.UnmarshalJSON}
		},
		handles: func(p, dst any) []staleOp {
			a, b := p.(ptrace.Traces), dst.(ptrace.Traces)
			var ops []staleOp
			if a.ResourceSpans().Len() > 0 {
				rs := a.ResourceSpans().At(0)
				ops = append(ops, staleOp{"resource", func() { rs.Resource().Attributes().PutStr("stale", "x") }})
				if rs.ScopeSpans().Len() > 0 {
					ss := rs.ScopeSpans().At(0)
					ops = append(ops, staleOp{"scope", func() { ss.Scope().SetVersion("stale") }})
					if ss.Spans().Len() > 0 {
						sp := ss.Spans().At(0)
						ops = append(ops, staleOp{"item", func() { sp.SetName("stale") }}, staleOp{"item-child", func() { sp.Events().AppendEmpty().SetName("stale") }})
					}
				}
			}
			a.ResourceSpans().MoveAndAppendTo(b.ResourceSpans())
			return ops
		},
	},
	{
		name:  "metrics",
		build: func(g *gen.G) any { return g.Metrics() },
		proto: func(p any) []byte { return must((&pmetric.ProtoMarshaler{}).MarshalMetrics(p.(pmetric.Metrics))) },
		json:  func(p any) []byte { return must((&pmetric.JSONMarshaler{}).MarshalMetrics(p.(pmetric.Metrics))) },
		ro:    func(p any) { p.(pmetric.Metrics).MarkReadOnly() },
		reqOps: func(p any) map[string]func([]byte) error {
			r := pmetricotlp.NewExportRequestFromMetrics(p.(pmetric.Metrics))
			return map[string]func([]byte) error{"UnmarshalProto": r.UnmarshalProto, "UnmarshalJSON": r.UnmarshalJSON}
		},
		handles: func(p, dst any) []staleOp {
			a, b := p.(pmetric.Metrics), dst.(pmetric.Metrics)
			var ops []staleOp
			if a.ResourceMetrics().Len() > 0 {
				rm := a.ResourceMetrics().At(0)
				ops = append(ops, staleOp{"resource", func() { rm.Resource().Attributes().PutStr("stale", "x") }})
				if rm.ScopeMetrics().Len() > 0 {
					sm := rm.ScopeMetrics().At(0)
					ops = append(ops, staleOp{"scope", func() { sm.Scope().SetName("stale") }})
					if sm.Metrics().Len() > 0 {
						m := sm.Metrics().At(0)
						ops = append(ops, staleOp{"item", func() { m.SetName("stale") }}, staleOp{"item-type", func() { m.SetEmptyGauge() }})
					}
				}
			}
			a.ResourceMetrics().MoveAndAppendTo(b.ResourceMetrics())
			return ops
		},
	},
	{
		name:  "profiles",
		build: func(g *gen.G) any { return g.Profiles() },
		proto: func(p any) []byte { return must((&pprofile.ProtoMarshaler{}).MarshalProfiles(p.(pprofile.Profiles))) },
		json:  func(p any) []byte { return must((&pprofile.JSONMarshaler{}).MarshalProfiles(p.(pprofile.Profiles))) },
		ro:    func(p any) { p.(pprofile.Profiles).MarkReadOnly() },
		reqOps: func(p any) map[string]func([]byte) error {
			r := pprofileotlp.NewExportRequestFromProfiles(p.(pprofile.Profiles))
			return map[string]func([]byte) error{"UnmarshalProto": r.UnmarshalProto, "UnmarshalJSON": r.UnmarshalJSON}
		},
		handles: func(p, dst any) []staleOp {
			a, b := p.(pprofile.Profiles), dst.(pprofile.Profiles)
			var ops []staleOp
			if a.ResourceProfiles().Len() > 0 {
				rp := a.ResourceProfiles().At(0)
				ops = append(ops, staleOp{"resource", func() { rp.Resource().Attributes().PutStr("stale", "x") }})
				if rp.ScopeProfiles().Len() > 0 {
					sp := rp.ScopeProfiles().At(0)
					ops = append(ops, staleOp{"scope", func() { sp.Scope().SetName("stale") }})
					if sp.Profiles().Len() > 0 {
						pr := sp.Profiles().At(0)
						ops = append(ops, staleOp{"item", func() { pr.SetDroppedAttributesCount(77777) }})
					}
				}
			}
			a.ResourceProfiles().MoveAndAppendTo(b.ResourceProfiles())
			return ops
		},
	},
}

func isReadOnlyPanic(pv any) bool {
	return pv != nil && panicClass(pv) == "read-only"
}

func runWrappers(c *driver.Ctx) {
	n := int64(c.N(60, 2500))
	for k := int64(0); k < n; k++ {
		i := wrapperBase + k
		if !c.Want(i) {
			continue
		}
		rng := c.CaseRand(i)
		ws := wrapSigs[int(k+int64(c.Shard))%len(wrapSigs)]
		cfg := gen.Config{MaxResources: 3, MaxScopes: 2, MaxItems: 3, MaxPoints: 2, NonEmpty: rng.Intn(4) > 0}
		if k%2 == 0 {
			wrapperRequestCase(c, ws, rng, cfg, i)
		} else {
			wrapperStaleCase(c, ws, rng, cfg, i)
		}
		c.Eval()
	}
}

func wrapperRequestCase(c *driver.Ctx, ws wrapSig, rng *rand.Rand, cfg gen.Config, i int64) {
	p := ws.build(gen.New(rng, "ro", cfg))
	q := ws.build(gen.New(rng, "in", cfg))
	inputs := map[string][]byte{"UnmarshalProto": ws.proto(q), "UnmarshalJSON": ws.json(q)}
	kind := []string{"other-payload", "own-bytes", "empty", "garbage"}[rng.Intn(4)]
	switch kind {
	case "own-bytes":
		inputs = map[string][]byte{"UnmarshalProto": ws.proto(p), "UnmarshalJSON": ws.json(p)}
	case "empty":
		inputs = map[string][]byte{"UnmarshalProto": {}, "UnmarshalJSON": []byte("{}")}
	case "garbage":
		inputs = map[string][]byte{"UnmarshalProto": {0xff, 0xff, 0x01}, "UnmarshalJSON": []byte("{\"resource")}
	}
	ws.ro(p)
	before := ws.proto(p)
	ops := ws.reqOps(p)
	for _, name := range []string{"UnmarshalProto", "UnmarshalJSON"} {
		var err error
		pv, stack := driver.Catch(func() { err = ops[name](inputs[name]) })
		after := ws.proto(p)
		changed := !bytes.Equal(before, after)
		c.Observe("request_wrapper_mutators_on_readonly", 1)
		c.Nontrivial("request-wrapper", ws.name, name, kind, len(before))
		wit := map[string]any{"signal": ws.name, "op": name, "input": kind, "returned_error": fmt.Sprint(err), "payload_bytes_before": len(before), "payload_bytes_after": len(after)}
		switch {
		case isReadOnlyPanic(pv) && !changed:
		case pv != nil && !isReadOnlyPanic(pv):
			c.Violation("readonly", fmt.Sprintf("%s ExportRequest.%s (input: %s) on a request that wraps a read-only payload panicked with %q at %s instead of the read-only panic", ws.name, name, kind, fmt.Sprint(pv), driver.PanicSite(stack)), wit,
				"kind", "request-wrapper", "op", name, "fault", "other-panic")
		case changed:
			c.Violation("readonly", fmt.Sprintf("%s ExportRequest.%s (input: %s) on a request that wraps a read-only payload did not panic (returned %v) and changed the payload (%d -> %d bytes)", ws.name, name, kind, err, len(before), len(after)), wit,
				"kind", "request-wrapper", "op", name, "fault", "no-panic-changed")
			before = after
		case pv == nil:
			c.Violation("readonly", fmt.Sprintf("%s ExportRequest.%s (input: %s) on a request that wraps a read-only payload did not panic (returned %v)", ws.name, name, kind, err), wit,
				"kind", "request-wrapper", "op", name, "fault", "no-panic-unchanged")
		default:
			c.Violation("readonly", fmt.Sprintf("%s ExportRequest.%s (input: %s) panicked but changed the read-only payload first", ws.name, name, kind), wit,
				"kind", "request-wrapper", "op", name, "fault", "panic-changed")
			before = after
		}
	}
}

func wrapperStaleCase(c *driver.Ctx, ws wrapSig, rng *rand.Rand, cfg gen.Config, i int64) {
	cfg.NonEmpty = true
	a := ws.build(gen.New(rng, "src", cfg))
	b := ws.build(gen.New(rng, "dst", cfg))
	ops := ws.handles(a, b)
	ws.ro(b)
	before := ws.proto(b)
	for _, op := range ops {
		pv, stack := driver.Catch(op.mutate)
		after := ws.proto(b)
		changed := !bytes.Equal(before, after)
		c.Observe("handles_from_before_a_move_used_on_readonly", 1)
		c.Nontrivial("stale-handle", ws.name, op.level, len(before))
		wit := map[string]any{"signal": ws.name, "level": op.level, "changed": changed, "panic": fmt.Sprint(pv)}
		switch {
		case isReadOnlyPanic(pv) && !changed:
		case pv != nil && !isReadOnlyPanic(pv):
			c.Violation("readonly", fmt.Sprintf("%s: a mutator called through a %s handle taken before MoveAndAppendTo panicked with %q at %s instead of the read-only panic", ws.name, op.level, fmt.Sprint(pv), driver.PanicSite(stack)), wit,
				"kind", "handle-from-before-move", "op", "-", "fault", "other-panic")
		case changed:
			c.Violation("readonly", fmt.Sprintf("%s: a mutator called through a %s handle that was taken before its element was moved (MoveAndAppendTo) into a payload now marked read-only did not panic and changed that payload", ws.name, op.level), wit,
				"kind", "handle-from-before-move", "op", "-", "fault", "no-panic-changed")
			before = after
		default:
			c.Violation("readonly", fmt.Sprintf("%s: a mutator called through a %s handle taken before MoveAndAppendTo did not panic although its element is reachable from a read-only payload", ws.name, op.level), wit,
				"kind", "handle-from-before-move", "op", "-", "fault", "no-panic-unchanged")
		}
	}
}
