package main

import (
	"fmt"
	"math"
	"reflect"
	"sort"
	"strconv"
	"strings"

	"go.opentelemetry.io/collector/pdata/plog"
	"go.opentelemetry.io/collector/pdata/pmetric"
	"go.opentelemetry.io/collector/pdata/pprofile"
	"go.opentelemetry.io/collector/pdata/ptrace"
	"go.opentelemetry.io/collector/verifharness/lib/driver"
	rp "go.opentelemetry.io/collector/verifharness/lib/reflectpd"
)

// ---------------------------------------------------------------------------------------------
// pool

func (st *state) addRoot(name string, x any, fill bool) *root {
	v := reflect.ValueOf(x)
	if fill {
		st.fl.Budget = 25 + st.rng.Intn(30)
		st.fl.Fill(v)
	}
	r := &root{name: name, v: v, ti: st.reg.Info(v.Type())}
	r.m = st.reg.Snapshot(v)
	markFilled(r.m)
	st.roots = append(st.roots, r)
	return r
}

func (st *state) newPool(signal int) {
	st.roots = nil
	n := 2 + st.rng.Intn(3)
	letter := []string{"L", "T", "M", "P"}
	for i := 0; i < n; i++ {
		st.addRoot(letter[signal]+strconv.Itoa(i), rp.SignalCtors[signal].New(), i < 2 || st.rng.Intn(3) > 0)
	}
	if st.rng.Intn(3) == 0 {
		o := st.rng.Intn(4)
		st.addRoot(letter[o]+"x", rp.SignalCtors[o].New(), true)
	}
	for i := st.rng.Intn(3); i > 0; i-- {
		c := rp.CommonCtors[st.rng.Intn(len(rp.CommonCtors))]
		st.addRoot("c"+strconv.Itoa(i)+":"+strings.TrimPrefix(c.Name, "pcommon."), c.New(), st.rng.Intn(4) > 0)
	}
}

// ---------------------------------------------------------------------------------------------
// random step

func (st *state) mutableRoot(p *pos) bool { return !st.roots[p.r].ro }

func (st *state) nextStep(all []pos) []*step {
	one := func(s *step) []*step {
		if s == nil {
			return nil
		}
		return []*step{s}
	}
	// steps that must panic because they hit a read-only root are kept, but thinned out
	thin := func(p *pos) bool { return st.mutableRoot(p) || st.rng.Intn(4) == 0 }
	has := func(m string) func(*pos) bool {
		return func(p *pos) bool { return p.ti.Has(m) && thin(p) }
	}
	r := st.rng.Intn(100)
	switch {
	case r < 24: // copy-to between distinct values
		src := st.pickByType(filter(all, func(p *pos) bool { return p.ti.Has("CopyTo") && (len(p.path) > 0 || !p.ti.IsRoot) }))
		if src == nil {
			return nil
		}
		dst := st.destFor(src, filter(all, thin), st.avoid)
		if dst == nil {
			return nil
		}
		cp := st.mkCopyTo(src, dst)
		if st.rng.Intn(3) == 0 {
			st.afterCopyOverwrites(src, dst)
		}
		return one(cp)
	case r < 38: // move-to / move-and-append-to
		if st.rng.Intn(2) == 0 {
			src := st.pickByType(filter(all, func(p *pos) bool { return p.ti.Has("MoveAndAppendTo") && thin(p) }))
			if src == nil {
				return nil
			}
			dst := st.destFor(src, filter(all, thin), false)
			if dst == nil {
				return nil
			}
			return one(st.mkMoveAndAppendTo(src, dst))
		}
		src := st.pickByType(filter(all, func(p *pos) bool { return p.ti.Has("MoveTo") && thin(p) }))
		if src == nil {
			return nil
		}
		dst := st.destFor(src, filter(all, thin), false)
		if dst == nil {
			return nil
		}
		return one(st.mkMoveTo(src, dst))
	case r < 50: // remove
		switch st.rng.Intn(6) {
		case 0, 1, 2:
			p := st.pickByType(filter(all, func(p *pos) bool { return p.ti.Kind == rp.KSlice && thin(p) }))
			if p == nil {
				return nil
			}
			return one(st.mkRemoveIf(p))
		case 3:
			p := st.pickByType(filter(all, func(p *pos) bool { return p.ti.Kind == rp.KMap && thin(p) }))
			if p == nil {
				return nil
			}
			switch st.rng.Intn(6) {
			case 0:
				return one(st.mkMapClear(p))
			case 1, 2:
				return one(st.mkMapRemoveIf(p))
			}
			return one(st.mkMapRemove(p))
		default:
			p := st.pickByType(filter(all, func(p *pos) bool {
				if p.ti.Kind != rp.KStruct || !thin(p) {
					return false
				}
				for _, f := range p.ti.Fields {
					if f.Remove >= 0 {
						return true
					}
				}
				return false
			}))
			if p == nil {
				return nil
			}
			return one(st.mkRemoveOptional(p))
		}
	case r < 62: // append (+ populate the new element through modelled operations)
		p := st.pickByType(filter(all, func(p *pos) bool {
			return (p.ti.Kind == rp.KSlice || p.ti.Kind == rp.KPrim) && len(p.path) < 14 && thin(p)
		}))
		if p == nil {
			return nil
		}
		if p.ti.Kind == rp.KPrim {
			return one(st.mkPrimAppend(p))
		}
		return []*step{st.mkAppendEmpty(p), nil} // nil = "populate the appended element" marker
	case r < 80: // set-*
		switch st.rng.Intn(10) {
		case 0, 1, 2, 3:
			p := st.pickByType(filter(all, func(p *pos) bool { return p.ti.Kind == rp.KStruct && !p.ti.IsRoot && thin(p) }))
			if p == nil {
				return nil
			}
			return one(st.mkSetScalar(p))
		case 4:
			p := st.pickByType(filter(all, func(p *pos) bool { return p.ti.Kind == rp.KStruct && p.ti.DiscField != nil && thin(p) }))
			if p == nil {
				return nil
			}
			if s := st.mkSetEmptyAlt(p); s != nil {
				return one(s)
			}
			return one(st.mkSetScalar(p))
		case 5, 6, 7:
			p := st.pickByType(filter(all, func(p *pos) bool { return p.ti.Kind == rp.KValue && thin(p) }))
			if p == nil {
				return nil
			}
			return one(st.mkValueSet(p))
		case 8:
			p := st.pickByType(filter(all, func(p *pos) bool { return p.ti.Kind == rp.KRaw && thin(p) }))
			if p == nil {
				return nil
			}
			return one(st.mkRawSet(p))
		default:
			p := st.pickByType(filter(all, func(p *pos) bool { return p.ti.Kind == rp.KPrim && thin(p) }))
			if p == nil {
				return nil
			}
			return one(st.mkPrimSetAt(p))
		}
	case r < 86:
		p := st.pickByType(filter(all, func(p *pos) bool { return p.ti.Kind == rp.KMap && thin(p) }))
		if p == nil {
			return nil
		}
		return one(st.mkMapPut(p))
	case r < 91:
		p := st.pickByType(filter(all, has("EnsureCapacity")))
		if p == nil {
			return nil
		}
		return one(st.mkEnsureCapacity(p))
	case r < 94:
		p := st.pickByType(filter(all, has("Sort")))
		if p == nil {
			return nil
		}
		return one(st.mkSort(p))
	case r < 98:
		if r >= 96 { // from-raw with a shared raw input that is mutated afterwards (fromraw.go)
			if seq := st.fromRawScenario(all); len(seq) > 0 {
				if first := seq[0](); first != nil {
					st.pendingSeq = seq[1:]
					return one(first)
				}
			}
			return nil
		}
		p := st.pickByType(filter(all, func(p *pos) bool { return p.ti.Has("FromRaw") && p.ti.Kind != rp.KRaw && thin(p) }))
		if p == nil {
			return nil
		}
		if p.ti.Kind == rp.KPrim {
			return one(st.mkPrimFromRaw(p))
		}
		return one(st.mkFromRawMapValueSlice(p))
	case r < 99: // whole-payload CopyTo
		src := st.pickByType(filter(all, func(p *pos) bool { return len(p.path) == 0 && p.ti.IsRoot }))
		if src == nil {
			return nil
		}
		dst := st.destFor(src, filter(all, func(p *pos) bool { return len(p.path) == 0 && thin(p) }), st.avoid)
		if dst == nil {
			return nil
		}
		return one(st.mkCopyTo(src, dst))
	default:
		var cands []int
		mutable := 0
		for i, r := range st.roots {
			if r.ti.IsRoot && !r.ro {
				cands = append(cands, i)
			}
			if !r.ro {
				mutable++
			}
		}
		if len(cands) == 0 || mutable < 2 {
			return nil
		}
		return one(st.mkMarkReadOnly(cands[st.rng.Intn(len(cands))]))
	}
}

// populate fills a freshly appended element through modelled operations (no read-back from the
// implementation), so that elements are distinguishable and containers nested in them are non-trivial.
func (st *state) populate(p pos, depth int) bool {
	run := func(s *step) bool {
		if s == nil {
			return true
		}
		return st.exec(s, false)
	}
	switch p.ti.Kind {
	case rp.KStruct:
		var alts []*rp.Field
		for _, f := range p.ti.Fields {
			switch {
			case f.OneOf:
				alts = append(alts, f)
			case f.Scalar != nil && f.Set >= 0:
				if st.rng.Intn(2) == 0 {
					if !run(st.mkSetField(&p, f)) {
						return false
					}
				}
			case f.Scalar == nil && depth < 2 && st.rng.Intn(3) == 0:
				if c := p.n.Field(f.Name); c != nil {
					if !st.populate(pos{r: p.r, path: append(append([]string(nil), p.path...), f.Name), n: c, ti: f.Child}, depth+1) {
						return false
					}
				}
			}
		}
		if len(alts) > 0 && st.rng.Intn(4) > 0 {
			a := alts[st.rng.Intn(len(alts))]
			if a.SetEmpty < 0 {
				return run(st.mkSetField(&p, a))
			}
			v, n := st.resolve(&p), p.n
			s := &step{op: "SetEmptyAlt", kind: kindOf(p.ti), recv: &p, mut: []int{p.r},
				desc: fmt.Sprintf("%s %s.SetEmpty%s()", st.where(&p), p.ti.Name, a.Name),
				impl: func() { v.Method(a.SetEmpty).Call(nil) },
				model: func() {
					st.clearAlts(n)
					n.SetField(a.Name, st.reg.Empty(a.Child))
					n.SetField(n.TI.DiscField.Name, leafNode(a.Disc))
				}}
			if !run(s) {
				return false
			}
			if c := p.n.Field(a.Name); c != nil && depth < 2 {
				return st.populate(pos{r: p.r, path: append(append([]string(nil), p.path...), a.Name), n: c, ti: a.Child}, depth+1)
			}
		}
	case rp.KSlice:
		for k := st.rng.Intn(3); k > 0; k-- {
			if !run(st.mkAppendEmpty(&p)) {
				return false
			}
			i := len(p.n.Kids) - 1
			if !st.populate(pos{r: p.r, path: append(append([]string(nil), p.path...), "#"+strconv.Itoa(i)), n: p.n.Kids[i], ti: p.ti.Elem}, depth+1) {
				return false
			}
		}
	case rp.KMap:
		for k := st.rng.Intn(3); k > 0; k-- {
			if !run(st.mkMapPut(&p)) {
				return false
			}
		}
	case rp.KValue:
		return run(st.mkValueSet(&p))
	case rp.KPrim:
		if st.rng.Intn(2) == 0 {
			return run(st.mkPrimAppend(&p))
		}
	case rp.KRaw:
		return run(st.mkRawSet(&p))
	}
	return true
}

// runProgram executes one random program; returns its canonical hash.
func (st *state) runProgram(nSteps int) {
	for i := 0; i < nSteps && !st.failed; i++ {
		all := st.positions()
		var ss []*step
		for try := 0; try < 12 && ss == nil; try++ {
			ss = st.nextStep(all)
		}
		if ss == nil {
			continue
		}
		if len(ss) == 2 && ss[1] == nil { // append + populate
			sl := ss[0].recv
			if !st.exec(ss[0], false) {
				return
			}
			if !st.roots[sl.r].ro {
				i := len(sl.n.Kids) - 1
				st.populate(pos{r: sl.r, path: append(append([]string(nil), sl.path...), "#"+strconv.Itoa(i)), n: sl.n.Kids[i], ti: sl.ti.Elem}, 0)
			}
			if !st.failed {
				st.verify(&step{op: "AppendEmpty+populate", kind: kindOf(sl.ti), recv: sl, desc: "populating the element appended to " + st.where(sl)})
			}
			continue
		}
		st.exec(ss[0], true)
		// the remaining steps of a scenario, built lazily from the state the previous ones left
		seq := st.pendingSeq
		st.pendingSeq = nil
		for _, next := range seq {
			if st.failed {
				break
			}
			if s := next(); s != nil {
				st.exec(s, true)
			}
		}
	}
}

// ---------------------------------------------------------------------------------------------
// read-only sweep: every method of every value reachable from a read-only root

func opFamily(name string) string {
	for _, p := range []string{"SetEmpty", "Set", "PutEmpty", "Put", "AppendEmpty", "Append", "RemoveIf", "Remove", "EnsureCapacity", "MoveAndAppendTo", "MoveTo", "CopyTo", "Sort", "FromRaw", "Clear"} {
		if strings.HasPrefix(name, p) {
			return p
		}
	}
	return "reader"
}

func (st *state) roSweep(ri int) {
	r := st.roots[ri]
	var paths [][]string
	r.m.Walk(nil, func(path []string, n *rp.Node) bool {
		if n.TI != nil && n.Kind != rp.KLeaf {
			paths = append(paths, append([]string(nil), path...))
		}
		return true
	})
	seenType := map[*rp.TypeInfo]bool{}
	faults := 0
	report := func(what string, w map[string]any, sig ...string) {
		st.c.Violation("readonly", what, st.witness(w), sig...)
		faults++
	}
	// resync: after a reported change the sweep carries on from what the value is now, so that one
	// faulty mutator does not hide the verdicts on all the others
	resync := func() { r.m = st.reg.Snapshot(r.v); markFilled(r.m) }
	// unchanged compares the subtree at a position (or, with p == nil, the whole root) with the model
	unchanged := func(p *pos, after string, kind string, fam string) bool {
		var got *rp.Node
		want := r.m
		pv, stack := rp.Catch(func() {
			if p == nil || len(p.path) == 0 {
				got = st.reg.Snapshot(r.v)
			} else {
				want = p.n
				got = st.reg.Snapshot(st.resolve(p))
			}
		})
		if pv != nil {
			report(fmt.Sprintf("getters of read-only %s panic after %s: %v (at %s)", r.name, after, pv, driver.PanicSite(stack)), map[string]any{"call": after},
				"op", fam, "kind", kind, "fault", "getter-panic")
			return false
		}
		if d := rp.Diff(want, got); d != nil {
			report(fmt.Sprintf("read-only %s changed by %s: %s is %s, was %s", r.name, after, d.Path, d.Got, d.Want), map[string]any{"call": after, "path": d.Path},
				"op", fam, "kind", kind, "fault", "changed")
			resync()
			return false
		}
		return true
	}
	npos := 0
nextPos:
	for _, path := range paths {
		n := r.m.At(path)
		if n == nil || n.TI == nil || n.Kind == rp.KLeaf || faults > 20 {
			continue // vanished after a resync
		}
		p := &pos{r: ri, path: path, n: n, ti: n.TI}
		v := st.resolve(p)
		ti := p.ti
		kind := kindOf(ti)
		perCall := !seenType[ti]
		seenType[ti] = true
		npos++
		names := make([]string, 0, len(ti.Methods))
		for n := range ti.Methods {
			names = append(names, n)
		}
		sort.Strings(names)
		lastCall := ""
		for _, name := range names {
			mi := ti.Methods[name]
			cls := rp.Classify(name)
			if cls == rp.Neutral {
				continue
			}
			args, ok, why := st.reg.SynthArgs(v, ti, mi, st.fl)
			if !ok {
				if why != "empty" {
					st.c.Distinct("unsynthesisable_methods", ti.Name, name, why)
				}
				continue
			}
			call := rp.DescribeCall(ti, name, args)
			lastCall = call
			fam := opFamily(name)
			var outs []reflect.Value
			pv, stack := rp.Catch(func() { outs = v.Method(mi).Call(args); rp.Drain(outs) })
			st.c.Observe("ro_calls", 1)
			st.c.Distinct("ro_methods", ti.Name, name)
			switch cls {
			case rp.Mutator:
				st.c.Observe("ro_mutator_calls", 1)
				if pv == nil {
					fault, detail := "no-panic-unchanged", ""
					if d := rp.Diff(r.m, st.reg.Snapshot(r.v)); d != nil {
						fault, detail = "no-panic-changed", fmt.Sprintf(" and changed %s from %s to %s", d.Path, d.Want, d.Got)
					}
					report(fmt.Sprintf("mutator %s on a value reachable from read-only %s (at %s) did not panic%s", call, r.name, st.where(p), detail),
						map[string]any{"call": call, "at": st.where(p)}, "op", fam, "kind", kind, "fault", fault)
					if fault == "no-panic-changed" {
						resync()
						continue nextPos
					}
				} else if fmt.Sprint(pv) != rp.ReadOnlyPanic {
					report(fmt.Sprintf("mutator %s on read-only data panicked with %q (at %s) instead of the read-only panic", call, fmt.Sprint(pv), driver.PanicSite(stack)),
						map[string]any{"call": call, "at": st.where(p)}, "op", fam, "kind", kind, "fault", "wrong-panic:"+panicClass(pv))
				}
			case rp.Reader:
				st.c.Observe("ro_reader_calls", 1)
				if pv != nil {
					report(fmt.Sprintf("reader %s on read-only data panicked: %v (at %s)", call, pv, driver.PanicSite(stack)),
						map[string]any{"call": call, "at": st.where(p), "stack": trim(stack, 1200)}, "op", fam, "kind", kind, "fault", "reader-panic:"+panicClass(pv))
				} else if name == "CopyTo" {
					// read-only data as the source of a copy: the copy must be complete
					if d := rp.Diff(p.n, st.reg.Snapshot(args[0])); d != nil {
						report(fmt.Sprintf("copy of read-only %s into a fresh value differs at %s: %s instead of %s", st.where(p), d.Path, d.Got, d.Want),
							map[string]any{"call": call, "at": st.where(p)}, "op", fam, "kind", kind, "fault", "copy-differs")
					}
				}
			}
			if perCall && !unchanged(p, call, kind, fam) {
				continue nextPos
			}
		}
		// the read-only value as the *destination* of copy / move
		for _, name := range []string{"CopyTo", "MoveTo", "MoveAndAppendTo"} {
			mi, ok := ti.Methods[name]
			if !ok || len(p.path) == 0 && name != "CopyTo" {
				continue
			}
			src := st.reg.Fresh(ti)
			st.fl.Budget = 6
			st.fl.Fill(src)
			before := st.reg.Snapshot(src)
			call := fmt.Sprintf("fresh %s.%s(%s)", ti.Name, name, st.where(p))
			lastCall = call
			pv, stack := rp.Catch(func() { src.Method(mi).Call([]reflect.Value{v}) })
			st.c.Observe("ro_calls", 1)
			st.c.Observe("ro_mutator_calls", 1)
			if pv == nil {
				report(fmt.Sprintf("%s into read-only data did not panic", call), map[string]any{"call": call}, "op", name+"-dest", "kind", kind, "fault", "no-panic")
			} else if fmt.Sprint(pv) != rp.ReadOnlyPanic {
				report(fmt.Sprintf("%s into read-only data panicked with %q (at %s)", call, fmt.Sprint(pv), driver.PanicSite(stack)), map[string]any{"call": call},
					"op", name+"-dest", "kind", kind, "fault", "wrong-panic:"+panicClass(pv))
			} else if d := rp.Diff(before, st.reg.Snapshot(src)); d != nil {
				report(fmt.Sprintf("%s panicked as required but had already changed its mutable source at %s", call, d.Path), map[string]any{"call": call},
					"op", name+"-dest", "kind", kind, "fault", "source-changed")
			}
		}
		unchanged(p, "the calls on "+st.where(p)+" (last: "+lastCall+")", kind, "any")
	}
	// aliasing: nothing anywhere in the root may have changed
	unchanged(nil, "the read-only sweep", "root", "any")
	st.c.Observe("ro_sweeps", 1)
	st.c.Observe("ro_positions", int64(npos))
	if faults > 0 {
		st.c.Observe("ro_sweeps_with_faults", 1)
	}
}

// ---------------------------------------------------------------------------------------------
// cross-check of root snapshots with marshal -> unmarshal -> snapshot

func roundTrip(x any) (any, error) {
	switch v := x.(type) {
	case plog.Logs:
		b, err := (&plog.ProtoMarshaler{}).MarshalLogs(v)
		if err != nil {
			return nil, err
		}
		return (&plog.ProtoUnmarshaler{}).UnmarshalLogs(b)
	case ptrace.Traces:
		b, err := (&ptrace.ProtoMarshaler{}).MarshalTraces(v)
		if err != nil {
			return nil, err
		}
		return (&ptrace.ProtoUnmarshaler{}).UnmarshalTraces(b)
	case pmetric.Metrics:
		b, err := (&pmetric.ProtoMarshaler{}).MarshalMetrics(v)
		if err != nil {
			return nil, err
		}
		return (&pmetric.ProtoUnmarshaler{}).UnmarshalMetrics(b)
	case pprofile.Profiles:
		b, err := (&pprofile.ProtoMarshaler{}).MarshalProfiles(v)
		if err != nil {
			return nil, err
		}
		return (&pprofile.ProtoUnmarshaler{}).UnmarshalProfiles(b)
	}
	return nil, nil
}

func (st *state) codecCrossCheck() {
	for _, r := range st.roots {
		if !r.ti.IsRoot {
			continue
		}
		var y any
		var err error
		pv, stack := rp.Catch(func() { y, err = roundTrip(r.v.Interface()) })
		switch {
		case pv != nil:
			st.c.Violation("codec-crosscheck", fmt.Sprintf("marshal/unmarshal of %s panicked after the program: %v (at %s)", r.name, pv, driver.PanicSite(stack)), st.witness(nil), "signal", r.ti.Name, "fault", "panic")
		case err != nil:
			st.c.Violation("codec-crosscheck", fmt.Sprintf("marshal/unmarshal of %s failed after the program: %v", r.name, err), st.witness(nil), "signal", r.ti.Name, "fault", "error")
		case y != nil:
			st.c.Observe("codec_crosschecks", 1)
			if d := rp.Diff(normEmptyBytes(r.m.Clone()), normEmptyBytes(st.reg.SnapshotAny(y))); d != nil {
				st.c.Violation("codec-crosscheck", fmt.Sprintf("%s: protobuf round trip of the final value differs from the model at %s: %s instead of %s", r.name, d.Path, d.Got, d.Want),
					st.witness(map[string]any{"path": d.Path}), "signal", r.ti.Name, "fault", "differs", "class", d.Class)
			}
		}
	}
}

// normEmptyBytes maps a pcommon.Value holding a zero-length byte slice to the Empty value: the protobuf
// encoder does not write a zero-length bytes alternative, so the type comes back as Empty. That is a
// codec matter (reported by C08 as its own finding), not one of copy/move semantics, and the purpose of
// this cross-check is only to confirm that the getter-based snapshot sees what the encoding sees.
var (
	negZeroLeaf = rp.LeafOf(reflect.ValueOf(math.Copysign(0, -1)))
	posZeroLeaf = rp.LeafOf(reflect.ValueOf(float64(0)))
)

func normEmptyBytes(n *rp.Node) *rp.Node {
	if n == nil {
		return nil
	}
	if n.Kind == rp.KValue && n.Leaf == "Bytes" && len(n.Kids) == 1 && len(n.Kids[0].Kids) == 0 {
		n.Leaf, n.Kids = "Empty", nil
	}
	if n.Kind == rp.KLeaf && n.Leaf == negZeroLeaf {
		// same story for -0.0 in a plain double field: the encoder treats it as the default value
		n.Leaf = posZeroLeaf
	}
	for _, k := range n.Kids {
		normEmptyBytes(k)
	}
	return n
}
