package main

import (
	"fmt"
	"reflect"

	rp "go.opentelemetry.io/collector/verifharness/lib/reflectpd"
)

// from-raw with shared and later-mutated inputs.
//
// By the statement the result of x.FromRaw(raw) is independent of everything else — of the raw input the
// caller keeps, and of any other value that was built from the same raw object. A scenario therefore
//   (a) mutates the raw input AFTER the call: writes into a []byte / typed slice, into the elements of
//       nested []any and map[string]any, appends into the spare capacity of raw slices;
//   (b) hands the SAME raw object (the same []byte, the same nested []any / map, also twice inside one
//       raw structure) to FromRaw of two different values and then mutates one result in place
//       (ByteSlice.SetAt / Append into spare capacity, Slice.AppendEmpty / element Set*, Map.Put*);
//   (c) does the same for the typed slices (UInt64Slice, Float64Slice, Int32Slice, StringSlice, …),
//       with Append on both results.
// Every action is one step, followed by the comparison of every live root with the reference model; the
// model takes a deep copy of the raw content at the time of the call and ignores the raw input afterwards.

func (st *state) uniqInt() int64 { st.fl.Ctr++; return st.fl.Ctr }

// rawAction is a step that touches only the caller's raw input: the model does not change.
func (st *state) rawAction(p *pos, what string, f func()) *step {
	return &step{op: "MutateRawInput", kind: kindOf(p.ti), recv: p, desc: fmt.Sprintf("raw input of %s: %s", st.where(p), what),
		impl: func() { st.c.Observe("fromraw_raw_input_mutations", 1); f() }, model: func() {}}
}

func (st *state) mkPrimFromRawWith(p *pos, raw reflect.Value) *step {
	v, n := st.resolve(p), p.n
	nodes := make([]*rp.Node, raw.Len())
	for i := range nodes {
		nodes[i] = leafNode(rp.LeafOf(raw.Index(i)))
	}
	return &step{op: "FromRaw", kind: kindOf(p.ti), recv: p, mut: []int{p.r},
		desc:  fmt.Sprintf("%s.FromRaw(shared raw slice len %d cap %d) %s", st.where(p), raw.Len(), raw.Cap(), p.ti.Name),
		impl:  func() { st.call(v, p.ti, "FromRaw", raw) },
		model: func() { n.Kids = nodes; n.Used = true }}
}

func (st *state) mkFromRawWith(p *pos, raw any) *step {
	v, n := st.resolve(p), p.n
	var mn *rp.Node
	switch x := raw.(type) {
	case map[string]any:
		if p.ti.Kind == rp.KMap {
			mn = rawMapToNode(st.reg, x)
		}
	case []any:
		if p.ti.Kind == rp.KSlice {
			mn = rawSliceToNode(st.reg, x)
		}
	}
	if mn == nil {
		if p.ti.Kind != rp.KValue {
			panic("harness: mkFromRawWith: raw type does not fit " + p.ti.Name)
		}
		mn = rawToNode(st.reg, raw)
	}
	var err error
	return &step{op: "FromRaw", kind: kindOf(p.ti), recv: p, mut: []int{p.r},
		desc: fmt.Sprintf("%s.FromRaw(shared %T %s) %s", st.where(p), raw, short(fmt.Sprintf("%v", raw)), p.ti.Name),
		impl: func() {
			if e := st.call(v, p.ti, "FromRaw", reflect.ValueOf(raw))[0]; !e.IsNil() {
				err = e.Interface().(error)
			}
		},
		post: func() string {
			if err != nil {
				return "FromRaw of supported raw values failed: " + err.Error()
			}
			return ""
		},
		model: func() {
			*n = *mn
			n.Used, n.Stale = false, false
		}}
}

// inPlace builds an in-place mutation of a value that resulted from FromRaw (or of something inside it).
func (st *state) inPlace(p *pos) *step {
	switch p.ti.Kind {
	case rp.KPrim:
		if len(p.n.Kids) > 0 && st.rng.Intn(2) == 0 {
			return st.mkPrimSetAt(p)
		}
		return st.mkPrimAppend(p)
	case rp.KMap:
		return st.mkMapPut(p)
	case rp.KSlice:
		if p.ti.Elem != nil && p.ti.Elem.Kind == rp.KValue {
			return st.mkAppendEmpty(p)
		}
	case rp.KValue:
		return st.mkValueSet(p)
	}
	return nil
}

// subPositions lists the containers and values inside (and including) a position, from the current model.
func (st *state) subPositions(p *pos) []pos {
	var out []pos
	p.n.Walk(nil, func(path []string, n *rp.Node) bool {
		if n.TI != nil && n.Kind != rp.KLeaf {
			out = append(out, pos{r: p.r, path: append(append([]string(nil), p.path...), path...), n: n, ti: n.TI})
		}
		return true
	})
	return out
}

// fromRawScenario returns the lazily built steps of one scenario (nil if the pool offers no target).
func (st *state) fromRawScenario(all []pos) []func() *step {
	mutable := filter(all, func(p *pos) bool { return p.ti.Has("FromRaw") && p.ti.Kind != rp.KRaw && st.mutableRoot(p) })
	p := st.pickByType(mutable)
	if p == nil {
		return nil
	}
	pp := *p
	p = &pp
	// a second target of a compatible kind that does not overlap the first
	var q *pos
	cands := filter(mutable, func(c *pos) bool {
		if overlap(p, c) {
			return false
		}
		if p.ti.Kind == rp.KPrim {
			return c.ti == p.ti
		}
		return c.ti.Kind == rp.KValue || c.ti.Kind == rp.KMap || c.ti.Kind == rp.KSlice
	})
	if len(cands) > 0 && st.rng.Intn(5) > 0 {
		qq := cands[st.rng.Intn(len(cands))]
		q = &qq
	}
	st.c.Observe("fromraw_scenarios", 1)
	if q != nil {
		st.c.Observe("fromraw_scenarios_two_targets", 1)
	}
	var seq []func() *step
	add := func(f func() *step) { seq = append(seq, f) }
	results := func() []pos { // current sub-positions of both results
		out := st.subPositions(p)
		if q != nil {
			out = append(out, st.subPositions(q)...)
		}
		return out
	}
	someInPlace := func(k int) {
		for i := 0; i < k; i++ {
			add(func() *step {
				ps := results()
				for try := 0; try < 6; try++ {
					c := ps[st.rng.Intn(len(ps))]
					if s := st.inPlace(&c); s != nil {
						st.c.Observe("fromraw_inplace_mutations_of_results", 1)
						return s
					}
				}
				return nil
			})
		}
	}

	if p.ti.Kind == rp.KPrim { // (c) typed slices, ByteSlice included
		l := 1 + st.rng.Intn(4)
		raw := reflect.MakeSlice(reflect.SliceOf(p.ti.ElemT), l, l+1+st.rng.Intn(4))
		for i := 0; i < l; i++ {
			raw.Index(i).Set(st.fl.Scalar(p.ti.ElemT))
		}
		add(func() *step { return st.mkPrimFromRawWith(p, raw) })
		if q != nil {
			add(func() *step { return st.mkPrimFromRawWith(q, raw) })
		}
		acts := []func(){
			func() {
				add(func() *step {
					return st.rawAction(p, "overwrite every element", func() {
						for i := 0; i < raw.Len(); i++ {
							raw.Index(i).Set(st.fl.Scalar(p.ti.ElemT))
						}
					})
				})
			},
			func() {
				add(func() *step {
					return st.rawAction(p, "append into its spare capacity", func() { reflect.Append(raw, st.fl.Scalar(p.ti.ElemT), st.fl.Scalar(p.ti.ElemT)) })
				})
			},
			func() { add(func() *step { return st.mkPrimAppend(p) }) },
			func() { add(func() *step { return st.mkPrimSetAt(p) }) },
			func() {
				if q != nil {
					add(func() *step { return st.mkPrimAppend(q) })
				}
			},
			func() {
				if q != nil {
					add(func() *step { return st.mkPrimSetAt(q) })
				}
			},
		}
		for _, i := range st.rng.Perm(len(acts)) {
			acts[i]()
		}
		return seq
	}

	// (a)+(b): a raw structure in which the same []byte, map and []any occur several times
	bs := make([]byte, 2+st.rng.Intn(2), 8)
	for i := range bs {
		bs[i] = byte(st.uniqInt())
	}
	m := map[string]any{fmt.Sprintf("k%d", st.uniqInt()): st.fl.String(), fmt.Sprintf("k%d", st.uniqInt()): bs}
	inner := make([]any, 0, 8)
	inner = append(inner, st.fl.String(), st.uniqInt()*1000003, bs, m)
	top := map[string]any{"a": inner, "b": inner, "c": bs, "d": m, "e": st.fl.String()}
	rawFor := func(t *pos, first bool) any {
		switch t.ti.Kind {
		case rp.KMap:
			if first || st.rng.Intn(2) == 0 {
				return top
			}
			return m
		case rp.KSlice:
			return inner
		}
		// pcommon.Value takes anything: the whole structure, a shared part of it, or the bare []byte
		switch st.rng.Intn(4) {
		case 0:
			return top
		case 1:
			return inner
		case 2:
			return m
		}
		return bs
	}
	rp1 := rawFor(p, true)
	add(func() *step { return st.mkFromRawWith(p, rp1) })
	if q != nil {
		rq := rawFor(q, false)
		add(func() *step { return st.mkFromRawWith(q, rq) })
	}
	rawActs := []func() *step{
		func() *step {
			return st.rawAction(p, "write into the shared []byte", func() {
				for i := range bs {
					bs[i] ^= 0xff
				}
				_ = append(bs, 0xee, 0xef)
			})
		},
		func() *step {
			return st.rawAction(p, "replace elements of the shared []any and append into its spare capacity", func() {
				inner[0] = "changed-after-FromRaw"
				inner[1] = int64(-1)
				_ = append(inner, "appended-after-FromRaw")
			})
		},
		func() *step {
			return st.rawAction(p, "put into and delete from the shared map[string]any", func() {
				for k := range m {
					delete(m, k)
					break
				}
				m["added-after-FromRaw"] = int64(7)
				top["e"] = "changed-after-FromRaw"
				delete(top, "c")
			})
		},
	}
	order := st.rng.Perm(len(rawActs))
	someInPlace(1 + st.rng.Intn(2))
	for _, i := range order[:1+st.rng.Intn(len(order))] {
		f := rawActs[i]
		add(f)
	}
	someInPlace(1 + st.rng.Intn(3))
	return seq
}
