// C03 — graceful exporter shutdown drains accepted data and stops all work.
//
// Monitor: public exporterhelper exporters (logs/traces/metrics) over the configuration cross product
// {memory | persistent queue} x {no batch | sending_queue.batch items/bytes | legacy WithBatcher (with
// and without a queue)} x {retry off | on} x {1,4 consumers} x backend script {ok | transient x k |
// permanent | slow (gated) | mixed}; producers run in goroutines; Shutdown is requested at a
// PRNG-chosen LOGICAL point. Every item carries a unique id; producers, the export function and the
// driver write one atomic event sequence. The oracle works on that sequence, on the export function's
// attempt records, on the storage image left behind (delivered by a fresh incarnation) and on the
// goroutine set. Quiescence is detected logically (event counts, queue-size gauge, parked consumers).
package main

import (
	"context"
	"errors"
	"fmt"
	"hash/fnv"
	"math/rand"
	"runtime"
	"sort"
	"strings"
	"sync"
	"sync/atomic"
	"time"

	"go.opentelemetry.io/collector/component"
	"go.opentelemetry.io/collector/component/componenttest"
	"go.opentelemetry.io/collector/exporter/exportertest"
	"go.opentelemetry.io/collector/verifharness/lib/driver"
	"go.opentelemetry.io/collector/verifharness/lib/expkit"
)

// Shutdown-point classes.
// Shutdown-context variants.
const (
	CtxBackground   = "background"
	CtxCancelled    = "cancelled"
	CtxDeadline     = "deadline"
	CtxCancelDuring = "cancel-during"
)

const (
	PtEnqReturned  = "enq-returned"  // after the j-th enqueue returned
	PtGated        = "gated"         // while i exports are held in flight
	PtRetryWait    = "retry-wait"    // while r requests sit in a retry back-off wait
	PtPartialBatch = "partial-batch" // right after a partial batch formed (consumer parked, nothing flushed)
	PtConcurrent   = "concurrent"    // concurrently with enqueues (after the j-th enqueue *started*)
	PtInline       = "inline"        // the enqueuing goroutine calls Shutdown right after its last enqueue returned
	PtDrained      = "drained"       // everything accepted has been exported and the consumer is parked again
)

// Case is the full replayable input of one run.
type Case struct {
	Cfg           expkit.ExpConfig `json:"cfg"`
	Script        string           `json:"script"` // ok | transient | permanent | mixed
	K             int              `json:"k"`      // transient: the first K attempts of every item fail (1000 = always)
	Slow          bool             `json:"slow"`   // exports are held at a gate until Shutdown was requested
	Point         string           `json:"point"`
	J             int              `json:"j"`
	Producers     int              `json:"producers"`
	Reqs          int              `json:"reqs_per_producer"`
	Sizes         []int            `json:"sizes"`
	Yields        int              `json:"yields"`         // driver yields between reaching the point and calling Shutdown
	OpenAfter     int              `json:"open_after"`     // gate: yields between the Shutdown call event and opening the gate
	ReleaseBefore int              `json:"release_before"` // gate: held calls released before Shutdown is requested
	Directed      string           `json:"directed,omitempty"`
	// ShutCtx is the context Shutdown is called with: background | cancelled (before the call) | deadline (1-3 ms,
	// expires while the drain is in progress when exports are held) | cancel-during (cancelled by another
	// goroutine while Shutdown is draining)
	ShutCtx string `json:"shutdown_ctx"`
	// Fault is a storage fault armed right before Shutdown is requested (persistent queue): close (Close returns an
	// error) | write-size-snapshot (the write of the queue size a not request-sized queue does in Shutdown fails) |
	// write-all (every write fails from then on)
	Fault string `json:"storage_fault,omitempty"`
	// SettleMS: scheduling wait after Shutdown returned, long enough for a batch flush timer to fire, before the
	// attempt records and the goroutine set are evaluated (the verdict is the event order, not the wait)
	SettleMS int64 `json:"settle_ms,omitempty"`
}

// Storage faults.
const (
	FaultClose     = "close"
	FaultWriteSize = "write-size-snapshot"
	FaultWriteAll  = "write-all"
)

var errInjectedStorage = errors.New("injected storage fault (c03)")

// applyStorageFault turns a persistent-queue case into one of the family "storage error at shutdown": a batcher
// behind the persistent queue, a fault that the storage reports exactly while the exporter shuts down.
func applyStorageFault(rng *rand.Rand, cs *Case) {
	cfg := &cs.Cfg
	hour := int64(3_600_000)
	cs.Fault = []string{FaultClose, FaultClose, FaultWriteSize, FaultWriteSize, FaultWriteAll}[rng.Intn(5)]
	cfg.Batch, cfg.Sizer, cfg.QueueSize, cfg.Unvalidated = expkit.BatchLegacy, "requests", 1000, false
	cfg.Retry, cfg.MaxSize, cs.Slow, cs.ReleaseBefore = false, 0, false, 0
	if cs.Script == "transient" {
		cs.Script = "mixed"
	}
	switch cs.Fault {
	case FaultClose:
		// Close is only reached by the queue's Shutdown when nothing is in flight: everything is exported first
		cs.Point = PtDrained
		if rng.Intn(2) == 0 {
			cfg.MinSize, cfg.FlushMS = 0, []int64{hour, hour, 2}[rng.Intn(3)]
		} else {
			cfg.MinSize, cfg.FlushMS = 1_000_000, int64(1+rng.Intn(3)) // the timer flushes every partial batch
		}
	default:
		cs.Point = PtPartialBatch
		cfg.MinSize = 1_000_000
		cfg.FlushMS = []int64{hour, 20, 40}[rng.Intn(3)]
		if cfg.FlushMS != hour {
			cs.SettleMS = 3*cfg.FlushMS + 20
		}
		if cs.Fault == FaultWriteSize {
			// only a queue that is not request-sized writes during Shutdown; the collector's config validation
			// does not accept that with storage, a component configuring the helper in code can do it
			cfg.Unvalidated, cfg.Sizer, cfg.QueueSize = true, "items", 100000
			if rng.Intn(2) == 0 {
				cfg.Batch = expkit.BatchItems
			}
		}
	}
}

func (cs Case) scriptName() string {
	s := cs.Script
	if cs.Script == "transient" {
		if cs.K >= 1000 {
			s = "transient-always"
		} else {
			s = "transient-k"
		}
	}
	if cs.Slow {
		if s == "ok" {
			return "slow"
		}
		return s + "+slow"
	}
	return s
}

func h32(parts ...any) uint32 {
	h := fnv.New32a()
	for _, p := range parts {
		fmt.Fprintf(h, "%v/", p)
	}
	return h.Sum32()
}

func genCase(rng *rand.Rand) Case {
	var cs Case
	cfg := &cs.Cfg
	cfg.Sig = expkit.Signals[rng.Intn(3)]
	cfg.Signal = cfg.Sig.String()
	cfg.Persistent = rng.Intn(5) < 2
	if cfg.Persistent {
		cfg.Batch = []string{expkit.BatchNone, expkit.BatchNone, expkit.BatchLegacy}[rng.Intn(3)]
	} else {
		cfg.Batch = []string{expkit.BatchNone, expkit.BatchNone, expkit.BatchItems, expkit.BatchItems, expkit.BatchBytes, expkit.BatchLegacy, expkit.BatchLegacyNoQueue}[rng.Intn(7)]
	}
	cfg.Retry = rng.Intn(2) == 0
	cfg.Consumers = []int{1, 4}[rng.Intn(2)]
	cfg.NoTimeout = rng.Intn(2) == 0
	cfg.Mutates = rng.Intn(4) == 0
	if !cfg.Persistent && cfg.Batch != expkit.BatchLegacyNoQueue && rng.Intn(8) == 0 {
		cfg.WaitForResult = true // sending_queue.wait_for_result: ConsumeX returns the export result
	}
	if !cfg.Persistent && cfg.Batch == expkit.BatchNone && !cfg.WaitForResult && rng.Intn(5) == 0 {
		// no sending queue and no batcher: ConsumeX is synchronous; retry is what Shutdown has to stop
		cfg.QueueDisabled, cfg.Retry = true, true
	}
	cs.ShutCtx = []string{CtxBackground, CtxBackground, CtxBackground, CtxCancelled, CtxDeadline, CtxCancelDuring}[rng.Intn(6)]

	// shutdown point
	pts := []string{PtEnqReturned, PtGated, PtConcurrent, PtConcurrent}
	if cfg.Retry {
		pts = append(pts, PtRetryWait, PtRetryWait)
	}
	if cfg.Batched() {
		pts = append(pts, PtPartialBatch, PtPartialBatch)
	}
	if cfg.WaitsForResult() {
		// ConsumeX only returns after the export: "after the j-th enqueue returned" needs flushes to happen
		pts = []string{PtGated, PtConcurrent, PtConcurrent, PtPartialBatch}
		if cfg.Retry {
			pts = append(pts, PtRetryWait)
		}
	}
	if cfg.QueueDisabled {
		pts = []string{PtRetryWait, PtRetryWait, PtRetryWait, PtConcurrent}
	}
	cs.Point = pts[rng.Intn(len(pts))]

	// backend script
	cs.Script = []string{"ok", "transient", "permanent", "mixed", "ok"}[rng.Intn(5)]
	cs.K = []int{1, 2, 3, 1000}[rng.Intn(4)]
	cs.Slow = rng.Intn(4) == 0
	switch cs.Point {
	case PtGated:
		cs.Slow = true
	case PtRetryWait:
		cs.Script, cs.Slow = "transient", false
		if rng.Intn(3) > 0 {
			cs.K = 1000
		}
	}

	if cfg.QueueDisabled {
		cs.Slow = false // Shutdown does not (and cannot) wait for the caller's own synchronous calls
	}

	// workload
	cs.Producers = 1 + rng.Intn(3)
	cs.Reqs = 1 + rng.Intn(6)
	for i := 0; i < 6; i++ {
		cs.Sizes = append(cs.Sizes, 1+rng.Intn(5))
	}
	total := cs.Producers * cs.Reqs
	cs.J = rng.Intn(total + 1)
	if cfg.WaitsForResult() {
		cs.J = rng.Intn(cs.Producers + 1) // every producer blocks inside its ConsumeX until the flush
	}
	cs.Yields = rng.Intn(4) * rng.Intn(20)
	cs.OpenAfter = rng.Intn(3) * rng.Intn(40)
	if rng.Intn(3) == 0 {
		cs.ReleaseBefore = rng.Intn(3)
	}

	// queue
	switch {
	case cfg.Persistent:
		cfg.Sizer, cfg.QueueSize = "requests", 1000
	case cfg.Batch == expkit.BatchItems:
		cfg.Sizer, cfg.QueueSize = "items", 100000
	case cfg.Batch == expkit.BatchBytes:
		cfg.Sizer, cfg.QueueSize = "bytes", 10_000_000
	default:
		cfg.Sizer = []string{"requests", "items", "bytes"}[rng.Intn(3)]
		cfg.QueueSize = map[string]int64{"requests": 1000, "items": 100000, "bytes": 10_000_000}[cfg.Sizer]
	}

	// batch sizes. The bytes sizer is only used with limits far above a single item: a single item
	// larger than max_size never terminates (finding C04-b, not this property's subject).
	if cfg.Batched() {
		hour := int64(3_600_000)
		bytes := cfg.Batch == expkit.BatchBytes
		unit := int64(1)
		if bytes {
			unit = 120
		}
		switch rng.Intn(4) {
		case 0:
			cfg.MinSize = 0
		case 1:
			cfg.MinSize = 1_000_000 // never reached: whatever is merged stays a partial batch
		default:
			cfg.MinSize = int64(3+rng.Intn(10)) * unit
		}
		if rng.Intn(2) == 0 {
			cfg.MaxSize = (cfg.MinSize%1_000_000)/1 + int64(1+rng.Intn(6))*unit
			if bytes && cfg.MaxSize < 1500 {
				cfg.MaxSize = 1500 + int64(rng.Intn(800))
			}
			if cfg.MinSize > cfg.MaxSize {
				cfg.MinSize = cfg.MaxSize
			}
		}
		cfg.FlushMS = []int64{1, 2, 5, 20, hour}[rng.Intn(5)]
		if cs.Point == PtGated || cs.Point == PtRetryWait {
			// an export must happen for the point to be reachable: let the timer flush
			cfg.FlushMS = int64(1 + rng.Intn(3))
		}
		if cs.Point == PtPartialBatch {
			cfg.FlushMS = hour
			if cfg.MaxSize == 0 {
				cfg.MinSize = 1_000_000
			} else if bytes {
				cfg.MinSize = cfg.MaxSize
			} else {
				// full batches leave, the remainder stays
				cfg.MaxSize = int64(4 + rng.Intn(6))
				cfg.MinSize = cfg.MaxSize
			}
		} else if cfg.WaitsForResult() && cfg.FlushMS == hour {
			cfg.FlushMS = 3
		}
	}

	// retry
	if cfg.Retry {
		cfg.RetryInitMS = int64(1 + rng.Intn(3))
		cfg.RetryMaxMS = 5
		if cs.Point == PtRetryWait {
			cfg.RetryInitMS, cfg.RetryMaxMS = 3_600_000, 3_600_000
			if cfg.QueueDisabled && rng.Intn(3) == 0 {
				// constant back-off of a few ms on an always-failing backend: would it retry again after Shutdown?
				cfg.RetryInitMS = int64(2 + rng.Intn(4))
				cfg.RetryMaxMS = cfg.RetryInitMS
				cs.K = 1000
			}
		}
		// persistent queue: never give up, so that "a transient failure is not a final outcome" is exact
		if !cfg.Persistent && cs.Point != PtRetryWait && rng.Intn(2) == 0 {
			cfg.RetryElapsedMS = 30
		}
	}
	if cfg.Persistent && rng.Intn(4) == 0 {
		applyStorageFault(rng, &cs)
	}
	// a backend call that outlasts the per-attempt timeout and ignores its context: Shutdown still has to wait for it
	if cs.Slow && !cs.Cfg.NoTimeout && cs.Fault == "" && rng.Intn(2) == 0 {
		cs.Cfg.TimeoutMS = 1 + rng.Intn(3)
	}
	return cs
}

// directed catalogue: minimal scripts for the shutdown-order hazards; they run in every run.
func directed() []Case {
	base := func(sig expkit.Signal, persistent bool, batch string) Case {
		cs := Case{Script: "ok", Producers: 1, Reqs: 3, Sizes: []int{3}, Point: PtEnqReturned, J: 3}
		cs.Cfg = expkit.ExpConfig{Sig: sig, Signal: sig.String(), Persistent: persistent, Batch: batch, Sizer: "requests", QueueSize: 1000, Consumers: 1, NoTimeout: true}
		return cs
	}
	var out []Case
	for _, sig := range expkit.Signals {
		// (1) persistent queue stopped after enqueues and before the first dequeue ever (no `ri` key)
		d := base(sig, true, expkit.BatchNone)
		d.Point, d.Reqs, d.J, d.Directed = PtInline, 1, 1, "persistent-no-dequeue-before-stop"
		out = append(out, d)
		// (2) memory queue, partial batch pending under a one-hour flush timeout
		d = base(sig, false, expkit.BatchItems)
		d.Cfg.Sizer, d.Cfg.QueueSize, d.Cfg.MinSize, d.Cfg.FlushMS = "items", 100000, 1_000_000, 3_600_000
		d.Point, d.Directed = PtPartialBatch, "partial-batch-pending"
		out = append(out, d)
		// (3) one consumer held in flight, five requests queued behind it
		d = base(sig, false, expkit.BatchNone)
		d.Reqs, d.J, d.Slow, d.Point, d.Directed = 6, 1, true, PtGated, "queued-behind-gated-export"
		out = append(out, d)
		// (4) batching with a held flush: requests remain queued in front of the batcher at shutdown
		d = base(sig, false, expkit.BatchItems)
		d.Cfg.Sizer, d.Cfg.QueueSize, d.Cfg.MinSize, d.Cfg.FlushMS = "items", 100000, 4, 3_600_000
		d.Reqs, d.J, d.Slow, d.Point, d.Directed = 7, 1, true, PtGated, "queued-in-front-of-batcher"
		out = append(out, d)
		// (5) persistent queue, request interrupted in its retry wait stays stored
		d = base(sig, true, expkit.BatchNone)
		d.Cfg.Retry, d.Cfg.RetryInitMS, d.Cfg.RetryMaxMS = true, 3_600_000, 3_600_000
		d.Script, d.K, d.Point, d.J, d.Directed = "transient", 1000, PtRetryWait, 1, "persistent-retry-wait-interrupted"
		out = append(out, d)
		// (6) the same with the memory queue: attempted once, Shutdown returns
		d = base(sig, false, expkit.BatchNone)
		d.Cfg.Retry, d.Cfg.RetryInitMS, d.Cfg.RetryMaxMS = true, 3_600_000, 3_600_000
		d.Script, d.K, d.Point, d.J, d.Directed = "transient", 1000, PtRetryWait, 1, "memory-retry-wait-interrupted"
		out = append(out, d)
		// (7) legacy batcher behind a persistent queue with a partial batch
		d = base(sig, true, expkit.BatchLegacy)
		d.Cfg.MinSize, d.Cfg.FlushMS = 1_000_000, 3_600_000
		d.Point, d.Directed = PtPartialBatch, "persistent-legacy-partial-batch"
		out = append(out, d)
		// (8-10) requests queued behind a held export, Shutdown called with a context that is already cancelled /
		// expires during the drain / is cancelled during the drain: Shutdown must still not return early
		for _, sc := range []string{CtxCancelled, CtxDeadline, CtxCancelDuring} {
			d = base(sig, false, expkit.BatchNone)
			d.Reqs, d.J, d.Slow, d.Point, d.ShutCtx, d.Directed = 6, 1, true, PtGated, sc, "queued-behind-gated-export/ctx-"+sc
			out = append(out, d)
		}
		// (11) persistent queue, held export, cancelled context
		d = base(sig, true, expkit.BatchNone)
		d.Reqs, d.J, d.Slow, d.Point, d.ShutCtx, d.Directed = 4, 1, true, PtGated, CtxCancelled, "persistent-gated/ctx-cancelled"
		out = append(out, d)
		// (12) no queue, no batcher, retry with a one-hour back-off: the waiting call must be released by Shutdown
		d = base(sig, false, expkit.BatchNone)
		d.Cfg.QueueDisabled, d.Cfg.Retry, d.Cfg.RetryInitMS, d.Cfg.RetryMaxMS = true, true, 3_600_000, 3_600_000
		d.Producers, d.Reqs, d.Script, d.K, d.Point, d.J, d.Directed = 2, 1, "transient", 1000, PtRetryWait, 1, "no-queue-retry-wait-released"
		out = append(out, d)
		// (13) the same with a constant 3 ms back-off: no retry may be decided after Shutdown returned
		d = base(sig, false, expkit.BatchNone)
		d.Cfg.QueueDisabled, d.Cfg.Retry, d.Cfg.RetryInitMS, d.Cfg.RetryMaxMS = true, true, 3, 3
		d.Producers, d.Reqs, d.Script, d.K, d.Point, d.J, d.Directed = 2, 1, "transient", 1000, PtRetryWait, 1, "no-queue-short-backoff-no-retry-after-shutdown"
		out = append(out, d)
		// (14) queue disabled + legacy batcher + retry, call waiting in the one-hour back-off
		d = base(sig, false, expkit.BatchLegacyNoQueue)
		d.Cfg.MinSize, d.Cfg.FlushMS, d.Cfg.Retry, d.Cfg.RetryInitMS, d.Cfg.RetryMaxMS = 0, 1, true, 3_600_000, 3_600_000
		d.Producers, d.Reqs, d.Script, d.K, d.Point, d.J, d.Directed = 2, 1, "transient", 1000, PtRetryWait, 1, "legacy-noqueue-retry-wait"
		out = append(out, d)
		// (15-19) storage error at shutdown: batcher behind a persistent queue
		d = base(sig, true, expkit.BatchLegacy) // everything exported, one-hour flush timer armed, Close fails
		d.Cfg.MinSize, d.Cfg.FlushMS, d.Point, d.Fault, d.Directed = 0, 3_600_000, PtDrained, FaultClose, "storage-close-error/idle-timer"
		out = append(out, d)
		d = base(sig, true, expkit.BatchLegacy) // partial batches flushed by a 2 ms timer, Close fails
		d.Cfg.MinSize, d.Cfg.FlushMS, d.Point, d.Fault, d.Directed = 1_000_000, 2, PtDrained, FaultClose, "storage-close-error/timer-flushed"
		out = append(out, d)
		d = base(sig, true, expkit.BatchItems) // partial batch pending, 30 ms flush timer, size snapshot write fails
		d.Cfg.Unvalidated, d.Cfg.Sizer, d.Cfg.QueueSize, d.Cfg.MinSize, d.Cfg.FlushMS = true, "items", 100000, 1_000_000, 30
		d.Point, d.Fault, d.SettleMS, d.Directed = PtPartialBatch, FaultWriteSize, 110, "storage-write-error/partial-batch-short-timer"
		out = append(out, d)
		d = base(sig, true, expkit.BatchLegacy) // the same with the legacy batcher and a one-hour timer
		d.Cfg.Unvalidated, d.Cfg.Sizer, d.Cfg.QueueSize, d.Cfg.MinSize, d.Cfg.FlushMS = true, "items", 100000, 1_000_000, 3_600_000
		d.Point, d.Fault, d.Directed = PtPartialBatch, FaultWriteSize, "storage-write-error/partial-batch-long-timer"
		out = append(out, d)
		d = base(sig, true, expkit.BatchLegacy) // request-sized queue, every write fails from the shutdown on
		d.Cfg.MinSize, d.Cfg.FlushMS = 1_000_000, 30
		d.Point, d.Fault, d.SettleMS, d.Directed = PtPartialBatch, FaultWriteAll, 110, "storage-all-writes-fail/partial-batch-short-timer"
		out = append(out, d)
	}
	return out
}

type outcome struct {
	riMissing  bool // the storage image left by Shutdown had bodies and a write index but no read index
	nontrivial bool
	unfinished int
	accepted   int
}

const steerCap = 4 * time.Second

// runCase executes one case and evaluates the oracle. It returns false when the case was abandoned.
func runCase(c *driver.Ctx, cs Case, backends *[]*expkit.Backend) (res outcome, completed bool) {
	cfg := cs.Cfg
	opts, err := cfg.Options()
	if err != nil {
		c.Observe("skipped_invalid_config", 1)
		return res, true
	}
	sigKV := []string{"signal", cfg.Signal, "queue", cfg.QueueKind(), "batch", cfg.Batch, "retry", fmt.Sprint(cfg.Retry), "script", cs.scriptName(), "point", cs.Point, "shutctx", cs.ShutCtx, "fault", map[bool]string{true: "none", false: cs.Fault}[cs.Fault == ""]}
	if cs.ShutCtx == "" {
		cs.ShutCtx = CtxBackground
		sigKV[len(sigKV)-3] = CtxBackground
	}

	before := expkit.HelperGoroutines()
	log := expkit.NewLog()
	var gate *expkit.Gate
	if cs.Slow {
		gate = expkit.NewGate(false)
	}
	be := &expkit.Backend{Log: log, Gate: gate, Consume: cfg.Mutates}
	be.Yield = func(no int) int { return int(h32(no, cs.Yields) % 4) }
	be.Script = func(no int, ids []string, prior []int) (string, func(string) bool) {
		none := func(string) bool { return false }
		switch cs.Script {
		case "transient":
			for _, p := range prior {
				if p < cs.K {
					return expkit.Transient, none
				}
			}
			return expkit.OK, none
		case "permanent":
			if no%2 == 0 {
				return expkit.Permanent, none
			}
			return expkit.OK, none
		case "mixed":
			switch h32(no, cs.J, cs.Reqs) % 6 {
			case 0:
				return expkit.Transient, none
			case 1:
				return expkit.Permanent, none
			case 2:
				if len(ids) > 1 {
					return expkit.Partial, func(id string) bool { return h32(id)%2 == 0 || id == ids[0] }
				}
				return expkit.Transient, none
			}
			return expkit.OK, none
		}
		return expkit.OK, none
	}
	*backends = append(*backends, be)

	tel := expkit.NewTel()
	defer tel.Close()
	set := exportertest.NewNopSettings(expkit.ExporterType)
	set.TelemetrySettings = tel.NewTelemetrySettings()
	set.TelemetrySettings.Logger = expkit.RetryLogHook(func() { log.Add(expkit.Event{Kind: expkit.EvRetryLog}) })
	store := expkit.NewStore(nil)
	var host component.Host = componenttest.NewNopHost()
	if cfg.Persistent {
		host = expkit.NewHost(store)
	}
	exp, err := expkit.NewExporter(cfg.Sig, set, be.Push, opts...)
	if err != nil {
		c.Note("exporter construction failed for %s: %v", cfg.Class(), err)
		c.Observe("skipped_construction_error", 1)
		return res, true
	}

	// request identities
	caseTag := fmt.Sprintf("s%dc%d", c.Shard, h32(cs.Cfg.Class(), cs.J, cs.Reqs, cs.Producers)%100000)
	reqIDs := make([][][]string, cs.Producers)
	for p := range reqIDs {
		reqIDs[p] = make([][]string, cs.Reqs)
		for r := range reqIDs[p] {
			n := cs.Sizes[(p*cs.Reqs+r)%len(cs.Sizes)]
			for k := 0; k < n; k++ {
				reqIDs[p][r] = append(reqIDs[p][r], fmt.Sprintf("%s.p%d.r%d.%d", caseTag, p, r, k))
			}
		}
	}
	total := cs.Producers * cs.Reqs

	pctx, cancelProducers := context.WithCancel(context.Background())
	defer cancelProducers()
	var shutCall, shutRet, inflightAtReturn int64
	var shutErr error
	shutCtx, shutCancel := context.Background(), context.CancelFunc(func() {})
	switch cs.ShutCtx {
	case CtxCancelled:
		shutCtx, shutCancel = context.WithCancel(context.Background())
		shutCancel()
	case CtxCancelDuring:
		shutCtx, shutCancel = context.WithCancel(context.Background())
	}
	defer func() { shutCancel() }()
	var shutGID atomic.Int64
	var notReleased []string // queue-less: producers still parked in the retry wait after Shutdown returned
	var badRelease []string  // queue-less: calls released with an error that is not shutdown-classified
	producerGID := make([]atomic.Int64, cs.Producers)
	var image map[string][]byte
	var leaked []expkit.G
	var steerTimeouts int
	var drain expkit.DrainResult

	body := func() {
		if err := exp.Start(context.Background(), host); err != nil {
			c.Note("Start failed for %s: %v", cfg.Class(), err)
			return
		}
		enqueue := func(p, r int) {
			pl := expkit.Make(cfg.Sig, reqIDs[p][r])
			log.Add(expkit.Event{Kind: expkit.EvEnqCall, Actor: p, Req: r, N: len(reqIDs[p][r])})
			err := exp.Consume(pctx, pl)
			oc := ""
			if err != nil {
				oc = "error"
				if strings.Contains(err.Error(), "interrupted due to shutdown") {
					oc = "shutdown-error"
				}
			}
			log.Add(expkit.Event{Kind: expkit.EvEnqRet, Actor: p, Req: r, Outcome: oc, N: len(reqIDs[p][r])})
		}
		var wg sync.WaitGroup
		if cs.Point != PtInline {
			for p := 0; p < cs.Producers; p++ {
				wg.Add(1)
				go func(p int) {
					defer wg.Done()
					producerGID[p].Store(expkit.CurGID())
					for r := 0; r < cs.Reqs; r++ {
						enqueue(p, r)
						for y := h32(p, r, cs.Yields) % 3; y > 0; y-- {
							runtime.Gosched()
						}
					}
				}(p)
			}
		}
		// the gate opener: holds exports "in flight" until Shutdown has been requested
		openerDone := make(chan struct{})
		go func() {
			defer close(openerDone)
			if gate == nil && cs.ShutCtx != CtxCancelDuring {
				return
			}
			log.WaitCount(expkit.EvShutCall, 1, nil, 10*time.Minute)
			for y := 0; y < cs.OpenAfter; y++ {
				runtime.Gosched()
			}
			// end the Shutdown context while the drain is in progress (exports still held)
			switch cs.ShutCtx {
			case CtxCancelDuring:
				shutCancel()
			case CtxDeadline:
				<-shutCtx.Done() // observed logically: ctx.Err() != nil from here on
			}
			if gate == nil {
				return
			}
			if cs.ShutCtx != CtxBackground || cfg.TimeoutMS > 0 {
				// give Shutdown the chance to return early: keep the exports held until it has returned or is
				// parked inside the helper (state inspection, bounded; only steering)
				for try := 0; try < 300 && log.Count(expkit.EvShutRet) == 0; try++ {
					if _, parked := expkit.ParkedIn(expkit.Dump(), shutGID.Load(), ""); parked {
						break
					}
					if try < 30 {
						runtime.Gosched()
					} else {
						time.Sleep(50 * time.Microsecond)
					}
				}
				for y := 0; y < cs.OpenAfter%7; y++ {
					runtime.Gosched()
				}
			}
			gate.Open()
		}()

		// reach the logical shutdown point
		steer := func(ok bool) {
			if !ok {
				steerTimeouts++
				c.Observe("steer_cap_expired:"+cs.Point+"/"+cfg.Batch, 1)
			}
		}
		switch cs.Point {
		case PtInline:
			for r := 0; r < cs.Reqs; r++ {
				enqueue(0, r)
			}
		case PtEnqReturned:
			steer(log.WaitCount(expkit.EvEnqRet, cs.J, nil, steerCap))
		case PtConcurrent:
			steer(log.WaitCount(expkit.EvEnqCall, cs.J, nil, steerCap))
		case PtGated:
			want := min(cfg.EffectiveConsumers(), total, 1+cs.J%4)
			if cfg.WaitsForResult() {
				want = min(want, cs.Producers) // every producer has at most one request inside the exporter
			}
			steer(log.WaitCount(expkit.EvGate, want, nil, steerCap))
			if cs.ReleaseBefore > 0 {
				gate.Release(cs.ReleaseBefore)
			}
		case PtRetryWait:
			want := min(cfg.EffectiveConsumers(), total, 1+cs.J%4)
			if cfg.WaitsForResult() {
				want = min(want, cs.Producers)
			}
			steer(log.WaitCount(expkit.EvRetryLog, want, nil, steerCap))
		case PtDrained:
			steer(log.WaitCount(expkit.EvEnqRet, total, nil, steerCap))
			want := 0
			for p := range reqIDs {
				for r := range reqIDs[p] {
					want += len(reqIDs[p][r])
				}
			}
			drained := false
			for try := 0; try < 3000 && !drained; try++ {
				if be.Inflight() == 0 {
					seen := map[string]bool{}
					for _, a := range be.Attempts() {
						if a.End != 0 {
							for _, id := range a.IDs {
								seen[id] = true
							}
						}
					}
					drained = len(seen) >= want && expkit.ConsumersIdle(before, 1)
				}
				if !drained {
					if try < 30 {
						runtime.Gosched()
					} else {
						time.Sleep(100 * time.Microsecond)
					}
				}
			}
			if drained {
				c.Observe("steer_drained_confirmed", 1)
			} else {
				c.Observe("steer_drained_not_confirmed", 1)
			}
		case PtPartialBatch:
			if !cfg.WaitsForResult() {
				steer(log.WaitCount(expkit.EvEnqRet, total, nil, steerCap))
			} else {
				// every producer is blocked inside its first ConsumeX until the batch is flushed
				steer(log.WaitCount(expkit.EvEnqCall, cs.Producers, nil, steerCap))
			}
			// the consumer has moved everything into the batcher when it is parked in Read again and no
			// flush goroutine is alive (state inspection, bounded; only steering)
			if gate == nil {
				idle := false
				for try := 0; try < 400 && !idle; try++ {
					if idle = expkit.ConsumersIdle(before, 1); !idle {
						if try < 50 {
							runtime.Gosched()
						} else {
							time.Sleep(50 * time.Microsecond)
						}
					}
				}
				if idle {
					c.Observe("steer_partial_batch_consumer_parked", 1)
				} else {
					c.Observe("steer_partial_batch_not_confirmed", 1)
				}
			}
		}
		for y := 0; y < cs.Yields; y++ {
			runtime.Gosched()
		}

		if cfg.TimeoutMS > 0 && gate != nil {
			// let the per-attempt timeout of the held exports expire before Shutdown is requested (steering only)
			for try := 0; try < 400 && be.Inflight() == 0; try++ {
				time.Sleep(50 * time.Microsecond)
			}
			time.Sleep(time.Duration(cfg.TimeoutMS+3) * time.Millisecond)
			c.Observe("shutdown_with_exports_held_beyond_their_timeout", 1)
		}
		if cs.ShutCtx == CtxDeadline {
			var cf context.CancelFunc
			shutCtx, cf = context.WithTimeout(context.Background(), time.Duration(1+h32(caseTag)%3)*time.Millisecond)
			prev := shutCancel
			shutCancel = func() { cf(); prev() }
		}
		switch cs.Fault { // the storage reports a problem exactly while the exporter shuts down
		case FaultClose:
			store.FailClose(errInjectedStorage)
		case FaultWriteSize:
			store.FailWrites(func(k string) bool { return k == "si" }, errInjectedStorage)
		case FaultWriteAll:
			store.FailWrites(nil, errInjectedStorage)
		}
		shutGID.Store(expkit.CurGID())
		shutCall = log.Add(expkit.Event{Kind: expkit.EvShutCall})
		shutErr = exp.Shutdown(shutCtx)
		inflightAtReturn = be.Inflight()
		shutRet = log.Add(expkit.Event{Kind: expkit.EvShutRet})

		// producers that are still inside ConsumeX (wait_for_result, or enqueuing after the stop) are
		// the harness's own goroutines: release them.
		<-openerDone
		if cfg.QueueDisabled {
			// Every call that was in (or enters) its retry back-off must be released by the shutdown; no retry may be
			// decided after Shutdown returned. Observed until the producers have returned, a late retry decision shows
			// in the attempt records, or the producers sit in the retry wait in dump after dump.
			done := make(chan struct{})
			go func() { wg.Wait(); close(done) }()
			stable := 0
		observe:
			for try := 0; try < 6000; try++ {
				select {
				case <-done:
					break observe
				default:
				}
				if lateRetryDecision(be.Attempts(), shutRet) != nil {
					break
				}
				d := expkit.Dump()
				parked, running := 0, 0
				for p := range producerGID {
					if g, ok := d[producerGID[p].Load()]; ok { // goroutine ids are never reused: the producer has not finished
						running++
						if _, in := expkit.ParkedIn(d, g.ID, "retrySender).Send"); in && strings.HasPrefix(g.State, "select") {
							parked++
						}
					}
				}
				if running > 0 && parked == running {
					stable++
				} else {
					stable = 0
				}
				if stable >= 8 {
					for p := range producerGID {
						if g, in := expkit.ParkedIn(d, producerGID[p].Load(), "retrySender).Send"); in {
							notReleased = append(notReleased, fmt.Sprintf("producer %d: %s [%s]", p, g.TopRepo, g.State))
						}
					}
					break
				}
				if try < 20 {
					runtime.Gosched()
				} else {
					time.Sleep(200 * time.Microsecond)
				}
			}
		}
		cancelProducers()
		wg.Wait()
		if cs.SettleMS > 0 {
			// scheduling wait only: a flush timer that is still armed has certainly fired after this
			time.Sleep(time.Duration(cs.SettleMS) * time.Millisecond)
		}
		leaked = expkit.Leaked(before, 5)
		if cfg.Persistent {
			image = store.Image()
			drain = expkit.Drain(cfg.Sig, image, func() { log.Add(expkit.Event{Kind: "drain-delivery"}) })
		}
	}

	stuck := c.Guard(20*time.Second, log.Progress, body)
	c.Eval()
	if stuck != nil {
		log.Abort()
		if gate != nil {
			gate.Open()
		}
		cancelProducers()
		frames := stuck.RepoFrames
		if len(frames) == 0 || frames[0] != "panic" {
			frames = expkit.BlockedRepoFrames(stuck.Dump)
		}
		inShutdown := strings.Contains(stuck.Dump, "BaseExporter).Shutdown")
		if len(frames) > 0 && frames[0] == "panic" {
			site := driver.PanicSite(stuck.Dump)
			c.Violation("panic", "panic while running the case: "+firstLine(stuck.Dump), map[string]any{"case": cs, "stack": trunc(stuck.Dump, 4000)}, append(sigKV, "site", site)...)
			return res, false
		}
		if inShutdown && len(frames) > 0 {
			c.Violation("stuck", fmt.Sprintf("Shutdown did not return and the event sequence did not move (%s; %s/%s): blocked in %v",
				cfg.Class(), cs.scriptName(), cs.Point, frames),
				map[string]any{"case": cs, "blocked_frames": frames, "events": tailEvents(log.Events(), 60), "dump": trunc(stuck.Dump, 6000)},
				append(sigKV, "frames", strings.Join(frames, ";"))...)
		} else {
			c.Inconclusive("watchdog-unclassified")
			c.Note("watchdog fired outside Shutdown for %s %s/%s: %v", cfg.Class(), cs.scriptName(), cs.Point, frames)
		}
		return res, false
	}
	if steerTimeouts > 0 {
		c.Observe("steer_cap_expired", int64(steerTimeouts))
	}
	if shutRet == 0 {
		return res, true // Start failed
	}
	if shutErr != nil {
		c.Observe("shutdown_returned_error", 1)
	}
	if cs.Fault != "" {
		fc, fw := store.Faults()
		c.Observe("fault:"+cs.Fault, 1)
		c.Observe("fault_injected_close_errors_returned", fc)
		c.Observe("fault_injected_write_errors_returned", fw)
		if fc+fw > 0 {
			c.Observe("fault_runs_where_the_fault_was_hit", 1)
		}
		if shutErr != nil && errors.Is(shutErr, errInjectedStorage) {
			c.Observe("fault_runs_shutdown_returned_the_storage_error", 1)
		}
	}

	// ---------------------------------------------------------------- oracle
	evs := log.Events()
	atts := be.Attempts()
	c.Observe("events", int64(len(evs)))
	c.Observe("export_attempts", int64(len(atts)))

	type itemInfo struct {
		begun, ended int
		anyFailed    bool
		final        bool // an attempt ended with a final outcome for the item
		finalBefore  bool // … before Shutdown was requested
	}
	items := map[string]*itemInfo{}
	info := func(id string) *itemInfo {
		it := items[id]
		if it == nil {
			it = &itemInfo{}
			items[id] = it
		}
		return it
	}
	transientIsFinal := !cfg.Retry || cfg.RetryElapsedMS > 0
	for _, a := range atts {
		failedSet := map[string]bool{}
		for _, id := range a.FailedID {
			failedSet[id] = true
		}
		for _, id := range a.IDs {
			it := info(id)
			it.begun++
			if a.End == 0 {
				continue
			}
			it.ended++
			oc := a.Outcome
			if oc == expkit.Partial {
				if failedSet[id] {
					oc = expkit.Transient
				} else {
					oc = expkit.OK
				}
			}
			if a.Outcome != expkit.OK {
				it.anyFailed = true
			}
			fin := oc == expkit.OK || oc == expkit.Permanent || (oc == expkit.Transient && transientIsFinal)
			if fin {
				it.final = true
				if a.End < shutCall {
					it.finalBefore = true
				}
			}
		}
		// no export call begins after Shutdown returned. Without a queue the first attempt of a call belongs to the
		// caller (it may have been on its way when Shutdown returned); what the helper owns are the retries: see
		// lateRetryDecision below.
		if a.Begin > shutRet && !cfg.QueueDisabled {
			c.Violation("export-after-shutdown", fmt.Sprintf("export call #%d began (seq %d) after Shutdown returned (seq %d) (%s)", a.No, a.Begin, shutRet, cfg.Class()),
				witness(cs, evs, nil, image), sigKV...)
		}
	}
	if cfg.QueueDisabled {
		if lr := lateRetryDecision(atts, shutRet); lr != nil {
			c.Violation("export-after-shutdown", fmt.Sprintf("retry attempt #%d began (seq %d) although the attempt it repeats (#%d) had ended (seq %d) after Shutdown returned (seq %d): the retry was decided after the shutdown (%s, back-off %d ms)",
				lr[1].No, lr[1].Begin, lr[0].No, lr[0].End, shutRet, cfg.Class(), cfg.RetryInitMS), witness(cs, evs, nil, image), sigKV...)
		}
		if len(notReleased) > 0 {
			c.Violation("retry-wait-not-released", fmt.Sprintf("Shutdown returned but %d ConsumeX call(s) stay parked in the retry back-off (%s): %v", len(notReleased), cfg.Class(), notReleased),
				witness(cs, evs, nil, image), sigKV...)
		} else {
			// a call released from a transiently failed chain after the shutdown must carry the shutdown classification
			lastOutcome := map[string]string{}
			for _, a := range atts {
				if a.End != 0 {
					for _, id := range a.IDs {
						lastOutcome[id] = a.Outcome
					}
				}
			}
			for _, e := range evs {
				if e.Kind == expkit.EvEnqRet && e.Seq > shutCall && e.Outcome == "error" && cfg.RetryElapsedMS == 0 {
					if oc := lastOutcome[reqIDs[e.Actor][e.Req][0]]; oc == expkit.Transient {
						badRelease = append(badRelease, fmt.Sprintf("p%d.r%d", e.Actor, e.Req))
					}
				}
			}
			if len(badRelease) > 0 && lateRetryDecision(atts, shutRet) == nil {
				c.Violation("release-not-shutdown-classified", fmt.Sprintf("%d ConsumeX call(s) whose last attempt failed transiently returned after Shutdown was requested with an error that is not shutdown-classified (%s): %v", len(badRelease), cfg.Class(), badRelease),
					witness(cs, evs, nil, image), sigKV...)
			}
		}
		c.Observe("runs_without_queue", 1)
	}
	if inflightAtReturn != 0 && !cfg.QueueDisabled {
		c.Violation("inflight", fmt.Sprintf("%d export call(s) had begun and not returned at the instant Shutdown returned (%s, %s/%s)", inflightAtReturn, cfg.Class(), cs.scriptName(), cs.Point),
			witness(cs, evs, nil, image), sigKV...)
	}

	// accepted before Shutdown was requested
	var missing, dup, lost []string
	for _, e := range evs {
		if e.Kind != expkit.EvEnqRet || e.Outcome != "" || e.Seq > shutCall {
			continue
		}
		for _, id := range reqIDs[e.Actor][e.Req] {
			res.accepted++
			it := info(id)
			if !it.finalBefore {
				res.unfinished++
			}
			if !cfg.Persistent {
				if it.begun == 0 {
					missing = append(missing, id)
				} else if it.begun > 1 && !it.anyFailed {
					dup = append(dup, id)
				}
			} else if !it.final && drain.Delivered[id] == 0 {
				lost = append(lost, id)
			}
		}
	}
	res.nontrivial = res.unfinished > 0
	if len(missing) > 0 {
		c.Violation("never-attempted", fmt.Sprintf("%d item(s) whose enqueue returned nil before Shutdown was requested never reached the export function (%s, %s/%s), e.g. %s",
			len(missing), cfg.Class(), cs.scriptName(), cs.Point, missing[0]), witness(cs, evs, missing, image), sigKV...)
	}
	if len(dup) > 0 {
		c.Violation("duplicate", fmt.Sprintf("%d item(s) were handed to the export function more than once although no attempt containing them failed (%s, %s/%s), e.g. %s",
			len(dup), cfg.Class(), cs.scriptName(), cs.Point, dup[0]), witness(cs, evs, dup, image), sigKV...)
	}
	if cfg.Persistent {
		ii := expkit.DescribeImage(image)
		c.Distinct("image_shapes", ii.Class(), len(ii.Bodies) > 0, len(ii.Dispatched) > 0)
		if cs.Directed == "persistent-no-dequeue-before-stop" && ii.Class() == "ri-missing" {
			res.nontrivial, res.riMissing = true, true
			c.Observe("directed_ri_missing_images", 1)
		}
		if drain.Err != "" {
			c.Inconclusive("drain-incarnation-failed")
		} else if len(lost) > 0 {
			c.Violation("persistent-lost", fmt.Sprintf("%d item(s) accepted before Shutdown was requested have no completed hand-off with a final outcome and a fresh incarnation started on the storage image does not deliver them (%s, %s/%s; image: %s, ri=%v wi=%v di=%v bodies=%v), e.g. %s",
				len(lost), cfg.Class(), cs.scriptName(), cs.Point, ii.Class(), ii.RI, ii.WI, ii.Dispatched, ii.Bodies, lost[0]),
				witness(cs, evs, lost, image), append(sigKV, "image", ii.Class())...)
		}
		c.Observe("drain_incarnations", 1)
		c.Observe("drain_delivered_items", int64(len(drain.Delivered)))
	}
	if len(leaked) > 0 {
		g := leaked[0]
		c.Violation("leak", fmt.Sprintf("%d helper goroutine(s) started by the exporter are still parked after Shutdown returned (%s): %s [%s] created by %s",
			len(leaked), cfg.Class(), g.TopRepo, g.State, g.CreatedBy),
			map[string]any{"case": cs, "stack": trunc(g.Stack, 3000)}, append(sigKV, "frame", g.TopRepo, "created_by", strings.TrimPrefix(g.CreatedBy, "go.opentelemetry.io/collector/"))...)
	}

	// evidence
	if res.nontrivial {
		c.Nontrivial(cfg.Class(), cs.scriptName(), cs.Point, cs.ShutCtx)
		c.Observe("nontrivial_runs", 1)
	}
	c.Distinct("interleavings", interleaving(evs))
	c.Distinct("config_classes", cfg.Class())
	c.Observe("accepted_items_before_shutdown", int64(res.accepted))
	c.Observe("unfinished_items_at_shutdown_request", int64(res.unfinished))
	c.Observe("point:"+cs.Point, 1)
	c.Observe("shutctx:"+cs.ShutCtx, 1)
	if cs.Fault != "" {
		// information (the statement lets a persistent queue keep it stored): accepted items not yet handed to the
		// export function when Shutdown returned
		beganBefore := map[string]bool{}
		for _, a := range atts {
			if a.Begin < shutRet {
				for _, id := range a.IDs {
					beganBefore[id] = true
				}
			}
		}
		if res.accepted > len(beganBefore) {
			c.Observe("fault_runs_with_accepted_items_unattempted_at_shutdown_return", 1)
			c.Note("fault run with unattempted accepted items at Shutdown return: %s fault=%s point=%s flush=%dms accepted=%d began_before_return=%d attempts=%d shutdown_err=%v", cfg.Class(), cs.Fault, cs.Point, cfg.FlushMS, res.accepted, len(beganBefore), len(atts), shutErr)
		}
	}
	if shutErr != nil && cs.ShutCtx != CtxBackground {
		c.Observe("shutdown_returned_ctx_error", 1)
	}
	if shutCtx.Err() != nil && inflightAtCallLater(atts, shutCall) > 0 {
		c.Observe("runs_shutdown_ctx_ended_with_exports_in_flight", 1)
	}
	if cfg.Persistent {
		c.Observe("runs_persistent", 1)
	} else {
		c.Observe("runs_memory", 1)
	}
	inflightAtCall := 0
	for _, a := range atts {
		if a.Begin < shutCall && (a.End == 0 || a.End > shutCall) {
			inflightAtCall++
		}
	}
	if inflightAtCall > 0 {
		c.Observe("runs_with_export_in_flight_at_shutdown_request", 1)
	}
	if log.Count(expkit.EvRetryLog) > 0 {
		c.Observe("runs_with_retry_wait", 1)
	}
	be.Close() // from here on any call of this case's export function is a late call
	if cs.Directed != "" || h32(caseTag)%97 == 0 {
		c.Sample(map[string]any{"case": cs, "accepted_before_shutdown": res.accepted, "unfinished_at_shutdown_request": res.unfinished,
			"export_attempts": len(atts), "inflight_at_shutdown_request": inflightAtCall, "events": tailEvents(evs, 40)})
	}
	return res, true
}

// lateRetryDecision returns (previous attempt, retry attempt) when a retry began after an attempt of the same
// items had ended after Shutdown returned, i.e. the decision to retry was taken after the shutdown.
func lateRetryDecision(atts []expkit.Attempt, shutRet int64) []expkit.Attempt {
	if shutRet == 0 {
		return nil
	}
	last := map[string]expkit.Attempt{}
	for _, a := range atts {
		if len(a.IDs) > 0 {
			if prev, ok := last[a.IDs[0]]; ok && prev.End != 0 && prev.End > shutRet && a.Begin > prev.End {
				return []expkit.Attempt{prev, a}
			}
			for _, id := range a.IDs {
				last[id] = a
			}
		}
	}
	return nil
}

// inflightAtCallLater counts the export calls that were in flight when Shutdown was requested.
func inflightAtCallLater(atts []expkit.Attempt, shutCall int64) int {
	n := 0
	for _, a := range atts {
		if a.Begin < shutCall && (a.End == 0 || a.End > shutCall) {
			n++
		}
	}
	return n
}

func interleaving(evs []expkit.Event) string {
	var b strings.Builder
	for _, e := range evs {
		actor := e.Actor
		if e.Kind == expkit.EvExpBegin || e.Kind == expkit.EvExpEnd || e.Kind == expkit.EvGate {
			actor = 0 // attempt numbers are not actors
		}
		fmt.Fprintf(&b, "%s%d%s;", e.Kind, actor, e.Outcome)
	}
	return b.String()
}

func witness(cs Case, evs []expkit.Event, ids []string, image map[string][]byte) map[string]any {
	w := map[string]any{"case": cs, "events": tailEvents(evs, 120)}
	if len(ids) > 0 {
		sort.Strings(ids)
		if len(ids) > 20 {
			ids = ids[:20]
		}
		w["items"] = ids
	}
	if image != nil {
		ii := expkit.DescribeImage(image)
		w["image"] = map[string]any{"has_ri": ii.HasRI, "ri": ii.RI, "has_wi": ii.HasWI, "wi": ii.WI, "di": ii.Dispatched, "bodies": ii.Bodies}
	}
	return w
}

func tailEvents(evs []expkit.Event, n int) []expkit.Event {
	if len(evs) > n {
		// keep the beginning and the end: the shutdown events are at the end
		out := append([]expkit.Event(nil), evs[:n/3]...)
		return append(out, evs[len(evs)-(n-n/3):]...)
	}
	return evs
}

func firstLine(s string) string {
	if i := strings.Index(s, "\n"); i >= 0 {
		s = s[:i]
	}
	return trunc(s, 200)
}

func trunc(s string, n int) string {
	if len(s) > n {
		return s[:n]
	}
	return s
}

func run(c *driver.Ctx) {
	// schedule diversity: the number of processors differs per shard
	procs := []int{1, 2, 4, 8}[c.Shard%4]
	runtime.GOMAXPROCS(procs)
	c.Distinct("gomaxprocs", procs)
	var backends []*expkit.Backend
	dir := directed()
	stuckCount := 0
	exec := func(cs Case) bool {
		_, completed := runCase(c, cs, &backends)
		if !completed {
			stuckCount++
		}
		return stuckCount < 2
	}
	// directed catalogue: dealt round-robin over the shards, case indices 0..len-1
	for d, cs := range dir {
		if d%c.NShards != c.Shard || !c.Want(int64(d)) {
			continue
		}
		tries := 1
		if cs.Directed == "persistent-no-dequeue-before-stop" {
			tries = 300 // schedule-dependent: the stop must win the race against the consumer's first dequeue
		}
		before := c.NViolations()
		for t := 0; t < tries; t++ {
			res, completed := runCase(c, cs, &backends)
			if !completed {
				stuckCount++
				break
			}
			if cs.Directed != "persistent-no-dequeue-before-stop" || res.riMissing || c.NViolations() > before {
				break
			}
		}
		c.Observe("directed_cases", 1)
	}
	runFailedStart(c)
	n := int64(c.N(300, 8000))
	for i := int64(0); i < n && stuckCount < 2; i++ {
		idx := 100 + i
		if !c.Want(idx) {
			continue
		}
		rng := c.CaseRand(idx)
		cs := genCase(rng)
		if c.Only >= 0 {
			// replay of a recorded witness: the outcome depends on the schedule, so the same case is repeated
			// until the violation shows again (bounded)
			for rep := 0; rep < 300 && c.NViolations() == 0 && stuckCount < 2; rep++ {
				exec(cs)
			}
			c.Observe("replay_repetitions", 1)
			continue
		}
		if !exec(cs) {
			c.Note("shard %d/%s stopped its work list after two abandoned (stuck) instances", c.Shard, c.Variant)
			break
		}
	}
	// settle: no export call may begin after its case was finished (observed until the end of the shard)
	for y := 0; y < 100; y++ {
		runtime.Gosched()
	}
	var late int64
	for _, b := range backends {
		late += b.Late()
	}
	c.Observe("late_export_calls_after_case_end", late)
	if late > 0 {
		c.Violation("export-after-shutdown", fmt.Sprintf("%d export call(s) began after their exporter's Shutdown had returned and the case had been evaluated (observed until the end of the shard)", late), nil, "point", "after-case-end")
	}
}

func main() {
	driver.Main(driver.Spec{
		ID:    "C03",
		Level: "exploration",
		Rule: "a case is one run of a public exporterhelper exporter: (signal, queue kind, batch mode, retry, consumers) x backend script x shutdown-point class, with producers in goroutines and Shutdown requested at a PRNG-chosen logical point; " +
			"distinct = distinct (configuration class, backend script, shutdown-point class); non-trivial = at least one item whose enqueue returned nil before Shutdown was requested had no final export outcome yet at that moment (queued, in a partial batch, in flight, or in a retry wait)",
		Assumptions: []string{
			"configurations are those the collector's own Validate accepts (persistent queue: requests sizer, hence batching behind it only through the legacy WithBatcher)",
			"bytes-sized batching is only exercised with max_size far above one item (a single item above max_size does not terminate: finding C04-b); retry intervals are >= 1 ms (back-off 0 is finding C05-a)",
			"'enqueue completed before shutdown was requested' = ConsumeX returned nil and logged its return before the driver logged the Shutdown call in the shared atomic sequence",
			"a transient failure counts as a final outcome only when retry is off or may give up (max_elapsed_time > 0); behind a persistent queue retry never gives up, so an item whose last attempt failed transiently must still be delivered by the next incarnation",
			"clean shutdowns only; crash points are C01's subject",
		},
		TrustedBase: []string{"harness in-memory storage.Extension (every call one atomic operation)", "runtime.Stack goroutine dumps for the leak differ", "componenttest.NewTelemetry manual reader for the queue-size gauge"},
		Shards:      func(string) int { return 16 },
		Variants:    func(string) []string { return []string{"race", "plain"} },
		MinNontrivial: func(tier string) int {
			if tier == "thorough" {
				return 600
			}
			return 150
		},
		ShardTimeout: func(tier string) time.Duration {
			if tier == "thorough" {
				return 40 * time.Minute
			}
			return 8 * time.Minute
		},
		Run:        run,
		MaxSamples: 2,
	})
}
