package main

// Shutdown after a failed Start. The service shuts every component down when one of them fails to start — also the
// one whose Start failed (graph.ShutdownAll does not distinguish). An exporter whose persistent queue cannot get its
// storage (extension missing from the host, or the storage refusing the client) fails in Start; the Shutdown that
// follows must return without a panic, begin no export and leave no helper goroutine behind, for every
// queue / batch configuration.

import (
	"context"
	"errors"
	"fmt"
	"time"

	"go.opentelemetry.io/collector/component"
	"go.opentelemetry.io/collector/component/componenttest"
	"go.opentelemetry.io/collector/exporter/exportertest"
	"go.opentelemetry.io/collector/verifharness/lib/driver"
	"go.opentelemetry.io/collector/verifharness/lib/expkit"
)

const failedStartBase = int64(2_000_000_000)

func runFailedStart(c *driver.Ctx) {
	batches := []string{expkit.BatchNone, expkit.BatchItems, expkit.BatchBytes, expkit.BatchLegacy}
	k := int64(0)
	for _, sig := range expkit.Signals {
		for _, batch := range batches {
			for _, why := range []string{"extension-missing", "client-refused"} {
				for _, twice := range []bool{false} { // a second Shutdown is not something the statement speaks about
					i := failedStartBase + k
					k++
					if int(k)%c.NShards != c.Shard || !c.Want(i) {
						continue
					}
					failedStartCase(c, sig, batch, why, twice)
				}
			}
		}
	}
}

func failedStartCase(c *driver.Ctx, sig expkit.Signal, batch, why string, twice bool) {
	cfg := expkit.ExpConfig{Sig: sig, Signal: sig.String(), Persistent: true, Batch: batch, Sizer: "requests", QueueSize: 100, Consumers: 2, NoTimeout: true, Retry: true}
	if batch != expkit.BatchNone {
		cfg.MinSize, cfg.FlushMS = 10, 3_600_000
	}
	wit := map[string]any{"config": cfg, "start_failure": why, "shutdown_called_twice": twice}
	sigKV := []string{"family", "failed-start", "batch", batch, "why", why}
	opts, err := cfg.Options()
	if err != nil {
		c.Note("failed-start: configuration refused: %v", err)
		return
	}
	exports := 0
	exp, err := expkit.NewExporter(sig, exportertest.NewNopSettings(expkit.ExporterType), func(context.Context, expkit.Payload) error { exports++; return nil }, opts...)
	if err != nil {
		c.Note("failed-start: exporter refused: %v", err)
		return
	}
	before := expkit.HelperGoroutines()
	var host component.Host = componenttest.NewNopHost()
	if why == "client-refused" {
		st := expkit.NewStore(nil)
		st.FailGetClient(errors.New("injected: storage refuses the client (c03)"))
		host = expkit.NewHost(st)
	}
	c.Eval()
	serr := exp.Start(context.Background(), host)
	if serr == nil {
		// not the situation of this family (would be a C13 matter); clean up
		_ = exp.Shutdown(context.Background())
		c.Observe("failed_start_cases_where_start_succeeded", 1)
		return
	}
	c.Observe("failed_start_cases", 1)
	c.Nontrivial("failed-start", sig.String(), batch, why, twice)
	n := 1
	if twice {
		n = 2 // the caller of the failed Start cleans up, and so does the service
	}
	for call := 1; call <= n; call++ {
		var shutErr error
		var pv any
		var stack string
		stuck := c.Guard(20*time.Second, func() int64 { return int64(call) }, func() {
			pv, stack = driver.Catch(func() { shutErr = exp.Shutdown(context.Background()) })
		})
		switch {
		case stuck != nil:
			c.Violation("stuck", fmt.Sprintf("Shutdown (call %d) of an exporter whose Start failed (%v) does not return (%s, batch=%s)", call, serr, sig, batch),
				wit, append(sigKV, "frames", fmt.Sprint(expkit.BlockedRepoFrames(stuck.Dump)))...)
			return
		case pv != nil:
			c.Violation("panic", fmt.Sprintf("Shutdown (call %d) of an exporter whose Start failed (%v) panicked: %v (%s, batch=%s)", call, serr, pv, sig, batch),
				map[string]any{"case": wit, "stack": trunc(stack, 3000)}, append(sigKV, "site", driver.PanicSite(stack))...)
			return
		}
		_ = shutErr
	}
	if exports > 0 {
		c.Violation("late", fmt.Sprintf("%d export call(s) were made by an exporter that never started", exports), wit, sigKV...)
	}
	if leaked := expkit.Leaked(before, 5); len(leaked) > 0 {
		var fr []string
		for _, g := range leaked {
			fr = append(fr, g.TopRepo+" ["+g.State+"]")
		}
		c.Violation("leak", fmt.Sprintf("helper goroutine(s) left running after the Shutdown of an exporter whose Start failed (%s, batch=%s): %v", sig, batch, fr), wit, append(sigKV, "frames", fmt.Sprint(fr))...)
	}
}
