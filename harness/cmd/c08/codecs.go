package main

import (
	"go.opentelemetry.io/collector/pdata/plog"
	"go.opentelemetry.io/collector/pdata/plog/plogotlp"
	"go.opentelemetry.io/collector/pdata/pmetric"
	"go.opentelemetry.io/collector/pdata/pmetric/pmetricotlp"
	"go.opentelemetry.io/collector/pdata/pprofile"
	"go.opentelemetry.io/collector/pdata/pprofile/pprofileotlp"
	"go.opentelemetry.io/collector/pdata/ptrace"
	"go.opentelemetry.io/collector/pdata/ptrace/ptraceotlp"
)

// subject is one kind of value that has a protobuf and a JSON codec: the four payloads and their
// OTLP export request / response wrappers. Functions cannot be discovered by reflection, so this
// table is written by hand; everything *inside* the values is discovered reflectively.
type subject struct {
	name    string // logs, logs-request, logs-response, …
	signal  string
	wrap    string // payload | request | response
	fresh   func() any
	pbMar   func(any) ([]byte, error)
	pbUnm   func([]byte) (any, error)
	jsMar   func(any) ([]byte, error)
	jsUnm   func([]byte) (any, error)
	size    func(any) int // nil if the API has no sizer
	payload func(any) any // the payload inside a request wrapper (for the element sizers), nil otherwise
	// pbMarObj / jsMarObj create ONE marshaler object and return its marshal entry point bound to it, so
	// that several calls can go through the same object (output-stability oracle). The wrappers have no
	// marshaler object (the entry point is a method of the value); their factories return pbMar / jsMar.
	pbMarObj func() func(any) ([]byte, error)
	jsMarObj func() func(any) ([]byte, error)
}

type protoCodec interface {
	MarshalProto() ([]byte, error)
	UnmarshalProto([]byte) error
	MarshalJSON() ([]byte, error)
	UnmarshalJSON([]byte) error
}

func wrapper(name, signal, wrap string, fresh func() protoCodec, payload func(any) any) subject {
	return subject{name: name, signal: signal, wrap: wrap,
		fresh: func() any { return fresh() },
		pbMar: func(x any) ([]byte, error) { return x.(protoCodec).MarshalProto() },
		jsMar: func(x any) ([]byte, error) { return x.(protoCodec).MarshalJSON() },
		pbUnm: func(b []byte) (any, error) {
			y := fresh()
			if err := y.UnmarshalProto(b); err != nil {
				return nil, err
			}
			return y, nil
		},
		jsUnm: func(b []byte) (any, error) {
			y := fresh()
			if err := y.UnmarshalJSON(b); err != nil {
				return nil, err
			}
			return y, nil
		},
		payload: payload,
		pbMarObj: func() func(any) ([]byte, error) {
			return func(x any) ([]byte, error) { return x.(protoCodec).MarshalProto() }
		},
		jsMarObj: func() func(any) ([]byte, error) {
			return func(x any) ([]byte, error) { return x.(protoCodec).MarshalJSON() }
		},
	}
}

var subjects = []subject{
	{name: "logs", signal: "logs", wrap: "payload", fresh: func() any { return plog.NewLogs() },
		pbMar: func(x any) ([]byte, error) { return (&plog.ProtoMarshaler{}).MarshalLogs(x.(plog.Logs)) },
		pbUnm: func(b []byte) (any, error) { return (&plog.ProtoUnmarshaler{}).UnmarshalLogs(b) },
		jsMar: func(x any) ([]byte, error) { return (&plog.JSONMarshaler{}).MarshalLogs(x.(plog.Logs)) },
		jsUnm: func(b []byte) (any, error) { return (&plog.JSONUnmarshaler{}).UnmarshalLogs(b) },
		size:  func(x any) int { return (&plog.ProtoMarshaler{}).LogsSize(x.(plog.Logs)) },
		pbMarObj: func() func(any) ([]byte, error) {
			m := &plog.ProtoMarshaler{}
			return func(x any) ([]byte, error) { return m.MarshalLogs(x.(plog.Logs)) }
		},
		jsMarObj: func() func(any) ([]byte, error) {
			m := &plog.JSONMarshaler{}
			return func(x any) ([]byte, error) { return m.MarshalLogs(x.(plog.Logs)) }
		}},
	{name: "traces", signal: "traces", wrap: "payload", fresh: func() any { return ptrace.NewTraces() },
		pbMar: func(x any) ([]byte, error) { return (&ptrace.ProtoMarshaler{}).MarshalTraces(x.(ptrace.Traces)) },
		pbUnm: func(b []byte) (any, error) { return (&ptrace.ProtoUnmarshaler{}).UnmarshalTraces(b) },
		jsMar: func(x any) ([]byte, error) { return (&ptrace.JSONMarshaler{}).MarshalTraces(x.(ptrace.Traces)) },
		jsUnm: func(b []byte) (any, error) { return (&ptrace.JSONUnmarshaler{}).UnmarshalTraces(b) },
		size:  func(x any) int { return (&ptrace.ProtoMarshaler{}).TracesSize(x.(ptrace.Traces)) },
		pbMarObj: func() func(any) ([]byte, error) {
			m := &ptrace.ProtoMarshaler{}
			return func(x any) ([]byte, error) { return m.MarshalTraces(x.(ptrace.Traces)) }
		},
		jsMarObj: func() func(any) ([]byte, error) {
			m := &ptrace.JSONMarshaler{}
			return func(x any) ([]byte, error) { return m.MarshalTraces(x.(ptrace.Traces)) }
		}},
	{name: "metrics", signal: "metrics", wrap: "payload", fresh: func() any { return pmetric.NewMetrics() },
		pbMar: func(x any) ([]byte, error) { return (&pmetric.ProtoMarshaler{}).MarshalMetrics(x.(pmetric.Metrics)) },
		pbUnm: func(b []byte) (any, error) { return (&pmetric.ProtoUnmarshaler{}).UnmarshalMetrics(b) },
		jsMar: func(x any) ([]byte, error) { return (&pmetric.JSONMarshaler{}).MarshalMetrics(x.(pmetric.Metrics)) },
		jsUnm: func(b []byte) (any, error) { return (&pmetric.JSONUnmarshaler{}).UnmarshalMetrics(b) },
		size:  func(x any) int { return (&pmetric.ProtoMarshaler{}).MetricsSize(x.(pmetric.Metrics)) },
		pbMarObj: func() func(any) ([]byte, error) {
			m := &pmetric.ProtoMarshaler{}
			return func(x any) ([]byte, error) { return m.MarshalMetrics(x.(pmetric.Metrics)) }
		},
		jsMarObj: func() func(any) ([]byte, error) {
			m := &pmetric.JSONMarshaler{}
			return func(x any) ([]byte, error) { return m.MarshalMetrics(x.(pmetric.Metrics)) }
		}},
	{name: "profiles", signal: "profiles", wrap: "payload", fresh: func() any { return pprofile.NewProfiles() },
		pbMar: func(x any) ([]byte, error) {
			return (&pprofile.ProtoMarshaler{}).MarshalProfiles(x.(pprofile.Profiles))
		},
		pbUnm: func(b []byte) (any, error) { return (&pprofile.ProtoUnmarshaler{}).UnmarshalProfiles(b) },
		jsMar: func(x any) ([]byte, error) { return (&pprofile.JSONMarshaler{}).MarshalProfiles(x.(pprofile.Profiles)) },
		jsUnm: func(b []byte) (any, error) { return (&pprofile.JSONUnmarshaler{}).UnmarshalProfiles(b) },
		size:  func(x any) int { return (&pprofile.ProtoMarshaler{}).ProfilesSize(x.(pprofile.Profiles)) },
		pbMarObj: func() func(any) ([]byte, error) {
			m := &pprofile.ProtoMarshaler{}
			return func(x any) ([]byte, error) { return m.MarshalProfiles(x.(pprofile.Profiles)) }
		},
		jsMarObj: func() func(any) ([]byte, error) {
			m := &pprofile.JSONMarshaler{}
			return func(x any) ([]byte, error) { return m.MarshalProfiles(x.(pprofile.Profiles)) }
		}},

	wrapper("logs-request", "logs", "request", func() protoCodec { return plogotlp.NewExportRequest() }, func(x any) any { return x.(plogotlp.ExportRequest).Logs() }),
	wrapper("traces-request", "traces", "request", func() protoCodec { return ptraceotlp.NewExportRequest() }, func(x any) any { return x.(ptraceotlp.ExportRequest).Traces() }),
	wrapper("metrics-request", "metrics", "request", func() protoCodec { return pmetricotlp.NewExportRequest() }, func(x any) any { return x.(pmetricotlp.ExportRequest).Metrics() }),
	wrapper("profiles-request", "profiles", "request", func() protoCodec { return pprofileotlp.NewExportRequest() }, func(x any) any { return x.(pprofileotlp.ExportRequest).Profiles() }),
	wrapper("logs-response", "logs", "response", func() protoCodec { return plogotlp.NewExportResponse() }, nil),
	wrapper("traces-response", "traces", "response", func() protoCodec { return ptraceotlp.NewExportResponse() }, nil),
	wrapper("metrics-response", "metrics", "response", func() protoCodec { return pmetricotlp.NewExportResponse() }, nil),
	wrapper("profiles-response", "profiles", "response", func() protoCodec { return pprofileotlp.NewExportResponse() }, nil),
}

// codec is one Unmarshal*/Marshal* pair (24 of them).
type codec struct {
	name string // e.g. logs-request/json
	subj *subject
	enc  string // proto | json
	mar  func(any) ([]byte, error)
	unm  func([]byte) (any, error)
	// the other encoding of the same subject (for the differential on decoded inputs)
	otherMar func(any) ([]byte, error)
	otherUnm func([]byte) (any, error)
}

func allCodecs() []*codec {
	var out []*codec
	for i := range subjects {
		s := &subjects[i]
		out = append(out, &codec{name: s.name + "/proto", subj: s, enc: "proto", mar: s.pbMar, unm: s.pbUnm, otherMar: s.jsMar, otherUnm: s.jsUnm})
		out = append(out, &codec{name: s.name + "/json", subj: s, enc: "json", mar: s.jsMar, unm: s.jsUnm, otherMar: s.pbMar, otherUnm: s.pbUnm})
	}
	return out
}

func codecByName(n string) *codec {
	for _, c := range allCodecs() {
		if c.name == n {
			return c
		}
	}
	return nil
}
