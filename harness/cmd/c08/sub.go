package main

import (
	"bufio"
	"encoding/binary"
	"encoding/json"
	"fmt"
	"io"
	"os"
	"os/exec"
	"path/filepath"
	"strconv"
	"strings"
	"syscall"
	"time"

	"go.opentelemetry.io/collector/verifharness/lib/driver"
	rp "go.opentelemetry.io/collector/verifharness/lib/reflectpd"
)

// Sub-children: every batch of byte inputs is decoded in a separate process with RLIMIT_CPU and
// RLIMIT_AS. The batch is on disk before the process starts and the process appends "S <i>" before and
// "R <i> <json>" after each input, so a process that is killed (CPU limit = hang, fatal error = stack
// overflow / out of memory) leaves the index of the input that did it; the rest of the batch is then run
// by a new process and the suspect is re-run alone to confirm, which makes a hang a violation with a
// witness instead of a dead check.

const (
	subCPUSeconds = 20      // soft RLIMIT_CPU of a sub-child; a normal input costs well under 5 ms
	subASBytes    = 6 << 30 // RLIMIT_AS
)

func writeBatch(path string, inputs []genInput) error {
	f, err := os.Create(path)
	if err != nil {
		return err
	}
	w := bufio.NewWriter(f)
	var hdr [4]byte
	for _, in := range inputs {
		binary.LittleEndian.PutUint32(hdr[:], uint32(len(in.data)))
		w.Write(hdr[:])
		w.Write(in.data)
	}
	if err := w.Flush(); err != nil {
		f.Close()
		return err
	}
	return f.Close()
}

func readBatch(path string) ([][]byte, error) {
	b, err := os.ReadFile(path)
	if err != nil {
		return nil, err
	}
	var out [][]byte
	for len(b) >= 4 {
		n := int(binary.LittleEndian.Uint32(b))
		b = b[4:]
		if n > len(b) {
			return nil, io.ErrUnexpectedEOF
		}
		out = append(out, b[:n])
		b = b[n:]
	}
	return out, nil
}

// subMain is the entry point of a sub-child: -c08sub <codec> <batch> <results> <from> <to>
func subMain(args []string) {
	if len(args) != 5 {
		fmt.Fprintln(os.Stderr, "usage: -c08sub codec batch results from to")
		os.Exit(3)
	}
	syscall.Setrlimit(syscall.RLIMIT_CPU, &syscall.Rlimit{Cur: subCPUSeconds, Max: subCPUSeconds + 5})
	syscall.Setrlimit(syscall.RLIMIT_AS, &syscall.Rlimit{Cur: subASBytes, Max: subASBytes})
	cd := codecByName(args[0])
	inputs, err := readBatch(args[1])
	from, _ := strconv.Atoi(args[3])
	to, _ := strconv.Atoi(args[4])
	if cd == nil || err != nil {
		fmt.Fprintln(os.Stderr, "bad batch:", err)
		os.Exit(3)
	}
	out, err := os.OpenFile(args[2], os.O_APPEND|os.O_CREATE|os.O_WRONLY, 0o644)
	if err != nil {
		os.Exit(3)
	}
	reg := rp.NewRegistry(rp.AllCtors())
	for i := from; i < to && i < len(inputs); i++ {
		fmt.Fprintf(out, "S %d\n", i)
		r := checkInput(reg, cd, inputs[i])
		b, _ := json.Marshal(r)
		fmt.Fprintf(out, "R %d %s\n", i, b)
	}
	fmt.Fprintln(out, "DONE")
	out.Close()
	os.Exit(0)
}

// subExe is the binary sub-children are started from: a private copy of the running executable, taken
// from /proc/self/exe when the shard starts, so that a rebuild of bin/c08-* by a concurrent ./check
// (other seed, mutant, overlay) cannot change the code under test in the middle of a run.
var subExe = os.Args[0]

func pinExecutable(dir string) {
	src, err := os.Open("/proc/self/exe")
	if err != nil {
		return
	}
	defer src.Close()
	dst := filepath.Join(dir, "c08-self")
	out, err := os.OpenFile(dst, os.O_CREATE|os.O_WRONLY|os.O_TRUNC, 0o755)
	if err != nil {
		return
	}
	if _, err := io.Copy(out, src); err != nil {
		out.Close()
		return
	}
	if out.Close() == nil {
		subExe = dst
	}
}

type subOutcome struct {
	results map[int]inputResult
	// suspect: index of the input during which the process died (-1 if it finished)
	suspect int
	how     string // cpu-limit | fatal:<first line> | killed:<signal> | exit:<code> | wall-timeout
	log     string
}

func parseResults(path string) (map[int]inputResult, int, bool) {
	res := map[int]inputResult{}
	started := -1
	done := false
	b, _ := os.ReadFile(path)
	for _, l := range strings.Split(string(b), "\n") {
		switch {
		case strings.HasPrefix(l, "S "):
			started, _ = strconv.Atoi(l[2:])
		case strings.HasPrefix(l, "R "):
			parts := strings.SplitN(l, " ", 3)
			if len(parts) == 3 {
				i, _ := strconv.Atoi(parts[1])
				var r inputResult
				if json.Unmarshal([]byte(parts[2]), &r) == nil {
					res[i] = r
					if i == started {
						started = -1
					}
				}
			}
		case l == "DONE":
			done = true
		}
	}
	return res, started, done
}

func runSub(dir, codecName, batch string, from, to int, tag string) subOutcome {
	resPath := filepath.Join(dir, tag+".res")
	logPath := filepath.Join(dir, tag+".log")
	os.Remove(resPath)
	lf, _ := os.Create(logPath)
	cmd := exec.Command(subExe, "-c08sub", codecName, batch, resPath, strconv.Itoa(from), strconv.Itoa(to))
	cmd.Stdout, cmd.Stderr = lf, lf
	cmd.Env = append(os.Environ(), "GOMAXPROCS=2", "GOTRACEBACK=single", "GOGC=50")
	cmd.SysProcAttr = &syscall.SysProcAttr{Setpgid: true}
	out := subOutcome{suspect: -1}
	if err := cmd.Start(); err != nil {
		lf.Close()
		out.how = "start-failed: " + err.Error()
		out.suspect = from
		return out
	}
	done := make(chan error, 1)
	go func() { done <- cmd.Wait() }()
	var werr error
	select {
	case werr = <-done:
	case <-time.After(10 * time.Minute): // infrastructure watchdog only (a sleeping process); never a verdict
		syscall.Kill(-cmd.Process.Pid, syscall.SIGKILL)
		<-done
		out.how = "wall-timeout"
	}
	lf.Close()
	res, started, finished := parseResults(resPath)
	out.results = res
	if finished && werr == nil {
		return out
	}
	out.suspect = started
	if lb, err := os.ReadFile(logPath); err == nil {
		out.log = string(lb)
		if len(out.log) > 3000 {
			out.log = out.log[:3000]
		}
	}
	if out.how == "" {
		out.how = "exit"
		if ee, ok := werr.(*exec.ExitError); ok {
			if ws, ok := ee.Sys().(syscall.WaitStatus); ok && ws.Signaled() {
				switch ws.Signal() {
				case syscall.SIGXCPU, syscall.SIGKILL:
					out.how = "cpu-limit"
				default:
					out.how = "killed:" + ws.Signal().String()
				}
			} else {
				out.how = "exit:" + strconv.Itoa(ee.ExitCode())
			}
		}
		switch {
		case strings.Contains(out.log, "SIGXCPU"):
			out.how = "cpu-limit"
		case strings.Contains(out.log, "fatal error: "):
			i := strings.Index(out.log, "fatal error: ")
			out.how = "fatal:" + strings.SplitN(out.log[i+13:], "\n", 2)[0]
		case strings.Contains(out.log, "goroutine stack exceeds"):
			out.how = "fatal:stack overflow"
		}
	}
	return out
}

// runBatch runs all inputs of a batch through sub-children and reports per-input results; an input
// during which a sub-child died is re-run alone: if it kills its process again it is a violation with
// the input as the witness, otherwise the death is inconclusive.
func runBatch(c *driver.Ctx, dir string, cd *codec, inputs []genInput, tag string) map[int]inputResult {
	batch := filepath.Join(dir, tag+".batch")
	if err := writeBatch(batch, inputs); err != nil {
		c.Inconclusive("cannot-write-batch")
		return nil
	}
	all := map[int]inputResult{}
	from := 0
	for round := 0; from < len(inputs) && round < 50; round++ {
		o := runSub(dir, cd.name, batch, from, len(inputs), fmt.Sprintf("%s-r%d", tag, round))
		c.Observe("sub_children", 1)
		for i, r := range o.results {
			all[i] = r
		}
		if o.suspect < 0 {
			if o.how != "" {
				c.Inconclusive("sub-child:" + o.how)
			}
			break
		}
		// confirm alone
		k := o.suspect
		c.Observe("sub_child_deaths", 1)
		conf := runSub(dir, cd.name, batch, k, k+1, fmt.Sprintf("%s-r%d-confirm", tag, round))
		c.Observe("sub_children", 1)
		switch {
		case conf.suspect == k && strings.HasPrefix(conf.how, "cpu-limit") && strings.HasPrefix(o.how, "cpu-limit"):
			all[k] = inputResult{"violation", mkFinding("hang", fmt.Sprintf("decoding does not terminate: the process used %d s of CPU on this one input (twice); siblings take milliseconds", subCPUSeconds),
				"codec", cd.name, "how", "cpu-limit"), nil}
		case conf.suspect == k && strings.HasPrefix(conf.how, "fatal:"):
			all[k] = inputResult{"violation", mkFinding("crash", "decoding kills the process: "+conf.how+"\n"+trimS(conf.log, 1200), "codec", cd.name, "how", trimS(conf.how, 60)), nil}
		case conf.suspect == k && conf.how != "wall-timeout":
			all[k] = inputResult{"violation", mkFinding("crash", "decoding kills the process ("+conf.how+")\n"+trimS(conf.log, 1200), "codec", cd.name, "how", trimS(conf.how, 60)), nil}
		default:
			if r, ok := conf.results[k]; ok {
				all[k] = r // passed alone: the death was not caused by this input
			}
			c.Inconclusive("sub-child-death-not-reproduced:" + o.how)
		}
		from = k + 1
	}
	os.Remove(batch)
	return all
}
