package main

import (
	"bytes"
	"fmt"
	"math"
	"math/rand"
	"reflect"
	"sort"
	"strings"

	"go.opentelemetry.io/collector/verifharness/lib/driver"
	rp "go.opentelemetry.io/collector/verifharness/lib/reflectpd"
)

// finding is a refutation produced by an oracle (in the shard child or in a sub-child).
type finding struct {
	Sub  string            `json:"sub"`
	What string            `json:"what"`
	Sig  map[string]string `json:"sig"`
}

func mkFinding(sub, what string, kv ...string) *finding {
	f := &finding{Sub: sub, What: what, Sig: map[string]string{}}
	for i := 0; i+1 < len(kv); i += 2 {
		f.Sig[kv[i]] = kv[i+1]
	}
	return f
}

func (f *finding) sigList() []string {
	ks := make([]string, 0, len(f.Sig))
	for k := range f.Sig {
		ks = append(ks, k)
	}
	sort.Strings(ks)
	var out []string
	for _, k := range ks {
		out = append(out, k, f.Sig[k])
	}
	return out
}

// fieldOf names the field at a divergence without indices: "plog.LogRecord.EventName".
func fieldOf(d *rp.Difference) string {
	if d == nil {
		return "none"
	}
	f := d.Field
	if f == "" {
		f = "(" + d.Class + ")"
	}
	return d.Owner + "." + f
}

func firstDiff(a, b []byte) string {
	i := 0
	for i < len(a) && i < len(b) && a[i] == b[i] {
		i++
	}
	lo := i - 24
	if lo < 0 {
		lo = 0
	}
	hi := func(x []byte) int {
		if i+24 < len(x) {
			return i + 24
		}
		return len(x)
	}
	return fmt.Sprintf("first difference at byte %d (lengths %d / %d): …%q vs …%q", i, len(a), len(b), a[lo:hi(a)], b[lo:hi(b)])
}

func guardCall(what string, fn func()) (panicMsg, site string) {
	pv, stack := driver.Catch(fn)
	if pv == nil {
		return "", ""
	}
	return fmt.Sprintf("%s panicked: %v", what, pv), driver.PanicSite(stack)
}

// fillModes vary what a generated value stresses.
var fillModes = []struct {
	name            string
	maxLen, budget  int
	pExtreme, pSkip float64
	pEmptyAlt       float64
	depth           int
}{
	{"all-fields-unique", 2, 400, 0.0, 0.0, 0.0, 2},
	{"extreme-scalars", 2, 50, 0.6, 0.05, 0.1, 2},
	{"sparse", 3, 40, 0.15, 0.6, 0.4, 1},
	{"wide", 4, 160, 0.1, 0.1, 0.1, 3},
	{"empty-containers", 1, 8, 0.2, 0.3, 0.3, 1},
	{"mixed", 3, 80, 0.25, 0.15, 0.15, 2},
}

func newFiller(reg *rp.Registry, rng *rand.Rand, mode int) *rp.Filler {
	m := fillModes[mode%len(fillModes)]
	minLen := 0
	if m.name == "all-fields-unique" {
		minLen = 1 // every container non-empty, so that every field of every type is reached
	}
	return &rp.Filler{R: reg, Rng: rng, MaxLen: m.maxLen, MinLen: minLen, Budget: m.budget, PExtreme: m.pExtreme, PSkip: m.pSkip, PEmptyAlt: m.pEmptyAlt, MaxDepth: m.depth,
		Cover: map[string]struct{}{}}
}

// normQuirks maps the two value shapes that the encoders are known to normalise away (findings C08-d and
// C08-g: a zero-length bytes value comes back Empty, -0.0 in a plain double field comes back +0.0) to
// their normal forms. Snapshot differences are judged twice: raw, and after this normalisation; what
// only differs raw is reported under the quirk's own narrow signature, what still differs afterwards is
// reported as an ordinary refutation — so the known quirks never mask anything else in the same value.
func normQuirks(n *rp.Node) *rp.Node {
	if n == nil {
		return nil
	}
	c := *n
	if c.Kind == rp.KValue && c.Leaf == "Bytes" && len(c.Kids) == 1 && len(c.Kids[0].Kids) == 0 {
		c.Leaf, c.Kids = "Empty", nil
		return &c
	}
	if c.Kind == rp.KLeaf && strings.HasPrefix(c.Leaf, "f8000000000000000(") {
		c.Leaf = "f0(0)"
		return &c
	}
	if c.Kind == rp.KLeaf && isOddNaN(c.Leaf) {
		c.Leaf = canonNaN
		return &c
	}
	if len(n.Kids) > 0 {
		c.Kids = make([]*rp.Node, len(n.Kids))
		for i, k := range n.Kids {
			c.Kids[i] = normQuirks(k)
		}
	}
	return &c
}

// canonNaN is the leaf of Go's math.NaN(); OTLP/JSON writes every NaN as the string "NaN" (finding C08-h).
var canonNaN = rp.LeafOf(reflect.ValueOf(math.NaN()))

func isOddNaN(leaf string) bool {
	return strings.HasPrefix(leaf, "f") && strings.HasSuffix(leaf, "(NaN)") && leaf != canonNaN
}

// snapshotFindings compares the original with what came back from a codec.
func snapshotFindings(sub, codecName string, s *subject, want, got *rp.Node, emit func(*finding, map[string]any), wit func(map[string]any) map[string]any) (equal bool) {
	d := rp.Diff(want, got)
	if d == nil {
		return true
	}
	if dn := rp.Diff(normQuirks(want), normQuirks(got)); dn != nil {
		emit(mkFinding(sub, fmt.Sprintf("%s round trip changes %s: %s became %s", codecName, dn.Path, dn.Want, dn.Got), "subject", s.name, "field", fieldOf(dn), "fault", leafClass(dn)),
			wit(map[string]any{"path": dn.Path, "want": dn.Want, "got": dn.Got}))
	}
	// the quirk-only part, one finding per quirk class present at a differing place
	seen := map[string]bool{}
	var walk func(w, g *rp.Node, path string)
	walk = func(w, g *rp.Node, path string) {
		if w == nil || g == nil || rp.Equal(w, g) {
			return
		}
		cls := ""
		switch {
		case w.Kind == rp.KValue && w.Leaf == "Bytes" && len(w.Kids) == 1 && len(w.Kids[0].Kids) == 0 && g.Kind == rp.KValue && g.Leaf == "Empty":
			cls = "empty-bytes-becomes-empty"
		case w.Kind == rp.KLeaf && strings.HasPrefix(w.Leaf, "f8000000000000000(") && g.Kind == rp.KLeaf && g.Leaf == "f0(0)":
			cls = "negative-zero-lost"
		case w.Kind == rp.KLeaf && isOddNaN(w.Leaf) && g.Kind == rp.KLeaf && g.Leaf == canonNaN:
			cls = "nan-payload-lost"
		}
		if cls != "" {
			if !seen[cls] {
				seen[cls] = true
				emit(mkFinding(sub, fmt.Sprintf("%s round trip changes %s: %s became %s", codecName, path, rp.Excerpt(w, 60), rp.Excerpt(g, 60)), "subject", s.name, "field", "-", "fault", cls),
					wit(map[string]any{"path": path}))
			}
			return
		}
		if len(w.Kids) == len(g.Kids) {
			for i := range w.Kids {
				walk(w.Kids[i], g.Kids[i], fmt.Sprintf("%s/%d", path, i))
			}
		}
	}
	walk(want, got, "")
	return false
}

// valueOracles runs every value-level oracle on one filled value; emit receives the refutations.
func valueOracles(reg *rp.Registry, s *subject, x any, obs func(string, int64), emit func(*finding, map[string]any)) {
	snapX := reg.SnapshotAny(x)
	wit := func(extra map[string]any) map[string]any {
		w := map[string]any{"subject": s.name, "value": rp.Excerpt(snapX, 1500)}
		for k, v := range extra {
			w[k] = v
		}
		return w
	}

	// --- protobuf
	var pb []byte
	var err error
	if msg, site := guardCall("protobuf marshal", func() { pb, err = s.pbMar(x) }); msg != "" {
		emit(mkFinding("proto-marshal", msg+" at "+site, "subject", s.name, "fault", "panic"), wit(nil))
		return
	}
	if err != nil {
		emit(mkFinding("proto-marshal", "protobuf marshal of a generated value failed: "+err.Error(), "subject", s.name, "fault", "error"), wit(nil))
		return
	}
	obs("proto_marshals", 1)
	if s.size != nil {
		var sz int
		if msg, site := guardCall("size", func() { sz = s.size(x) }); msg != "" {
			emit(mkFinding("size", msg+" at "+site, "subject", s.name, "sizer", "payload", "fault", "panic"), wit(nil))
		} else if sz != len(pb) {
			emit(mkFinding("size", fmt.Sprintf("reported size %d, encoding has %d bytes", sz, len(pb)), "subject", s.name, "sizer", "payload", "fault", "mismatch"), wit(nil))
		}
		obs("size_checks", 1)
	}
	elementSizers(reg, s, x, pb, obs, func(f *finding) { emit(f, wit(nil)) })

	var y any
	if msg, site := guardCall("protobuf unmarshal", func() { y, err = s.pbUnm(pb) }); msg != "" {
		emit(mkFinding("proto-roundtrip", msg+" at "+site, "subject", s.name, "field", "-", "fault", "panic"), wit(nil))
		return
	}
	if err != nil {
		emit(mkFinding("proto-roundtrip", "the protobuf decoder rejects the encoder's output: "+err.Error(), "subject", s.name, "field", "-", "fault", "rejected"), wit(nil))
		return
	}
	snapY := reg.SnapshotAny(y)
	snapshotFindings("proto-roundtrip", "protobuf", s, snapX, snapY, emit, wit)
	var pb2 []byte
	if msg, site := guardCall("protobuf re-marshal", func() { pb2, err = s.pbMar(y) }); msg != "" {
		emit(mkFinding("proto-roundtrip", msg+" at "+site, "subject", s.name, "field", "-", "fault", "panic"), wit(nil))
	} else if !bytes.Equal(pb, pb2) {
		emit(mkFinding("proto-remarshal", "decoded value re-encodes to different bytes: "+firstDiff(pb, pb2), "subject", s.name, "quirk", quirks(snapX)), wit(nil))
	}
	obs("proto_roundtrips", 1)

	jsonOracles(reg, s, x, snapX, pb, obs, emit, wit)
	if quirks(snapX) != "none" && pb2 != nil {
		// the value holds a shape the encoders normalise (known findings): judge the JSON oracles a second
		// time on its protobuf-normalised twin, so that those findings do not weaken the byte-level checks
		obs("values_rechecked_without_quirks", 1)
		jsonOracles(reg, s, y, snapY, pb2, obs, emit, func(extra map[string]any) map[string]any {
			w := wit(extra)
			w["note"] = "value = protobuf round trip of the generated value"
			return w
		})
	}
}

func jsonOracles(reg *rp.Registry, s *subject, x any, snapX *rp.Node, pb []byte, obs func(string, int64), emit func(*finding, map[string]any), wit func(map[string]any) map[string]any) {
	hasNaN := hasNaNLeaf(snapX)
	var err error
	var js []byte
	if msg, site := guardCall("JSON marshal", func() { js, err = s.jsMar(x) }); msg != "" {
		emit(mkFinding("json-marshal", msg+" at "+site, "subject", s.name, "fault", "panic"), wit(nil))
		return
	}
	if err != nil {
		emit(mkFinding("json-marshal", "JSON marshal of a generated value failed: "+err.Error(), "subject", s.name, "fault", "error"), wit(nil))
		return
	}
	var z any
	if msg, site := guardCall("JSON unmarshal", func() { z, err = s.jsUnm(js) }); msg != "" {
		emit(mkFinding("json-roundtrip", msg+" at "+site, "subject", s.name, "field", "-", "fault", "panic"), wit(map[string]any{"json": string(js)}))
		return
	}
	if err != nil {
		emit(mkFinding("json-roundtrip", "the JSON decoder rejects the encoder's output: "+errClass(err), "subject", s.name, "field", "-", "fault", "rejected"),
			wit(map[string]any{"json": trimS(string(js), 3000), "error": err.Error()}))
		return
	}
	obs("json_roundtrips", 1)
	var pbz []byte
	if !snapshotFindings("json-roundtrip", "JSON", s, snapX, reg.SnapshotAny(z), emit, wit) {
		pbz, _ = s.pbMar(z)
	} else {
		if msg, site := guardCall("protobuf marshal of the JSON-decoded value", func() { pbz, err = s.pbMar(z) }); msg != "" {
			emit(mkFinding("json-proto-differential", msg+" at "+site, "subject", s.name, "fault", "panic", "quirk", "-"), wit(nil))
		} else if !bytes.Equal(pb, pbz) && !hasNaN {
			emit(mkFinding("json-proto-differential", "MarshalProto(UnmarshalJSON(MarshalJSON(x))) differs from MarshalProto(x) although all getters agree: "+firstDiff(pb, pbz), "subject", s.name, "fault", "bytes", "quirk", quirks(snapX)), wit(nil))
		}
		obs("json_proto_differentials", 1)
		var js2 []byte
		if msg, site := guardCall("JSON re-marshal", func() { js2, err = s.jsMar(z) }); msg != "" {
			emit(mkFinding("json-roundtrip", msg+" at "+site, "subject", s.name, "field", "-", "fault", "panic"), wit(nil))
		} else if !bytes.Equal(js, js2) {
			emit(mkFinding("json-remarshal", "JSON-decoded value re-encodes to different JSON: "+firstDiff(js, js2), "subject", s.name, "quirk", quirks(snapX)), wit(nil))
		}
	}

	// --- JSON variants: the same document with 64-bit integers as numbers instead of strings and
	// enums as names instead of numbers must decode to the same protobuf bytes as the original form
	if pbz == nil {
		return
	}
	for _, v := range jsonVariants(js) {
		obs("json_variant:"+v.name, 1)
		if v.changed == 0 {
			continue
		}
		obs("json_variant_edits:"+v.name, int64(v.changed))
		var zv any
		if msg, site := guardCall("JSON unmarshal of variant "+v.name, func() { zv, err = s.jsUnm(v.doc) }); msg != "" {
			emit(mkFinding("json-variant", msg+" at "+site, "subject", s.name, "variant", v.name, "fault", "panic", "key", "-"), wit(map[string]any{"json": trimS(string(v.doc), 3000)}))
			continue
		}
		if err != nil {
			key := variantErrKey(v, err)
			if v.observeOnly {
				obs("json_variant_rejected:"+v.name, 1)
				continue
			}
			emit(mkFinding("json-variant", fmt.Sprintf("the JSON decoder rejects the %s form of its own output: %v", v.name, err), "subject", s.name, "variant", v.name, "fault", "rejected", "key", key),
				wit(map[string]any{"json": trimS(string(v.doc), 3000), "error": err.Error()}))
			continue
		}
		pbv, _ := s.pbMar(zv)
		if bytes.Equal(pbv, pbz) {
			continue
		}
		if v.observeOnly {
			obs("json_variant_differs:"+v.name, 1)
			continue
		}
		d := rp.Diff(reg.SnapshotAny(z), reg.SnapshotAny(zv))
		what := "different protobuf bytes: " + firstDiff(pbz, pbv)
		if d != nil {
			what = fmt.Sprintf("%s is %s instead of %s", d.Path, d.Got, d.Want)
		}
		emit(mkFinding("json-variant", fmt.Sprintf("the %s form of the JSON document decodes differently: %s", v.name, what), "subject", s.name, "variant", v.name, "fault", "differs", "key", fieldOf(d)),
			wit(map[string]any{"json": trimS(string(v.doc), 3000)}))
	}
}

// quirks names properties of a value that the encoders are known to normalise away; they are attached
// to "bytes differ although all getters agree" refutations so that known findings match narrowly.
func quirks(n *rp.Node) string {
	var q []string
	eb, nz, on := false, false, false
	var walk func(*rp.Node)
	walk = func(n *rp.Node) {
		if n == nil {
			return
		}
		if n.Kind == rp.KValue && n.Leaf == "Bytes" && len(n.Kids) == 1 && len(n.Kids[0].Kids) == 0 {
			eb = true
		}
		if n.Kind == rp.KLeaf && strings.HasPrefix(n.Leaf, "f8000000000000000(") {
			nz = true
		}
		if n.Kind == rp.KLeaf && isOddNaN(n.Leaf) {
			on = true
		}
		for _, k := range n.Kids {
			walk(k)
		}
	}
	walk(n)
	if eb {
		q = append(q, "empty-bytes-value")
	}
	if nz {
		q = append(q, "negative-zero")
	}
	if on {
		q = append(q, "nan-payload")
	}
	if len(q) == 0 {
		return "none"
	}
	return strings.Join(q, "+")
}

// normNaN erases the payload bits of NaNs (the JSON text "NaN" cannot carry them).
func normNaN(n *rp.Node) *rp.Node {
	if n == nil {
		return nil
	}
	if n.Kind == rp.KLeaf && strings.HasSuffix(n.Leaf, "(NaN)") {
		c := *n
		c.Leaf = "NaN"
		return &c
	}
	if len(n.Kids) == 0 {
		return n
	}
	c := *n
	c.Kids = make([]*rp.Node, len(n.Kids))
	for i, k := range n.Kids {
		c.Kids[i] = normNaN(k)
	}
	return &c
}

func trimS(s string, n int) string {
	if len(s) > n {
		return s[:n] + "…"
	}
	return s
}

func walkLeaves(n *rp.Node, f func(string)) {
	if n == nil {
		return
	}
	if n.Kind == rp.KLeaf {
		f(n.Leaf)
	}
	for _, k := range n.Kids {
		walkLeaves(k, f)
	}
}

// leafClass classifies how a value changed (low cardinality): dropped, negative-zero, nan, empty-bytes, other.
func leafClass(d *rp.Difference) string {
	switch {
	case strings.HasPrefix(d.Want, "f8000000000000000(") && strings.HasPrefix(d.Got, "f0("):
		return "negative-zero-lost"
	case strings.HasPrefix(d.Want, "Bytes([])") && strings.HasPrefix(d.Got, "Empty"):
		return "empty-bytes-becomes-empty"
	case strings.Contains(d.Want, "(NaN)"):
		return "nan"
	case d.Class == "len" && strings.HasPrefix(d.Got, "[]"):
		return "dropped"
	case d.Got == "s:" || d.Got == "0" || d.Got == "u0" || d.Got == "f0(0)" || d.Got == "false":
		return "dropped"
	}
	return "changed"
}

func errClass(err error) string {
	s := err.Error()
	if i := strings.Index(s, ", error found in"); i > 0 {
		s = s[:i]
	}
	if len(s) > 120 {
		s = s[:120]
	}
	return s
}
