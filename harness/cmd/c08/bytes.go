package main

import (
	"bytes"
	"fmt"
	"math/rand"
	"regexp"
	"strings"
	"unicode/utf8"

	"go.opentelemetry.io/collector/verifharness/lib/driver"
	rp "go.opentelemetry.io/collector/verifharness/lib/reflectpd"
)

// ---------------------------------------------------------------------------------------------
// per-input oracle (runs inside a CPU/memory-limited sub-child)

type inputResult struct {
	Outcome string   `json:"o"` // rejected | fixed-point | normalised (b1!=b2==b3, invalid UTF-8) | violation
	F       *finding `json:"f,omitempty"`
	// second finding slot: the differential on the decoded value
	F2 *finding `json:"f2,omitempty"`
}

func allStringsValid(n *rp.Node) bool {
	ok := true
	n.Strings(func(s string) {
		if !utf8.ValidString(s) {
			ok = false
		}
	})
	return ok
}

func hasNaNLeaf(n *rp.Node) bool {
	found := false
	walkLeaves(n, func(l string) {
		if strings.HasSuffix(l, "(NaN)") {
			found = true
		}
	})
	return found
}

func checkInput(reg *rp.Registry, cd *codec, in []byte) (res inputResult) {
	var x any
	var err error
	var stage string
	pv, stack := driver.Catch(func() {
		stage = "decode"
		x, err = cd.unm(in)
		if err != nil {
			return
		}
		stage = "encode"
		var b1 []byte
		if b1, err = cd.mar(x); err != nil {
			res = inputResult{"violation", mkFinding("re-encode", "a decoded value cannot be encoded again: "+errClass(err), "codec", cd.name, "fault", "error"), nil}
			return
		}
		stage = "re-decode"
		x2, e2 := cd.unm(b1)
		if e2 != nil {
			res = inputResult{"violation", mkFinding("re-decode", "the decoder rejects the encoder's output for a value it decoded itself: "+errClass(e2), "codec", cd.name, "fault", "rejected"), nil}
			err = nil
			return
		}
		stage = "re-encode"
		b2, _ := cd.mar(x2)
		x3, e3 := cd.unm(b2)
		if e3 != nil {
			res = inputResult{"violation", mkFinding("re-decode", "second round: the decoder rejects the encoder's output: "+errClass(e3), "codec", cd.name, "fault", "rejected-round2"), nil}
			return
		}
		b3, _ := cd.mar(x3)
		snap := reg.SnapshotAny(x)
		valid := allStringsValid(snap)
		switch {
		case !bytes.Equal(b2, b3):
			d := rp.Diff(reg.SnapshotAny(x2), reg.SnapshotAny(x3))
			res = inputResult{"violation", mkFinding("fixed-point", "re-encoding does not reach a fixed point within one normalisation round (b2 != b3): "+firstDiff(b2, b3),
				"codec", cd.name, "field", fieldOf(d), "fault", "b2!=b3"), nil}
		case !bytes.Equal(b1, b2) && valid:
			d := rp.Diff(snap, reg.SnapshotAny(x2))
			res = inputResult{"violation", mkFinding("fixed-point", "a decoded value with only valid UTF-8 changes when it is encoded and decoded again (b1 != b2): "+firstDiff(b1, b2),
				"codec", cd.name, "field", fieldOf(d), "fault", "b1!=b2"), nil}
		case !bytes.Equal(b1, b2):
			res.Outcome = "normalised"
		default:
			res.Outcome = "fixed-point"
		}
		// the statement's differential, applied to the decoded value (a telemetry payload like any other):
		// MarshalProto(UnmarshalJSON(MarshalJSON(x))) == MarshalProto(x)
		if valid {
			stage = "differential"
			sj := cd.subj
			p0, pe := sj.pbMar(x)
			if pe != nil {
				res.F2 = mkFinding("decoded-differential", "a decoded value cannot be encoded as protobuf: "+errClass(pe), "codec", cd.name, "field", "-", "fault", "proto-encode-error")
				return
			}
			j0, je := sj.jsMar(x)
			if je != nil {
				res.F2 = mkFinding("decoded-differential", "a decoded value cannot be encoded as JSON: "+errClass(je), "codec", cd.name, "field", "-", "fault", "json-encode-error")
				return
			}
			z, ze := sj.jsUnm(j0)
			if ze != nil {
				res.F2 = mkFinding("decoded-differential", "the JSON decoder rejects the JSON encoder's output for a decoded value: "+errClass(ze), "codec", cd.name, "field", "-", "fault", "json-rejected")
				return
			}
			pz, _ := sj.pbMar(z)
			if !bytes.Equal(pz, p0) {
				d := rp.Diff(normNaN(normQuirks(snap)), normNaN(normQuirks(reg.SnapshotAny(z))))
				switch {
				case d != nil:
					res.F2 = mkFinding("decoded-differential", fmt.Sprintf("MarshalProto(UnmarshalJSON(MarshalJSON(x))) != MarshalProto(x) for a decoded value x: %s is %s instead of %s", d.Path, d.Got, d.Want),
						"codec", cd.name, "field", fieldOf(d), "fault", leafClass(d))
				case hasNaNLeaf(snap):
					// NaN payload bits cannot be carried by the JSON text "NaN": not a verdict
				case quirks(snap) != "none":
					// zero-length bytes value / -0.0: known findings C08-d / C08-g, judged by the value oracles
				default:
					res.F2 = mkFinding("decoded-differential", "MarshalProto(UnmarshalJSON(MarshalJSON(x))) != MarshalProto(x) for a decoded value x although all getters agree (the encoding carries data the API does not expose): "+firstDiff(p0, pz),
						"codec", cd.name, "field", "hidden", "fault", "bytes")
				}
			}
		}
	})
	if pv != nil {
		return inputResult{"violation", mkFinding("panic", fmt.Sprintf("%s of arbitrary bytes panicked: %v (at %s)", stage, pv, driver.PanicSite(stack)), "codec", cd.name, "stage", stage, "site", driver.PanicSite(stack)), nil}
	}
	if res.Outcome == "" && res.F == nil {
		if err != nil {
			res.Outcome = "rejected"
		} else {
			res.Outcome = "fixed-point"
		}
	}
	return res
}

// ---------------------------------------------------------------------------------------------
// input generation

type genInput struct {
	data   []byte
	recipe string
}

var jsonTokRe = regexp.MustCompile(`"(?:[^"\\]|\\.)*"|-?[0-9][0-9eE+.\-]*|true|false|null|[\[\]{}:,]`)

func randBytes(rng *rand.Rand, n int) []byte {
	b := make([]byte, n)
	rng.Read(b)
	return b
}

var protoNumbers = []int{1, 2, 3, 4, 5, 6, 7, 8, 9, 10, 11, 12, 13, 14, 15, 16, 1000, 2047}

func putUvarint(x uint64) []byte {
	var b []byte
	for x >= 0x80 {
		b = append(b, byte(x)|0x80)
		x >>= 7
	}
	return append(b, byte(x))
}

// wireSpots lists (start of tag, start of content, end) of fields down to a given depth.
type spot struct{ tagStart, tagEnd, end, wt, num, depth int }

func wireSpots(b []byte, base, depth int, out *[]spot) { wireSpotsAt(b, base, depth, 0, out) }

func wireSpotsAt(b []byte, base, depth, level int, out *[]spot) {
	i := 0
	for i < len(b) {
		tag, n := uvarint(b[i:])
		if n <= 0 {
			return
		}
		num, wt := int(tag>>3), int(tag&7)
		s := spot{tagStart: base + i, tagEnd: base + i + n, wt: wt, num: num, depth: level}
		i += n
		switch wt {
		case 0:
			_, n := uvarint(b[i:])
			if n <= 0 {
				return
			}
			i += n
		case 1:
			i += 8
		case 5:
			i += 4
		case 2:
			l, n := uvarint(b[i:])
			if n <= 0 || l > uint64(len(b)-i-n) {
				return
			}
			if depth > 0 {
				wireSpotsAt(b[i+n:i+n+int(l)], base+i+n, depth-1, level+1, out)
			}
			i += n + int(l)
		default:
			return
		}
		if i > len(b) {
			return
		}
		s.end = base + i
		*out = append(*out, s)
	}
}

// wnode is a parsed protobuf field; length-delimited content that itself parses as a message is kept
// as children, so that tree edits re-encode with consistent lengths.
type wnode struct {
	num, wt int
	val     []byte // encoded value for wire types 0, 1, 5; raw content for wire type 2 without children
	kids    []*wnode
	isMsg   bool
}

func parseTree(b []byte, depth int) ([]*wnode, bool) {
	var out []*wnode
	i := 0
	for i < len(b) {
		tag, n := uvarint(b[i:])
		if n <= 0 || tag>>3 == 0 {
			return nil, false
		}
		i += n
		nd := &wnode{num: int(tag >> 3), wt: int(tag & 7)}
		switch nd.wt {
		case 0:
			_, n := uvarint(b[i:])
			if n <= 0 {
				return nil, false
			}
			nd.val = b[i : i+n]
			i += n
		case 1:
			if i+8 > len(b) {
				return nil, false
			}
			nd.val = b[i : i+8]
			i += 8
		case 5:
			if i+4 > len(b) {
				return nil, false
			}
			nd.val = b[i : i+4]
			i += 4
		case 2:
			l, n := uvarint(b[i:])
			if n <= 0 || l > uint64(len(b)-i-n) {
				return nil, false
			}
			c := b[i+n : i+n+int(l)]
			i += n + int(l)
			nd.val = c
			if depth > 0 && len(c) > 0 {
				if kids, ok := parseTree(c, depth-1); ok {
					nd.kids, nd.isMsg = kids, true
				}
			}
		default:
			return nil, false
		}
		out = append(out, nd)
	}
	return out, true
}

func encodeTree(ns []*wnode) []byte {
	var out []byte
	for _, n := range ns {
		out = append(out, putUvarint(uint64(n.num<<3|n.wt))...)
		if n.wt == 2 {
			c := n.val
			if n.isMsg {
				c = encodeTree(n.kids)
			}
			out = append(out, putUvarint(uint64(len(c)))...)
			out = append(out, c...)
		} else {
			out = append(out, n.val...)
		}
	}
	return out
}

type wref struct {
	list  *[]*wnode
	idx   int
	depth int
}

func collectRefs(list *[]*wnode, depth int, out *[]wref) {
	for i, n := range *list {
		*out = append(*out, wref{list, i, depth})
		if n.isMsg {
			collectRefs(&n.kids, depth+1, out)
		}
	}
}

// mutateProtoTree edits the parsed message and re-encodes it with consistent lengths, so the result is
// well-formed protobuf with a different meaning.
func mutateProtoTree(rng *rand.Rand, seed []byte) ([]byte, string, bool) {
	top, ok := parseTree(seed, 8)
	if !ok || len(top) == 0 {
		return nil, "", false
	}
	var refs []wref
	collectRefs(&top, 0, &refs)
	r := refs[rng.Intn(len(refs))]
	n := (*r.list)[r.idx]
	name := ""
	switch rng.Intn(8) {
	case 0, 1: // the deprecated spelling of OTLP < 0.15: the scope list of a resource entry under field 1000
		var c []wref
		for _, x := range refs {
			if x.depth == 1 && (*x.list)[x.idx].wt == 2 && (*x.list)[x.idx].num == 2 {
				c = append(c, x)
			}
		}
		if len(c) == 0 {
			return nil, "", false
		}
		// all scope entries of one resource entry, or just one of them
		x := c[rng.Intn(len(c))]
		if rng.Intn(2) == 0 {
			(*x.list)[x.idx].num = 1000
		} else {
			for _, m := range *x.list {
				if m.wt == 2 && m.num == 2 {
					m.num = 1000
				}
			}
		}
		name = "proto-deprecated-field-1000"
	case 2:
		n.num = protoNumbers[rng.Intn(len(protoNumbers))]
		name = "proto-retag"
	case 3:
		cp := *n
		*r.list = append((*r.list)[:r.idx+1:r.idx+1], append([]*wnode{&cp}, (*r.list)[r.idx+1:]...)...)
		name = "proto-duplicate-field"
	case 4:
		*r.list = append((*r.list)[:r.idx:r.idx], (*r.list)[r.idx+1:]...)
		name = "proto-drop-field"
	case 5:
		l := *r.list
		j := rng.Intn(len(l))
		l[r.idx], l[j] = l[j], l[r.idx]
		name = "proto-reorder"
	case 6:
		u := &wnode{num: 20 + rng.Intn(3000), wt: 2, val: randBytes(rng, rng.Intn(12))}
		*r.list = append((*r.list)[:r.idx:r.idx], append([]*wnode{u}, (*r.list)[r.idx:]...)...)
		name = "proto-unknown-field"
	default: // scalar edit with the right width
		switch n.wt {
		case 0:
			n.val = putUvarint([]uint64{0, 1, 0x7f, 0x80, 1<<32 - 1, 1 << 32, 1<<63 - 1, 1 << 63, 1<<64 - 1}[rng.Intn(9)])
		case 1:
			n.val = [][]byte{{0, 0, 0, 0, 0, 0, 0xf8, 0x7f}, {1, 0, 0, 0, 0, 0, 0xf0, 0x7f}, {0, 0, 0, 0, 0, 0, 0, 0x80}, {0xff, 0xff, 0xff, 0xff, 0xff, 0xff, 0xff, 0xff}, {0, 0, 0, 0, 0, 0, 0xf0, 0xff}}[rng.Intn(5)]
		case 5:
			n.val = randBytes(rng, 4)
		default:
			n.val, n.isMsg, n.kids = randBytes(rng, rng.Intn(20)), false, nil
		}
		name = "proto-scalar-edit"
	}
	return encodeTree(top), name, true
}

// deprecate rewrites every scope list of every resource entry to the deprecated field number 1000.
func deprecate(seed []byte) ([]byte, bool) {
	top, ok := parseTree(seed, 3)
	if !ok {
		return nil, false
	}
	n := 0
	for _, r := range top {
		for _, k := range r.kids {
			if k.wt == 2 && k.num == 2 {
				k.num = 1000
				n++
			}
		}
	}
	return encodeTree(top), n > 0
}

func mutateProto(rng *rand.Rand, seed []byte) ([]byte, string) {
	if rng.Intn(10) < 7 {
		if out, name, ok := mutateProtoTree(rng, seed); ok {
			return out, name
		}
	}
	var spots []spot
	wireSpots(seed, 0, 6, &spots)
	if len(spots) == 0 {
		return append(seed, randBytes(rng, 3)...), "proto-append-garbage"
	}
	s := spots[rng.Intn(len(spots))]
	cp := func(parts ...[]byte) []byte { return bytes.Join(parts, nil) }
	switch rng.Intn(3) {
	case 0: // other wire type, lengths left inconsistent on purpose
		return cp(seed[:s.tagStart], putUvarint(uint64(s.num<<3|rng.Intn(8))), seed[s.tagEnd:]), "proto-wiretype"
	case 1: // raw retag (tag width may change: enclosing lengths become wrong)
		num := protoNumbers[rng.Intn(len(protoNumbers))]
		return cp(seed[:s.tagStart], putUvarint(uint64(num<<3|s.wt)), seed[s.tagEnd:]), "proto-raw-retag"
	default: // length / varint edit right after the tag
		var nv []byte
		switch rng.Intn(6) {
		case 0:
			nv = []byte{0}
		case 1:
			nv = []byte{0xff, 0xff, 0xff, 0xff, 0x0f}
		case 2:
			nv = []byte{0xff, 0xff, 0xff, 0xff, 0xff, 0xff, 0xff, 0xff, 0xff, 0x01}
		case 3:
			nv = bytes.Repeat([]byte{0x80}, 11)
		case 4:
			nv = putUvarint(uint64(s.end - s.tagEnd + 1))
		default:
			nv = putUvarint(uint64(rng.Intn(300)))
		}
		_, n := uvarint(seed[s.tagEnd:])
		if n <= 0 {
			n = 1
		}
		if s.tagEnd+n > len(seed) {
			n = len(seed) - s.tagEnd
		}
		return cp(seed[:s.tagEnd], nv, seed[s.tagEnd+n:]), "proto-length-edit"
	}
}

var jsonScalars = []string{"0", "-0", "1e999", "-1e999", "1E400", "18446744073709551616", "-9223372036854775809", "99999999999999999999999999", "1.5", "0.1e-400", "1e", "-", "0x10", "01",
	`""`, `"NaN"`, `"Infinity"`, `"-Infinity"`, `"1e5"`, `" 12"`, `"12 "`, `"+5"`, `"\ud800"`, `"\u0000"`, `"🔑"`, `"\x"`, "\"\xff\xfe\"", `"AGGREGATION_TEMPORALITY_DELTA"`, `"SPAN_KIND_SERVER"`, `"bogus"`,
	"true", "false", "null", "{}", "[]", "[null]", `{"":null}`, `[[]]`, "nul", "tru"}

func mutateJSON(rng *rand.Rand, seed []byte) ([]byte, string) {
	locs := jsonTokRe.FindAllIndex(seed, -1)
	if len(locs) == 0 {
		return append([]byte("{"), seed...), "json-prefix"
	}
	pick := func(pred func(tok []byte) bool) (int, int, bool) {
		for try := 0; try < 20; try++ {
			l := locs[rng.Intn(len(locs))]
			if pred(seed[l[0]:l[1]]) {
				return l[0], l[1], true
			}
		}
		return 0, 0, false
	}
	cp := func(parts ...[]byte) []byte { return bytes.Join(parts, nil) }
	isValue := func(t []byte) bool {
		return t[0] == '"' || t[0] == '-' || (t[0] >= '0' && t[0] <= '9') || t[0] == 't' || t[0] == 'f' || t[0] == 'n'
	}
	switch rng.Intn(9) {
	case 0, 1, 2: // replace a scalar token by a scalar of another spelling / type
		a, b, ok := pick(isValue)
		if !ok {
			break
		}
		// do not replace object keys: a token followed by ':' is a key
		rest := bytes.TrimLeft(seed[b:], " \n\t")
		if len(rest) > 0 && rest[0] == ':' {
			nk := []string{`"unknownKey"`, `"resource_logs"`, `"attributes"`, `"value"`, `""`, `"intValue"`, `"kvlistValue"`}[rng.Intn(7)]
			return cp(seed[:a], []byte(nk), seed[b:]), "json-rename-key"
		}
		return cp(seed[:a], []byte(jsonScalars[rng.Intn(len(jsonScalars))]), seed[b:]), "json-replace-scalar"
	case 3: // remove a structural token
		a, b, ok := pick(func(t []byte) bool { return strings.ContainsRune("[]{}:,", rune(t[0])) })
		if ok {
			return cp(seed[:a], seed[b:]), "json-drop-punctuation"
		}
	case 4: // swap a structural token
		a, b, ok := pick(func(t []byte) bool { return strings.ContainsRune("[]{}:,", rune(t[0])) })
		if ok {
			return cp(seed[:a], []byte{"[]{}:,"[rng.Intn(6)]}, seed[b:]), "json-swap-punctuation"
		}
	case 5: // deep nesting at a value position
		a, b, ok := pick(isValue)
		if ok {
			rest := bytes.TrimLeft(seed[b:], " \n\t")
			if len(rest) == 0 || rest[0] != ':' {
				d := []int{50, 1000, 20000}[rng.Intn(3)]
				open := []string{"[", `{"a":`, `{"kvlistValue":{"values":[{"key":"k","value":`, `{"arrayValue":{"values":[`}[rng.Intn(4)]
				return cp(seed[:a], []byte(strings.Repeat(open, d)), seed[b:]), "json-deep-nesting"
			}
		}
	case 6: // duplicate a key/value region: cut a random token range and repeat it
		i, j := rng.Intn(len(locs)), rng.Intn(len(locs))
		if i > j {
			i, j = j, i
		}
		return cp(seed[:locs[j][1]], seed[locs[i][0]:locs[j][1]], seed[locs[j][1]:]), "json-duplicate-range"
	case 7: // raw byte noise inside a string
		a, b, ok := pick(func(t []byte) bool { return t[0] == '"' && len(t) > 2 })
		if ok {
			k := a + 1 + rng.Intn(b-a-1)
			noise := [][]byte{{0xff}, {0xc3}, {0xed, 0xa0, 0x80}, {'\\'}, {'\\', 'u', '1'}, {0}, {'\n'}, {'"'}}[rng.Intn(8)]
			return cp(seed[:k], noise, seed[k:]), "json-string-noise"
		}
	default: // huge whitespace / BOM / trailing data
		switch rng.Intn(3) {
		case 0:
			return cp([]byte("\xef\xbb\xbf"), seed), "json-bom"
		case 1:
			return cp(seed, []byte(" {}")), "json-trailing-data"
		default:
			return cp(bytes.Repeat([]byte(" \n"), 500), seed), "json-leading-whitespace"
		}
	}
	return genericMutate(rng, seed)
}

func genericMutate(rng *rand.Rand, seed []byte) ([]byte, string) {
	in := append([]byte(nil), seed...)
	if len(in) == 0 {
		return randBytes(rng, 1+rng.Intn(16)), "random-bytes"
	}
	switch rng.Intn(8) {
	case 0:
		return in[:rng.Intn(len(in))], "truncate"
	case 1:
		for k := 0; k < 1+rng.Intn(3); k++ {
			in[rng.Intn(len(in))] ^= 1 << uint(rng.Intn(8))
		}
		return in, "bit-flip"
	case 2:
		in[rng.Intn(len(in))] = byte(rng.Intn(256))
		return in, "set-byte"
	case 3:
		a, b := rng.Intn(len(in)), rng.Intn(len(in))
		if a > b {
			a, b = b, a
		}
		return append(in[:a:a], in[b:]...), "delete-range"
	case 4:
		a := rng.Intn(len(in))
		b := a + rng.Intn(len(in)-a)
		return bytes.Join([][]byte{in[:b], in[a:b], in[b:]}, nil), "duplicate-range"
	case 5:
		a := rng.Intn(len(in))
		return bytes.Join([][]byte{in[:a], randBytes(rng, 1+rng.Intn(8)), in[a:]}, nil), "insert-random"
	case 6:
		a := rng.Intn(len(in))
		b := a + rng.Intn(len(in)-a)
		for i := a; i < b; i++ {
			in[i] = []byte{0, 0xff, 0x80, 0x7f}[rng.Intn(4)]
		}
		return in, "fill-range"
	default:
		return randBytes(rng, rng.Intn(64)), "random-bytes"
	}
}

// genInputs builds the inputs of one batch for one codec: valid encodings of freshly filled values
// (a few per batch, among them deeply nested attribute values), mutated structurally (format-aware)
// and blindly, the other encoding and other signals' encodings fed crosswise, and pure noise.
func genInputs(reg *rp.Registry, cd *codec, rng *rand.Rand, n int, onPanic func(site, msg string)) []genInput {
	var seeds [][]byte
	nSeeds := 3 + n/60
	safeMar := func(mar func(any) ([]byte, error), x any) (b []byte, err error) {
		pv, stack := driver.Catch(func() { b, err = mar(x) })
		if pv != nil {
			onPanic(driver.PanicSite(stack), fmt.Sprint(pv))
			return nil, fmt.Errorf("panic")
		}
		return b, err
	}
	for i := 0; i < nSeeds; i++ {
		x := cd.subj.fresh()
		f := newFiller(reg, rng, rng.Intn(len(fillModes)))
		f.FillAny(x)
		if b, err := safeMar(cd.mar, x); err == nil {
			seeds = append(seeds, b)
		}
	}
	if len(seeds) == 0 {
		seeds = append(seeds, []byte{})
	}
	var cross [][]byte
	for k := 0; k < 3; k++ {
		o := &subjects[rng.Intn(len(subjects))]
		x := o.fresh()
		newFiller(reg, rng, rng.Intn(len(fillModes))).FillAny(x)
		var b []byte
		var err error
		if rng.Intn(2) == 0 {
			b, err = safeMar(o.pbMar, x)
		} else {
			b, err = safeMar(o.jsMar, x)
		}
		if err == nil {
			cross = append(cross, b)
		}
	}
	if len(cross) == 0 {
		cross = append(cross, []byte("{}"))
	}
	out := make([]genInput, 0, n)
	for len(out) < n {
		seed := seeds[rng.Intn(len(seeds))]
		var d []byte
		var r string
		switch k := rng.Intn(20); {
		case k == 0:
			d, r = seed, "valid"
		case k == 1:
			d, r = cross[rng.Intn(len(cross))], "cross-fed-encoding"
		case k == 2:
			d, r = genericMutate(rng, cross[rng.Intn(len(cross))])
			r = "cross-fed+" + r
		case k < 10:
			if cd.enc == "proto" {
				d, r = mutateProto(rng, seed)
			} else {
				d, r = mutateJSON(rng, seed)
			}
		case k < 12: // two structural mutations
			if cd.enc == "proto" {
				d, _ = mutateProto(rng, seed)
				d, r = mutateProto(rng, d)
			} else {
				d, _ = mutateJSON(rng, seed)
				d, r = mutateJSON(rng, d)
			}
			r = "double:" + r
		default:
			d, r = genericMutate(rng, seed)
		}
		if len(d) > 4<<20 {
			d = d[:4<<20]
		}
		out = append(out, genInput{d, r})
	}
	return out
}
