// C08 — OTLP protobuf and JSON codecs are lossless, consistent and total.
//
// Monitors: (1) value oracles on reflectively filled values of the four signals and of the p*otlp
// export request / response wrappers: protobuf round trip (snapshot and bytes), size == len (payload
// and element sizers, the latter checked against the real encoding), JSON round trip, JSON -> protobuf
// differential, JSON variants (64-bit integers as numbers, enums as names); (2) a byte sweep into every
// Unmarshal* (24 codecs): format-aware and blind mutations of valid encodings, cross-fed encodings and
// noise, decoded in CPU/memory-limited sub-children: no panic, no hang, no crash, re-encoding reaches a
// fixed point, and the decoded value survives the trip through the other encoding.
package main

import (
	"encoding/base64"
	"fmt"
	"os"
	"reflect"
	"sort"
	"strings"
	"time"

	"go.opentelemetry.io/collector/pdata/pcommon"
	"go.opentelemetry.io/collector/pdata/plog"
	"go.opentelemetry.io/collector/pdata/pmetric"
	"go.opentelemetry.io/collector/pdata/pprofile"
	"go.opentelemetry.io/collector/verifharness/lib/driver"
	rp "go.opentelemetry.io/collector/verifharness/lib/reflectpd"
)

const (
	byteBase     = 1000000 // case numbers of byte batches
	directedBase = 2000000 // case numbers of directed reproducers (shard 0)
	stabBase     = 3000000 // case numbers of the concurrent output-stability cases
)

func subjectByName(n string) *subject {
	for i := range subjects {
		if subjects[i].name == n {
			return &subjects[i]
		}
	}
	return nil
}

// directed reproducers: the three decoder defects of DESIGN §4.4 (C08-a/b/c, repaired by the
// fix-candidates) and the findings the registered check added.
var directedValues = []struct {
	name    string
	subject string
	build   func() any
}{
	{"C08-a LogRecord.EventName dropped by the JSON decoder", "logs", func() any {
		l := plog.NewLogs()
		l.ResourceLogs().AppendEmpty().ScopeLogs().AppendEmpty().LogRecords().AppendEmpty().SetEventName("evt")
		return l
	}},
	{"C08-b ExponentialHistogramDataPoint.ZeroThreshold dropped by the JSON decoder", "metrics", func() any {
		m := pmetric.NewMetrics()
		m.ResourceMetrics().AppendEmpty().ScopeMetrics().AppendEmpty().Metrics().AppendEmpty().SetEmptyExponentialHistogram().DataPoints().AppendEmpty().SetZeroThreshold(0.5)
		return m
	}},
	{"C08-c Profile.OriginalPayload comes back as base64 text", "profiles", func() any {
		p := pprofile.NewProfiles()
		p.ResourceProfiles().AppendEmpty().ScopeProfiles().AppendEmpty().Profiles().AppendEmpty().OriginalPayload().FromRaw([]byte{14, 15})
		return p
	}},
	{"empty bytes value", "logs", func() any {
		l := plog.NewLogs()
		l.ResourceLogs().AppendEmpty().ScopeLogs().AppendEmpty().LogRecords().AppendEmpty().Body().SetEmptyBytes()
		return l
	}},
	{"negative zero in a plain double field", "metrics", func() any {
		m := pmetric.NewMetrics()
		dp := m.ResourceMetrics().AppendEmpty().ScopeMetrics().AppendEmpty().Metrics().AppendEmpty().SetEmptySummary().DataPoints().AppendEmpty()
		dp.SetSum(negZero)
		return m
	}},
	{"profiles aggregationTemporality as enum name", "profiles", func() any {
		p := pprofile.NewProfiles()
		p.ResourceProfiles().AppendEmpty().ScopeProfiles().AppendEmpty().Profiles().AppendEmpty().PeriodType().SetAggregationTemporality(pprofile.AggregationTemporalityDelta)
		return p
	}},
}

var negZero = func() float64 { z := 0.0; return -z }()

func deepen(reg *rp.Registry, x any, depth int) {
	snap := reg.SnapshotAny(x)
	var target []string
	snap.Walk(nil, func(p []string, n *rp.Node) bool {
		if target == nil && n.Kind == rp.KMap {
			target = append([]string{}, p...)
		}
		return target == nil
	})
	if target == nil {
		return
	}
	v, err := reg.Resolve(reflect.ValueOf(x), target)
	if err != nil {
		return
	}
	m := v.Interface().(pcommon.Map)
	for i := 0; i < depth; i++ {
		if i%2 == 0 {
			m = m.PutEmptyMap("d")
		} else {
			m = m.PutEmptySlice("s").AppendEmpty().SetEmptyMap()
		}
	}
	m.PutStr("leaf", "x")
}

func run(c *driver.Ctx) {
	exeDir, eerr := os.MkdirTemp("", "c08-exe-")
	if eerr == nil {
		pinExecutable(exeDir)
		defer os.RemoveAll(exeDir)
	}
	reg := rp.NewRegistry(rp.AllCtors())
	codecs := allCodecs()
	entries := marshalEntries()
	emitFor := func(extra map[string]any) func(*finding, map[string]any) {
		return func(f *finding, w map[string]any) {
			for k, v := range extra {
				w[k] = v
			}
			c.Violation(f.Sub, f.What, w, f.sigList()...)
		}
	}
	obs := func(k string, n int64) { c.Observe(k, n) }

	// --- directed reproducers
	if c.Shard == 0 {
		for di, d := range directedValues {
			i := directedBase + int64(di)
			if !c.Want(i) {
				continue
			}
			c.Eval()
			c.Observe("directed_reproducers", 1)
			guardedValueOracles(c, reg, subjectByName(d.subject), d.build(), obs, emitFor(map[string]any{"directed": d.name}))
		}
		if len(reg.Unmodelled) > 0 {
			c.Note("methods outside the modelled shapes: %s", strings.Join(reg.Unmodelled, "; "))
		}
		c.Observe("types_discovered", int64(len(reg.Types)))
	}

	// --- directed byte reproducer of C08-f: a payload whose scope lists use the deprecated field 1000,
	// offered to every protobuf decode path that has such a field (run in sub-children like any input)
	dirTmp, derr := os.MkdirTemp("", "c08-dir-")
	if c.Shard == 0 && derr == nil {
		di := 0
		for _, cd := range codecs {
			if cd.enc != "proto" || cd.subj.wrap == "response" || cd.subj.signal == "profiles" {
				continue
			}
			i := directedBase + 100 + int64(di)
			di++
			if !c.Want(i) {
				continue
			}
			x := cd.subj.fresh()
			fl := newFiller(reg, c.CaseRand(i), 0)
			fl.PExtreme = 0
			fl.FillAny(x)
			var seed []byte
			driver.Catch(func() { seed, _ = cd.mar(x) })
			in, ok := deprecate(seed)
			if !ok {
				// the filled value had no scope list: use a minimal hand-made one
				in = []byte{0x0a, 0x06, 0xc2, 0x3e, 0x03, 0x1a, 0x01, 'u'}
			}
			c.Observe("directed_reproducers", 1)
			res := runBatch(c, dirTmp, cd, []genInput{{in, "directed-deprecated-field-1000"}}, fmt.Sprintf("dir-%d", di))
			for _, r := range res {
				c.Eval()
				for _, f := range []*finding{r.F, r.F2} {
					if f != nil {
						c.Violation(f.Sub, f.What, map[string]any{"codec": cd.name, "directed": "C08-f deprecated field 1000", "input_base64": base64.StdEncoding.EncodeToString(clip(in, 1<<14))}, f.sigList()...)
					}
				}
			}
		}
	}
	if derr == nil {
		os.RemoveAll(dirTmp)
	}

	// --- value cases
	nV := int64(c.N(200, 6500))
	for i := int64(0); i < nV; i++ {
		if !c.Want(i) {
			continue
		}
		rng := c.CaseRand(i)
		s := &subjects[(int(i)+c.Shard)%len(subjects)]
		mode := int(i/int64(len(subjects))) % len(fillModes)
		fl := newFiller(reg, rng, mode)
		x := s.fresh()
		pv, stack := driver.Catch(func() {
			fl.FillAny(x)
			if mode == 3 && s.wrap != "response" && rng.Intn(4) == 0 {
				deepen(reg, x, 20+rng.Intn(200))
			}
		})
		if pv != nil {
			c.Note("harness: fill panicked: %v %s", pv, stack[:min(len(stack), 500)])
			c.Inconclusive("fill-panic")
			continue
		}
		c.Eval()
		c.Observe("values", 1)
		c.Observe("values:"+s.name, 1)
		keys := make([]string, 0, len(fl.Cover))
		for k := range fl.Cover {
			keys = append(keys, k)
			c.Distinct("populated_field_paths", s.name, k)
		}
		sort.Strings(keys)
		c.Nontrivial("value", s.name, strings.Join(keys, "|"))
		guardedValueOracles(c, reg, s, x, obs, emitFor(map[string]any{"fill_mode": fillModes[mode].name}))
		// output stability, sequential variant: one of the subject's two marshal entry points per case
		{
			e := &entries[2*((int(i)+c.Shard)%len(subjects))+int(i/int64(len(subjects)))%2]
			pv, stack := driver.Catch(func() {
				stabilitySequential(reg, e, rng, obs, emitFor(map[string]any{"oracle": "output-stability/sequential"}))
			})
			if pv != nil {
				c.Note("harness panic in output-stability: %v %s", pv, stack[:min(len(stack), 600)])
				c.Inconclusive("harness-panic")
			}
			c.Distinct("stability_entry_points", e.name, "sequential")
		}
		if i < 1 && c.Shard < 2 {
			var js []byte
			driver.Catch(func() { js, _ = s.jsMar(x) })
			c.Sample(map[string]any{"subject": s.name, "fill_mode": fillModes[mode].name, "json": trimS(string(js), 1200)})
		}
	}

	// --- output stability, concurrent variant: every marshal entry point in rotation over the shards
	nS := int64(c.N(6, 48))
	for j := int64(0); j < nS; j++ {
		i := stabBase + j
		if !c.Want(i) {
			continue
		}
		rng := c.CaseRand(i)
		e := &entries[(int(j)*c.NShards+c.Shard)%len(entries)]
		pv, stack := driver.Catch(func() {
			stabilityConcurrent(reg, e, rng, c.N(40, 60), obs, emitFor(map[string]any{"oracle": "output-stability/concurrent"}))
		})
		if pv != nil {
			c.Note("harness panic in concurrent output-stability: %v %s", pv, stack[:min(len(stack), 600)])
			c.Inconclusive("harness-panic")
		}
		c.Eval()
		c.Distinct("stability_entry_points", e.name, "concurrent")
		c.Nontrivial("stability-concurrent", e.name, j)
	}

	// --- byte sweep
	dir, err := os.MkdirTemp("", "c08-sub-")
	if err != nil {
		c.Inconclusive("no-temp-dir")
		return
	}
	defer os.RemoveAll(dir)
	nB := int64(c.N(24, 24*8)) // batches per shard, one codec per batch in rotation
	per := c.N(105, 900)
	for b := int64(0); b < nB; b++ {
		i := byteBase + b
		if !c.Want(i) {
			continue
		}
		rng := c.CaseRand(i)
		cd := codecs[(int(b)+c.Shard)%len(codecs)]
		var inputs []genInput
		pv, stack := driver.Catch(func() {
			inputs = genInputs(reg, cd, rng, per, func(site, msg string) {
				c.Violation("panic", fmt.Sprintf("encoding a generated (valid) value panicked while preparing byte inputs: %s (at %s)", msg, site), nil, "codec", cd.name, "stage", "seed-encode", "site", site)
			})
		})
		if pv != nil {
			c.Note("harness: input generation panicked: %v %s", pv, stack[:min(len(stack), 600)])
			c.Inconclusive("gen-panic")
			continue
		}
		res := runBatch(c, dir, cd, inputs, fmt.Sprintf("s%d-b%d", c.Shard, b))
		for k, in := range inputs {
			r, ok := res[k]
			if !ok {
				c.Inconclusive("input-without-result")
				continue
			}
			c.Eval()
			c.Observe("byte_inputs", 1)
			c.Observe("outcome:"+r.Outcome, 1)
			c.Observe("mutation:"+strings.SplitN(in.recipe, ":", 2)[0], 1)
			outc := "decoded"
			if r.Outcome == "rejected" {
				outc = "rejected"
			}
			c.Distinct("codec_outcomes", cd.name, outc)
			c.Nontrivial("bytes", cd.name, outc, driver.Hash64(string(in.data)))
			for _, f := range []*finding{r.F, r.F2} {
				if f == nil {
					continue
				}
				w := map[string]any{"codec": cd.name, "mutation": in.recipe, "input_base64": base64.StdEncoding.EncodeToString(clip(in.data, 1<<16)), "input_len": len(in.data), "input_index": k}
				if len(in.data) < 400 && cd.enc == "json" {
					w["input_text"] = string(in.data)
				}
				c.Violation(f.Sub, f.What, w, f.sigList()...)
			}
		}
	}
}

// guardedValueOracles turns a panic that escapes the individually guarded calls into a violation too.
func guardedValueOracles(c *driver.Ctx, reg *rp.Registry, s *subject, x any, obs func(string, int64), emit func(*finding, map[string]any)) {
	pv, stack := driver.Catch(func() { valueOracles(reg, s, x, obs, emit) })
	if pv != nil {
		site := driver.PanicSite(stack)
		if site == "" {
			c.Note("harness panic in value oracles: %v %s", pv, stack[:min(len(stack), 700)])
			c.Inconclusive("harness-panic")
			return
		}
		c.Violation("panic", fmt.Sprintf("a codec call on a generated value panicked: %v (at %s)", pv, site), map[string]any{"subject": s.name, "stack": stack[:min(len(stack), 1500)]},
			"codec", s.name, "stage", "value-oracle", "site", site)
	}
}

func clip(b []byte, n int) []byte {
	if len(b) > n {
		return b[:n]
	}
	return b
}

func main() {
	if len(os.Args) > 1 && os.Args[1] == "-c08sub" {
		subMain(os.Args[2:])
		return
	}
	driver.Main(driver.Spec{
		ID:    "C08",
		Level: "exploration",
		Rule: "value case = one reflectively filled value (12 subjects: 4 payloads, 4 export requests, 4 export responses; 6 fill modes: all fields unique / extreme scalars incl. NaN, ±Inf, -0, ±max / sparse / wide+deeply nested / empty containers / mixed; every one-of alternative, optional fields present or absent) put through all value oracles; " +
			"distinct = the set of populated field paths; every value case is non-trivial. Byte case = one input offered to one of the 24 Unmarshal* functions: valid encodings mutated structurally (protobuf: retag incl. deprecated field 1000, wire type, length/varint edits, duplicate/drop/reorder/unknown fields; JSON: scalar respelling, key renaming, punctuation, deep nesting, duplicated ranges, string noise) " +
			"and blindly (truncate, flip, splice, fill), cross-fed encodings, noise; distinct = (codec, decoded/rejected, input hash). " +
			"Output stability: every value case also holds the output of one of the 24 Marshal entry points across 2-5 further calls with different (smaller and larger) values through the same and a fresh marshaler object, and per shard 6 (48) concurrent cases let 4-8 goroutines share one marshaler object; held bytes must stay unchanged and decode to the value they were produced from.",
		Assumptions: []string{
			"generated strings are valid UTF-8 (proto3 strings); invalid UTF-8 only occurs in the byte sweep, where the fixed-point rule allows one normalisation round (b1 != b2 == b3)",
			"JSON variants: a quoted decimal outside id/bytes keys is a 64-bit integer because the filler never generates purely decimal strings; enum names come from the OTLP .proto files; snake_case keys and all-numbers-as-strings are observed, never judged",
			"a non-terminating decode is judged on CPU time of a dedicated process (RLIMIT_CPU 20 s, twice), never on wall-clock time",
			"NaN payload bits are not expected to survive JSON; generated values only use the canonical NaN",
		},
		TrustedBase:   []string{"encoding/json (for building JSON variants)", "the minimal protobuf wire walker of cmd/c08/wire.go", "package reflect"},
		Shards:        func(string) int { return 16 },
		MinNontrivial: func(tier string) int { return map[string]int{"quick": 20000, "thorough": 1000000}[tier] },
		ShardTimeout: func(tier string) time.Duration {
			return map[string]time.Duration{"quick": 30 * time.Minute, "thorough": 120 * time.Minute}[tier]
		},
		Run:        run,
		MaxSamples: 2,
	})
}
