package main

import (
	"bytes"
	"fmt"
	"math/rand"
	"runtime"
	"sync"

	"go.opentelemetry.io/collector/verifharness/lib/driver"
	rp "go.opentelemetry.io/collector/verifharness/lib/reflectpd"
)

// Output stability. "Decoding what a marshaler produced yields the original" is a statement about bytes
// that belong to the caller: they must keep their content while the caller holds them, whatever the
// same entry point is asked to do next. A marshaler that hands out memory it keeps using (a pooled
// buffer returned too early, a scratch slice shared between calls) passes every oracle that consumes the
// output immediately. This oracle holds the output across further calls:
//
//	sequential: a = Marshal(A), a' = clone(a); then 1-4 different values B, C, … (at least one smaller and
//	            one larger than A, so that a recycled buffer is overwritten whatever its capacity) go through
//	            the same entry point — alternately through the same marshaler object and through a fresh
//	            one; afterwards a == a', a still decodes to A, and the same holds for every later output.
//	concurrent: 4-8 goroutines share one marshaler object, each marshals its own distinct value in a loop,
//	            holds the output across a yield and checks that it is unchanged and decodes to its own value.
type marshalEntry struct {
	name string // e.g. metrics-request/json
	subj *subject
	enc  string
	obj  func() func(any) ([]byte, error)
	unm  func([]byte) (any, error)
}

func marshalEntries() []marshalEntry {
	var out []marshalEntry
	for i := range subjects {
		s := &subjects[i]
		out = append(out, marshalEntry{s.name + "/proto", s, "proto", s.pbMarObj, s.pbUnm})
		out = append(out, marshalEntry{s.name + "/json", s, "json", s.jsMarObj, s.jsUnm})
	}
	return out
}

type heldOutput struct {
	who   string
	snap  *rp.Node // normalised snapshot of the value that was marshalled
	out   []byte   // the slice the marshaler returned (held)
	clone []byte   // private copy taken immediately
}

func normForDecode(n *rp.Node) *rp.Node { return normNaN(normQuirks(n)) }

// checkHeld verifies one held output; returns a finding or nil.
func checkHeld(reg *rp.Registry, e *marshalEntry, h *heldOutput, mode string) *finding {
	if !bytes.Equal(h.out, h.clone) {
		return mkFinding("output-stability", fmt.Sprintf("the bytes returned for %s changed while the caller held them (%s): %s", h.who, mode, firstDiff(h.clone, h.out)),
			"entry", e.name, "mode", mode, "fault", "bytes-changed")
	}
	var y any
	var err error
	if pv, stack := driver.Catch(func() { y, err = e.unm(h.out) }); pv != nil {
		return mkFinding("output-stability", fmt.Sprintf("decoding the held output of %s panicked: %v (at %s)", h.who, pv, driver.PanicSite(stack)), "entry", e.name, "mode", mode, "fault", "decode-panic")
	}
	if err != nil {
		return mkFinding("output-stability", fmt.Sprintf("the held output of %s no longer decodes: %s", h.who, errClass(err)), "entry", e.name, "mode", mode, "fault", "decode-error")
	}
	if d := rp.Diff(h.snap, normForDecode(reg.SnapshotAny(y))); d != nil {
		return mkFinding("output-stability", fmt.Sprintf("the held output of %s decodes to a different value: %s is %s instead of %s", h.who, d.Path, d.Got, d.Want),
			"entry", e.name, "mode", mode, "fault", "decodes-differently")
	}
	return nil
}

func filledValue(reg *rp.Registry, s *subject, rng *rand.Rand, mode int) any {
	x := s.fresh()
	newFiller(reg, rng, mode).FillAny(x)
	return x
}

func modeIndex(name string) int {
	for i, m := range fillModes {
		if m.name == name {
			return i
		}
	}
	return 0
}

// stabilitySequential runs the sequential variant for one entry point.
func stabilitySequential(reg *rp.Registry, e *marshalEntry, rng *rand.Rand, obs func(string, int64), emit func(*finding, map[string]any)) {
	same := e.obj()
	var held []*heldOutput
	marshal := func(who string, x any, mar func(any) ([]byte, error)) bool {
		snap := normForDecode(reg.SnapshotAny(x))
		var out []byte
		var err error
		if pv, stack := driver.Catch(func() { out, err = mar(x) }); pv != nil {
			emit(mkFinding("output-stability", fmt.Sprintf("marshal of %s panicked: %v (at %s)", who, pv, driver.PanicSite(stack)), "entry", e.name, "mode", "sequential", "fault", "marshal-panic"), map[string]any{"entry": e.name})
			return false
		}
		if err != nil {
			emit(mkFinding("output-stability", fmt.Sprintf("marshal of %s failed: %v", who, err), "entry", e.name, "mode", "sequential", "fault", "marshal-error"), map[string]any{"entry": e.name})
			return false
		}
		held = append(held, &heldOutput{who: who, snap: snap, out: out, clone: bytes.Clone(out)})
		obs("stability_marshals", 1)
		return true
	}
	if !marshal("value A", filledValue(reg, e.subj, rng, rng.Intn(len(fillModes))), same) {
		return
	}
	// the following values: different content, and sizes on both sides of A's
	k := 1 + rng.Intn(4)
	modes := []int{modeIndex("empty-containers"), modeIndex("wide"), rng.Intn(len(fillModes)), rng.Intn(len(fillModes))}
	rng.Shuffle(len(modes), func(i, j int) { modes[i], modes[j] = modes[j], modes[i] })
	lens := []int{len(held[0].out)}
	for i := 0; i < k; i++ {
		mar, via := same, "same marshaler object"
		if i%2 == 1 {
			mar, via = e.obj(), "fresh marshaler object"
		}
		if !marshal(fmt.Sprintf("value %c (%s)", 'B'+i, via), filledValue(reg, e.subj, rng, modes[i]), mar) {
			return
		}
		lens = append(lens, len(held[len(held)-1].out))
	}
	// an explicitly empty value last: the shortest possible output through the same object
	if !marshal("an empty value (same marshaler object)", e.subj.fresh(), same) {
		return
	}
	lens = append(lens, len(held[len(held)-1].out))
	runtime.Gosched()
	for _, h := range held {
		obs("stability_held_outputs_checked", 1)
		if f := checkHeld(reg, e, h, "sequential"); f != nil {
			emit(f, map[string]any{"entry": e.name, "output_lengths_in_call_order": lens, "held": h.who})
			return
		}
	}
	obs("stability_sequential_cases", 1)
}

// stabilityConcurrent runs the concurrent variant for one entry point; findings are collected per
// goroutine and emitted after the join.
func stabilityConcurrent(reg *rp.Registry, e *marshalEntry, rng *rand.Rand, iters int, obs func(string, int64), emit func(*finding, map[string]any)) {
	g := 4 + rng.Intn(5)
	shared := e.obj()
	type worker struct {
		x    any
		snap *rp.Node
		f    *finding
		n    int64
	}
	ws := make([]*worker, g)
	for i := range ws {
		x := filledValue(reg, e.subj, rng, (i+rng.Intn(2))%len(fillModes))
		ws[i] = &worker{x: x, snap: normForDecode(reg.SnapshotAny(x))}
	}
	var wg sync.WaitGroup
	start := make(chan struct{})
	for i, w := range ws {
		wg.Add(1)
		go func(i int, w *worker) {
			defer wg.Done()
			<-start
			mar := shared
			for it := 0; it < iters && w.f == nil; it++ {
				if it%5 == 4 {
					mar = e.obj() // now and then through an object of its own
				}
				var out []byte
				var err error
				if pv, stack := driver.Catch(func() { out, err = mar(w.x) }); pv != nil {
					w.f = mkFinding("output-stability", fmt.Sprintf("concurrent marshal panicked: %v (at %s)", pv, driver.PanicSite(stack)), "entry", e.name, "mode", "concurrent", "fault", "marshal-panic")
					return
				}
				if err != nil {
					w.f = mkFinding("output-stability", "concurrent marshal failed: "+err.Error(), "entry", e.name, "mode", "concurrent", "fault", "marshal-error")
					return
				}
				h := &heldOutput{who: fmt.Sprintf("goroutine %d's own value", i), snap: w.snap, out: out, clone: bytes.Clone(out)}
				runtime.Gosched() // hold the output while the others marshal
				w.f = checkHeld(reg, e, h, "concurrent")
				w.n++
			}
		}(i, w)
	}
	close(start)
	wg.Wait()
	for _, w := range ws {
		obs("stability_concurrent_marshals", w.n)
		if w.f != nil {
			emit(w.f, map[string]any{"entry": e.name, "goroutines": g})
		}
	}
	obs("stability_concurrent_cases", 1)
}
