package main

import (
	"bytes"
	"encoding/json"
	"regexp"
	"strings"
	"unicode"
)

// JSON variants of a document the marshaler produced. The marshaler writes 64-bit integers as strings
// and enums as numbers; the property demands that the decoder also accepts the other spelling with the
// same result. Two further spellings that proto3-JSON parsers commonly accept (snake_case keys, every
// number as a string) are produced for observation only: the property statement does not demand them
// (the OTLP specification even forbids original field names as keys), so they never yield a verdict.
type variant struct {
	name        string
	doc         []byte
	changed     int
	observeOnly bool
}

var decimalRe = regexp.MustCompile(`^-?[0-9]+$`)

// string-typed keys whose content may look like a decimal number (hex ids, base64 bytes): never rewritten.
// Every other string field is filled by reflectpd.Filler.String, which never produces a pure decimal,
// so a quoted decimal elsewhere is a 64-bit integer — also for fields added to the model later.
var notAnInteger = map[string]bool{"traceId": true, "spanId": true, "parentSpanId": true, "profileId": true, "bytesValue": true, "originalPayload": true}

// enum names from the OTLP protobuf definitions (opentelemetry-proto: logs.proto, trace.proto, metrics.proto, profiles.proto).
var enumNames = map[string][]string{
	"severityNumber": {"SEVERITY_NUMBER_UNSPECIFIED", "SEVERITY_NUMBER_TRACE", "SEVERITY_NUMBER_TRACE2", "SEVERITY_NUMBER_TRACE3", "SEVERITY_NUMBER_TRACE4",
		"SEVERITY_NUMBER_DEBUG", "SEVERITY_NUMBER_DEBUG2", "SEVERITY_NUMBER_DEBUG3", "SEVERITY_NUMBER_DEBUG4",
		"SEVERITY_NUMBER_INFO", "SEVERITY_NUMBER_INFO2", "SEVERITY_NUMBER_INFO3", "SEVERITY_NUMBER_INFO4",
		"SEVERITY_NUMBER_WARN", "SEVERITY_NUMBER_WARN2", "SEVERITY_NUMBER_WARN3", "SEVERITY_NUMBER_WARN4",
		"SEVERITY_NUMBER_ERROR", "SEVERITY_NUMBER_ERROR2", "SEVERITY_NUMBER_ERROR3", "SEVERITY_NUMBER_ERROR4",
		"SEVERITY_NUMBER_FATAL", "SEVERITY_NUMBER_FATAL2", "SEVERITY_NUMBER_FATAL3", "SEVERITY_NUMBER_FATAL4"},
	"kind":                   {"SPAN_KIND_UNSPECIFIED", "SPAN_KIND_INTERNAL", "SPAN_KIND_SERVER", "SPAN_KIND_CLIENT", "SPAN_KIND_PRODUCER", "SPAN_KIND_CONSUMER"},
	"status.code":            {"STATUS_CODE_UNSET", "STATUS_CODE_OK", "STATUS_CODE_ERROR"},
	"aggregationTemporality": {"AGGREGATION_TEMPORALITY_UNSPECIFIED", "AGGREGATION_TEMPORALITY_DELTA", "AGGREGATION_TEMPORALITY_CUMULATIVE"},
}

var enumFamilies = []string{"SEVERITY_NUMBER", "SPAN_KIND", "STATUS_CODE", "AGGREGATION_TEMPORALITY"}

func parseJSON(js []byte) (any, bool) {
	dec := json.NewDecoder(bytes.NewReader(js))
	dec.UseNumber()
	var v any
	if err := dec.Decode(&v); err != nil {
		return nil, false
	}
	return v, true
}

func snake(k string) string {
	var b strings.Builder
	for _, r := range k {
		if unicode.IsUpper(r) {
			b.WriteByte('_')
			b.WriteRune(unicode.ToLower(r))
		} else {
			b.WriteRune(r)
		}
	}
	return b.String()
}

// rewrite walks a generic JSON tree; f may replace a scalar (given its key and its parent's key).
func rewrite(v any, key, parent string, f func(key, parent string, v any) (any, bool), n *int, keyf func(string) string) any {
	switch x := v.(type) {
	case map[string]any:
		out := make(map[string]any, len(x))
		for k, c := range x {
			nk := k
			if keyf != nil {
				nk = keyf(k)
				if nk != k {
					*n++
				}
			}
			out[nk] = rewrite(c, k, key, f, n, keyf)
		}
		return out
	case []any:
		out := make([]any, len(x))
		for i, c := range x {
			out[i] = rewrite(c, key, parent, f, n, keyf)
		}
		return out
	default:
		if f != nil {
			if nv, ok := f(key, parent, v); ok {
				*n++
				return nv
			}
		}
		return v
	}
}

func jsonVariants(js []byte) []variant {
	tree, ok := parseJSON(js)
	if !ok {
		return nil
	}
	mk := func(name string, observe bool, f func(key, parent string, v any) (any, bool), keyf func(string) string) variant {
		n := 0
		t := rewrite(tree, "", "", f, &n, keyf)
		doc, err := json.Marshal(t)
		if err != nil {
			n = 0
		}
		return variant{name: name, doc: doc, changed: n, observeOnly: observe}
	}
	return []variant{
		mk("int64-as-number", false, func(key, _ string, v any) (any, bool) {
			s, ok := v.(string)
			if !ok || notAnInteger[key] || !decimalRe.MatchString(s) {
				return nil, false
			}
			return json.Number(s), true
		}, nil),
		mk("enum-as-name", false, func(key, parent string, v any) (any, bool) {
			num, ok := v.(json.Number)
			if !ok {
				return nil, false
			}
			names := enumNames[key]
			if key == "code" {
				names = nil
				if parent == "status" {
					names = enumNames["status.code"]
				}
			}
			i, err := num.Int64()
			if names == nil || err != nil || i < 0 || int(i) >= len(names) {
				return nil, false
			}
			return names[i], true
		}, nil),
		mk("numbers-as-strings", true, func(_, _ string, v any) (any, bool) {
			num, ok := v.(json.Number)
			if !ok {
				return nil, false
			}
			return num.String(), true
		}, nil),
		mk("snake-case-keys", true, nil, snake),
	}
}

// variantErrKey names what a rejection is about, with low cardinality: the enum family or the reader function.
func variantErrKey(v variant, err error) string {
	msg := err.Error()
	for _, f := range enumFamilies {
		if strings.Contains(msg, f) {
			return f
		}
	}
	if m := regexp.MustCompile(`Read[A-Za-z0-9]+`).FindString(msg); m != "" {
		return m
	}
	return "-"
}
