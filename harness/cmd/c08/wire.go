package main

import (
	"fmt"
	"reflect"
	"strings"

	"go.opentelemetry.io/collector/pdata/plog"
	"go.opentelemetry.io/collector/pdata/pmetric"
	"go.opentelemetry.io/collector/pdata/pprofile"
	"go.opentelemetry.io/collector/pdata/ptrace"
	"go.opentelemetry.io/collector/verifharness/lib/driver"
	rp "go.opentelemetry.io/collector/verifharness/lib/reflectpd"
)

// Element sizers (ProtoMarshaler.<X>Size) are discovered reflectively on the marshaler types. The
// oracle "size == len" for an element is evaluated on the real encoding of the whole payload: the
// length-delimited sub-messages at the element's field path are extracted with a minimal protobuf wire
// walker and the i-th one must be exactly <X>Size(i-th element) bytes long. Field numbers are taken
// from the OTLP .proto files.
var sizerHosts = map[string]any{"logs": &plog.ProtoMarshaler{}, "traces": &ptrace.ProtoMarshaler{}, "metrics": &pmetric.ProtoMarshaler{}, "profiles": &pprofile.ProtoMarshaler{}}

var wirePaths = map[string][][]int{
	"plog.ResourceLogs": {{1}}, "plog.ScopeLogs": {{1}, {2}}, "plog.LogRecord": {{1}, {2}, {2}},
	"ptrace.ResourceSpans": {{1}}, "ptrace.ScopeSpans": {{1}, {2}}, "ptrace.Span": {{1}, {2}, {2}},
	"pmetric.ResourceMetrics": {{1}}, "pmetric.ScopeMetrics": {{1}, {2}}, "pmetric.Metric": {{1}, {2}, {2}},
	"pmetric.NumberDataPoint":               {{1}, {2}, {2}, {5, 7}, {1}},
	"pmetric.HistogramDataPoint":            {{1}, {2}, {2}, {9}, {1}},
	"pmetric.ExponentialHistogramDataPoint": {{1}, {2}, {2}, {10}, {1}},
	"pmetric.SummaryDataPoint":              {{1}, {2}, {2}, {11}, {1}},
	"pprofile.ResourceProfiles":             {{1}}, "pprofile.ScopeProfiles": {{1}, {2}}, "pprofile.Profile": {{1}, {2}, {2}},
}

func uvarint(b []byte) (uint64, int) {
	var x uint64
	var s uint
	for i, c := range b {
		if i == 10 {
			return 0, -1
		}
		if c < 0x80 {
			return x | uint64(c)<<s, i + 1
		}
		x |= uint64(c&0x7f) << s
		s += 7
	}
	return 0, -1
}

// wireFields iterates the top-level fields of a message; f gets the field number, wire type and, for
// length-delimited fields, the content. Returns false on malformed input.
func wireFields(b []byte, f func(num int, wt int, content []byte, start, end int)) bool {
	i := 0
	for i < len(b) {
		start := i
		tag, n := uvarint(b[i:])
		if n <= 0 {
			return false
		}
		i += n
		num, wt := int(tag>>3), int(tag&7)
		switch wt {
		case 0:
			_, n := uvarint(b[i:])
			if n <= 0 {
				return false
			}
			i += n
			f(num, wt, nil, start, i)
		case 1:
			if i+8 > len(b) {
				return false
			}
			i += 8
			f(num, wt, nil, start, i)
		case 5:
			if i+4 > len(b) {
				return false
			}
			i += 4
			f(num, wt, nil, start, i)
		case 2:
			l, n := uvarint(b[i:])
			if n <= 0 || l > uint64(len(b)-i-n) {
				return false
			}
			i += n
			f(num, wt, b[i:i+int(l)], start, i+int(l))
			i += int(l)
		default:
			return false
		}
	}
	return true
}

func extract(b []byte, path [][]int, out *[][]byte) {
	wireFields(b, func(num, wt int, content []byte, _, _ int) {
		if wt != 2 {
			return
		}
		for _, want := range path[0] {
			if num == want {
				if len(path) == 1 {
					*out = append(*out, content)
				} else {
					extract(content, path[1:], out)
				}
			}
		}
	})
}

func elementSizers(reg *rp.Registry, s *subject, x any, pb []byte, obs func(string, int64), emit func(*finding)) {
	host, ok := sizerHosts[s.signal]
	if !ok || s.wrap == "response" {
		return
	}
	payload := x
	if s.payload != nil {
		payload = s.payload(x)
	}
	snap := reg.SnapshotAny(payload)
	hv := reflect.ValueOf(host)
	ht := hv.Type()
	for mi := 0; mi < ht.NumMethod(); mi++ {
		m := ht.Method(mi)
		if !strings.HasSuffix(m.Name, "Size") || m.Type.NumIn() != 2 || m.Type.NumOut() != 1 || m.Type.Out(0).Kind() != reflect.Int {
			continue
		}
		et := m.Type.In(1)
		ti := reg.Info(et)
		if ti == nil || ti.IsRoot {
			continue
		}
		path, known := wirePaths[ti.Name]
		if !known {
			obs("sizer_without_wire_path:"+m.Name, 1)
			continue
		}
		var elems []reflect.Value
		snap.Walk(nil, func(p []string, n *rp.Node) bool {
			if n.TI == ti {
				if v, err := reg.Resolve(reflect.ValueOf(payload), p); err == nil {
					elems = append(elems, v)
				}
			}
			return true
		})
		var subs [][]byte
		extract(pb, path, &subs)
		if len(subs) != len(elems) {
			emit(mkFinding("size", fmt.Sprintf("%s: the encoding holds %d sub-messages at the field path of %s, the value has %d elements", m.Name, len(subs), ti.Name, len(elems)),
				"subject", s.name, "sizer", m.Name, "fault", "count"))
			continue
		}
		for i, e := range elems {
			var sz int
			pv, stack := driver.Catch(func() { sz = int(hv.Method(mi).Call([]reflect.Value{e})[0].Int()) })
			if pv != nil {
				emit(mkFinding("size", fmt.Sprintf("%s panicked: %v at %s", m.Name, pv, driver.PanicSite(stack)), "subject", s.name, "sizer", m.Name, "fault", "panic"))
				break
			}
			obs("element_size_checks", 1)
			if sz != len(subs[i]) {
				emit(mkFinding("size", fmt.Sprintf("%s reports %d bytes, the element's encoding has %d", m.Name, sz, len(subs[i])), "subject", s.name, "sizer", m.Name, "fault", "mismatch"))
				break
			}
		}
	}
}
