package main

import (
	"fmt"

	"go.opentelemetry.io/collector/config/configopaque"
	"go.opentelemetry.io/collector/confmap"
)

type EmbA struct {
	Token configopaque.String `mapstructure:"token"`
	N     int                 `mapstructure:"n"`
}

func (i *EmbA) Unmarshal(c *confmap.Conf) error { return c.Unmarshal(i, confmap.WithIgnoreUnused()) }

type EmbB struct {
	B string `mapstructure:"b"`
}

func (i *EmbB) Unmarshal(c *confmap.Conf) error { return c.Unmarshal(i, confmap.WithIgnoreUnused()) }

type outer struct {
	EmbA  `mapstructure:",squash"`
	EmbB  `mapstructure:",squash"`
	Other string `mapstructure:"other"`
}

// single embedded + own Unmarshal on the outer struct (the shape components use)
type outer2 struct {
	EmbA  `mapstructure:",squash"`
	Other string `mapstructure:"other"`
}

func (o *outer2) Unmarshal(c *confmap.Conf) error { return c.Unmarshal(o) }

func main() {
	c := confmap.NewFromStringMap(map[string]any{"token": "S3CR3T", "n": 3, "other": "x", "b": "bb"})
	var o outer
	fmt.Println(c.Unmarshal(&o), string(o.Token), o.N, o.Other, o.B)
	var o2 outer2
	c2 := confmap.NewFromStringMap(map[string]any{"token": "S3CR3T", "other": "x"})
	fmt.Println(c2.Unmarshal(&o2), string(o2.Token), o2.Other)
}
