// C01 — the persistent sending queue never loses an accepted request across crashes.
//
// Monitor: crash-point enumeration through the public exporter API. A scripted incarnation of a real
// exporter (persistent queue on qstore.Store, gated export function, retry with a one-hour back-off so
// that a transient failure parks the request until shutdown) is killed at every storage-operation
// boundary; for every durable image obtained that way the oracle starts the REAL code fault-free on a
// copy of the image, lets it recover and drain (a sentinel request enqueued after the start marks the
// end of the drain logically) and demands that every request that was accepted and not finalized by a
// completed hand-off is handed to the export function. The next incarnation (recovery + a further
// script) is crashed at every one of its boundaries again, recursively up to the tier's depth.
package main

import (
	"bytes"
	"context"
	"errors"
	"fmt"
	"math/rand"
	"os"
	"runtime"
	"sort"
	"strings"
	"sync"
	"sync/atomic"
	"time"

	"go.uber.org/zap"

	"go.opentelemetry.io/collector/component"
	"go.opentelemetry.io/collector/config/configretry"
	"go.opentelemetry.io/collector/consumer/consumererror"
	"go.opentelemetry.io/collector/exporter"
	"go.opentelemetry.io/collector/exporter/exporterhelper"
	"go.opentelemetry.io/collector/exporter/exportertest"
	"go.opentelemetry.io/collector/pdata/plog"
	"go.opentelemetry.io/collector/verifharness/lib/driver"
	"go.opentelemetry.io/collector/verifharness/lib/qstore"
)

const sentinel = "Z-sentinel"

const largeCapacity = 100000

type step struct {
	Kind string `json:"k"` // E enqueue | OK | PERM | TRANS | RESTART
	ID   string `json:"id,omitempty"`
}

func (s step) String() string {
	if s.ID != "" {
		return s.Kind + "(" + s.ID + ")"
	}
	return s.Kind
}

func scriptString(sc []step) string {
	var b []string
	for _, s := range sc {
		b = append(b, s.String())
	}
	return strings.Join(b, " ")
}

type entry struct {
	no    int
	id    string
	gate  chan error
	bytes []byte
}

var marshaler plog.ProtoMarshaler

func mk(id string) plog.Logs {
	ld := plog.NewLogs()
	rl := ld.ResourceLogs().AppendEmpty()
	rl.Resource().Attributes().PutStr("id", id)
	lr := rl.ScopeLogs().AppendEmpty().LogRecords().AppendEmpty()
	lr.Body().SetStr("body of " + id)
	lr.Attributes().PutInt("n", int64(len(id)))
	return ld
}

func idOf(ld plog.Logs) string {
	if ld.ResourceLogs().Len() == 0 {
		return "?empty"
	}
	v, ok := ld.ResourceLogs().At(0).Resource().Attributes().Get("id")
	if !ok {
		return "?noid"
	}
	return v.Str()
}

type incarnation struct {
	exp     exporter.Logs
	st      *qstore.Store
	auto    atomic.Bool
	mu      sync.Mutex
	n       int
	entered chan *entry
	all     []*entry
	shut    bool // Shutdown already called (a component is shut down once)
}

var errStart = errors.New("start failed")

// errStartStuck: Start did not return. The frames of the blocked goroutines are in the message.
var errStartStuck = errors.New("start never returned")

// startBound is the fixed, generous bound on Start (recovery of a handful of requests from an in-memory
// store takes microseconds; nothing else runs in the incarnation yet).
const startBound = 20 * time.Second

// parkCancel is the context of the scripted enqueues when block_on_overflow is set: the moment the queue
// is about to park the caller in its space wait (it evaluates ctx.Done() there), the context ends, so a
// blocked enqueue returns at once with the context's error, i.e. it is a refusal as far as the script is
// concerned, and the script stays a deterministic sequence of operations.
type parkCancel struct {
	context.Context
	cancel context.CancelFunc
}

func (p parkCancel) Done() <-chan struct{} {
	var pcs [24]uintptr
	n := runtime.Callers(2, pcs[:])
	fr := runtime.CallersFrames(pcs[:n])
	for {
		f, more := fr.Next()
		if strings.HasSuffix(f.Function, ".Wait") && strings.Contains(f.Function, "go.opentelemetry.io/collector/") {
			p.cancel()
			break
		}
		if !more {
			break
		}
	}
	return p.Context.Done()
}

func offerCtx(block bool) (context.Context, context.CancelFunc) {
	if !block {
		return context.Background(), func() {}
	}
	ctx, cancel := context.WithCancel(context.Background())
	return parkCancel{Context: ctx, cancel: cancel}, cancel
}

// legacyBatcher: the scripted incarnations of some scripts are built with the deprecated WithBatcher option on
// top of the persistent queue (min_size 0, no max_size: every request is flushed at once as its own batch,
// through the batcher's worker pool), the way exporters with `batcher::enabled: true` are.
func newIncarnation(st *qstore.Store, consumers int, auto bool, capacity int64, block bool, legacyBatcher ...bool) (*incarnation, error) {
	in := &incarnation{st: st, entered: make(chan *entry, 256)}
	in.auto.Store(auto)
	cfg := exporterhelper.NewDefaultQueueConfig()
	id := qstore.ID
	cfg.StorageID = &id
	cfg.NumConsumers = consumers
	cfg.QueueSize = capacity
	cfg.BlockOnOverflow = block
	rcfg := configretry.NewDefaultBackOffConfig()
	rcfg.InitialInterval = time.Hour
	rcfg.MaxInterval = time.Hour
	rcfg.MaxElapsedTime = 0
	rcfg.RandomizationFactor = 0
	rcfg.Multiplier = 1
	set := exportertest.NewNopSettings(component.MustNewType("verif"))
	set.Logger = zap.NewNop()
	opts := []exporterhelper.Option{exporterhelper.WithQueue(cfg), exporterhelper.WithRetry(rcfg), exporterhelper.WithTimeout(exporterhelper.TimeoutConfig{})}
	if len(legacyBatcher) > 0 && legacyBatcher[0] {
		bc := exporterhelper.NewDefaultBatcherConfig()
		bc.Enabled = true
		bc.FlushTimeout = time.Hour
		bc.MinSize = 0
		bc.MaxSize = 0
		opts = append(opts, exporterhelper.WithBatcher(bc))
	}
	exp, err := exporterhelper.NewLogs(context.Background(), set, struct{}{}, func(_ context.Context, ld plog.Logs) error {
		b, _ := marshaler.MarshalLogs(ld)
		in.mu.Lock()
		in.n++
		e := &entry{no: in.n, id: idOf(ld), gate: make(chan error, 1), bytes: b}
		in.all = append(in.all, e)
		in.mu.Unlock()
		in.entered <- e
		if in.auto.Load() {
			return nil
		}
		return <-e.gate
	}, opts...)
	if err != nil {
		return nil, err
	}
	started := make(chan error, 1)
	go func() { started <- exp.Start(context.Background(), qstore.NewHost(st)) }()
	tm := time.NewTimer(startBound)
	defer tm.Stop()
	select {
	case err := <-started:
		if err != nil {
			return nil, fmt.Errorf("%w: %v", errStart, err)
		}
	case <-tm.C:
		buf := make([]byte, 1<<20)
		buf = buf[:runtime.Stack(buf, true)]
		return nil, fmt.Errorf("%w: %s", errStartStuck, strings.Join(driver.BlockedRepoFrames(string(buf)), "; "))
	}
	in.exp = exp
	return in, nil
}

// abandon releases everything held by a (dead or finished) incarnation and reclaims its goroutines.
func (in *incarnation) abandon() {
	in.st.Resume()
	in.mu.Lock()
	for _, e := range in.all {
		select {
		case e.gate <- errors.New("abandoned"):
		default:
		}
	}
	in.auto.Store(true)
	in.mu.Unlock()
	if in.shut {
		return
	}
	in.shut = true
	done := make(chan struct{})
	go func() { _ = in.exp.Shutdown(context.Background()); close(done) }()
	// keep releasing late entries until shutdown returned
	for {
		select {
		case <-done:
			return
		case e := <-in.entered:
			select {
			case e.gate <- errors.New("abandoned"):
			default:
			}
		}
	}
}

type runResult struct {
	accepted    map[string]bool
	finalized   map[string]bool
	image       map[string][]byte
	ops         int
	died        bool
	trace       []string
	unsettled   int
	badBytes    []string
	unknown     []string
	stuck       string
	unsettledAt []string
	startStuck  string // Start (recovery) of a scripted incarnation never returned: blocked frames
	phase       string // what the driver was doing when the store died
}

// settleWait bounds the driver's wait for the next expected event. It is scheduling only (it keeps the
// operation order of a script reproducible), never a verdict: when it expires the step is counted as
// unsettled and the script carries on. It shrinks after every expiry so that a tree whose behaviour no
// longer matches the driver's expectations (a mutant) slows the check down only briefly.
var settleWaitNs atomic.Int64

func settleWait() time.Duration { return time.Duration(settleWaitNs.Load()) }

func settleExpired() {
	if v := settleWaitNs.Load(); v > int64(20*time.Millisecond) {
		settleWaitNs.Store(v / 2)
	}
}

// lossesReported: once a child has reported plenty of losses the remaining exploration would only repeat them.
var lossesReported atomic.Int64

const enoughLosses = 60

// runScript executes one script on a store that already holds `image`; recovered is the number of
// requests a fault-free recovery of the image hands off (the model's initial queue length).
func runScript(known map[string][]byte, image map[string][]byte, recovered int, sc []step, consumers, crashAt int, capacity int64, block bool, legacy bool) *runResult {
	r := &runResult{accepted: map[string]bool{}, finalized: map[string]bool{}}
	st := qstore.New(image, crashAt)
	// with batching configured the queue runs a single consumer (and the batcher a single worker), whatever
	// num_consumers says
	effConsumers := consumers
	if legacy {
		effConsumers = 1
	}
	in, err := newIncarnation(st, consumers, false, capacity, block, legacy)
	r.phase = "start+recovery"
	if err != nil {
		if errors.Is(err, errStartStuck) {
			r.startStuck = err.Error()
		}
		r.trace = append(r.trace, "start error: "+err.Error())
		r.image, r.ops, r.died = st.Image(), st.Ops(), st.Dead()
		return r
	}
	queued := recovered
	var busy, parked []*entry
	checkEntry := func(e *entry) {
		if want, ok := known[e.id]; !ok {
			r.unknown = append(r.unknown, e.id)
		} else if !bytes.Equal(want, e.bytes) {
			r.badBytes = append(r.badBytes, e.id)
		}
	}
	settle := func() {
		for len(busy)+len(parked) < effConsumers && queued > 0 && !st.Dead() {
			select {
			case e := <-in.entered:
				checkEntry(e)
				busy = append(busy, e)
				queued--
			case <-st.DeadCh():
				return
			case <-time.After(settleWait()):
				r.unsettled++
				r.unsettledAt = append(r.unsettledAt, r.phase)
				settleExpired()
				return
			}
		}
	}
	drainOps := func() {
		for {
			select {
			case <-st.OpCh():
			default:
				return
			}
		}
	}
	waitDelete := func() {
		t := time.NewTimer(settleWait())
		defer t.Stop()
		for {
			select {
			case op := <-st.OpCh():
				if op.Deletes > 0 {
					return
				}
			case <-st.DeadCh():
				return
			case <-t.C:
				r.unsettled++
				r.unsettledAt = append(r.unsettledAt, r.phase)
				settleExpired()
				return
			}
		}
	}
	settle()
	for _, s := range sc {
		if st.Dead() {
			break
		}
		r.phase = s.Kind
		switch s.Kind {
		case "E":
			ctx, cancel := offerCtx(block)
			err := in.exp.ConsumeLogs(ctx, mk(s.ID))
			cancel()
			if err == nil {
				r.accepted[s.ID] = true
				queued++
			}
			r.trace = append(r.trace, fmt.Sprintf("E(%s)=%v", s.ID, err == nil))
		case "OK", "PERM":
			if len(busy) == 0 {
				continue
			}
			e := busy[0]
			busy = busy[1:]
			drainOps()
			if !st.Dead() {
				r.finalized[e.id] = true
			}
			if s.Kind == "OK" {
				e.gate <- nil
			} else {
				e.gate <- consumererror.NewPermanent(errors.New("permanent failure"))
			}
			waitDelete()
			r.trace = append(r.trace, s.Kind+"("+e.id+")")
		case "OKP":
			// complete a hand-off with its storage commit PAUSED inside the storage call, and enqueue a new
			// request meanwhile: the queue holds its lock across the commit, so the enqueue (and the dequeue
			// that follows it) can only happen afterwards; an implementation that dropped the lock around its
			// storage I/O lets them through, and the stale commit then overwrites what they wrote.
			if len(busy) == 0 {
				continue
			}
			e := busy[0]
			busy = busy[1:]
			drainOps()
			if !st.Dead() {
				r.finalized[e.id] = true
			}
			paused := st.PauseNext(func(_ string, _, _, dels int) bool { return dels > 0 })
			e.gate <- nil
			select {
			case <-paused:
			case <-st.DeadCh():
			case <-time.After(settleWait()):
				r.unsettled++
				r.unsettledAt = append(r.unsettledAt, r.phase)
				settleExpired()
			}
			res := make(chan error, 1)
			go func(id string) {
				ctx, cancel := offerCtx(block)
				defer cancel()
				res <- in.exp.ConsumeLogs(ctx, mk(id))
			}(s.ID)
			// scheduling only: give an implementation without the lock the chance to get its calls in
			tm := time.NewTimer(3 * time.Millisecond)
			select {
			case <-st.OpCh():
				time.Sleep(500 * time.Microsecond)
			case <-tm.C:
			case <-st.DeadCh():
			}
			tm.Stop()
			st.Resume()
			select {
			case err := <-res:
				if err == nil {
					r.accepted[s.ID] = true
					queued++
				}
				r.trace = append(r.trace, fmt.Sprintf("OKP(%s)+E(%s)=%v", e.id, s.ID, err == nil))
			case <-time.After(60 * time.Second):
				r.stuck = "enqueue issued during a paused storage commit did not return within 60 s"
				r.image, r.ops, r.died = st.Image(), st.Ops(), st.Dead()
				return r
			}
			waitDelete()
		case "TRANS":
			if len(busy) == 0 {
				continue
			}
			e := busy[0]
			busy = busy[1:]
			e.gate <- errors.New("transient failure")
			parked = append(parked, e)
			r.trace = append(r.trace, "TRANS("+e.id+")")
		case "RESTART":
			done := make(chan error, 1)
			in.shut = true
			go func(in *incarnation) { done <- in.exp.Shutdown(context.Background()) }(in)
			for _, e := range busy {
				e.gate <- errors.New("transient failure during shutdown")
			}
			tmo := time.NewTimer(60 * time.Second)
			for waiting := true; waiting; {
				select {
				case <-done:
					waiting = false
				case e := <-in.entered:
					// the retry sender is stopped before the queue: a consumer whose hand-off was just
					// interrupted may dequeue further requests until the queue itself is stopped; each of
					// those hand-offs is interrupted by the shutdown as well
					checkEntry(e)
					e.gate <- errors.New("transient failure during shutdown")
					queued--
					busy = append(busy, e)
				case <-tmo.C:
					buf := make([]byte, 1<<20)
					buf = buf[:runtime.Stack(buf, true)]
					r.stuck = "Shutdown did not return within 60 s: " + strings.Join(driver.BlockedRepoFrames(string(buf)), "; ") + fmt.Sprintf(" busy=%d parked=%d queued=%d trace=%v", len(busy), len(parked), queued, r.trace)
					r.image, r.ops, r.died = st.Image(), st.Ops(), st.Dead()
					return r
				}
			}
			tmo.Stop()
			// late entries of the stopped incarnation (a consumer that dequeued concurrently with the
			// shutdown) are released as interrupted
			for more := true; more; {
				select {
				case e := <-in.entered:
					checkEntry(e)
					e.gate <- errors.New("transient failure during shutdown")
					queued--
					busy = append(busy, e)
				default:
					more = false
				}
			}
			queued += len(busy) + len(parked)
			busy, parked = nil, nil
			r.trace = append(r.trace, "RESTART")
			if st.Dead() {
				break
			}
			r.phase = "restart:start+recovery"
			in2, err := newIncarnation(st, consumers, false, capacity, block, legacy)
			if err != nil {
				if errors.Is(err, errStartStuck) {
					r.startStuck = err.Error()
				}
				r.trace = append(r.trace, "start error: "+err.Error())
				r.image, r.ops, r.died = st.Image(), st.Ops(), st.Dead()
				return r
			}
			in = in2
		}
		settle()
	}
	r.image, r.ops, r.died = st.Image(), st.Ops(), st.Dead()
	if !r.died {
		r.phase = "end-of-script"
	}
	in.abandon()
	return r
}

type drainResult struct {
	ids      []string
	leftover int
	ok       bool
	why      string
	badBytes []string
	unknown  []string
}

// drainClean is the oracle's run of the real code: fault-free start on a copy of the image, a sentinel
// request enqueued after the start, single consumer; everything handed off before the sentinel is what
// a later incarnation delivers from this image.
func drainClean(known map[string][]byte, image map[string][]byte) *drainResult {
	d := &drainResult{}
	st := qstore.New(image, -1)
	in, err := newIncarnation(st, 1, true, largeCapacity, false) // the judging incarnation always has room (a restart with a larger queue_size)
	if err != nil {
		d.why = "start: " + err.Error()
		return d
	}
	if err := in.exp.ConsumeLogs(context.Background(), mk(sentinel)); err != nil {
		d.why = "sentinel refused: " + err.Error()
		in.abandon()
		return d
	}
	t := time.NewTimer(60 * time.Second)
	defer t.Stop()
loop:
	for {
		select {
		case e := <-in.entered:
			if e.id == sentinel {
				d.ok = true
				break loop
			}
			if want, ok := known[e.id]; !ok {
				d.unknown = append(d.unknown, e.id)
			} else if !bytes.Equal(want, e.bytes) {
				d.badBytes = append(d.badBytes, e.id)
			}
			d.ids = append(d.ids, e.id)
		case <-t.C:
			d.why = "sentinel not handed off within 60 s"
			break loop
		}
	}
	in.abandon()
	return d
}

func genScript(rng *rand.Rand, prefix string, maxLen int, first bool) []step {
	n := 2 + rng.Intn(maxLen-1)
	var sc []step
	k := 0
	for i := 0; i < n; i++ {
		x := rng.Intn(100)
		switch {
		case x < 42 || (first && i == 0):
			sc = append(sc, step{Kind: "E", ID: fmt.Sprintf("%s%d", prefix, k)})
			k++
		case x < 56:
			sc = append(sc, step{Kind: "OK"})
		case x < 62:
			sc = append(sc, step{Kind: "OKP", ID: fmt.Sprintf("%s%d", prefix, k)})
			k++
		case x < 72:
			sc = append(sc, step{Kind: "PERM"})
		case x < 84:
			sc = append(sc, step{Kind: "TRANS"})
		default:
			sc = append(sc, step{Kind: "RESTART"})
		}
	}
	return sc
}

func parseScript(prefix, s string) []step {
	var sc []step
	k := 0
	for _, f := range strings.Fields(s) {
		if f == "E" || f == "OKP" {
			sc = append(sc, step{Kind: f, ID: fmt.Sprintf("%s%d", prefix, k)})
			k++
		} else {
			sc = append(sc, step{Kind: f})
		}
	}
	return sc
}

// catalogue: hand-written first-incarnation scripts (consumers, script) covering the windows the design names.
var catalogue = []struct {
	consumers int
	script    string
}{
	{1, "E E OK OK"},
	{1, "E E E OK PERM OK"},
	{1, "E TRANS RESTART OK"},
	{2, "E E RESTART OK OK"},
	{2, "E E E RESTART RESTART OK OK OK"},
	{2, "E TRANS E RESTART E OK OK OK"},
	{3, "E E E E OK RESTART PERM OK TRANS RESTART OK"},
	{1, "E RESTART E RESTART OK OK"},
	{2, "E E TRANS TRANS RESTART OK OK"},
	{1, "E E E E E E E E E E E OK OK OK OK OK OK OK OK OK OK OK"},
	// shutdown window: the retry sender is stopped before the queue, so a consumer whose parked hand-off is
	// interrupted may dequeue (and get interrupted on) further requests before the queue itself stops
	{1, "E E E TRANS RESTART OK OK OK"},
	{2, "E E E E TRANS TRANS RESTART OK OK OK OK"},
	{1, "E E TRANS RESTART E OK OK OK"},
	{3, "E E E E E TRANS TRANS TRANS RESTART OK OK OK OK OK"},
	{2, "E E E TRANS RESTART TRANS RESTART OK OK OK"},
	// paused commit: a completion whose storage commit is delayed inside the storage call while a new request
	// is enqueued and dequeued by the other consumer
	{2, "E OKP OK OK"},
	{2, "E E OKP OKP OK OK"},
	{3, "E E OKP OK OKP OK OK"},
}

// catalogueReps: every catalogue script is explored several times (the follow-up scripts differ, and the
// shutdown-window interleavings are scheduler dependent).
func catalogueReps(c *driver.Ctx) int64 { return int64(c.N(4, 12)) }

type explorer struct {
	c         *driver.Ctx
	known     map[string][]byte
	maxDepth  int
	stride    []int // boundary stride per depth
	rng       *rand.Rand
	consumers int
	legacy    bool  // scripted incarnations use the deprecated WithBatcher option on top of the persistent queue
	block     bool  // block_on_overflow of the scripted incarnations (enqueues that would park are cancelled at once)
	capacity  int64 // queue_size of the scripted incarnations: small values make enqueues (and the recovery's re-enqueues) meet a full queue
	scriptID  string
	seen      map[string]bool
	lenDepth  []int
}

func copySet(m map[string]bool) map[string]bool {
	o := make(map[string]bool, len(m))
	for k, v := range m {
		o[k] = v
	}
	return o
}

func setKey(m map[string]bool) string {
	ks := make([]string, 0, len(m))
	for k := range m {
		ks = append(ks, k)
	}
	sort.Strings(ks)
	return strings.Join(ks, ",")
}

// reportStartStuck: the start (recovery) of a scripted incarnation on a durable image never returned, so
// nothing stored in that image is ever handed to the export function by an incarnation with this
// configuration, however often it is restarted.
func (x *explorer) reportStartStuck(r *runResult, path []string, sc []step, kind string) {
	lossesReported.Add(1)
	where := "?"
	if i := strings.Index(r.startStuck, "queuebatch."); i >= 0 {
		where = r.startStuck[i:]
		if j := strings.IndexAny(where, " ;"); j > 0 {
			where = where[:j]
		}
	}
	x.c.Violation("recovery-stuck", fmt.Sprintf("the start of an incarnation (queue_size=%d block_on_overflow=%v consumers=%d) on the stored image of its predecessor never returned, so no stored request is handed off: %s (script %q, deaths at %v, phase %s)", x.capacity, x.block, x.consumers, r.startStuck, x.scriptID, path, r.phase),
		map[string]any{"script": x.scriptID, "consumers": x.consumers, "queue_size": x.capacity, "block_on_overflow": x.block, "boundaries": path, "phase": r.phase, "trace": r.trace, "blocked": r.startStuck, "run": kind, "next_script": scriptString(sc)},
		"phase", r.phase, "block", fmt.Sprint(x.block), "blocked_in", where)
}

func (x *explorer) register(ids ...string) {
	for _, id := range ids {
		b, _ := marshaler.MarshalLogs(mk(id))
		x.known[id] = b
	}
}

// explore judges the durable image `image` reached along `path` (carry = requests that were accepted and
// not finalized before the image was frozen) and, below the depth limit, crashes the next incarnation at
// every boundary of its recovery + script.
func (x *explorer) explore(image map[string][]byte, carry map[string]bool, depth int, path []string, sc []step, phase string, hist []string) {
	c := x.c
	d := drainClean(x.known, image)
	c.Observe("oracle_drains", 1)
	c.Observe("handoffs_observed", int64(len(d.ids)))
	if !d.ok {
		if strings.HasPrefix(d.why, "sentinel not handed") {
			c.Violation("drain-stuck", "a fault-free incarnation started on the image never handed off a request enqueued after its start: "+d.why,
				map[string]any{"script": x.scriptID, "path": path, "consumers": x.consumers}, "depth", fmt.Sprint(depth))
		} else {
			c.Inconclusive("oracle drain could not run: " + d.why)
		}
		return
	}
	got := map[string]bool{}
	for _, id := range d.ids {
		got[id] = true
	}
	var lost []string
	for id := range carry {
		if !got[id] {
			lost = append(lost, id)
		}
	}
	sort.Strings(lost)
	if len(carry) > 0 {
		c.Nontrivial(x.scriptID, strings.Join(path, "/"))
		c.Distinct("snapshots_with_unfinished_requests", qstore.Hash(image))
	}
	c.Distinct("snapshots", qstore.Hash(image))
	if len(lost) > 0 {
		lossesReported.Add(1)
		keys := []string{}
		for k := range image {
			if len(k) > 0 && (k[0] < '0' || k[0] > '9') {
				keys = append(keys, k)
			}
		}
		sort.Strings(keys)
		c.Violation("lost", fmt.Sprintf("accepted, never finalized requests %v are not handed off by a fault-free restart on the image after deaths at boundaries %v (script %q, consumers %d); recovered=%v", lost, path, x.scriptID, x.consumers, d.ids),
			map[string]any{"script": x.scriptID, "consumers": x.consumers, "queue_size": x.capacity, "boundaries": path, "death_during": phase, "incarnations": hist, "lost": lost, "recovered": d.ids, "index_keys_in_image": keys, "image_keys": len(image)},
			"death_during", phase, "index_keys", strings.Join(keys, "+"))
	}
	if len(lost) > 0 {
		// reported once: deeper images are judged for the remaining obligations only
		carry = copySet(carry)
		for _, id := range lost {
			delete(carry, id)
		}
	}
	for _, id := range d.unknown {
		c.Violation("invented", "a request that was never enqueued was handed off: "+id, map[string]any{"script": x.scriptID, "path": path}, "where", "drain")
	}
	for _, id := range d.badBytes {
		c.Violation("corrupted", "a handed-off request differs from what was enqueued: "+id, map[string]any{"script": x.scriptID, "path": path}, "where", "drain")
	}
	if depth >= x.maxDepth || lossesReported.Load() >= enoughLosses {
		return
	}
	if sc == nil {
		pref := fmt.Sprintf("%c", 'a'+depth)
		sc = genScript(x.rng, pref, x.lenDepth[depth], false)
		// the follow-up incarnation always tries to finish what it recovered
		for i := 0; i < len(d.ids) && i < 3; i++ {
			sc = append(sc, step{Kind: "OK"})
		}
	}
	for _, s := range sc {
		if s.Kind == "E" || s.Kind == "OKP" {
			x.register(s.ID)
		}
	}
	base := runScript(x.known, image, len(d.ids), sc, x.consumers, -1, x.capacity, x.block, x.legacy)
	c.Observe("incarnation_runs", 1)
	if base.unsettled > 0 && os.Getenv("C01_DEBUG") != "" {
		c.Note("DEBUG unsettled base run: script=%s consumers=%d cap=%d legacy=%v block=%v at=%v trace=%v recovered=%d", scriptString(sc), x.consumers, x.capacity, x.legacy, x.block, base.unsettledAt, base.trace, len(d.ids))
	}
	if base.startStuck != "" {
		x.reportStartStuck(base, path, sc, "fault-free")
		return
	}
	if base.stuck != "" {
		c.Note("fault-free run stuck: %s script=%s", base.stuck, scriptString(sc))
		c.Inconclusive("fault-free run stuck")
		return
	}
	if depth == 0 {
		c.Sample(map[string]any{"script": scriptString(sc), "consumers": x.consumers, "storage_ops_fault_free": base.ops, "trace": base.trace})
	}
	stride := x.stride[depth]
	for b := 0; b <= base.ops && lossesReported.Load() < enoughLosses; b++ {
		if stride > 1 && b%stride != (int(x.c.Seed)+depth)%stride && b != base.ops {
			continue
		}
		r := runScript(x.known, image, len(d.ids), sc, x.consumers, b, x.capacity, x.block, x.legacy)
		c.Eval()
		c.Observe("incarnation_runs", 1)
		c.Observe("crash_runs", 1)
		c.Observe("unsettled_steps", int64(r.unsettled))
		for _, ph := range r.unsettledAt {
			c.Observe("unsettled_at:"+ph, 1)
		}
		if r.startStuck != "" {
			x.reportStartStuck(r, append(append([]string{}, path...), fmt.Sprint(b)), sc, "crashed")
			continue
		}
		if r.stuck != "" {
			c.Note("crash run stuck: %s script=%s", r.stuck, scriptString(sc))
			c.Inconclusive("crash run stuck")
			continue
		}
		for _, id := range r.unknown {
			c.Violation("invented", "a request that was never enqueued was handed off: "+id, map[string]any{"script": x.scriptID, "path": path}, "where", "script")
		}
		for _, id := range r.badBytes {
			c.Violation("corrupted", "a handed-off request differs from what was enqueued: "+id, map[string]any{"script": x.scriptID, "path": path}, "where", "script")
		}
		carry2 := map[string]bool{}
		for id := range carry {
			if !r.finalized[id] {
				carry2[id] = true
			}
		}
		for id := range r.accepted {
			if !r.finalized[id] {
				carry2[id] = true
			}
		}
		key := fmt.Sprintf("%d|%s|%s", depth, qstore.Hash(r.image), setKey(carry2))
		if x.seen[key] {
			c.Observe("deduplicated_snapshots", 1)
			continue
		}
		x.seen[key] = true
		c.Distinct("durable_states", qstore.Hash(r.image), setKey(carry2))
		x.explore(r.image, carry2, depth+1, append(append([]string{}, path...), fmt.Sprint(b)), nil, r.phase,
			append(append([]string{}, hist...), fmt.Sprintf("script=[%s] died_at_boundary=%d during=%s ops=%d trace=%v accepted=%s finalized=%s", scriptString(sc), b, r.phase, r.ops, r.trace, setKey(r.accepted), setKey(r.finalized))))
	}
}

func run(c *driver.Ctx) {
	nScripts := int64(c.N(30, 260)) // per shard
	if c.Variant == "race" {
		nScripts = int64(c.N(6, 40))
	}
	settleWaitNs.Store(int64(3 * time.Second))
	for i := int64(0); i < nScripts && lossesReported.Load() < enoughLosses; i++ {
		if !c.Want(i) {
			continue
		}
		rng := c.CaseRand(i)
		x := &explorer{c: c, known: map[string][]byte{}, rng: rng, seen: map[string]bool{}}
		x.register(sentinel)
		var sc []step
		g := i*int64(c.NShards) + int64(c.Shard) // global script number
		if g < int64(len(catalogue))*catalogueReps(c) {
			ci := g % int64(len(catalogue))
			x.consumers = catalogue[ci].consumers
			sc = parseScript("s", catalogue[ci].script)
			x.scriptID = fmt.Sprintf("catalogue#%d[%s]", ci, catalogue[ci].script)
			x.maxDepth = c.N(2, 3)
			x.stride = []int{1, 1, 2}
			x.lenDepth = []int{0, 4, 3}
			if !c.Thorough() {
				x.stride = []int{1, 1, 1}
			}
		} else {
			x.consumers = 1 + rng.Intn(3)
			sc = genScript(rng, "s", c.N(8, 14), true)
			x.scriptID = fmt.Sprintf("random#%d[%s]", g, scriptString(sc))
			x.maxDepth = 2
			x.stride = []int{1, c.N(2, 1), 1}
			x.lenDepth = []int{0, c.N(4, 6), 3}
		}
		x.capacity = largeCapacity
		if g%3 == 1 {
			x.capacity = int64(1 + rng.Intn(3))
			x.scriptID += fmt.Sprintf(" queue_size=%d", x.capacity)
			if g%6 == 1 {
				x.block = true
				x.scriptID += " block_on_overflow"
				c.Observe("scripts_with_block_on_overflow", 1)
			}
			c.Observe("scripts_with_small_queue", 1)
		}
		if g%5 == 3 {
			x.legacy = true
			x.scriptID += " legacy-batcher"
			c.Observe("scripts_with_legacy_batcher", 1)
		}
		c.Observe("scripts", 1)
		x.explore(map[string][]byte{}, map[string]bool{}, 0, nil, sc, "-", nil)
	}
}

func main() {
	driver.Main(driver.Spec{
		ID:    "C01",
		Level: "fault_enumeration",
		Rule: "a case is one crash run: (script, path of storage-operation boundaries at which successive incarnations were killed); scripts = hand-written catalogue + seed-generated sequences over enqueue / complete ok / complete permanent / transient (parks the request in a 1 h retry wait) / clean restart with requests in flight; " +
			"every boundary of the first incarnation is crashed, and for every distinct resulting durable state the recovery + follow-up script of the next incarnation is crashed at every boundary again (quick: every 2nd boundary at depth 2 for random scripts; catalogue depth 3 in thorough); " +
			"distinct_nontrivial counts distinct (script, boundary path) whose durable image held at least one accepted, not finalized request when the oracle judged it",
		Assumptions: []string{
			"crash model of the property: deaths at storage-operation boundaries, Batch is atomic; torn batches and storage-engine bugs are out of scope",
			"the oracle's fault-free drain uses one consumer and a sentinel request enqueued after Start; FIFO hand-off of the persistent queue (property C02) is what makes 'sentinel handed off' mean 'everything recovered was handed off'",
			"a hand-off is final when the export function returned nil or a permanent error before the death",
		},
		TrustedBase:   []string{"harness/lib/qstore (in-memory storage client)", "exporterhelper public API as the boundary"},
		Shards:        func(string) int { return 16 },
		Variants:      func(tier string) []string { return []string{"plain", "race"} },
		MinNontrivial: func(string) int { return 200 },
		ShardTimeout:  func(tier string) time.Duration { return 25 * time.Minute },
		Run:           run,
		MaxSamples:    2,
	})
}
